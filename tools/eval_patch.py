#!/usr/bin/env python3
"""Evaluate the checks against a patch WITHOUT occupying /repo or /verif: uses a scratch instance of the
framework (rsync of /verif incl. its build caches) and a scratch worktree of /repo.

usage: eval_patch.py <patch.diff> <label> [--checks C01,C02] [--instance N] [--tier quick|thorough]
prints one JSON object: {label, checks: {Cxx: "silent" | "VIOLATION ... [kind] message"}}

The scratch instance lives in /var/tmp/verif-eval<N> + /var/tmp/repo-eval<N>; `--sync` refreshes it from
/verif (sources only; build caches are kept).  Removed with `--clean`.
"""
import json, os, subprocess, sys, time


def sh(cmd, cwd=None, env=None, timeout=7200):
    e = dict(os.environ, CARGO_NET_OFFLINE="true")
    if env:
        e.update(env)
    r = subprocess.run(cmd, cwd=cwd, shell=True, stdout=subprocess.PIPE, stderr=subprocess.STDOUT, text=True, timeout=timeout, env=e)
    return r.returncode, r.stdout


def opt(name, default=None):
    return sys.argv[sys.argv.index(name) + 1] if name in sys.argv else default


def main():
    inst = opt("--instance", "1")
    vroot = f"/var/tmp/verif-eval{inst}"
    rroot = f"/var/tmp/repo-eval{inst}"
    if "--clean" in sys.argv:
        sh(f"git -C /repo worktree remove --force {rroot}")
        sh(f"rm -rf {vroot} {rroot}")
        return 0
    if not os.path.exists(vroot) or "--sync" in sys.argv:
        first = not os.path.exists(vroot)
        os.makedirs(vroot, exist_ok=True)
        # sources always; caches only the first time (the instance then maintains its own)
        excl = "" if first else "--exclude .build --exclude lean/.lake"
        rc, o = sh(f"rsync -a --delete {excl} --exclude replays --exclude .git /verif/ {vroot}/")
        assert rc == 0, o
        sh(f"rm -f {vroot}/.build/repo")
    if not os.path.exists(rroot):
        rc, o = sh(f"git -C /repo worktree add -q --detach {rroot} HEAD")
        assert rc == 0, o
    if "--sync" in sys.argv and len(sys.argv) <= 4:
        return 0
    patch, label = sys.argv[1], sys.argv[2]
    checks = opt("--checks")
    env = dict(VERIF_REPO=rroot)
    sh(f"git -C {rroot} checkout -q --detach $(git -C /repo rev-parse HEAD) && git -C {rroot} checkout -- . && git -C {rroot} clean -fdq -e target")
    rc, o = sh(f"git -C {rroot} apply {os.path.abspath(patch)}")
    if rc != 0:
        print(json.dumps(dict(label=label, error="patch does not apply", log=o[-500:])))
        return 1
    sh(f"ln -sfn {rroot} {vroot}/.build/repo")
    man = json.load(open(f"{vroot}/MANIFEST.json"))
    ids = checks.split(",") if checks else [c["property_id"] for c in man["checks"]]
    det = {}
    try:
        for pid in ids:
            t0 = time.time()
            rc, o = sh(f"bin/check {pid} {opt('--tier', 'quick')}", cwd=vroot, env=env, timeout=6 * 3600)
            v = [l for l in o.split("\n") if l.startswith("VIOLATION")]
            if v:
                rp = v[0].split("replay=")[1].split()[0]
                kind = msg = ""
                try:
                    j = json.load(open(rp))
                    kind = j.get("kind", "")
                    msg = str(j.get("message") or j.get("theorem") or (j.get("disagreements") or [{}])[0].get("stream", ""))[:160]
                except Exception:
                    pass
                det[pid] = f"{v[0].replace(vroot, '/verif')} [{kind}] {msg}"
            elif rc != 0:
                det[pid] = f"ERROR rc={rc} {o[-300:]}"
            else:
                det[pid] = "silent"
            print(f"  {label} {pid} {det[pid][:200]} ({time.time() - t0:.0f}s)", file=sys.stderr, flush=True)
    finally:
        sh(f"git -C {rroot} checkout -- . && git -C {rroot} clean -fdq -e target")
    print(json.dumps(dict(label=label, checks=det), indent=1))
    return 0


sys.exit(main())
