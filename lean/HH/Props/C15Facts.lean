import HH.Generated.SourceFacts
/-! # C15 (source half) — no process-global state anywhere in `src/` (regenerated fact table) -/
namespace HH.C15
open HH.Facts
/-- no `static` item, `thread_local!`/`lazy_static!`, interior-mutability or synchronisation type,
and no foreign block, anywhere in `src/`: the constructs through which Rust code reaches
process-global mutable state without being handed a reference to it -/
theorem no_global_state :
    (facts.all fun f => !(f.kind == "global" || f.kind == "extern_block")) = true := by decide +kernel
end HH.C15
