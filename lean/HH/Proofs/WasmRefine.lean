import HH.WasmB
import HH.Proofs.PortableSpec
import HH.Proofs.X86Lemmas
import Mathlib.Tactic.IntervalCases
/-!
# The Wasm SIMD model refines the portable model (step lemmas, valid for ALL register states)

`lo r` / `hi r` are the halves in the crate's reversed lane convention (`lo` = wasm lane 1).
-/
namespace HH
namespace WasmB
open Wasm

/-! bridge to the lane kit of `X86Lemmas` (a register is a `BitVec 128` in both models): wasm lane 0 is the
low half, and the crate's `V2x64U` keeps its *high* word there -/
theorem lane64_0 (r : BitVec 128) : lane64 r 0 = X86.lo64 r := by first | rfl | (unfold lane64 X86.lo64; bv_lsb)
theorem lane64_1 (r : BitVec 128) : lane64 r 1 = X86.hi64 r := by first | rfl | (unfold lane64 X86.hi64; bv_lsb)
theorem u64x2_eq (a0 a1 : BitVec 64) : u64x2 a0 a1 = X86.mk a1 a0 := rfl
theorem u32x4_eq (a0 a1 a2 a3 : BitVec 32) : u32x4 a0 a1 a2 a3 = X86.mk32 a3 a2 a1 a0 := rfl
theorem lane32_eq (r : BitVec 128) (i : Nat) : lane32 r i = X86.lane32 r i := rfl
theorem lo_eq (r : BitVec 128) : lo r = X86.hi64 r := lane64_1 r
theorem hi_eq (r : BitVec 128) : hi r = X86.lo64 r := lane64_0 r
theorem v2new_eq (h l : BitVec 64) : v2new h l = X86.mk l h := rfl

@[simp] theorem lo_new (h l : BitVec 64) : lo (v2new h l) = l := by rw [lo_eq, v2new_eq, X86.hi64_mk]
@[simp] theorem hi_new (h l : BitVec 64) : hi (v2new h l) = h := by rw [hi_eq, v2new_eq, X86.lo64_mk]
theorem new_hi_lo (r : BitVec 128) : v2new (hi r) (lo r) = r := by rw [lo_eq, hi_eq, v2new_eq, X86.mk_lo_hi]
theorem ext128 (a b : BitVec 128) (h1 : lo a = lo b) (h2 : hi a = hi b) : a = b := by
  rw [← new_hi_lo a, ← new_hi_lo b, h1, h2]
@[simp] theorem lo_xor (a b : BitVec 128) : lo (v128_xor a b) = lo a ^^^ lo b := by
  simp only [lo_eq]; exact X86.hi64_xor a b
@[simp] theorem hi_xor (a b : BitVec 128) : hi (v128_xor a b) = hi a ^^^ hi b := by
  simp only [hi_eq]; exact X86.lo64_xor a b
@[simp] theorem lo_add (a b : BitVec 128) : lo (u64x2_add a b) = lo a + lo b := by
  simp only [lo_eq, u64x2_add, u64x2_eq, X86.hi64_mk, lane64_1]
@[simp] theorem hi_add (a b : BitVec 128) : hi (u64x2_add a b) = hi a + hi b := by
  simp only [hi_eq, u64x2_add, u64x2_eq, X86.lo64_mk, lane64_0]

theorem rot_lanes (v : BitVec 128) : rotateBy32 v = v2new ((hi v).rotateLeft 32) ((lo v).rotateLeft 32) := by
  have : rotateBy32 v = X86.shuffle_epi32 v 177 := by
    simp only [rotateBy32, u32x4_shuffle, sel32, u32x4_eq, lane32_eq, X86.shuffle_epi32, Nat.reduceLT, ↓reduceIte, Nat.reduceShiftRight, Nat.reduceMod]
  rw [this, X86.shuffle_epi32_rot, v2new_eq, lo_eq, hi_eq]

theorem mask_lanes : u32x4 0xFFFFFFFF 0 0xFFFFFFFF 0 = X86.mk 0xFFFFFFFF#64 0xFFFFFFFF#64 := by decide
theorem lo64_and (a b : BitVec 128) : X86.lo64 (a &&& b) = X86.lo64 a &&& X86.lo64 b := by unfold X86.lo64; ext i hi; simp
theorem hi64_and (a b : BitVec 128) : X86.hi64 (a &&& b) = X86.hi64 a &&& X86.hi64 b := by unfold X86.hi64; ext i hi; simp

theorem mulEpu32_lanes (a b : BitVec 128) :
    mulEpu32 a b = X86.mk ((X86.hi64 a &&& 0xFFFFFFFF#64) * (X86.hi64 b &&& 0xFFFFFFFF#64)) ((X86.lo64 a &&& 0xFFFFFFFF#64) * (X86.lo64 b &&& 0xFFFFFFFF#64)) := by
  simp only [mulEpu32, mask_lanes, u64x2_mul, u64x2_eq, v128_and, lane64_0, lane64_1, lo64_and, hi64_and, X86.lo64_mk, X86.hi64_mk]

theorem mul_rot (a b : BitVec 128) :
    mulEpu32 a (rotateBy32 b) = v2new (P.mul32 (hi a) (hi b)) (P.mul32 (lo a) (lo b)) := by
  rw [rot_lanes, mulEpu32_lanes]
  simp only [v2new_eq, lo_eq, hi_eq, X86.lo64_mk, X86.hi64_mk, P.mul32, X86.rot32_low]

theorem srli_lanes (b : BitVec 128) (k : Nat) : srliEpi64 b k = X86.mk (X86.hi64 b >>> (k % 64)) (X86.lo64 b >>> (k % 64)) := by
  simp only [srliEpi64, u64x2_shr, u64x2_eq, lane64_0, lane64_1]

theorem mul_srli (a b : BitVec 128) :
    mulEpu32 a (srliEpi64 b 32) = v2new (P.mul32 (hi a) (hi b)) (P.mul32 (lo a) (lo b)) := by
  rw [srli_lanes, mulEpu32_lanes]
  simp only [v2new_eq, lo_eq, hi_eq, X86.lo64_mk, X86.hi64_mk, P.mul32, Nat.reduceMod, X86.shr32_low]


set_option maxRecDepth 100000 in
set_option maxHeartbeats 2000000 in
theorem zipper_lanes (v : BitVec 128) :
    zipperMerge v = v2new (P.zipHi (hi v) (lo v)) (P.zipLo (hi v) (lo v)) := by
  simp only [zipperMerge, u8x16_shuffle, selByte, byteAt, List.getD_cons_zero, List.getD_cons_succ, Nat.reduceLT, ↓reduceIte,
    Nat.reduceSub, Nat.reduceMul, v2new_eq, lo_eq, hi_eq]
  unfold P.zipHi P.zipLo X86.mk X86.lo64 X86.hi64
  bv_bits


def lanesOfRegs (pH pL : BitVec 128) : V4 := ⟨lo pL, hi pL, lo pH, hi pH⟩

theorem update_refines (r : Regs) (pH pL : BitVec 128) :
    toPortable (update r pH pL) = P.update (toPortable r) (lanesOfRegs pH pL) := by
  simp only [update, toPortable, P.update, lanesOfRegs, zipper_lanes, mul_rot, mul_srli, lo_add, hi_add, lo_xor, hi_xor,
    lo_new, hi_new, V4.add, V4.xor, V4.zipWith, P.zipperAdd]

theorem updPacket_refines (r : Regs) (pkt : List (BitVec 8)) :
    toPortable (updPacket r pkt) = P.updPacket (toPortable r) pkt := by
  simp only [updPacket, update_refines, P.updPacket]
  congr 1
  simp [lanesOfRegs, P.dataToLanes]

theorem permuteAndUpdate_refines (r : Regs) :
    toPortable (permuteAndUpdate r) = P.permuteAndUpdate (toPortable r) := by
  simp only [permuteAndUpdate, update_refines, P.permuteAndUpdate]
  congr 1
  simp [lanesOfRegs, rot_lanes, P.permute, toPortable]

theorem rounds_refines (n : Nat) (r : Regs) : toPortable (rounds n r) = P.rounds n (toPortable r) := by
  induction n generalizing r with
  | zero => rfl
  | succ n ih => simp only [rounds, P.rounds, ih, permuteAndUpdate_refines]

theorem toPortable_fromPortable (p : St) : toPortable (fromPortable p) = p := by
  simp [toPortable, fromPortable]

theorem fromPortable_toPortable (r : Regs) : fromPortable (toPortable r) = r := by
  simp [toPortable, fromPortable, new_hi_lo]

theorem new_refines (k : V4) : toPortable (new k).r = (P.new k).st := by
  simp [new, toPortable, P.new, rot_lanes, init0L, init0H, init1L, init1H, P.init0, P.init1, V4.zipWith, V4.map]
  refine ⟨⟨?_, ?_, ?_, ?_⟩, ⟨?_, ?_, ?_, ?_⟩⟩ <;> exact BitVec.xor_comm _ _

theorem lo_srli (a : BitVec 128) (k : Nat) (hk : k < 64) : lo (srliEpi64 a k) = lo a >>> k := by
  simp only [lo_eq, srli_lanes, X86.hi64_mk, Nat.mod_eq_of_lt hk]
theorem hi_srli (a : BitVec 128) (k : Nat) (hk : k < 64) : hi (srliEpi64 a k) = hi a >>> k := by
  simp only [hi_eq, srli_lanes, X86.lo64_mk, Nat.mod_eq_of_lt hk]
theorem lo_slli8 (a : BitVec 128) : lo (slli8 a) = 0 := by
  simp only [slli8, u64x2_shuffle, sel64, Nat.reduceLT, ↓reduceIte, Nat.reduceSub, u64x2_eq, lo_eq, X86.hi64_mk, lane64_0, X86.lo64_mk]
theorem hi_slli8 (a : BitVec 128) : hi (slli8 a) = lo a := by
  simp only [slli8, u64x2_shuffle, sel64, Nat.reduceLT, ↓reduceIte, Nat.reduceSub, u64x2_eq, hi_eq, lo_eq, X86.lo64_mk, lane64_1]
theorem lo_andnot (a b : BitVec 128) : lo (v128_andnot a b) = lo a &&& ~~~(lo b) := by
  simp only [lo_eq]; unfold X86.hi64 v128_andnot; bv_lsb
theorem hi_andnot (a b : BitVec 128) : hi (v128_andnot a b) = hi a &&& ~~~(hi b) := by
  simp only [hi_eq]; unfold X86.lo64 v128_andnot; bv_lsb
theorem signBit_lo : lo (i32x4_replace_lane 1 (v2new 0 0) 0x80000000#32) = 0 := by decide
theorem signBit_hi : hi (i32x4_replace_lane 1 (v2new 0 0) 0x80000000#32) = 0x8000000000000000#64 := by decide

theorem v2new_mk32 (h l : BitVec 64) :
    v2new h l = X86.mk32 ((l >>> 32).setWidth 32) (l.setWidth 32) ((h >>> 32).setWidth 32) (h.setWidth 32) := by
  rw [v2new_eq, X86.mk_as_mk32]
theorem mask_lo : v2new 0 0xFFFFFFFF#64 = X86.mk32 0 0xFFFFFFFF#32 0 0 := by decide
theorem zero_mk32 : v2new 0 0 = X86.mk32 0 0 0 0 := by decide
theorem slli8_mk32 (d c b a : BitVec 32) : slli8 (X86.mk32 d c b a) = X86.mk32 0 0 d c := by
  apply X86.ext128
  · have := hi_slli8 (X86.mk32 d c b a)
    simp only [hi_eq, lo_eq] at this
    rw [this, X86.hi64_mk32, X86.lo64_mk32]
  · have := lo_slli8 (X86.mk32 d c b a)
    simp only [lo_eq] at this
    rw [this, X86.hi64_mk32]; exact X86.join32_zero.symm
theorem and_mk32 (d c b a d' c' b' a' : BitVec 32) :
    v128_and (X86.mk32 d c b a) (X86.mk32 d' c' b' a') = X86.mk32 (d &&& d') (c &&& c') (b &&& b') (a &&& a') := X86.and_mk32 ..
theorem or_mk32 (d c b a d' c' b' a' : BitVec 32) :
    v128_or (X86.mk32 d c b a) (X86.mk32 d' c' b' a') = X86.mk32 (d ||| d') (c ||| c') (b ||| b') (a ||| a') := X86.or_mk32 ..
theorem replace1 (d c b a x : BitVec 32) : i32x4_replace_lane 1 (X86.mk32 d c b a) x = X86.mk32 d c x a := by
  have h := X86.lane32_mk32 d c b a
  simp only [i32x4_replace_lane, lane32_eq, u32x4_eq, h.1, h.2.2.1, h.2.2.2, ↓reduceIte, OfNat.ofNat_ne_zero, OfNat.ofNat_ne_one,
    Nat.reduceEqDiff, OfNat.one_ne_ofNat, one_ne_zero]
theorem le64_lo (l : List (BitVec 8)) : (le64 l).setWidth 32 = le32 l := by rw [X86.le64_join, X86.join32_lo]
theorem le64_hi (l : List (BitVec 8)) : ((le64 l) >>> 32).setWidth 32 = le32 (l.drop 4) := by rw [X86.le64_join, X86.join32_hi]
theorem z32a : ((0 : BitVec 64) >>> 32).setWidth 32 = (0 : BitVec 32) := by decide
theorem z32b : (0 : BitVec 64).setWidth 32 = (0 : BitVec 32) := by decide

set_option maxRecDepth 100000 in
set_option maxHeartbeats 16000000 in
theorem remainder_refines_fn (n : Nat) (h : n < 32) (f : Fin n → BitVec 8) :
    lanesOfRegs (remainder (List.ofFn f)).1 (remainder (List.ofFn f)).2 = P.dataToLanes (P.remainder (List.ofFn f)) := by
  interval_cases n <;>
  (simp [remainder, loadMultipleOfFour, P.remainder, P.dataToLanes, lanesOfRegs, unorderedLoad3, zeros, List.ofFn_succ,
    List.replicate, List.set, List.zipWith]
   try simp only [mask_lo, zero_mk32, v2new_mk32, u32x4_eq, le64_lo, le64_hi, z32a, z32b, slli8_mk32, and_mk32, or_mk32, replace1,
     lo_eq, hi_eq, X86.lo64_mk32, X86.hi64_mk32, X86.le64_join, List.drop_succ_cons, List.drop_zero, X86.load3_1, X86.load3_2, X86.load3_3,
     X86.join32_lo, X86.join32_hi]
   try simp [X86.le32_cons4, X86.le32_zero4, X86.and_ones32, X86.join32_zero])

theorem remainder_refines (bytes : List (BitVec 8)) (h : bytes.length < 32) :
    lanesOfRegs (remainder bytes).1 (remainder bytes).2 = P.dataToLanes (P.remainder bytes) := by
  have := remainder_refines_fn bytes.length h (fun i => bytes[i])
  simpa using this

theorem vsize_add (v : BitVec 128) (n : Nat) (h : n < 32) :
    u64x2_add v (u32x4 (BitVec.ofNat 32 n) (BitVec.ofNat 32 n) (BitVec.ofNat 32 n) (BitVec.ofNat 32 n)) =
      v2new (hi v + ((BitVec.ofNat 64 n <<< 32) + BitVec.ofNat 64 n)) (lo v + ((BitVec.ofNat 64 n <<< 32) + BitVec.ofNat 64 n)) := by
  apply ext128
  · simp only [lo_add, lo_new]; congr 1
    interval_cases n <;> decide
  · simp only [hi_add, hi_new]; congr 1
    interval_cases n <;> decide

theorem or_eq (a b : BitVec 128) : v128_or a b = X86.or_si128 a b := rfl

theorem rotate32By_lanes (v : BitVec 128) (n : Nat) (h : n < 32) :
    rotate32By v n = v2new (P.rot32Lane n (hi v)) (P.rot32Lane n (lo v)) := by
  have hn : n % 32 = n := Nat.mod_eq_of_lt h
  by_cases h0 : n = 0
  · subst h0
    have hr : (2 ^ 32 + 32 - 0) % 2 ^ 32 % 32 = 0 := by decide
    simp only [rotate32By, u32x4_shl, u32x4_shr, hr, Nat.zero_mod, BitVec.shiftLeft_zero, BitVec.ushiftRight_zero, u32x4_eq, lane32_eq,
      X86.mk32_lanes, or_eq, X86.or_si128, BitVec.or_self, X86.rot32Lane_zero, v2new_eq, lo_eq, hi_eq, X86.mk_lo_hi]
  · have hr : (2 ^ 32 + 32 - n) % 2 ^ 32 % 32 = 32 - n := by omega
    simp only [rotate32By, u32x4_shl, u32x4_shr, hn, hr, u32x4_eq, lane32_eq, or_eq, X86.or_mk32, v2new_eq, lo_eq, hi_eq]
    have := X86.rot_mk32 v n h0 h
    simp only [X86.rot32] at this
    rw [this]


theorem updateRemainder_refines (x : State) (hb : x.buffer.buf.length = 32) (hi' : x.buffer.idx < 32) :
    toPortable (updateRemainder x) =
      P.update (P.updateLanes (toPortable x.r) x.buffer.idx) (P.dataToLanes (P.remainder (x.buffer.buf.take x.buffer.idx))) := by
  have hl : x.buffer.asSlice.length < 32 := by simp [Pkt.asSlice]; omega
  simp only [updateRemainder, update_refines, remainder_refines _ hl, Pkt.len]
  congr 1
  simp only [toPortable, P.updateLanes, vsize_add _ _ hi', rotate32By_lanes _ _ hi', lo_new, hi_new, V4.map]

theorem finalizeCommon_refines (n : Nat) (x : State) (hx : x.buffer.Inv) :
    toPortable (finalizeCommon n x) = P.finAbs n (toPortable x.r, x.buffer.asSlice) := by
  obtain ⟨hi', hb⟩ := hx
  have hl : (List.take x.buffer.idx x.buffer.buf).length = x.buffer.idx := by simp; omega
  simp only [finalizeCommon, rounds_refines, P.finAbs, Pkt.asSlice, hl, Pkt.isEmpty]
  by_cases h0 : x.buffer.idx = 0
  · simp [h0]
  · simp [h0, updateRemainder_refines x hb hi']

theorem modLaneW (xh xl ih il : BitVec 64) :
    il ^^^ (xl <<< 2) ^^^ 0 ^^^ ((xl <<< 1) &&& ~~~(0 : BitVec 64)) ^^^ 0 = (P.moduleReduction xh xl ih il).1 ∧
    ih ^^^ (xh <<< 2) ^^^ (xl >>> 62) ^^^ ((xh <<< 1) &&& ~~~(0x8000000000000000#64)) ^^^ (xl >>> 63) = (P.moduleReduction xh xl ih il).2 := by
  unfold P.moduleReduction
  constructor <;> bv_lsb

theorem modularReduction_refines (x init : BitVec 128) :
    (lo (modularReduction x init), hi (modularReduction x init))
      = P.moduleReduction (hi x) (lo x) (hi init) (lo init) := by
  have a := modLaneW (hi x) (lo x) (hi init) (lo init)
  simp only [modularReduction, andNot, lo_xor, hi_xor, lo_slli8, hi_slli8, lo_srli _ 62 (by decide), lo_srli _ 63 (by decide),
    hi_srli _ 62 (by decide), hi_srli _ 63 (by decide), lo_andnot, hi_andnot, lo_add, hi_add, X86.add_self_shl, X86.shl1_shl1,
    signBit_lo, signBit_hi]
  exact Prod.ext a.1 a.2

theorem finalize64_refines (x : State) (hx : x.buffer.Inv) :
    finalize64 x = P.out64 (P.finAbs 4 (toPortable x.r, x.buffer.asSlice)) := by
  rw [← finalizeCommon_refines 4 x hx]
  have e : ∀ r, u64x2_extract_lane 1 r = lo r := fun _ => rfl
  simp only [finalize64, e, lo_add, P.out64, toPortable]
  ac_rfl

theorem finalize128_refines (x : State) (hx : x.buffer.Inv) :
    finalize128 x = P.out128 (P.finAbs 6 (toPortable x.r, x.buffer.asSlice)) := by
  rw [← finalizeCommon_refines 6 x hx]
  have e : ∀ r, u64x2_extract_lane 1 r = lo r := fun _ => rfl
  have e0 : ∀ r, u64x2_extract_lane 0 r = hi r := fun _ => rfl
  simp only [finalize128, e, e0, lo_add, hi_add, P.out128, toPortable, Prod.mk.injEq]
  constructor <;> ac_rfl

theorem finalize256_refines (x : State) (hx : x.buffer.Inv) :
    finalize256 x = P.out256 (P.finAbs 10 (toPortable x.r, x.buffer.asSlice)) := by
  rw [← finalizeCommon_refines 10 x hx]
  have e : ∀ r, u64x2_extract_lane 1 r = lo r := fun _ => rfl
  have e0 : ∀ r, u64x2_extract_lane 0 r = hi r := fun _ => rfl
  simp only [finalize256, P.out256, toPortable, e, e0]
  have h1 := modularReduction_refines (u64x2_add (finalizeCommon 10 x).v1L (finalizeCommon 10 x).mul1L)
    (u64x2_add (finalizeCommon 10 x).v0L (finalizeCommon 10 x).mul0L)
  have h2 := modularReduction_refines (u64x2_add (finalizeCommon 10 x).v1H (finalizeCommon 10 x).mul1H)
    (u64x2_add (finalizeCommon 10 x).v0H (finalizeCommon 10 x).mul0H)
  simp only [lo_add, hi_add] at h1 h2
  rw [← h1, ← h2]

def abs (x : State) : St × List (BitVec 8) := (toPortable x.r, x.buffer.asSlice)

theorem append_abs (x : State) (d : List (BitVec 8)) (hx : x.buffer.Inv) :
    abs (append x d) = AbsAppend P.updPacket (abs x) d ∧ (append x d).buffer.Inv := by
  have h := appendG_abs updPacket (x.r, x.buffer) d hx
  refine ⟨?_, h.2⟩
  have h1 := h.1
  simp only [absP] at h1
  simp only [abs, append, Pkt.asSlice]
  have hm := AbsAppend_map toPortable updPacket P.updPacket updPacket_refines (x.r, List.take x.buffer.idx x.buffer.buf) d
  rw [← hm, ← h1]

theorem new_abs (k : V4) : abs (new k) = (Spec.reset k, []) ∧ (new k).buffer.Inv := by
  refine ⟨?_, Pkt.default_inv⟩
  have := P.new_abs k
  simp only [absP] at this
  simp only [abs, new_refines, Pkt.asSlice]
  exact this

end WasmB
end HH
