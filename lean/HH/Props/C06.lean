import HH.Proofs.Obs
/-!
# C06 — checkpoint/restore is transparent at every cut point and across back ends

A *hop* checkpoints the current hasher and restores the bytes on some back end.  After any number
of hops, interleaved with arbitrary appends, every later result (any suffix chunking, any width,
further checkpoints) equals that of the uninterrupted hasher.
-/
namespace HH.C06

/-- one hop -/
theorem hop_transparent (h : Hasher) (hi : h.Inv) (b : Backend) (h' : Hasher)
    (hr : Hasher.fromCheckpoint b h.checkpoint = some h') (suffix : List (List (BitVec 8))) :
    (∀ w, (suffix.foldl Hasher.append h').finalize w = (suffix.foldl Hasher.append h).finalize w) ∧
    (suffix.foldl Hasher.append h').checkpoint = (suffix.foldl Hasher.append h).checkpoint := by
  have r := Hasher.restore_abs h hi b h' hr
  have o := Hasher.obs_eq h' h r.2 hi r.1 suffix
  exact ⟨o.1, o.2.1⟩

/-- a segment of a journey: append some chunks, then checkpoint and restore on back end `b` -/
structure Leg where
  chunks : List (List (BitVec 8))
  b : Backend

/-- run a journey; `none` if some back end is unavailable -/
def journey : Hasher → List Leg → Option Hasher
  | h, [] => some h
  | h, l :: ls =>
    match Hasher.fromCheckpoint l.b (l.chunks.foldl Hasher.append h).checkpoint with
    | some h' => journey h' ls
    | none => none

/-- the same data without any hop -/
def straight : Hasher → List Leg → Hasher
  | h, [] => h
  | h, l :: ls => straight (l.chunks.foldl Hasher.append h) ls

/-- any number of hops, any back ends, any cut points: the abstract state is that of the
uninterrupted hasher -/
theorem journey_abs : ∀ (legs : List Leg) (h g : Hasher), h.Inv → g.Inv → h.abs = g.abs →
    ∀ h', journey h legs = some h' → h'.abs = (straight g legs).abs ∧ h'.Inv ∧ (straight g legs).Inv := by
  intro legs
  induction legs with
  | nil =>
    intro h g hi gi e h' hj
    simp only [journey, Option.some.injEq] at hj
    subst hj
    exact ⟨e, hi, gi⟩
  | cons l ls ih =>
    intro h g hi gi e h' hj
    simp only [journey] at hj
    split at hj
    · rename_i h1 hr
      have a1 := Hasher.foldl_append_abs l.chunks h hi
      have a2 := Hasher.foldl_append_abs l.chunks g gi
      have r := Hasher.restore_abs _ a1.2 l.b h1 hr
      have e1 : h1.abs = (l.chunks.foldl Hasher.append g).abs := by rw [r.1, a1.1, a2.1, e]
      exact ih h1 (l.chunks.foldl Hasher.append g) r.2 a2.2 e1 h' hj
    · simp at hj

/-- headline: after any journey, every later result equals the uninterrupted one -/
theorem journey_transparent (legs : List Leg) (h : Hasher) (hi : h.Inv) (h' : Hasher)
    (hj : journey h legs = some h') (suffix : List (List (BitVec 8))) (w : Width) :
    (suffix.foldl Hasher.append h').finalize w = (suffix.foldl Hasher.append (straight h legs)).finalize w := by
  have j := journey_abs legs h h hi hi rfl h' hj
  exact (Hasher.obs_eq h' _ j.2.1 j.2.2 j.1 suffix).1 w

/-- non-vacuity: a two-hop journey portable → sse → avx exists -/
example : ∃ h', journey (Hasher.portable (P.new ⟨1, 2, 3, 4⟩)) [⟨[[1, 2, 3]], .sse⟩, ⟨[[4], []], .avx⟩] = some h' := by
  simp [journey, Hasher.fromCheckpoint]

end HH.C06
