"""Shared machinery of the /verif checks: building the Lean model and the Rust runners from the
current working tree, running both on the same op files, diffing, evidence and replay files."""
import hashlib, json, os, random, shutil, subprocess, sys, time, concurrent.futures as cf

ROOT = os.path.dirname(os.path.dirname(os.path.abspath(__file__)))
LEAN = os.path.join(ROOT, "lean")
BUILD = os.path.join(ROOT, ".build")
REPO = os.environ.get("VERIF_REPO", "/repo")
EVID = os.path.join(ROOT, "evidence")
REPLAYS = os.path.join(ROOT, "replays")
NPROC = min(16, os.cpu_count() or 4)
STD_AXIOMS = {"propext", "Classical.choice", "Quot.sound"}

ENV = dict(os.environ, CARGO_NET_OFFLINE="true", PIP_NO_INDEX="1", GOPROXY="off")


def log(*a):
    print(*a, file=sys.stderr, flush=True)


def sh(cmd, cwd=None, env=None, timeout=3600, input=None):
    e = dict(ENV)
    if env:
        e.update(env)
    r = subprocess.run(cmd, cwd=cwd, env=e, timeout=timeout, input=input,
                       stdout=subprocess.PIPE, stderr=subprocess.PIPE, text=True, shell=isinstance(cmd, str))
    return r.returncode, r.stdout, r.stderr


# ------------------------------------------------------------------------------------------------
# Lean side
# ------------------------------------------------------------------------------------------------

def lake_build(targets):
    """Build Lean targets (cached). Returns (ok, log)."""
    os.makedirs(BUILD, exist_ok=True)
    rc, out, err = sh(["lake", "build"] + list(targets), cwd=LEAN, timeout=7200)
    return rc == 0, out + err


def driver_path():
    return os.path.join(LEAN, ".lake", "build", "bin", "driver")


FORBIDDEN_RE = [
    (r"\bsorry\b", "sorry"), (r"\badmit\b", "admit"), (r"\bnative_decide\b", "native_decide"), (r"\bbv_decide\b", "bv_decide"),
    (r"\bimplemented_by\b", "implemented_by"), (r"\bunsafe\s+(def|instance|theorem|inductive|structure|abbrev|opaque|axiom)\b", "unsafe decl"),
    (r"maxHeartbeats\s+0\b", "maxHeartbeats 0"), (r"^\s*(private\s+|protected\s+)?axiom\s", "axiom"), (r"\bextern\s+\"", "extern"),
]


def strip_comments(src):
    """remove Lean block comments (nested), line comments and string literals"""
    out = []
    i = 0
    depth = 0
    n = len(src)
    while i < n:
        if src.startswith("/-", i):
            depth += 1
            i += 2
        elif depth > 0 and src.startswith("-/", i):
            depth -= 1
            i += 2
        elif depth > 0:
            if src[i] == "\n":
                out.append("\n")
            i += 1
        elif src.startswith("--", i):
            while i < n and src[i] != "\n":
                i += 1
        elif src[i] == '"':
            i += 1
            while i < n and src[i] != '"':
                i += 2 if src[i] == "\\" else 1
            i += 1
            out.append('""')
        else:
            out.append(src[i])
            i += 1
    return "".join(out)


def grep_forbidden():
    """scan every hand-written Lean source of the project for forbidden constructs outside comments
    and string literals (the generated fact table contains only data and is compiled by the kernel
    like everything else; it is scanned too, after string removal)"""
    import re
    hits = []
    for dp, dn, fn in os.walk(LEAN):
        if ".lake" in dp:
            continue
        for f in fn:
            if not f.endswith(".lean"):
                continue
            p = os.path.join(dp, f)
            code = strip_comments(open(p).read())
            for ln, line in enumerate(code.split("\n"), 1):
                for rx, name in FORBIDDEN_RE:
                    if re.search(rx, line):
                        hits.append(f"{os.path.relpath(p, LEAN)}:{ln}: {name}: {line.strip()[:100]}")
    return hits


def audit_axioms(module, theorems):
    """`#print axioms` for each theorem of a property module. Returns dict name -> set(axioms) or
    None when the theorem does not exist / does not check."""
    os.makedirs(os.path.join(BUILD, "audit"), exist_ok=True)
    path = os.path.join(BUILD, "audit", module.replace(".", "_") + ".lean")
    with open(path, "w") as f:
        f.write(f"import {module}\n")
        for t in theorems:
            f.write(f"#print axioms {t}\n")
    rc, out, err = sh(["lake", "env", "lean", path], cwd=LEAN, timeout=1800)
    res = {}
    text = out + "\n" + err
    # messages look like: 'name' depends on axioms: [a, b]   or   'name' does not depend on any axioms
    import re
    flat = text.replace("\n", " ")
    for t in theorems:
        m = re.search(r"'" + re.escape(t) + r"' depends on axioms: \[([^\]]*)\]", flat)
        if m:
            res[t] = set(x.strip() for x in m.group(1).split(",") if x.strip())
        elif re.search(r"'" + re.escape(t) + r"' does not depend on any axioms", flat):
            res[t] = set()
        else:
            res[t] = None
    return res, text


def leanchecker(module):
    rc, out, err = sh(["lake", "env", "leanchecker", module], cwd=LEAN, timeout=3600)
    return rc == 0, out + err


# ------------------------------------------------------------------------------------------------
# Rust side
# ------------------------------------------------------------------------------------------------

FLAGSETS = {
    "base": "",
    "sse41": "-C target-feature=+sse4.1",
    "avx2": "-C target-feature=+avx2",
    "sse41noavx": "-C target-feature=+sse4.1,-avx2",
    "native": "-C target-cpu=native",
}


def all_configs():
    return [f"{p}-{s}-{f}" for p in ("dev", "rel") for s in ("std", "nostd") for f in FLAGSETS]


QUICK_CONFIGS = ["dev-std-base", "rel-std-base", "rel-nostd-sse41", "dev-nostd-avx2", "rel-std-native", "dev-nostd-base"]
# one configuration per model class (arch/std/compile-time features), both profiles for the default one
MATRIX_CONFIGS = ["dev-std-base", "rel-std-base", "rel-nostd-base", "dev-std-sse41", "rel-nostd-sse41", "dev-nostd-avx2", "rel-std-avx2",
                  "dev-std-sse41noavx", "rel-nostd-sse41noavx", "rel-std-native"]


def ensure_repo_link():
    os.makedirs(BUILD, exist_ok=True)
    link = os.path.join(BUILD, "repo")
    if os.path.islink(link) and os.readlink(link) == REPO:
        return
    if os.path.islink(link) or os.path.exists(link):
        os.unlink(link)
    os.symlink(REPO, link)


def build_runner(config, crate="drive", extra_env=None):
    """cargo build of a harness crate against the current working tree. Returns (binary, log)."""
    ensure_repo_link()
    prof, std, flags = config.split("-")
    tdir = os.path.join(BUILD, f"t-{crate}-{config}")
    cmd = ["cargo", "build", "--offline", "-q"]
    if prof == "rel":
        cmd.append("--release")
    if std == "nostd":
        cmd.append("--no-default-features")
    env = {"CARGO_TARGET_DIR": tdir, "RUSTFLAGS": FLAGSETS[flags]}
    if extra_env:
        env.update(extra_env)
    cdir = os.path.join(ROOT, "harness", crate)
    lock = os.path.join(cdir, "Cargo.lock")
    if not os.path.exists(lock):
        shutil.copy(os.path.join(REPO, "Cargo.lock"), lock)
    rc, out, err = sh(cmd, cwd=cdir, env=env, timeout=3600)
    binp = os.path.join(tdir, "release" if prof == "rel" else "debug", crate)
    if rc != 0:
        return None, out + err
    return binp, out + err


def build_runners(configs, crate="drive"):
    res = {}
    with cf.ThreadPoolExecutor(max_workers=max(1, NPROC // 2)) as ex:
        futs = {c: ex.submit(build_runner, c, crate) for c in configs}
        for c, f in futs.items():
            res[c] = f.result()
    return res


def runner_info(binp, cpu=None):
    cmd = [binp, "--info"] + ([f"--cpu={cpu}"] if cpu else [])
    rc, out, err = sh(cmd, timeout=60)
    if rc != 0 or not out.startswith("cfg "):
        return None
    d = {}
    for tok in out.strip().split()[1:]:
        k, v = tok.split("=")
        d[k] = v
    d["_line"] = out.strip()
    return d


# ------------------------------------------------------------------------------------------------
# Cases, op files, running, diffing
# ------------------------------------------------------------------------------------------------

class Case:
    """one self-contained history: ops start from an empty handle table"""
    __slots__ = ("ops", "oracle", "tags", "name", "cons")

    def __init__(self, ops, oracle=None, tags=(), name=""):
        self.ops = list(ops)
        self.oracle = oracle          # callable(list_of_outputs) -> None | str (failure description)
        self.tags = tuple(tags)
        self.name = name
        self.cons = None              # the constraints behind `oracle` (for shrinking)

    def key(self):
        return hashlib.sha1("\n".join(self.ops).encode()).hexdigest()

    def nontrivial(self):
        for o in self.ops:
            t = o.split(" ")
            if t[0] in ("append", "hwrite", "iowrite", "writeall", "iocopy") and t[-1] != "-":
                return True
            if t[0] in ("hash", "fhash") and t[-1] != "-":
                return True
            if t[0] in ("restore", "frestore", "restoreh", "frestoreh"):
                return True
        return False


def write_ops(cases, path):
    with open(path, "w") as f:
        for i, c in enumerate(cases):
            f.write(f"# case {i}\nreset\n")
            for o in c.ops:
                f.write(o + "\n")


def split_outputs(text, ncases):
    """split a runner's output back into per-case output lists (excluding the `reset` line)"""
    res = [None] * ncases
    cur = None
    buf = []
    for line in text.split("\n"):
        if line.startswith("# case "):
            if cur is not None:
                res[cur] = buf[1:]
            cur = int(line[7:])
            buf = []
        elif cur is not None:
            buf.append(line)
    if cur is not None:
        while buf and buf[-1] == "":
            buf.pop()
        res[cur] = buf[1:]
    return res


def run_real(binp, cases, workdir, tag, extra_args=(), shards=4, timeout=3600):
    """run the real implementation (native runner) on the cases; returns per-case outputs"""
    os.makedirs(workdir, exist_ok=True)
    n = len(cases)
    shards = max(1, min(shards, n))
    idx = [list(range(k, n, shards)) for k in range(shards)]

    def one(k):
        p = os.path.join(workdir, f"{tag}.real.{k}.ops")
        write_ops([cases[i] for i in idx[k]], p)
        rc, out, err = sh([binp] + list(extra_args) + [p], timeout=timeout)
        return rc, out, err

    outs = [None] * n
    crashed = []
    with cf.ThreadPoolExecutor(max_workers=shards) as ex:
        for k, (rc, out, err) in enumerate(ex.map(one, range(shards))):
            per = split_outputs(out, len(idx[k]))
            for j, i in enumerate(idx[k]):
                outs[i] = per[j]
            if rc != 0:
                crashed.append((k, rc, err[-2000:]))
    return outs, crashed


def run_model(cases, workdir, tag, cfgline="", shards=None, timeout=3600):
    """run the Lean model driver on the cases (sharded over processes); per-case outputs"""
    os.makedirs(workdir, exist_ok=True)
    n = len(cases)
    shards = max(1, min(shards or NPROC, n))
    idx = [list(range(k, n, shards)) for k in range(shards)]

    def one(k):
        p = os.path.join(workdir, f"{tag}.model.{k}.ops")
        write_ops([cases[i] for i in idx[k]], p)
        with open(p) as f:
            r = subprocess.run([driver_path()] + ([cfgline] if cfgline else []), stdin=f, stdout=subprocess.PIPE,
                               stderr=subprocess.PIPE, text=True, timeout=timeout)
        return r.returncode, r.stdout, r.stderr

    outs = [None] * n
    bad = []
    with cf.ThreadPoolExecutor(max_workers=shards) as ex:
        for k, (rc, out, err) in enumerate(ex.map(one, range(shards))):
            per = split_outputs(out, len(idx[k]))
            for j, i in enumerate(idx[k]):
                outs[i] = per[j]
            if rc != 0:
                bad.append((k, rc, err[-2000:]))
    return outs, bad


def eval_cons(cons, ops, outs):
    """evaluate builder constraints (see gen.B) on outputs; returns failure text or None"""
    for c in cons:
        if c[0] == "eq":
            _, i, j, what = c
            if i >= len(outs) or j >= len(outs) or outs[i] != outs[j]:
                return what
        elif c[0] == "ne":
            _, i, j, what = c
            if i < len(outs) and j < len(outs) and outs[i] == outs[j]:
                return what
        else:
            _, i, val, what = c
            if i >= len(outs) or outs[i] != val:
                return what
    return None


def shrink_oracle_failure(binp, case, workdir, extra_args=(), budget=80, cfgline=""):
    """greedy op deletion for a case whose oracle fails on the real implementation: an op may go when
    no constraint refers to it and some constraint still fails (with the same message) afterwards.
    Only the native runner is used.  Returns (ops, outputs, message)."""
    if not case.cons:
        return None
    ops = list(case.ops)
    cons = [list(c) for c in case.cons]
    outs, _ = run_real(binp, [Case(ops)], workdir, "shrink", extra_args=extra_args, shards=1)
    msg = eval_cons(cons, ops, outs[0] or [])
    if msg is None:
        return None
    # keep only the first failing constraint: a minimal witness needs just one
    for c in cons:
        if eval_cons([c], ops, outs[0] or []) is not None:
            cons = [c]
            break
    def shape(o):
        return o if o in ("nohandle", "none", "bad-op", "unsupported", "panic", "ok") else f"len{len(o)}"

    def shapes(cs, outs_):
        r = []
        for c in cs:
            r.append(shape(outs_[c[1]]) if c[1] < len(outs_) else None)
            if c[0] in ("eq", "ne"):
                r.append(shape(outs_[c[2]]) if c[2] < len(outs_) else None)
        return r
    want = shapes(cons, outs[0] or [])      # the minimised case must fail in the same way (digests stay digests)
    tries = 0
    i = len(ops) - 1
    while i >= 0 and tries < budget:
        refs = set()
        for c in cons:
            refs.add(c[1])
            if c[0] in ("eq", "ne"):
                refs.add(c[2])
        if i in refs:
            i -= 1
            continue
        cand_ops = ops[:i] + ops[i + 1:]
        cand_cons = []
        for c in cons:
            c2 = list(c)
            c2[1] = c[1] - (1 if c[1] > i else 0)
            if c[0] in ("eq", "ne"):
                c2[2] = c[2] - (1 if c[2] > i else 0)
            cand_cons.append(c2)
        o, _ = run_real(binp, [Case(cand_ops)], workdir, "shrink", extra_args=extra_args, shards=1)
        tries += 1
        ok = o[0] is not None and len(o[0]) >= len(cand_ops) and eval_cons(cand_cons, cand_ops, o[0]) is not None \
            and shapes(cand_cons, o[0]) == want
        if ok:
            # the shortened history must still be a meaningful test: the constraint has to HOLD on the
            # model (the reference behaviour) while it fails on the implementation
            mo, mbad = run_model([Case(cand_ops)], workdir, "shrink", cfgline, shards=1)
            ok = (not mbad) and mo[0] is not None and eval_cons(cand_cons, cand_ops, mo[0]) is None
        if ok:
            ops, cons, outs = cand_ops, cand_cons, o
        i -= 1
    return ops, outs[0], eval_cons(cons, ops, outs[0] or []), cons


def load_corpus(pid, info):
    """minimised past failures (from the seeded defects and the three repaired findings): they run first"""
    import gen
    p = os.path.join(ROOT, "corpus", f"{pid}.json")
    if not os.path.exists(p):
        return []
    out = []
    std = info.get("std") == "1"
    avail = {"portable", "auto"}
    if info.get("arch") == "x86_64":
        if info.get("cpu_sse41") == "1":
            avail.add("sse")
        if info.get("cpu_avx2") == "1":
            avail.add("avx")
    for e in json.load(open(p)):
        ops = e["ops"]
        # skip entries that need a back end / trait this configuration does not have
        sels = {t for o in ops for t in o.split(" ")[1:3] if t in ("portable", "sse", "avx", "neon", "wasm", "auto")}
        if not sels <= avail:
            continue
        if not std and any(o.split(" ")[0] in ("iowrite", "writeall", "iocopy", "flush") for o in ops):
            continue
        b = gen.B("corpus:" + e.get("source", "?"), ["corpus"])
        b.ops = list(ops)
        b.cons = [tuple(c) for c in e["cons"]]
        out.append(b)
    return out


def first_diff(a, b):
    if a is None or b is None:
        return 0
    for i in range(max(len(a), len(b))):
        x = a[i] if i < len(a) else None
        y = b[i] if i < len(b) else None
        if x == UNOBSERVED and y is not None:
            continue        # an executor that cannot observe this op (see harness/nodewasm)
        if x != y:
            return i
    return None


UNOBSERVED = "*unobserved*"


# ------------------------------------------------------------------------------------------------
# evidence / replays / verdict
# ------------------------------------------------------------------------------------------------

def write_replay(pid, seed, n, obj):
    os.makedirs(REPLAYS, exist_ok=True)
    p = os.path.join(REPLAYS, f"{pid}-{seed}-{n}.json")
    with open(p, "w") as f:
        json.dump(obj, f, indent=1)
    return p


def write_evidence(pid, obj):
    os.makedirs(EVID, exist_ok=True)
    p = os.path.join(EVID, f"{pid}.json")
    with open(p, "w") as f:
        json.dump(obj, f, indent=1)
    return p


def known_findings():
    p = os.path.join(ROOT, "known_findings.json")
    try:
        return json.load(open(p))
    except Exception:
        return {"fixed": [], "open": []}


def hexbytes(b):
    return b.hex() if len(b) else "-"


def keyhex(k):
    return " ".join(f"{x:x}" for x in k)


# ------------------------------------------------------------------------------------------------
# Miri cross-target runner (real source of aarch64.rs / big-endian / 32-bit portable path)
# ------------------------------------------------------------------------------------------------

MIRI_TARGETS = {
    "aarch64": "aarch64-unknown-linux-gnu",
    "s390x": "s390x-unknown-linux-gnu",
    "powerpc": "powerpc-unknown-linux-gnu",
    "i686": "i686-unknown-linux-gnu",
    "x86avx2": "x86_64-unknown-linux-gnu",
}
MIRI_RUSTFLAGS = {"x86avx2": "-C target-feature=+avx2"}


def run_miri(target_key, cases, workdir, tag, shards=4, timeout=3600, no_std=False, release=False):
    """execute the cases under `cargo +nightly miri run --target ...` on the working-tree source.
    Returns (per-case outputs, crashed list, info dict or None)."""
    ensure_repo_link()
    os.makedirs(workdir, exist_ok=True)
    cdir = os.path.join(ROOT, "harness", "mirirun")
    lock = os.path.join(cdir, "Cargo.lock")
    if not os.path.exists(lock):
        shutil.copy(os.path.join(REPO, "Cargo.lock"), lock)
    n = len(cases)
    shards = max(1, min(shards, n))
    idx = [list(range(k, n, shards)) for k in range(shards)]
    target = MIRI_TARGETS[target_key]

    def one(k):
        # the op file is embedded with include_bytes!(env!("OPS_FILE")): keep ONE path per target dir so
        # that cargo's rebuild decision only depends on the file's contents (a changed env value alone
        # is not tracked under cargo-miri)
        tdir = os.path.join(BUILD, f"t-miri-{target_key}{'-rel' if release else ''}-{k}")
        os.makedirs(tdir, exist_ok=True)
        p = os.path.join(tdir, "ops.txt")
        write_ops([cases[i] for i in idx[k]], p)
        shutil.copy(p, os.path.join(workdir, f"{tag}.miri.{k}.ops"))
        env = {"OPS_FILE": p, "CARGO_TARGET_DIR": tdir, "MIRIFLAGS": "-Zmiri-disable-isolation"}
        if target_key in MIRI_RUSTFLAGS:
            env["RUSTFLAGS"] = MIRI_RUSTFLAGS[target_key]
        cmd = ["cargo", "+nightly", "miri", "run", "--offline", "-q", "--target", target]
        if no_std:
            cmd.append("--no-default-features")
        if release:
            cmd.append("--release")       # Miri ignores the optimisation level but honours the profile's debug-assertions
        return sh(cmd, cwd=cdir, env=env, timeout=timeout)

    outs = [None] * n
    crashed = []
    info = None
    with cf.ThreadPoolExecutor(max_workers=shards) as ex:
        for k, (rc, out, err) in enumerate(ex.map(one, range(shards))):
            first = out.split("\n", 1)[0]
            if first.startswith("cfg "):
                d = {}
                for tok in first.split()[1:]:
                    a, b = tok.split("=")
                    d[a] = b
                d["_line"] = first
                info = d
            per = split_outputs(out, len(idx[k]))
            for j, i in enumerate(idx[k]):
                outs[i] = per[j]
            if rc != 0:
                crashed.append((k, rc, err[-3000:]))
    return outs, crashed, info


def miri_available(target_key):
    """is the Miri sysroot for the target buildable/available? (cached result per process)"""
    rc, out, err = sh(["cargo", "+nightly", "miri", "setup", "--target", MIRI_TARGETS[target_key]], cwd=os.path.join(ROOT, "harness", "mirirun"),
                      timeout=1800)
    return rc == 0
