import HH.Portable
import HH.Sse
import HH.Avx
import HH.Neon
import HH.WasmB
import HH.Spec
import HH.Dispatch
import HH.StdTraits
/-!
# HH.Machine — handles ↦ hashers, the operations of the public API, `step` and `run`

This is the executable model the correspondence check runs against the real crate (through
`Driver.lean`), and the object the history-level theorems (C05, C06, C12, C13, C15) are about.
-/
namespace HH

/-- what the caller asks for: a concrete back end type or `HighwayHasher` (auto-selected) -/
inductive Sel | only (b : Backend) | auto
deriving DecidableEq, Repr, Inhabited

inductive Width | w64 | w128 | w256
deriving DecidableEq, Repr, Inhabited

/-- a live hasher of some back end (`PortableHash`, `SseHash`, `AvxHash`, …) -/
inductive Hasher
  | portable (s : P.State)
  | sse (s : Sse.State)
  | avx (s : Avx.State)
  | neon (s : NeonB.State)
  | wasm (s : WasmB.State)
deriving DecidableEq, Repr

inductive Digest
  | d64 (x : BitVec 64)
  | d128 (x : BitVec 64 × BitVec 64)
  | d256 (x : BitVec 64 × BitVec 64 × BitVec 64 × BitVec 64)
deriving DecidableEq, Repr

namespace Hasher
def backend : Hasher → Backend
  | portable _ => .portable
  | sse _ => .sse
  | avx _ => .avx
  | neon _ => .neon
  | wasm _ => .wasm

def append : Hasher → List (BitVec 8) → Hasher
  | portable s, d => portable (P.append s d)
  | sse s, d => sse (Sse.append s d)
  | avx s, d => avx (Avx.append s d)
  | neon s, d => neon (NeonB.append s d)
  | wasm s, d => wasm (WasmB.append s d)

def finalize64 : Hasher → BitVec 64
  | portable s => P.finalize64 s
  | sse s => Sse.finalize64 s
  | avx s => Avx.finalize64 s
  | neon s => NeonB.finalize64 s
  | wasm s => WasmB.finalize64 s

def finalize128 : Hasher → BitVec 64 × BitVec 64
  | portable s => P.finalize128 s
  | sse s => Sse.finalize128 s
  | avx s => Avx.finalize128 s
  | neon s => NeonB.finalize128 s
  | wasm s => WasmB.finalize128 s

def finalize256 : Hasher → BitVec 64 × BitVec 64 × BitVec 64 × BitVec 64
  | portable s => P.finalize256 s
  | sse s => Sse.finalize256 s
  | avx s => Avx.finalize256 s
  | neon s => NeonB.finalize256 s
  | wasm s => WasmB.finalize256 s

def finalize (h : Hasher) : Width → Digest
  | .w64 => .d64 h.finalize64
  | .w128 => .d128 h.finalize128
  | .w256 => .d256 h.finalize256

def checkpoint : Hasher → List (BitVec 8)
  | portable s => P.checkpoint s
  | sse s => Sse.checkpoint s
  | avx s => Avx.checkpoint s
  | neon s => NeonB.checkpoint s
  | wasm s => WasmB.checkpoint s

/-- the constructor of back end `b` from a key (availability is decided by the caller) -/
def new : Backend → V4 → Option Hasher
  | .portable, k => some (portable (P.new k))
  | .sse, k => some (sse (Sse.new k))
  | .avx, k => some (avx (Avx.new k))
  | .neon, k => some (neon (NeonB.new k))
  | .wasm, k => some (wasm (WasmB.new k))

def default : Backend → Option Hasher
  | .portable => some (portable P.default)
  | .sse => some (sse Sse.default)
  | .avx => some (avx Avx.default)
  | .neon => some (neon NeonB.default)
  | .wasm => some (wasm WasmB.default)

def fromCheckpoint : Backend → List (BitVec 8) → Option Hasher
  | .portable, c => some (portable (P.fromCheckpoint c))
  | .sse, c => some (sse (Sse.fromCheckpoint c))
  | .avx, c => some (avx (Avx.fromCheckpoint c))
  | .neon, c => some (neon (NeonB.fromCheckpoint c))
  | .wasm, c => some (wasm (WasmB.fromCheckpoint c))
end Hasher

/-- the configuration under test -/
structure Env where
  cfg : Cfg
  cpu : Cpu
deriving Repr, Inhabited

/-- a handle of the harness: the hasher plus whether it is wrapped in a `HighwayHasher` -/
structure Handle where
  auto : Bool
  h : Hasher
deriving DecidableEq, Repr

abbrev World := List (Nat × Handle)

def World.get (w : World) (i : Nat) : Option Handle := (w.find? (·.1 == i)).map (·.2)
def World.del (w : World) (i : Nat) : World := w.filter (·.1 != i)
def World.put (w : World) (i : Nat) (x : Handle) : World := (i, x) :: w.del i

inductive Op
  | reset
  | new (h : Nat) (sel : Sel) (force : Bool) (key : V4)
  | default (h : Nat) (sel : Sel)
  | restore (h : Nat) (sel : Sel) (force : Bool) (c : List (BitVec 8))
  | restoreH (h : Nat) (sel : Sel) (force : Bool) (src : Nat)
  | append (h : Nat) (d : List (BitVec 8))      -- `append`, `Hasher::write`, `write_all`
  | ioWrite (h : Nat) (d : List (BitVec 8))     -- `io::Write::write`, `io::copy`
  | clone (src dst : Nat)
  | fin (h : Nat) (w : Width)                   -- consuming `finalizeN`
  | ckpt (h : Nat)
  | finish (h : Nat)                            -- `Hasher::finish(&self)`
  | flush (h : Nat)
  | drop (h : Nat)
  | debug (h : Nat)
  | hash (sel : Sel) (force : Bool) (w : Width) (key : V4) (d : List (BitVec 8))
  /-- a sequence of `Hasher::write` / `io::Write::write` calls made on the caller's behalf by provided
  trait methods: `value.hash(&mut hasher)` (`write_u8 … write_usize`, `write_str`, length prefixes),
  `write_vectored` until everything is consumed, `write_fmt` -/
  | writes (h : Nat) (ws : List (List (BitVec 8)))
  /-- `HighwayBuildHasher::new(key).hash_one(value)` where `value.hash` makes the `write` calls `ws` -/
  | hashOne (key : V4) (ws : List (List (BitVec 8)))
deriving Repr

inductive Out
  | ok | none | nohandle
  | n (k : Nat)
  | bytes (b : List (BitVec 8))
  | digest (d : Digest)
  | tag (auto : Bool) (t : Nat)
deriving DecidableEq, Repr

/-- which back end type a request resolves to, and whether the constructor yields a hasher:
`HighwayHasher` follows the ladders; the safe `SseHash::new`/`AvxHash::new` need std + detection;
the `force_*` constructors and `Default` are only exercised by the harness when the CPU has the
feature. -/
def resolve (env : Env) (sel : Sel) (force : Bool) (restore : Bool) : Option Backend :=
  match sel with
  | .auto => some (if restore then selectRestore env.cfg env.cpu else selectNew env.cfg env.cpu)
  | .only .portable => some .portable
  | .only .sse =>
    if env.cfg.arch = .x86_64 ∧ (if force then env.cpu.sse41 else sseCtorSome env.cfg env.cpu) then some .sse else none
  | .only .avx =>
    if env.cfg.arch = .x86_64 ∧ (if force then env.cpu.avx2 else avxCtorSome env.cfg env.cpu) then some .avx else none
  | .only .neon => if env.cfg.arch = .aarch64 then some .neon else none
  | .only .wasm => if env.cfg.arch = .wasmSimd then some .wasm else none

def mkHandle (sel : Sel) (h : Hasher) : Handle := ⟨sel == .auto, h⟩

def construct (env : Env) (sel : Sel) (force restore : Bool) (mk : Backend → Option Hasher) : Option Handle :=
  match resolve env sel force restore with
  | some b => (mk b).map (mkHandle sel)
  | none => none

/-- one API call -/
def step (env : Env) (w : World) : Op → World × Out
  | .reset => ([], .ok)
  | .new h sel force key =>
    match construct env sel force false (Hasher.new · key) with
    | some x => (w.put h x, .ok)
    | none => (w.del h, .none)
  | .default h sel =>
    match construct env sel true false Hasher.default with
    | some x => (w.put h x, .ok)
    | none => (w.del h, .none)
  | .restore h sel force c =>
    match construct env sel force true (Hasher.fromCheckpoint · c) with
    | some x => (w.put h x, .ok)
    | none => (w.del h, .none)
  | .restoreH h sel force src =>
    match w.get src with
    | none => (w, .nohandle)
    | some s =>
      match construct env sel force true (Hasher.fromCheckpoint · s.h.checkpoint) with
      | some x => (w.put h x, .ok)
      | none => (w.del h, .none)
  | .append h d =>
    match w.get h with
    | none => (w, .nohandle)
    | some x => (w.put h { x with h := x.h.append d }, .ok)
  | .ioWrite h d =>
    match w.get h with
    | none => (w, .nohandle)
    | some x => (w.put h { x with h := x.h.append d }, .n d.length)
  | .clone src dst =>
    match w.get src with
    | none => (w, .nohandle)
    | some x => (w.put dst x, .ok)
  | .fin h wd =>
    match w.get h with
    | none => (w, .nohandle)
    | some x => (w.del h, .digest (x.h.finalize wd))
  | .ckpt h =>
    match w.get h with
    | none => (w, .nohandle)
    | some x => (w, .bytes x.h.checkpoint)
  | .finish h =>
    match w.get h with
    | none => (w, .nohandle)
    | some x => (w, .digest (.d64 x.h.finalize64))
  | .flush h =>
    match w.get h with
    | none => (w, .nohandle)
    | some _ => (w, .ok)
  | .drop h =>
    match w.get h with
    | none => (w, .nohandle)
    | some _ => (w.del h, .ok)
  | .debug h =>
    match w.get h with
    | none => (w, .nohandle)
    | some x => (w, .tag x.auto x.h.backend.tag)
  | .hash sel force wd key d =>
    match construct env sel force false (Hasher.new · key) with
    | some x => (w, .digest ((x.h.append d).finalize wd))
    | none => (w, .none)
  | .writes h ws =>
    match w.get h with
    | none => (w, .nohandle)
    | some x => (w.put h { x with h := ws.foldl Hasher.append x.h }, .ok)
  | .hashOne key ws =>
    match construct env .auto false false (Hasher.new · key) with
    | some x => (w, .digest (.d64 (ws.foldl Hasher.append x.h).finalize64))
    | none => (w, .none)

/-- a history of API calls: final world and the outputs in order -/
def run (env : Env) : World → List Op → World × List Out
  | w, [] => (w, [])
  | w, op :: ops =>
    let (w', o) := step env w op
    let (w'', os) := run env w' ops
    (w'', o :: os)

end HH
