import HH.Packet
import HH.Portable
import HH.Intrin.X86
/-!
# HH.Sse — model of `src/x86/sse.rs` + `src/x86/v2x64u.rs`, statement by statement over the
modelled intrinsics.  `V2x64U` is a `BitVec 128`; `V2x64U::new(hi, low) = _mm_set_epi64x(hi, low)`.
-/
namespace HH
namespace Sse
open X86

/-- the eight lane registers of `SseHash` -/
structure Regs where
  v0L : BitVec 128
  v0H : BitVec 128
  v1L : BitVec 128
  v1H : BitVec 128
  mul0L : BitVec 128
  mul0H : BitVec 128
  mul1L : BitVec 128
  mul1H : BitVec 128
deriving DecidableEq, Repr

structure State where
  r : Regs
  buffer : Pkt
deriving DecidableEq, Repr

/-- `V2x64U::rotate_by_32`: `_mm_shuffle_epi32(x, _mm_shuffle!(2, 3, 0, 1))` -/
def rotateBy32 (x : BitVec 128) : BitVec 128 := shuffle_epi32 x ((2 <<< 6) ||| (3 <<< 4) ||| (0 <<< 2) ||| 1)

/-- `V2x64U::and_not(self, neg_mask) = _mm_andnot_si128(neg_mask, self)` -/
def andNot (self negMask : BitVec 128) : BitVec 128 := andnot_si128 negMask self

def init0L := set_epi64x 0xa4093822299f31d0#64 0xdbe6d5d5fe4cce2f#64
def init0H := set_epi64x 0x243f6a8885a308d3#64 0x13198a2e03707344#64
def init1L := set_epi64x 0xc0acf169b5f18a8c#64 0x3bd39e10cb0ef593#64
def init1H := set_epi64x 0x452821e638d01377#64 0xbe5466cf34e90c6c#64

/-- `SseHash::force_new`: the key is read with two unaligned 16-byte loads -/
def new (key : V4) : State :=
  let keyL := set_epi64x key.l1 key.l0     -- `_mm_loadu_si128(key_ptr)`
  let keyH := set_epi64x key.l3 key.l2     -- `_mm_loadu_si128(key_ptr.add(1))`
  { r := { v0L := xor_si128 keyL init0L, v0H := xor_si128 keyH init0H,
           v1L := xor_si128 (rotateBy32 keyL) init1L, v1H := xor_si128 (rotateBy32 keyH) init1H,
           mul0L := init0L, mul0H := init0H, mul1L := init1L, mul1H := init1H },
    buffer := Pkt.default }

/-- `impl Default for SseHash` (after the `fix:` commit) -/
def default : State := new V4.zero

/-- `SseHash::zipper_merge` -/
def zipperMerge (v : BitVec 128) : BitVec 128 :=
  shuffle_epi8 v (set_epi64x 0x070806090D0A040B#64 0x000F010E05020C03#64)

/-- `SseHash::update(&mut self, (packetH, packetL))` -/
def update (s : Regs) (packetH packetL : BitVec 128) : Regs :=
  let v1L := add_epi64 s.v1L packetL
  let v1H := add_epi64 s.v1H packetH
  let v1L := add_epi64 v1L s.mul0L
  let v1H := add_epi64 v1H s.mul0H
  let mul0L := xor_si128 s.mul0L (mul_epu32 v1L (rotateBy32 s.v0L))
  let mul0H := xor_si128 s.mul0H (mul_epu32 v1H (srli_epi64 s.v0H 32))
  let v0L := add_epi64 s.v0L s.mul1L
  let v0H := add_epi64 s.v0H s.mul1H
  let mul1L := xor_si128 s.mul1L (mul_epu32 v0L (rotateBy32 v1L))
  let mul1H := xor_si128 s.mul1H (mul_epu32 v0H (srli_epi64 v1H 32))
  let v0L := add_epi64 v0L (zipperMerge v1L)
  let v0H := add_epi64 v0H (zipperMerge v1H)
  let v1L := add_epi64 v1L (zipperMerge v0L)
  let v1H := add_epi64 v1H (zipperMerge v0H)
  ⟨v0L, v0H, v1L, v1H, mul0L, mul0H, mul1L, mul1H⟩

/-- `SseHash::data_to_lanes(packet) -> (packetH, packetL)` followed by `update` -/
def updPacket (s : Regs) (pkt : List (BitVec 8)) : Regs :=
  update s (loadu_si128 pkt 16) (loadu_si128 pkt 0)

/-- `SseHash::permute_and_update` -/
def permuteAndUpdate (s : Regs) : Regs :=
  let low := rotateBy32 s.v0L
  let high := rotateBy32 s.v0H
  update s low high          -- `self.update((low, high))`: packetH = low, packetL = high

def rounds : Nat → Regs → Regs
  | 0, s => s
  | n+1, s => rounds n (permuteAndUpdate s)

/-- `SseHash::load_multiple_of_four(bytes)` where `bytes = mem[off .. off+len]` -/
def loadMultipleOfFour (mem : List (BitVec 8)) (off len : Nat) : BitVec 128 :=
  let mask4 := cvtsi64_si128 0xFFFFFFFF#64
  let (mask4, dataOff, dataLen, ret) :=
    if len ≥ 8 then (slli_si128 mask4 8, off + 8, len - 8, loadl_epi64 mem off)
    else (mask4, off, len, set_epi64x 0 0)
  if dataLen ≥ 4 then                      -- `data.get(..4)` is `Some`
    let last4 := le32 ((mem.take (off + len)).drop dataOff)
    let broadcast := set1_epi32 last4
    or_si128 ret (and_si128 broadcast mask4)
  else ret

/-- `SseHash::remainder(bytes) -> (packetH, packetL)`; `bytes = buf[..n]` (`buffer.as_slice()`) -/
def remainder (buf : List (BitVec 8)) (n : Nat) : BitVec 128 × BitVec 128 :=
  let bytes := buf.take n
  let sizeMod4 := n % 4
  if (n / 16) % 2 = 1 then                 -- `size_mod32 & 16 != 0`
    let packetL := loadu_si128 buf 0
    let packett := loadMultipleOfFour buf 16 (n - 16)
    let rem := bytes.drop ((n - sizeMod4) + sizeMod4 - 4)
    let last4 := le32 rem
    let packetH := insert_epi32 packett last4 3
    (packetH, packetL)
  else
    let rem := bytes.drop (n - sizeMod4)
    let packetL := loadMultipleOfFour buf 0 n
    let last4 := unorderedLoad3 rem
    let packetH := cvtsi64_si128 last4
    (packetH, packetL)

/-- `SseHash::rotate_32_by(count)` on one register -/
def rotate32By (v : BitVec 128) (count : Nat) : BitVec 128 :=
  let countLeft := cvtsi64_si128 (BitVec.ofNat 64 count)
  let countRight := cvtsi64_si128 (BitVec.ofNat 64 (2^64 + 32 - count))   -- `32 - count` in i64
  or_si128 (sll_epi32 v countLeft) (srl_epi32 v countRight)

/-- `SseHash::update_remainder` -/
def updateRemainder (x : State) : Regs :=
  let size := x.buffer.len
  let vsize := set1_epi32 (BitVec.ofNat 32 size)
  let s := x.r
  let s := { s with v0L := add_epi64 s.v0L vsize, v0H := add_epi64 s.v0H vsize }
  let s := { s with v1L := rotate32By s.v1L size, v1H := rotate32By s.v1H size }
  let p := remainder x.buffer.buf x.buffer.idx
  update s p.1 p.2

def finalizeCommon (n : Nat) (x : State) : Regs :=
  let s := if !x.buffer.isEmpty then updateRemainder x else x.r
  rounds n s

/-- `SseHash::finalize64` -/
def finalize64 (x : State) : BitVec 64 :=
  let s := finalizeCommon 4 x
  let sum0 := add_epi64 s.v0L s.mul0L
  let sum1 := add_epi64 s.v1L s.mul1L
  storel_epi64 (add_epi64 sum0 sum1)

/-- `SseHash::finalize128` -/
def finalize128 (x : State) : BitVec 64 × BitVec 64 :=
  let s := finalizeCommon 6 x
  let sum0 := add_epi64 s.v0L s.mul0L
  let sum1 := add_epi64 s.v1H s.mul1H
  storeu_si128 (add_epi64 sum0 sum1)

/-- `SseHash::modular_reduction(x, init)` -/
def modularReduction (x init : BitVec 128) : BitVec 128 :=
  let zero : BitVec 128 := 0
  let signBit128 := insert_epi32 zero 0x80000000#32 3
  let topBits2 := srli_epi64 x 62
  let shifted1Unmasked := add_epi64 x x
  let topBits1 := srli_epi64 x 63
  let shifted2 := add_epi64 shifted1Unmasked shifted1Unmasked
  let newLowBits2 := slli_si128 topBits2 8
  let shifted1 := andNot shifted1Unmasked signBit128
  let newLowBits1 := slli_si128 topBits1 8
  xor_si128 (xor_si128 (xor_si128 (xor_si128 init shifted2) newLowBits2) shifted1) newLowBits1

/-- `SseHash::finalize256` -/
def finalize256 (x : State) : BitVec 64 × BitVec 64 × BitVec 64 × BitVec 64 :=
  let s := finalizeCommon 10 x
  let sum0L := add_epi64 s.v0L s.mul0L
  let sum1L := add_epi64 s.v1L s.mul1L
  let sum0H := add_epi64 s.v0H s.mul0H
  let sum1H := add_epi64 s.v1H s.mul1H
  let hashL := modularReduction sum1L sum0L
  let hashH := modularReduction sum1H sum0H
  (lo64 hashL, hi64 hashL, lo64 hashH, hi64 hashH)

/-- `SseHash::append` -/
def append (x : State) (data : List (BitVec 8)) : State :=
  let r := appendG updPacket (x.r, x.buffer) data
  ⟨r.1, r.2⟩

/-- lanes in portable order (`as_arr` of each register: `[lo, hi]`) — the conversion at the top of
`SseHash::checkpoint` -/
def toPortable (s : Regs) : St :=
  ⟨⟨lo64 s.v0L, hi64 s.v0L, lo64 s.v0H, hi64 s.v0H⟩, ⟨lo64 s.v1L, hi64 s.v1L, lo64 s.v1H, hi64 s.v1H⟩,
   ⟨lo64 s.mul0L, hi64 s.mul0L, lo64 s.mul0H, hi64 s.mul0H⟩, ⟨lo64 s.mul1L, hi64 s.mul1L, lo64 s.mul1H, hi64 s.mul1H⟩⟩

/-- the `V2x64U::new(p[1], p[0])` conversions of `SseHash::force_from_checkpoint` -/
def fromPortable (p : St) : Regs :=
  ⟨set_epi64x p.v0.l1 p.v0.l0, set_epi64x p.v0.l3 p.v0.l2, set_epi64x p.v1.l1 p.v1.l0, set_epi64x p.v1.l3 p.v1.l2,
   set_epi64x p.mul0.l1 p.mul0.l0, set_epi64x p.mul0.l3 p.mul0.l2, set_epi64x p.mul1.l1 p.mul1.l0, set_epi64x p.mul1.l3 p.mul1.l2⟩

/-- `SseHash::checkpoint`: build a `PortableHash` and encode it -/
def checkpoint (x : State) : List (BitVec 8) := P.checkpoint ⟨toPortable x.r, x.buffer⟩

/-- `SseHash::force_from_checkpoint` -/
def fromCheckpoint (data : List (BitVec 8)) : State :=
  let p := P.fromCheckpoint data
  ⟨fromPortable p.st, p.buffer⟩

end Sse
end HH
