import HH.Proofs.Obs
import HH.Props.C01
import HH.Props.Irrelevance
/-!
# C02 — SSE4.1, AVX2 and the auto-selecting hasher equal portable on x86_64

For every key, byte string, chunking and width.  The quantifier over build configurations is
handled in two parts: `auto_eq_portable` quantifies over every `Cfg`/`Cpu` of the selection
ladder; that each real build configuration *is* described by these models is what the
configuration matrix of the correspondence check establishes (DESIGN.md C02).
-/
namespace HH.C02

/-- any back end constructed from a key, fed any chunk sequence, gives the portable (hence the
HighwayHash) result at every width -/
theorem backend_eq_portable (b : Backend) (k : V4) (h : Hasher) (hh : Hasher.new b k = some h)
    (chunks : List (List (BitVec 8))) (w : Width) :
    (chunks.foldl Hasher.append h).finalize w
      = (chunks.foldl Hasher.append (Hasher.portable (P.new k))).finalize w := by
  have hb := Hasher.new_abs b k h hh
  have hp := Hasher.new_abs .portable k (Hasher.portable (P.new k)) rfl
  exact (Hasher.obs_eq h _ hb.2 hp.2 (hb.1.trans hp.1.symm) chunks).1 w

theorem sse_hash64 (k : V4) (d : List (BitVec 8)) : Sse.finalize64 (Sse.append (Sse.new k) d) = P.hash64 k d := by
  have := backend_eq_portable .sse k (Hasher.sse (Sse.new k)) rfl [d] .w64
  simpa [Hasher.finalize, Hasher.append, Hasher.finalize64, P.hash64] using this

theorem sse_hash128 (k : V4) (d : List (BitVec 8)) : Sse.finalize128 (Sse.append (Sse.new k) d) = P.hash128 k d := by
  have := backend_eq_portable .sse k (Hasher.sse (Sse.new k)) rfl [d] .w128
  simpa [Hasher.finalize, Hasher.append, Hasher.finalize128, P.hash128] using this

theorem sse_hash256 (k : V4) (d : List (BitVec 8)) : Sse.finalize256 (Sse.append (Sse.new k) d) = P.hash256 k d := by
  have := backend_eq_portable .sse k (Hasher.sse (Sse.new k)) rfl [d] .w256
  simpa [Hasher.finalize, Hasher.append, Hasher.finalize256, P.hash256] using this

theorem avx_hash64 (k : V4) (d : List (BitVec 8)) : Avx.finalize64 (Avx.append (Avx.new k) d) = P.hash64 k d := by
  have := backend_eq_portable .avx k (Hasher.avx (Avx.new k)) rfl [d] .w64
  simpa [Hasher.finalize, Hasher.append, Hasher.finalize64, P.hash64] using this

theorem avx_hash128 (k : V4) (d : List (BitVec 8)) : Avx.finalize128 (Avx.append (Avx.new k) d) = P.hash128 k d := by
  have := backend_eq_portable .avx k (Hasher.avx (Avx.new k)) rfl [d] .w128
  simpa [Hasher.finalize, Hasher.append, Hasher.finalize128, P.hash128] using this

theorem avx_hash256 (k : V4) (d : List (BitVec 8)) : Avx.finalize256 (Avx.append (Avx.new k) d) = P.hash256 k d := by
  have := backend_eq_portable .avx k (Hasher.avx (Avx.new k)) rfl [d] .w256
  simpa [Hasher.finalize, Hasher.append, Hasher.finalize256, P.hash256] using this

/-- the dispatcher: whatever back end the ladder selects in whatever configuration -/
theorem auto_eq_portable (c : Cfg) (cpu : Cpu) (k : V4) (h : Hasher)
    (hh : Hasher.new (selectNew c cpu) k = some h) (chunks : List (List (BitVec 8))) (w : Width) :
    (chunks.foldl Hasher.append h).finalize w
      = (chunks.foldl Hasher.append (Hasher.portable (P.new k))).finalize w :=
  backend_eq_portable _ k h hh chunks w

/-- and therefore SSE / AVX compute the HighwayHash specification -/
theorem sse_eq_spec64 (k : V4) (d : List (BitVec 8)) : Sse.finalize64 (Sse.append (Sse.new k) d) = Spec.hash64 k d := by
  rw [sse_hash64, C01.hash64_eq_spec]
theorem avx_eq_spec256 (k : V4) (d : List (BitVec 8)) : Avx.finalize256 (Avx.append (Avx.new k) d) = Spec.hash256 k d := by
  rw [avx_hash256, C01.hash256_eq_spec]

/-- history level, every configuration at once: any two environments (target class, std, compile-time
and detected CPU features) produce identical outputs on every history of API calls over
`HighwayHasher` / `PortableHash` handles — constructors, appends through any entry point, clones,
checkpoints, restores from arbitrary bytes, finishes, finalisations — `Debug` tags excepted -/
theorem config_irrelevant (e1 e2 : Env) (ops : List Op) (hops : ∀ op ∈ ops, Irrelevance.opOk op) :
    Irrelevance.Orels (run e1 [] ops).2 (run e2 [] ops).2 :=
  Irrelevance.config_irrelevant_from_empty e1 e2 ops hops

/-- non-vacuity: the hypotheses are met by the real constructors -/
example : Hasher.new .sse ⟨1, 2, 3, 4⟩ = some (Hasher.sse (Sse.new ⟨1, 2, 3, 4⟩)) := rfl
example : Hasher.new (selectNew ⟨.x86_64, true, false, false⟩ ⟨true, true⟩) ⟨1, 2, 3, 4⟩
    = some (Hasher.avx (Avx.new ⟨1, 2, 3, 4⟩)) := rfl

end HH.C02
