import HH.Packet
import HH.Portable
import HH.Intrin.Wasm
/-!
# HH.WasmB — model of `src/wasm.rs` (`WasmHash`, its lane-reversed `V2x64U` and the emulated
`_mm_*` helpers), statement by statement.  `V2x64U::new(hi, low) = u64x2(hi, low)`: lane 0 holds
the HIGH half, lane 1 the low half; `as_arr() = [lane 1, lane 0]`.
-/
namespace HH
namespace WasmB
open Wasm

structure Regs where
  v0L : BitVec 128
  v0H : BitVec 128
  v1L : BitVec 128
  v1H : BitVec 128
  mul0L : BitVec 128
  mul0H : BitVec 128
  mul1L : BitVec 128
  mul1H : BitVec 128
deriving DecidableEq, Repr

structure State where
  r : Regs
  buffer : Pkt
deriving DecidableEq, Repr

/-- `V2x64U::new(hi, low)` -/
def v2new (hi low : BitVec 64) : BitVec 128 := u64x2 hi low
/-- `as_arr()[0]` (the low half) / `as_arr()[1]` -/
def lo (r : BitVec 128) : BitVec 64 := u64x2_extract_lane 1 r
def hi (r : BitVec 128) : BitVec 64 := u64x2_extract_lane 0 r
/-- `V2x64U::rotate_by_32`: `u32x4_shuffle::<1, 0, 3, 2>(x, x)` -/
def rotateBy32 (x : BitVec 128) : BitVec 128 := u32x4_shuffle 1 0 3 2 x x
/-- `V2x64U::and_not(self, neg_mask) = v128_andnot(self, neg_mask)` -/
def andNot (self negMask : BitVec 128) : BitVec 128 := v128_andnot self negMask
/-- `_mm_mul_epu32` -/
def mulEpu32 (a b : BitVec 128) : BitVec 128 :=
  let mask := u32x4 0xFFFFFFFF 0 0xFFFFFFFF 0
  u64x2_mul (v128_and a mask) (v128_and b mask)
/-- `_mm_srli_epi64` -/
def srliEpi64 (a : BitVec 128) (amt : Nat) : BitVec 128 := u64x2_shr a amt
/-- `_mm_slli_si128_8`: `u64x2_shuffle::<1, 2>(a, zero)` -/
def slli8 (a : BitVec 128) : BitVec 128 := u64x2_shuffle 1 2 a (u64x2 0 0)

def init0L := v2new 0xa4093822299f31d0#64 0xdbe6d5d5fe4cce2f#64
def init0H := v2new 0x243f6a8885a308d3#64 0x13198a2e03707344#64
def init1L := v2new 0xc0acf169b5f18a8c#64 0x3bd39e10cb0ef593#64
def init1H := v2new 0x452821e638d01377#64 0xbe5466cf34e90c6c#64

/-- `WasmHash::new` -/
def new (key : V4) : State :=
  let keyL := v2new key.l1 key.l0
  let keyH := v2new key.l3 key.l2
  { r := { v0L := v128_xor keyL init0L, v0H := v128_xor keyH init0H,
           v1L := v128_xor (rotateBy32 keyL) init1L, v1H := v128_xor (rotateBy32 keyH) init1H,
           mul0L := init0L, mul0H := init0H, mul1L := init1L, mul1H := init1H },
    buffer := Pkt.default }

/-- `impl Default for WasmHash` (after the `fix:` commit) -/
def default : State := new V4.zero

/-- `WasmHash::zipper_merge` -/
def zipperMerge (v : BitVec 128) : BitVec 128 :=
  u8x16_shuffle [3, 12, 2, 5, 1, 14, 0, 15, 11, 4, 10, 13, 6, 9, 7, 8] v v

/-- `WasmHash::update` -/
def update (s : Regs) (packetH packetL : BitVec 128) : Regs :=
  let v1L := u64x2_add s.v1L packetL
  let v1H := u64x2_add s.v1H packetH
  let v1L := u64x2_add v1L s.mul0L
  let v1H := u64x2_add v1H s.mul0H
  let mul0L := v128_xor s.mul0L (mulEpu32 v1L (rotateBy32 s.v0L))
  let mul0H := v128_xor s.mul0H (mulEpu32 v1H (srliEpi64 s.v0H 32))
  let v0L := u64x2_add s.v0L s.mul1L
  let v0H := u64x2_add s.v0H s.mul1H
  let mul1L := v128_xor s.mul1L (mulEpu32 v0L (rotateBy32 v1L))
  let mul1H := v128_xor s.mul1H (mulEpu32 v0H (srliEpi64 v1H 32))
  let v0L := u64x2_add v0L (zipperMerge v1L)
  let v0H := u64x2_add v0H (zipperMerge v1H)
  let v1L := u64x2_add v1L (zipperMerge v0L)
  let v1H := u64x2_add v1H (zipperMerge v0H)
  ⟨v0L, v0H, v1L, v1H, mul0L, mul0H, mul1L, mul1H⟩

/-- `WasmHash::data_to_lanes` (four `le_u64`) followed by `update` -/
def updPacket (s : Regs) (pkt : List (BitVec 8)) : Regs :=
  update s (v2new (le64 (pkt.drop 24)) (le64 (pkt.drop 16))) (v2new (le64 (pkt.drop 8)) (le64 pkt))

def permuteAndUpdate (s : Regs) : Regs := update s (rotateBy32 s.v0L) (rotateBy32 s.v0H)

def rounds : Nat → Regs → Regs
  | 0, s => s
  | n+1, s => rounds n (permuteAndUpdate s)

/-- `WasmHash::load_multiple_of_four(bytes)` (safe slices only) -/
def loadMultipleOfFour (bytes : List (BitVec 8)) : BitVec 128 :=
  let mask4 := v2new 0 0xFFFFFFFF#64
  let (mask4, data, ret) :=
    if bytes.length ≥ 8 then (slli8 mask4, bytes.drop 8, v2new 0 (le64 bytes))
    else (mask4, bytes, v2new 0 0)
  if data.length ≥ 4 then
    let last4 := le32 data
    v128_or ret (v128_and (u32x4 last4 last4 last4 last4) mask4)
  else ret

/-- `WasmHash::remainder(bytes)` -/
def remainder (bytes : List (BitVec 8)) : BitVec 128 × BitVec 128 :=
  let n := bytes.length
  let sizeMod4 := n % 4
  if n > 32 then (v2new 0 0, v2new 0 0)
  else if n ≥ 16 then
    let packetL := v2new (le64 (bytes.drop 8)) (le64 bytes)
    let packett := loadMultipleOfFour (bytes.drop 16)
    let rem := bytes.drop ((n - sizeMod4) + sizeMod4 - 4)
    let last4 := le32 rem
    let packetH := i32x4_replace_lane 1 packett last4
    (packetH, packetL)
  else
    let rem := bytes.drop (n - sizeMod4)
    let packetL := loadMultipleOfFour bytes
    let last4 := unorderedLoad3 rem
    let packetH := v2new 0 last4
    (packetH, packetL)

/-- `WasmHash::rotate_32_by(count)` on one register (shift counts are taken mod 32 by wasm) -/
def rotate32By (v : BitVec 128) (count : Nat) : BitVec 128 :=
  v128_or (u32x4_shl v count) (u32x4_shr v ((2 ^ 32 + 32 - count) % 2 ^ 32))

/-- `WasmHash::update_remainder` -/
def updateRemainder (x : State) : Regs :=
  let size := x.buffer.len
  let sz : BitVec 32 := BitVec.ofNat 32 size
  let vsize := u32x4 sz sz sz sz
  let s := x.r
  let s := { s with v0L := u64x2_add s.v0L vsize, v0H := u64x2_add s.v0H vsize }
  let s := { s with v1L := rotate32By s.v1L size, v1H := rotate32By s.v1H size }
  let p := remainder x.buffer.asSlice
  update s p.1 p.2

def finalizeCommon (n : Nat) (x : State) : Regs :=
  let s := if !x.buffer.isEmpty then updateRemainder x else x.r
  rounds n s

def finalize64 (x : State) : BitVec 64 :=
  let s := finalizeCommon 4 x
  u64x2_extract_lane 1 (u64x2_add (u64x2_add s.v0L s.mul0L) (u64x2_add s.v1L s.mul1L))

def finalize128 (x : State) : BitVec 64 × BitVec 64 :=
  let s := finalizeCommon 6 x
  let h := u64x2_add (u64x2_add s.v0L s.mul0L) (u64x2_add s.v1H s.mul1H)
  (u64x2_extract_lane 1 h, u64x2_extract_lane 0 h)

/-- `WasmHash::modular_reduction` -/
def modularReduction (x init : BitVec 128) : BitVec 128 :=
  let zero := v2new 0 0
  let signBit128 := i32x4_replace_lane 1 zero 0x80000000#32
  let topBits2 := srliEpi64 x 62
  let shifted1Unmasked := u64x2_add x x
  let topBits1 := srliEpi64 x 63
  let shifted2 := u64x2_add shifted1Unmasked shifted1Unmasked
  let newLowBits2 := slli8 topBits2
  let shifted1 := andNot shifted1Unmasked signBit128
  let newLowBits1 := slli8 topBits1
  v128_xor (v128_xor (v128_xor (v128_xor init shifted2) newLowBits2) shifted1) newLowBits1

def finalize256 (x : State) : BitVec 64 × BitVec 64 × BitVec 64 × BitVec 64 :=
  let s := finalizeCommon 10 x
  let hashL := modularReduction (u64x2_add s.v1L s.mul1L) (u64x2_add s.v0L s.mul0L)
  let hashH := modularReduction (u64x2_add s.v1H s.mul1H) (u64x2_add s.v0H s.mul0H)
  (u64x2_extract_lane 1 hashL, u64x2_extract_lane 0 hashL, u64x2_extract_lane 1 hashH, u64x2_extract_lane 0 hashH)

def append (x : State) (data : List (BitVec 8)) : State :=
  let r := appendG updPacket (x.r, x.buffer) data
  ⟨r.1, r.2⟩

/-- `as_arr` of each register: `[lane 1, lane 0]` -/
def toPortable (s : Regs) : St :=
  ⟨⟨lo s.v0L, hi s.v0L, lo s.v0H, hi s.v0H⟩, ⟨lo s.v1L, hi s.v1L, lo s.v1H, hi s.v1H⟩,
   ⟨lo s.mul0L, hi s.mul0L, lo s.mul0H, hi s.mul0H⟩, ⟨lo s.mul1L, hi s.mul1L, lo s.mul1H, hi s.mul1H⟩⟩

def fromPortable (p : St) : Regs :=
  ⟨v2new p.v0.l1 p.v0.l0, v2new p.v0.l3 p.v0.l2, v2new p.v1.l1 p.v1.l0, v2new p.v1.l3 p.v1.l2,
   v2new p.mul0.l1 p.mul0.l0, v2new p.mul0.l3 p.mul0.l2, v2new p.mul1.l1 p.mul1.l0, v2new p.mul1.l3 p.mul1.l2⟩

def checkpoint (x : State) : List (BitVec 8) := P.checkpoint ⟨toPortable x.r, x.buffer⟩

def fromCheckpoint (data : List (BitVec 8)) : State :=
  let p := P.fromCheckpoint data
  ⟨fromPortable p.st, p.buffer⟩

end WasmB
end HH
