import HH.Intrin.X86
import HH.Intrin.Wasm
import HH.Intrin.Neon
import HH.Hex
/-! # Evaluation of single modelled x86 intrinsics for the conformance stream (`intrin …` ops) -/
namespace HH
open X86

def bytes16 (x : BitVec 128) : List (BitVec 8) := (List.range 16).map fun i => x.extractLsb' (8 * i) 8

def evalX86 (name : String) (imm : Nat) (a : List (BitVec 128)) : Option (BitVec 128 × Option (BitVec 128)) :=
  let g (i : Nat) : BitVec 128 := a.getD i 0
  let one (v : BitVec 128) : Option (BitVec 128 × Option (BitVec 128)) := some (v, none)
  let two (v : R256) : Option (BitVec 128 × Option (BitVec 128)) := some (v.lo, some v.hi)
  match name with
  | "add_epi64" => one (add_epi64 (g 0) (g 1))
  | "sub_epi64" => one (sub_epi64 (g 0) (g 1))
  | "sub_epi32" => one (sub_epi32 (g 0) (g 1))
  | "mul_epu32" => one (mul_epu32 (g 0) (g 1))
  | "andnot_si128" => one (andnot_si128 (g 0) (g 1))
  | "shuffle_epi8" => one (shuffle_epi8 (g 0) (g 1))
  | "shuffle_epi32" => one (shuffle_epi32 (g 0) imm)
  | "srli_epi64" => one (srli_epi64 (g 0) imm)
  | "slli_epi64" => one (slli_epi64 (g 0) imm)
  | "slli_si128" => one (slli_si128 (g 0) imm)
  | "insert_epi32" => one (insert_epi32 (g 0) ((g 1).setWidth 32) imm)
  | "sll_epi32" => one (sll_epi32 (g 0) (g 1))
  | "srl_epi32" => one (srl_epi32 (g 0) (g 1))
  | "sllv_epi32" => one (sllv_epi32 (g 0) (g 1))
  | "srlv_epi32" => one (srlv_epi32 (g 0) (g 1))
  | "cmpgt_epi32" => one (cmpgt_epi32 (g 0) (g 1))
  | "cmpeq_epi64" => one (cmpeq_epi64 (g 0) (g 1))
  | "unpacklo_epi64" => one (unpacklo_epi64 (g 0) (g 1))
  | "cvtsi64_si128" => one (cvtsi64_si128 ((g 0).setWidth 64))
  | "cvtsi32_si128" => one (cvtsi32_si128 ((g 0).setWidth 32))
  | "set1_epi32" => one (set1_epi32 ((g 0).setWidth 32))
  | "maskload_epi32" => one (maskload_epi32 (bytes16 (g 0)) 0 (g 1))
  | "loadl_epi64" => one (loadl_epi64 (bytes16 (g 0)) 0)
  | "broadcastd_epi32" => two (broadcastd_epi32 (g 0))
  | "permutevar8x32_epi32" => two (permutevar8x32_epi32 ⟨g 0, g 1⟩ ⟨g 2, g 3⟩)
  | "slli256_si256" => two (slli256_si256 ⟨g 0, g 1⟩ imm)
  | "shuffle256_epi8" => two (shuffle256_epi8 ⟨g 0, g 1⟩ ⟨g 2, g 3⟩)
  | "inserti128_si256" => two (inserti128_si256 ⟨g 0, g 1⟩ (g 2) imm)
  | _ => none

/-- single modelled wasm32 simd128 intrinsics (`intrin w… <imm> <operands>` on the wasm runners) -/
def evalWasm (name : String) (imm : Nat) (a : List (BitVec 128)) : Option (BitVec 128) :=
  let g (i : Nat) : BitVec 128 := a.getD i 0
  match name with
  | "wadd" => some (Wasm.u64x2_add (g 0) (g 1))
  | "wsub" => some (Wasm.u64x2_sub (g 0) (g 1))
  | "wmul" => some (Wasm.u64x2_mul (g 0) (g 1))
  | "wand" => some (Wasm.v128_and (g 0) (g 1))
  | "wor" => some (Wasm.v128_or (g 0) (g 1))
  | "wxor" => some (Wasm.v128_xor (g 0) (g 1))
  | "wandnot" => some (Wasm.v128_andnot (g 0) (g 1))
  | "wshr64" => some (Wasm.u64x2_shr (g 0) imm)
  | "wshl64" => some (Wasm.u64x2_shl (g 0) imm)
  | "wshr32" => some (Wasm.u32x4_shr (g 0) imm)
  | "wshl32" => some (Wasm.u32x4_shl (g 0) imm)
  | "wrepl" => if imm < 4 then some (Wasm.i32x4_replace_lane imm (g 0) ((g 1).setWidth 32)) else none
  | "wzip" => some (Wasm.u8x16_shuffle [3, 12, 2, 5, 1, 14, 0, 15, 11, 4, 10, 13, 6, 9, 7, 8] (g 0) (g 1))
  | "wrot" => some (Wasm.u32x4_shuffle 1 0 3 2 (g 0) (g 1))
  | "wsh12" => some (Wasm.u64x2_shuffle 1 2 (g 0) (g 1))
  | "wext" => if imm < 2 then some ((Wasm.u64x2_extract_lane imm (g 0)).setWidth 128) else none
  | "wswz" => some (Wasm.u8x16_swizzle (g 0) (g 1))
  | "wmk64" => some (Wasm.u64x2 ((g 0).setWidth 64) ((g 1).setWidth 64))
  | "wmk32" => some (Wasm.u32x4 ((g 0).setWidth 32) ((g 1).setWidth 32) ((g 2).setWidth 32) ((g 3).setWidth 32))
  | _ => none

def u128Hex (x : BitVec 128) : String := u64Hex ((x >>> 64).setWidth 64) ++ u64Hex (x.setWidth 64)

/-- single modelled NEON intrinsics (`intrin n… <imm> <operands>` on the aarch64 Miri runner); 64-bit d registers are the
low halves of the operands / zero-extended in the result -/
def evalNeon (name : String) (imm : Nat) (a : List (BitVec 128)) : Option (BitVec 128) :=
  let g (i : Nat) : BitVec 128 := a.getD i 0
  let d (i : Nat) : BitVec 64 := (g i).setWidth 64
  match name with
  | "nadd" => some (Neon.vaddq_u64 (g 0) (g 1))
  | "nsub" => some (Neon.vsubq_u64 (g 0) (g 1))
  | "nand" => some (Neon.vandq_u64 (g 0) (g 1))
  | "norr" => some (Neon.vorrq_u64 (g 0) (g 1))
  | "neor" => some (Neon.veorq_u64 (g 0) (g 1))
  | "nbic" => some (Neon.vbicq_u64 (g 0) (g 1))
  | "nmovn" => some ((Neon.vmovn_u64 (g 0)).setWidth 128)
  | "nshrn" => some ((Neon.vshrn_n_u64 (g 0) imm).setWidth 128)
  | "nmull" => some (Neon.vmull_u32 (d 0) (d 1))
  | "nshrq" => some (Neon.vshrq_n_u64 (g 0) imm)
  | "nrev" => some (Neon.vrev64q_u32 (g 0))
  | "nsetl" => if imm < 4 then some (Neon.vsetq_lane_u32 ((g 0).setWidth 32) (g 1) imm) else none
  | "ntbl" => some (Neon.vqtbl1q_u8 (g 0) (g 1))
  | "next" => if imm < 16 then some (Neon.vextq_u8 (g 0) (g 1) imm) else none
  | "nshl" => some (Neon.vshlq_u32 (g 0) (g 1))
  | "ndup64" => some (Neon.vdupq_n_u64 (d 0))
  | "ndup32" => some (Neon.vdupq_n_u32 ((g 0).setWidth 32))
  | "ndup8" => some (Neon.vdupq_n_u8 ((g 0).setWidth 8))
  | "nld64" => some (Neon.vld1q_u64 (d 0) (d 1))
  | "nld8" => some (Neon.vld1q_u8 (bytes16 (g 0)) 0)
  | _ => none

def intrinLineNeon (toks : List String) : Option String :=
  match toks with
  | "intrin" :: name :: imm :: ops => do
    let i ← imm.toNat?
    let vs ← ops.mapM fun s => (parseHexNat? s).map (BitVec.ofNat 128)
    match evalNeon name i vs with
    | some v => some (u128Hex v)
    | none => some "bad-op"
  | _ => none

def intrinLineWasm (toks : List String) : Option String :=
  match toks with
  | "intrin" :: name :: imm :: ops => do
    let i ← imm.toNat?
    let vs ← ops.mapM fun s => (parseHexNat? s).map (BitVec.ofNat 128)
    match evalWasm name i vs with
    | some v => some (u128Hex v)
    | none => some "bad-op"
  | _ => none

def intrinLine (toks : List String) : Option String :=
  match toks with
  | "intrin" :: name :: imm :: ops => do
    let i ← imm.toNat?
    let vs ← ops.mapM fun s => (parseHexNat? s).map (BitVec.ofNat 128)
    match evalX86 name i vs with
    | some (lo, none) => some (u128Hex lo)
    | some (lo, some hi) => some (u128Hex lo ++ " " ++ u128Hex hi)
    | none => some "bad-op"
  | _ => none

end HH
