import HH.Sse
import HH.Proofs.X86Lemmas
import HH.Proofs.PortableSpec
import Mathlib.Tactic.IntervalCases
/-!
# The SSE4.1 model refines the portable model (step lemmas, valid for ALL register states)
-/
namespace HH
namespace Sse
open X86

theorem rotateBy32_eq (x : BitVec 128) : rotateBy32 x = shuffle_epi32 x 177 := rfl

/-- packet registers in portable lane order -/
def lanesOfRegs (pH pL : BitVec 128) : V4 := ⟨lo64 pL, hi64 pL, lo64 pH, hi64 pH⟩

theorem update_refines (r : Regs) (pH pL : BitVec 128) :
    toPortable (update r pH pL) = P.update (toPortable r) (lanesOfRegs pH pL) := by
  simp only [update, toPortable, P.update, lanesOfRegs, zipperMerge, rotateBy32_eq, zipper_shuffle, mul_epu32_rot,
    mul_epu32_srli, lo64_add, hi64_add, lo64_xor, hi64_xor, lo64_mk, hi64_mk, V4.add, V4.xor, V4.zipWith, P.zipperAdd]

theorem loadu_lanes (pkt : List (BitVec 8)) :
    lanesOfRegs (loadu_si128 pkt 16) (loadu_si128 pkt 0) = P.dataToLanes pkt := by
  simp [lanesOfRegs, loadu_si128, ofBytes16, P.dataToLanes]

theorem updPacket_refines (r : Regs) (pkt : List (BitVec 8)) :
    toPortable (updPacket r pkt) = P.updPacket (toPortable r) pkt := by
  simp only [updPacket, update_refines, loadu_lanes, P.updPacket]

theorem permuteAndUpdate_refines (r : Regs) :
    toPortable (permuteAndUpdate r) = P.permuteAndUpdate (toPortable r) := by
  simp only [permuteAndUpdate, update_refines, P.permuteAndUpdate]
  congr 1
  simp [lanesOfRegs, rotateBy32_eq, shuffle_epi32_rot, P.permute, toPortable]

theorem rounds_refines (n : Nat) (r : Regs) : toPortable (rounds n r) = P.rounds n (toPortable r) := by
  induction n generalizing r with
  | zero => rfl
  | succ n ih => simp only [rounds, P.rounds, ih, permuteAndUpdate_refines]

theorem toPortable_fromPortable (p : St) : toPortable (fromPortable p) = p := by
  simp [toPortable, fromPortable]

theorem fromPortable_toPortable (r : Regs) : fromPortable (toPortable r) = r := by
  simp [toPortable, fromPortable, set_epi64x, mk_lo_hi]

theorem new_refines (k : V4) : toPortable (new k).r = (P.new k).st := by
  simp [new, toPortable, P.new, rotateBy32_eq, shuffle_epi32_rot, init0L, init0H, init1L, init1H, P.init0, P.init1,
    V4.zipWith, V4.map]
  refine ⟨⟨?_, ?_, ?_, ?_⟩, ⟨?_, ?_, ?_, ?_⟩⟩ <;> exact BitVec.xor_comm _ _

end Sse
end HH

namespace HH
namespace Sse
open X86

/-! ### remainder: every pending count 0..31, all byte values -/

set_option maxRecDepth 100000 in
set_option maxHeartbeats 8000000 in
theorem remainder_refines_fn (n : Nat) (h : n < 32) (f : Fin 32 → BitVec 8) :
    lanesOfRegs (remainder (List.ofFn f) n).1 (remainder (List.ofFn f) n).2
      = P.dataToLanes (P.remainder ((List.ofFn f).take n)) := by
  interval_cases n <;>
  (simp [remainder, loadMultipleOfFour, P.remainder, P.dataToLanes, lanesOfRegs, unorderedLoad3, zeros, List.ofFn_succ,
    List.replicate, List.set, List.zipWith, loadu_si128]
   try simp only [ofBytes16_mk32, loadl_mk32, zero_mk32, mask_lo, mask_hi, set1_mk32, and_mk32, or_mk32, insert3, lo64_mk32, hi64_mk32, le64_join,
    List.drop_succ_cons, List.drop_zero]
   try simp only [cvtsi64_si128, lo64_mk, hi64_mk, load3_1, load3_2, load3_3]
   try simp [le32_cons4, le32_zero4, and_ones32, join32_zero])

theorem list_eq_ofFn (buf : List (BitVec 8)) (h : buf.length = 32) :
    buf = List.ofFn (fun i : Fin 32 => buf[i.val]'(by omega)) := by
  apply List.ext_getElem
  · simp [h]
  · intro i h1 h2; rw [List.getElem_ofFn]

theorem remainder_refines (buf : List (BitVec 8)) (n : Nat) (hb : buf.length = 32) (h : n < 32) :
    lanesOfRegs (remainder buf n).1 (remainder buf n).2 = P.dataToLanes (P.remainder (buf.take n)) := by
  rw [list_eq_ofFn buf hb]
  exact remainder_refines_fn n h _

end Sse
end HH

namespace HH
namespace Sse
open X86

/-! ### length injection and rotation -/

theorem vsize_add (v : BitVec 128) (n : Nat) (h : n < 32) :
    add_epi64 v (set1_epi32 (BitVec.ofNat 32 n)) =
      mk (hi64 v + ((BitVec.ofNat 64 n <<< 32) + BitVec.ofNat 64 n)) (lo64 v + ((BitVec.ofNat 64 n <<< 32) + BitVec.ofNat 64 n)) := by
  apply ext128
  · simp only [lo64_add, lo64_mk]; congr 1
    interval_cases n <;> decide
  · simp only [hi64_add, hi64_mk]; congr 1
    interval_cases n <;> decide

theorem rotate32By_lanes (v : BitVec 128) (n : Nat) (h : n < 32) :
    rotate32By v n = mk (P.rot32Lane n (hi64 v)) (P.rot32Lane n (lo64 v)) := by
  have hn : (BitVec.ofNat 64 n).toNat = n := by simp [BitVec.toNat_ofNat]; omega
  by_cases h0 : n = 0
  · subst h0
    have hr : (BitVec.ofNat 64 (2 ^ 64 + 32 - 0)).toNat = 32 := by decide
    have h32 : (32 : Nat) > 31 := by decide
    simp only [rotate32By, sll_epi32, srl_epi32, cvtsi64_si128, lo64_mk, hn, hr, rot32Lane_zero, Nat.not_lt_zero, ↓reduceIte,
      gt_iff_lt, h32, BitVec.shiftLeft_zero, or_si128, mk32_lanes, mk_lo_hi]
    simp
  · have hr : (BitVec.ofNat 64 (2 ^ 64 + 32 - n)).toNat = 32 - n := by simp [BitVec.toNat_ofNat]; omega
    have h1 : ¬ n > 31 := by omega
    have h2 : ¬ 32 - n > 31 := by omega
    simp only [rotate32By, sll_epi32, srl_epi32, cvtsi64_si128, lo64_mk, hn, hr, h1, h2, ↓reduceIte, or_mk32]
    simp only [mk32_eq_mk, rot32Lane_join n h0 h, lane32_0, lane32_1, lane32_2, lane32_3, rot32]

theorem updateRemainder_refines (x : State) (hb : x.buffer.buf.length = 32) (hi : x.buffer.idx < 32) :
    toPortable (updateRemainder x) =
      P.update (P.updateLanes (toPortable x.r) x.buffer.idx) (P.dataToLanes (P.remainder (x.buffer.buf.take x.buffer.idx))) := by
  simp only [updateRemainder, update_refines, remainder_refines _ _ hb hi, Pkt.len]
  congr 1
  simp only [toPortable, P.updateLanes, vsize_add _ _ hi, rotate32By_lanes _ _ hi, lo64_mk, hi64_mk, V4.map]

/-! ### finalisation -/

theorem finalizeCommon_refines (n : Nat) (x : State) (hx : x.buffer.Inv) :
    toPortable (finalizeCommon n x) = P.finAbs n (toPortable x.r, x.buffer.asSlice) := by
  obtain ⟨hi, hb⟩ := hx
  have hl : (List.take x.buffer.idx x.buffer.buf).length = x.buffer.idx := by simp; omega
  simp only [finalizeCommon, rounds_refines, P.finAbs, Pkt.asSlice, hl, Pkt.isEmpty]
  by_cases h0 : x.buffer.idx = 0
  · simp [h0]
  · simp [h0, updateRemainder_refines x hb hi]

theorem modularReduction_refines (x init : BitVec 128) :
    (lo64 (modularReduction x init), hi64 (modularReduction x init))
      = P.moduleReduction (hi64 x) (lo64 x) (hi64 init) (lo64 init) := by
  have h62 : ¬ (62 : Nat) > 63 := by decide
  have h63 : ¬ (63 : Nat) > 63 := by decide
  simp only [modularReduction, P.moduleReduction, andNot, lo64_xor, hi64_xor, lo64_slli8, hi64_slli8, lo64_srli _ _ h62, lo64_srli _ _ h63,
    hi64_srli _ _ h62, hi64_srli _ _ h63, lo64_andnot, hi64_andnot, lo64_add, hi64_add, add_self_shl, shl1_shl1, signBit_lo, signBit_hi, Prod.mk.injEq]
  constructor <;> bv_lsb

theorem finalize64_refines (x : State) (hx : x.buffer.Inv) :
    finalize64 x = P.out64 (P.finAbs 4 (toPortable x.r, x.buffer.asSlice)) := by
  rw [← finalizeCommon_refines 4 x hx]
  simp only [finalize64, storel_epi64, lo64_add, P.out64, toPortable]
  ac_rfl

theorem finalize128_refines (x : State) (hx : x.buffer.Inv) :
    finalize128 x = P.out128 (P.finAbs 6 (toPortable x.r, x.buffer.asSlice)) := by
  rw [← finalizeCommon_refines 6 x hx]
  simp only [finalize128, storeu_si128, lo64_add, hi64_add, P.out128, toPortable, Prod.mk.injEq]
  constructor <;> ac_rfl

theorem finalize256_refines (x : State) (hx : x.buffer.Inv) :
    finalize256 x = P.out256 (P.finAbs 10 (toPortable x.r, x.buffer.asSlice)) := by
  rw [← finalizeCommon_refines 10 x hx]
  simp only [finalize256, P.out256, toPortable]
  have h1 := modularReduction_refines (add_epi64 (finalizeCommon 10 x).v1L (finalizeCommon 10 x).mul1L)
    (add_epi64 (finalizeCommon 10 x).v0L (finalizeCommon 10 x).mul0L)
  have h2 := modularReduction_refines (add_epi64 (finalizeCommon 10 x).v1H (finalizeCommon 10 x).mul1H)
    (add_epi64 (finalizeCommon 10 x).v0H (finalizeCommon 10 x).mul0H)
  simp only [lo64_add, hi64_add] at h1 h2
  rw [← h1, ← h2]

/-! ### append, checkpoint, restore on abstract states -/

/-- abstraction of an SSE hasher: portable-order lanes + pending bytes -/
def abs (x : State) : St × List (BitVec 8) := (toPortable x.r, x.buffer.asSlice)

theorem append_abs (x : State) (d : List (BitVec 8)) (hx : x.buffer.Inv) :
    abs (append x d) = AbsAppend P.updPacket (abs x) d ∧ (append x d).buffer.Inv := by
  have h := appendG_abs updPacket (x.r, x.buffer) d hx
  refine ⟨?_, h.2⟩
  have h1 := h.1
  simp only [absP] at h1
  simp only [abs, append, Pkt.asSlice]
  have hm := AbsAppend_map toPortable updPacket P.updPacket updPacket_refines (x.r, List.take x.buffer.idx x.buffer.buf) d
  rw [← hm, ← h1]

theorem new_abs (k : V4) : abs (new k) = (Spec.reset k, []) ∧ (new k).buffer.Inv := by
  refine ⟨?_, Pkt.default_inv⟩
  have := P.new_abs k
  simp only [absP] at this
  simp only [abs, new_refines, Pkt.asSlice]
  exact this

end Sse
end HH
