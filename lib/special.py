"""Property-specific stages: regenerated source facts (C15-C18), forbid(unsafe_code) compile check
(C16), Miri cross-target runs (C17, C03), allocation counting (C18)."""
import shutil
import json, os, random, re, shutil
import hh, gen, props as P, theorems as T
from gen import B, rkey, rbytes, kstr, split_chunks
from hh import hexbytes

FACTS_LEAN = os.path.join(hh.LEAN, "HH", "Generated", "SourceFacts.lean")
FACTS_JSON = os.path.join(hh.BUILD, "facts.json")
PORTABLE_FILES = ("lib.rs", "portable.rs", "internal.rs", "key.rs", "traits.rs", "macros.rs", "hash.rs")


def pre_facts(res):
    """translator: /repo/src -> HH/Generated/SourceFacts.lean (rewritten only when it changes)"""
    hh.ensure_repo_link()
    cdir = os.path.join(hh.ROOT, "harness", "facts")
    rc, out, err = hh.sh(["cargo", "build", "--offline", "--release", "-q"], cwd=cdir, env={"CARGO_TARGET_DIR": os.path.join(hh.BUILD, "t-facts")}, timeout=1800)
    res.facts_error = None
    if rc != 0:
        res.facts_error = "facts translator does not build: " + (out + err)[-1500:]
        return
    tmp = FACTS_LEAN + ".new"
    rc, out, err = hh.sh([os.path.join(hh.BUILD, "t-facts", "release", "facts"), os.path.join(hh.REPO, "src"), tmp, FACTS_JSON], timeout=600)
    if rc != 0:
        res.facts_error = "source does not parse: " + (out + err)[-1500:]
        return
    new = open(tmp).read()
    old = open(FACTS_LEAN).read() if os.path.exists(FACTS_LEAN) else None
    if new != old:
        os.replace(tmp, FACTS_LEAN)
    else:
        os.unlink(tmp)
    res.facts = json.load(open(FACTS_JSON))["facts"]
    res.cov["programs"] = len(json.load(open(FACTS_JSON))["files"])
    res.cov["facts"] = len(res.facts)


def span(f):
    return f"src/{f['file']}:{f['line']}: {f['kind']} {f['detail']}"


def facts_judge(res, pid, concrete):
    """when a facts theorem no longer checks: list the concrete offending source spans (the failing
    'input' of a property about program text).  `concrete(f)` says whether fact f violates the
    property itself (not merely the allow-list of the theorem)."""
    if getattr(res, "facts_error", None):
        res.replay(dict(kind="impl-violates-property", message=res.facts_error))
        res.n_oracle_fail += 1
        return
    bad = [f for f in res.facts if concrete(f)]
    if bad:
        res.replay(dict(kind="impl-violates-property", message=f"{len(bad)} source construct(s) violate the property", spans=[span(f) for f in bad[:20]]))
        res.n_oracle_fail += 1
        res.samples.append(dict(violating_spans=[span(f) for f in bad[:5]]))


# ---------------------------------------------------------------- cross-target stages (big-endian / 32-bit under Miri)
def cross_target_stage(res, pid, tier, seed, workdir, stats, gen_fn, targets=None):
    """the property's own oracle and the correspondence on the REAL portable path / dispatcher compiled
    for a big-endian (s390x) and, in thorough or when asked, 32-bit (i686, powerpc) target under Miri; the
    Lean model is target independent.  An unavailable Miri target is recorded, never an alarm."""
    targets = targets or (["s390x"] if tier == "quick" else ["s390x", "powerpc", "i686"])
    for tkey in targets:
        holder = {}

        def ex(cases, tag, tkey=tkey, holder=holder):
            outs, crashed, info = hh.run_miri(tkey, cases, workdir, tag, shards=(hh.NPROC if tier == "thorough" else 6))
            holder["info"] = info
            return outs, crashed
        ptr, endian = {"s390x": ("64", "big"), "powerpc": ("32", "big"), "i686": ("32", "little")}.get(tkey, ("64", "little"))
        info0 = {"arch": "other", "std": "1", "ptr": ptr, "endian": endian,
                 "_line": f"cfg arch=other std=1 tf_sse41=0 tf_avx2=0 simd128=0 cpu_sse41=0 cpu_avx2=0 ptr={ptr} endian={endian}"}
        if not miri_ok(tkey):
            res.notes.append(f"Miri target {tkey} unavailable: cross-target stage not executed")
            continue
        st = check_mod().run_config(res, pid, tier, seed, f"miri-{tkey}", None, info0, workdir, gen_override=gen_fn, executor=ex, label=f"{pid}-cross-{tkey}")
        st["target_info"] = (holder.get("info") or {}).get("_line")
        stats.append(st)


_MIRI_OK = {}


def miri_ok(tkey):
    if tkey not in _MIRI_OK:
        _MIRI_OK[tkey] = hh.miri_available(tkey)
    return _MIRI_OK[tkey]


def gen_cross_c01(r, tier, info):
    cases = []
    lens = list(range(0, 34)) + [47, 63, 64, 65, 100] if tier == "quick" else list(range(0, 131))
    for n in lens:
        key = rkey(r)
        data = rbytes(r, n)
        w = (64, 128, 256)[n % 3]
        b = B(f"c01x-{n}-{w}", [f"len%32={n % 32}", f"w{w}"])
        i = b.op(f"hash portable {w} {kstr(key)} {hexbytes(data)}")
        b.spec = (i, f"spec {w} {kstr(key)} {hexbytes(data)}")
        cases.append(b)
    return cases


def gen_cross_c05(r, tier, info):
    cases = []
    for s in ("portable", "auto"):
        fills = range(0, 32, 3) if tier == "quick" else range(32)
        cases += gen.grid(r, s, fills, [0, 1, 31, 32, 33, 64, 70] if tier == "quick" else r.sample(gen.CHUNK_LENS, 12), entry="mix")
    return cases


def gen_cross_c06(r, tier, info):
    return [gen.ckpt_hops(r, ["portable", "auto"], rbytes(r, n), sorted(r.randrange(0, n + 1) for _ in range(r.randrange(1, 3))),
                          r.choice((64, 128, 256)), rkey(r)) for n in (list(range(0, 70, 2)) if tier == "quick" else range(0, 131))]


def gen_cross_c11(r, tier, info):
    return [gen.malformed(r, ["portable", "auto"], count=c) for c in gen.COUNTS] + \
           [gen.malformed(r, ["portable", "auto"]) for _ in range(6 if tier == "quick" else 100)]


def gen_cross_c13(r, tier, info):
    return [gen.observers(r, ["portable", "auto"]) for _ in range(25 if tier == "quick" else 300)]


def gen_cross_c14(r, tier, info):
    return [gen.ckpt_canon(r, ["portable", "auto"], rbytes(r, n), rkey(r)) for n in (range(0, 100, 3) if tier == "quick" else range(0, 200))]


def mk_cross(pid, g, targets_quick=None):
    def f(res, tier, seed, workdir, stats):
        cross_target_stage(res, pid, tier, seed, workdir, stats, g, targets=(targets_quick if tier == "quick" else None))
    return f


# ---------------------------------------------------------------- C15 (source half)
def special_c15(res, tier, seed, workdir, stats):
    def concrete(f):
        if f["test"]:
            return False
        if f["kind"] == "global":      # immutable `static` tables are not state (mirrors HH.C15.immutableStatic)
            return not (f["detail"].startswith("static ") and not f["detail"].startswith("static mut "))
        return f["kind"] == "extern_block"
    facts_judge(res, "C15", concrete)
    threads_stage(res, tier, seed, workdir, stats)


def threads_stage(res, tier, seed, workdir, stats):
    """the same independent histories executed concurrently on 16 threads (each thread its own
    handle table, hashers from shared-key builders included) must give exactly the outputs of the
    sequential run"""
    binp, blog = hh.build_runner("rel-std-base")
    if binp is None:
        return
    info = hh.runner_info(binp)
    r = random.Random(seed * 31337 + 5)
    bs = [gen.interleave(r, P.sels_for(info), nh=r.randrange(2, 6), force=True) for _ in range(60 if tier == "quick" else 600)] + \
         [gen.builders(r) for _ in range(60 if tier == "quick" else 600)] + \
         [gen.shared_builders(r, info) for _ in range(40 if tier == "quick" else 400)] + \
         [gen.shared_stress(r) for _ in range(48 if tier == "quick" else 300)]
    cases = [b.case() for b in bs]
    seq, _ = hh.run_real(binp, cases, workdir, "C15.threads.seq", shards=1)
    par, crashed = hh.run_real(binp, cases, workdir, "C15.threads.par", extra_args=["--threads=16"], shards=1)
    bad = 0
    for k, c in enumerate(cases):
        if seq[k] != par[k]:
            bad += 1
            if bad <= 2:
                d = hh.first_diff(seq[k], par[k])
                res.replay(dict(kind="impl-violates-property", config="rel-std-base --threads=16",
                                message=f"result differs between sequential and 16-thread concurrent execution at op `{c.ops[d][:80] if d is not None and d < len(c.ops) else '?'}`",
                                ops=c.ops, sequential=seq[k], concurrent=par[k]))
    res.n_oracle_fail += bad
    res.evals += len(cases)
    stats.append(dict(config="rel-std-base", threads=16, cases=len(cases), differing=bad, crashed=len(crashed)))


# ---------------------------------------------------------------- C16
def c16_concrete(f):
    if f["file"] not in PORTABLE_FILES:
        return False
    if f["kind"] == "unsafe":
        return True
    if f["kind"] == "lint" and "unsafe_code" in f["detail"] and not re.match(r"^inner (deny|forbid)\(unsafe_code\)$", f["detail"]):
        return True
    if f["kind"] in ("extern_block",) or (f["kind"] == "unsafe_attr"):
        return True
    return False


CORE_FILES = ("portable.rs", "internal.rs", "key.rs", "traits.rs", "macros.rs")


def portable_closure(facts):
    """mirror of HH.FactsLib.portableClosure (only used to name the offending spans in the replay; the
    decision is the Lean theorem C16.module_closure over the same table)"""
    files = sorted({f["file"] for f in facts})

    def module_files(m):
        return [f for f in files if f == m + ".rs" or f.startswith(m + "/")]

    def reexport(name):
        for f in facts:
            segs = f["detail"].split("::")
            if f["file"] == "lib.rs" and f["kind"] == "crate_path" and not f["test"] and len(segs) >= 3 and segs[-1] == name:
                return segs[1]
        return None

    def targets(p):
        segs = p.split("::")
        if len(segs) < 2:
            return []
        m = segs[1]
        if module_files(m):
            return module_files(m)
        m2 = reexport(m)
        return module_files(m2) if m2 else ["lib.rs"]

    def stem(file):
        s_ = file[:-3]
        return s_[:-4] if s_.endswith("/mod") else s_

    def refs(file):
        out = []
        for f in facts:
            if f["file"] != file or f["test"]:
                continue
            if f["kind"] == "crate_path":
                out += [(t, f) for t in targets(f["detail"])]
            elif f["kind"] == "mod" and " inline" not in f["detail"] and file != "lib.rs":
                out += [(t, f) for t in module_files(stem(file) + "/" + f["detail"].split(" ")[0])]
        return out
    cur = list(CORE_FILES)
    why = {}
    for _ in range(len(files)):
        for file in list(cur):
            for t, f in refs(file):
                if t not in cur:
                    cur.append(t)
                    why[t] = f
    return cur, why


def special_c16(res, tier, seed, workdir, stats):
    facts_judge(res, "C16", c16_concrete)
    if getattr(res, "facts", None):
        clo, why = portable_closure(res.facts)
        extra = [f for f in res.facts if f["file"] in clo and f["file"] not in PORTABLE_FILES and
                 (f["kind"] in ("unsafe", "unsafe_attr", "extern_block") or
                  (f["kind"] in ("lint", "crate_attr") and "unsafe_code" in f["detail"] and not re.match(r"^(inner|outer) (deny|forbid)\(unsafe_code\)$", f["detail"])))]
        res.cov["portable_closure_files"] = clo
        if extra:
            reached = sorted({f["file"] for f in extra})
            res.replay(dict(kind="impl-violates-property",
                            message=f"the portable path reaches unsafe code outside its own files: {reached}",
                            reached_through=[span(why[t]) for t in reached if t in why], spans=[span(f) for f in extra[:20]]))
            res.n_oracle_fail += 1
    if getattr(res, "facts", None) and not any(f["file"] == "lib.rs" and f["kind"] == "lint" and re.match(r"^inner (deny|forbid)\(unsafe_code\)$", f["detail"]) for f in res.facts):
        res.replay(dict(kind="impl-violates-property", message="src/lib.rs no longer carries #![deny(unsafe_code)]"))
        res.n_oracle_fail += 1
    # supporting compile check: the files of the portable closure, included by #[path] into a crate with
    # #![forbid(unsafe_code)] (generated under .build from harness/forbid, one `mod` per top-level closure file)
    src_dir = os.path.realpath(os.path.join(hh.REPO, "src"))
    gdir = os.path.join(hh.BUILD, "forbid-gen")
    os.makedirs(os.path.join(gdir, "src"), exist_ok=True)
    shutil.copy(os.path.join(hh.ROOT, "harness", "forbid", "Cargo.toml"), os.path.join(gdir, "Cargo.toml"))
    base = open(os.path.join(hh.ROOT, "harness", "forbid", "src", "lib.rs")).read().replace("../../../.build/repo/src", src_dir)
    extra = []
    if getattr(res, "facts", None):
        std_mods = {"macros", "internal", "key", "portable", "traits", "hash", "lib", "builder"}
        tops = sorted({f.split("/")[0].replace(".rs", "") for f in clo} - std_mods)
        for m in tops:
            pth = os.path.join(src_dir, m + ".rs") if os.path.exists(os.path.join(src_dir, m + ".rs")) else os.path.join(src_dir, m, "mod.rs")
            extra.append(f'#[path = "{pth}"]\nmod {m};\n')
    open(os.path.join(gdir, "src", "lib.rs"), "w").write(base + "\n" + "".join(extra))
    n = 0
    for feat in ([], ["--no-default-features"]):
        rc, out, err = hh.sh(["cargo", "build", "--offline", "-q"] + feat, cwd=gdir, env={"CARGO_TARGET_DIR": os.path.join(hh.BUILD, "t-forbid")}, timeout=1800)
        n += 1
        if rc != 0:
            txt = out + err
            if "unsafe" in txt or "E0453" in txt or "E0133" in txt:
                res.replay(dict(kind="impl-violates-property", message="portable-path sources do not compile under #![forbid(unsafe_code)] " + " ".join(feat), compiler=txt[-2500:]))
                res.n_oracle_fail += 1
            else:
                # the stand-alone crate no longer builds for a reason unrelated to unsafe code (e.g. a new crate-root
                # item the stand-in does not provide): the auxiliary compile check is not applicable to this tree; the
                # kernel-decided theorems over the regenerated facts remain the deciding part
                res.notes.append("forbid(unsafe_code) compile check not executed: the stand-alone crate does not build for a reason unrelated to unsafe code: " + txt[-300:].replace("\n", " "))
    res.evals += n
    res.cov["forbid_builds"] = n
    if getattr(res, "facts", None):
        pf = [f for f in res.facts if f["file"] in PORTABLE_FILES]
        res.samples += [dict(fact=span(f)) for f in pf if f["kind"] in ("lint", "macro_def")][:4]
        for f in pf:
            k = f"{f['file']}:{f['line']}:{f['kind']}:{f['detail']}"
            res.keys.add(k)
            res.nontrivial.add(k)
        res.evals += len(pf)


# ---------------------------------------------------------------- C17
def c17_concrete(f):
    if f["file"] not in PORTABLE_FILES or f["test"]:
        return False
    if f["kind"] == "conv" and re.search(r"(_ne_|_be_|to_be$|from_be$|swap_bytes|transmute|align_to|from_raw_parts|read_unaligned|from_bits|to_bits)", f["detail"]):
        return True
    if f["kind"] in ("target_cfg", "usize_sens"):
        return True
    return False


def gen_c17(r, tier, info):
    cases = []
    lens = [0, 1, 3, 4, 7, 8, 15, 16, 17, 20, 23, 28, 31, 32, 33, 63, 64, 65, 100] if tier == "quick" else list(range(0, 70)) + [95, 96, 97, 128, 129, 200]
    for n in lens:
        key = rkey(r)
        data = rbytes(r, n)
        w = r.choice((64, 128, 256))
        b = B(f"c17-{n}", [f"len%32={n % 32}", f"w{w}"])
        b.op(f"hash portable {w} {kstr(key)} {hexbytes(data)}")
        b.op(f"new 0 portable {kstr(key)}")
        for p in split_chunks(r, data, r.randrange(0, 3)):
            b.op(f"append 0 {hexbytes(p)}")
        b.op("ckpt 0")
        b.op("restoreh 1 portable 0")
        b.op(f"append 1 {hexbytes(rbytes(r, r.choice((0, 5, 40))))}")
        b.op("ckpt 1")
        b.op("finish 1")
        b.op(f"fin 1 {w}")
        cases.append(b)
    # arbitrary checkpoints incl. large counts (u32 -> usize conversion)
    for c in (0, 31, 32, 255, 65536, 2**31, 2**32 - 1):
        cases.append(gen.malformed(r, ["portable"], count=c))
    # restore from arbitrary bytes with count fields around every power-of-two boundary of a 32-bit usize (offset
    # arithmetic such as `128 + len` overflows only there), followed by a continuation
    for c in (2**32 - 1, 2**32 - 2, 2**32 - 128, 2**32 - 129, 2**31, 2**31 - 1, 65536, 65535, 255, 256, 31, 32):
        cases.append(gen.malformed(r, ["portable", "auto"], count=c))
    return cases


WIDTH_CASTS_KNOWN = ("self.buffer.len() as u32", "len as usize")


def new_width_casts(facts):
    """integer casts of non-test portable code whose result can depend on the pointer width (a cast to usize/isize,
    or a narrowing cast of a length) and that are not the two the pinned tree has.  Whether such a cast is harmful
    depends on value ranges no lexical rule can know, so this is NOT a theorem and never an alarm: it makes the
    32-bit stages of this check run their thorough generators (advisory escalation)."""
    out = []
    for f in facts or []:
        if f["file"] in PORTABLE_FILES and f["kind"] == "cast" and not f["test"]:
            d = f["detail"]
            if re.search(r" as (u64|u128|i128)$", d):
                continue
            if ("usize" in d or "isize" in d or "len()" in d) and d not in WIDTH_CASTS_KNOWN:
                out.append(span(f))
    return out


def special_c17(res, tier, seed, workdir, stats):
    facts_judge(res, "C17", c17_concrete)
    # the symbolic executor of coregen has no notion of byte order or pointer width: it translates only target-independent
    # primitives (from_le_bytes / to_le_bytes, wrapping arithmetic on u64/u32, literal lengths) and refuses everything else
    # (to_ne_bytes, transmutes, arithmetic on non-literal usize).  A portable-path function that is translated AND equal to the
    # (target-independent) model is therefore target-neutral for all inputs; one that is no longer translated escalates.
    core_translation(res, tier, seed, workdir, stats, pid="C17")
    if isinstance(res.cov.get("source_translation"), dict):
        res.cov["source_translation"]["meaning_for_this_property"] = "translated functions use target-independent primitives only and equal the target-independent model for all inputs"
    esc = new_width_casts(getattr(res, "facts", None))
    if esc:
        res.notes.append(f"{len(esc)} pointer-width-sensitive cast(s) not present in the pinned tree: the 32-bit stages run their thorough generators: {esc[:4]}")
    targets = ["s390x", "powerpc", "i686"]
    per_target = {}
    native_outs = {}
    # native reference run of the same cases (LE/64)
    binp, blog = hh.build_runner("dev-std-base")
    for tkey in ["native"] + targets:
        r = random.Random(seed * 7919 + 17)
        if tkey == "native":
            info = hh.runner_info(binp)
            # the model class of the native run must be the one used for the Miri targets (portable +
            # dispatcher-as-portable is not the same on x86): run the SAME cases natively for the oracle
            native_outs["outs"] = True
            st = check_mod().run_config(res, "C17", tier, seed, "dev-std-base", binp, info, workdir, gen_override=gen_c17, label="c17-fixed")
            stats.append(st)
            continue
        holder = {}

        def ex(cases, tag, tkey=tkey, holder=holder):
            outs, crashed, info = hh.run_miri(tkey, cases, workdir, tag, shards=hh.NPROC // 3 if tier == "thorough" else 4)
            holder["info"] = info
            holder["outs"] = outs
            holder["cases"] = cases
            return outs, crashed
        # the model is target independent: the cfg line only selects `other`/std
        info0 = {"arch": "other", "std": "1", "_line": "cfg arch=other std=1 tf_sse41=0 tf_avx2=0 simd128=0 cpu_sse41=0 cpu_avx2=0"}
        t_tier = "thorough" if (esc and tkey in ("powerpc", "i686")) else tier
        st = check_mod().run_config(res, "C17", t_tier, seed, f"miri-{tkey}", None, info0, workdir, gen_override=gen_c17, executor=ex, label="c17-fixed")
        st["target_info"] = (holder.get("info") or {}).get("_line")
        if holder.get("info") is None:
            # interpreter/sysroot unavailable: recorded, never an alarm
            res.notes.append(f"Miri target {tkey} not executed (sysroot unavailable)")
        # the property's own oracle: byte-for-byte the same outputs as on the little-endian 64-bit host
        touts, tcases = holder.get("outs"), holder.get("cases")
        if touts and native_outs.get("outs"):
            refs, _ = hh.run_real(binp, tcases, workdir, "C17.native-ref2", shards=2)
            nbad = 0
            for k, c in enumerate(tcases):
                if touts[k] is not None and refs[k] is not None:
                    d = hh.first_diff(touts[k], refs[k])
                    if d is not None:
                        nbad += 1
                        if nbad <= 2:
                            tv = touts[k][d][:70] if d < len(touts[k]) else "<no output: the runner died here>"
                            hv = refs[k][d][:70] if d < len(refs[k]) else "<no output>"
                            opd = c.ops[d][:80] if d < len(c.ops) else "?"
                            res.replay(dict(kind="impl-violates-property", config=f"miri-{tkey}", message=f"output on {tkey} differs from the little-endian 64-bit host at op `{opd}`: {tv} vs {hv}",
                                            ops=c.ops[:d + 1], on_target=touts[k][:d + 1], on_host=refs[k][:d + 1]))
            res.n_oracle_fail += nbad
            st["differs_from_host"] = nbad
        stats.append(st)
    res.cov["targets"] = ["x86_64 native (LE/64)"] + [f"{t} under Miri" for t in targets]


# ---------------------------------------------------------------- C18
def gen_c18(r, tier, info):
    sels = P.sels_for(info)
    std = info.get("std") == "1"
    cases = []
    sizes = [0, 1, 31, 32, 33, 1000, 4096, 65536] + ([1 << 20] if tier == "thorough" else [262144])
    for sel in sels:
        for n in sizes:
            b = B(f"c18-{sel}-{n}", [sel, f"size={n}"])
            key = rkey(r)
            b.op(f"fnew 0 {sel} {kstr(key)}")
            b.op(f"append 0 {hexbytes(bytes([r.getrandbits(8)]) * n) if n > 70000 else hexbytes(rbytes(r, n))}")
            b.op(f"hwrite 0 {hexbytes(rbytes(r, 45))}")
            if std:
                b.op(f"iowrite 0 {hexbytes(rbytes(r, 33))}")
                b.op("flush 0")
            b.op("finish 0")
            b.op("clone 0 1")
            b.op("ckpt 0")
            b.op("debug 0")
            b.op(f"frestoreh 2 {r.choice(sels)} 0")
            b.op(f"default 3 {sel}")
            b.op(f"fin 0 64")
            b.op(f"fin 1 128")
            b.op(f"fin 2 256")
            b.op(f"fhash {sel} 256 {kstr(key)} {hexbytes(rbytes(r, 77))}")
            cases.append(b)
        # the less travelled operations: provided trait methods with awkward shapes (small fragment + large one, long
        # formatted strings, value hashing), clone_from into a used hasher, hashN on a fed hasher, alternate Debug forms
        b = B(f"c18-{sel}-misc", [sel, "misc"])
        key = rkey(r)
        b.op(f"fnew 0 {sel} {kstr(key)}")
        b.op(f"append 0 {hexbytes(rbytes(r, 13))}")
        if sel not in gen.NO_TRAITS:
            for tok in ("u8:7f", "u64:123456789abcdef0", "u128:ffffffffffffffffffffffffffffffff", "usize:1000", "bool:1", "char:1f600", "unit",
                        f"bytes:{hexbytes(rbytes(r, 300))}", f"str:{hexbytes(b'x' * 700)}", f"u32s:{hexbytes(rbytes(r, 36))}", "ou64:5",
                        f"pib:u16:7:{hexbytes(rbytes(r, 130))}"):
                b.op(f"hwval 0 {tok}")
            if std:
                b.op(f"iowritev 0 {hexbytes(rbytes(r, 8))} {hexbytes(rbytes(r, 4096))} {hexbytes(rbytes(r, 3))}")
                b.op(f"iowritev 0 {hexbytes(rbytes(r, 600))} {hexbytes(rbytes(r, 10))}")
                b.op(f"iowritev 0 {hexbytes(rbytes(r, 40))} {hexbytes(rbytes(r, 64))} - {hexbytes(rbytes(r, 1))}")
                b.op(f"writefmt 0 {hexbytes(b'k=' + b'v' * 900)}")
                b.op(f"writeall 0 {hexbytes(rbytes(r, 5000))}")
                b.op(f"iocopy 0 {hexbytes(rbytes(r, 20000))}")
            b.op("finish 0")
        b.op("debugx 0")
        b.op(f"fnew 1 {sel} {kstr(rkey(r))}")
        b.op(f"append 1 {hexbytes(rbytes(r, 40))}")
        b.op("clonefrom 0 1")
        b.op("ckpt 1")
        b.op(f"hashfin 1 256 {hexbytes(rbytes(r, 1500))}")
        b.op(f"hashone {kstr(key)} str:{hexbytes(b'q' * 300)}")
        b.op(f"hashone {kstr(key)} pib:u32:9:{hexbytes(rbytes(r, 700))}")
        b.op(f"bh 2 {kstr(key)}")
        b.op("shbh 3 1")
        b.op(f"shone 2 u64:42")
        b.op("debugx 2")
        b.op("fin 0 128")
        cases.append(b)
    return cases


def special_c18(res, tier, seed, workdir, stats):
    def concrete(f):
        return (f["kind"] == "alloc" and not f["test"]) or f["kind"] == "extern_crate"
    facts_judge(res, "C18", concrete)
    configs = ["dev-std-base", "rel-nostd-base"] if tier == "quick" else ["dev-std-base", "rel-std-base", "rel-nostd-base", "dev-nostd-avx2", "rel-std-native"]
    built = hh.build_runners(configs)
    total_allocs = 0
    for c in configs:
        binp, blog = built[c]
        if binp is None:
            res.replay(dict(kind="impl-violates-property", config=c, message="crate does not build in this configuration", log=blog[-2000:]))
            res.n_oracle_fail += 1
            continue
        info = hh.runner_info(binp)
        counts = {}

        def ex(cases, tag, binp=binp, counts=counts):
            outs, crashed = hh.run_real(binp, cases, workdir, tag, extra_args=["--alloc"], shards=2)
            # strip and record the allocation counts
            for k, o in enumerate(outs):
                if o is None:
                    continue
                clean = []
                for j, line in enumerate(o):
                    m = re.match(r"^(.*) a=(\d+)$", line)
                    if m:
                        clean.append(m.group(1))
                        if int(m.group(2)):
                            counts[(k, j)] = int(m.group(2))
                    else:
                        clean.append(line)
                outs[k] = clean
            return outs, crashed
        st = check_mod().run_config(res, "C18", tier, seed, c, binp, info, workdir, gen_override=gen_c18, executor=ex, label=c)
        st["allocating_ops"] = len(counts)
        stats.append(st)
        if counts:
            total_allocs += len(counts)
            # re-generate the cases to name the op (same seed => same cases)
            r = random.Random((seed * 1000003) ^ check_mod().hash_str(c))
            bs = gen_c18(r, tier, info)
            (k, j), nalloc = sorted(counts.items())[0]
            ops = bs[k].ops
            res.replay(dict(kind="impl-violates-property", config=c, message=f"operation `{ops[j][:80]}` performed {nalloc} heap allocation(s)",
                            ops=ops[:j + 1], alloc_counts={f"{a}:{b}": v for (a, b), v in list(counts.items())[:10]}))
            res.n_oracle_fail += 1
        # no_std: the rlib must not reference the allocator
        if "nostd" in c:
            tdir = os.path.dirname(os.path.dirname(binp))
            rc, out, err = hh.sh(f"for f in {tdir}/*/deps/libhighway-*.rlib; do nm -A $f 2>/dev/null; done | grep -E '__rust_alloc|__rg_alloc|__rust_realloc|alloc..alloc' | head -5")
            res.cov.setdefault("nostd_rlib_alloc_symbols", 0)
            if out.strip():
                res.cov["nostd_rlib_alloc_symbols"] += len(out.strip().split("\n"))
                res.replay(dict(kind="impl-violates-property", config=c, message="the no_std rlib references allocator symbols", symbols=out.strip().split("\n")))
                res.n_oracle_fail += 1
    res.cov["allocating_ops_observed"] = total_allocs


# ---------------------------------------------------------------- C03 / C04 (Miri)
def run_miriwasm(cases, workdir, tag, shards=4, timeout=3600, release=False):
    """real src/wasm.rs under Miri (wasm32-unknown-unknown, +simd128, no_std/no_main runner)"""
    import concurrent.futures as cf
    hh.ensure_repo_link()
    cdir = os.path.join(hh.ROOT, "harness", "miriwasm")
    lock = os.path.join(cdir, "Cargo.lock")
    if not os.path.exists(lock):
        shutil.copy(os.path.join(hh.REPO, "Cargo.lock"), lock)
    n = len(cases)
    shards = max(1, min(shards, n))
    idx = [list(range(k, n, shards)) for k in range(shards)]

    def one(k):
        tdir = os.path.join(hh.BUILD, f"t-miriwasm{'-rel' if release else ''}-{k}")
        os.makedirs(tdir, exist_ok=True)
        p = os.path.join(tdir, "ops.txt")
        hh.write_ops([cases[i] for i in idx[k]], p)
        shutil.copy(p, os.path.join(workdir, f"{tag}.wasm.{k}.ops"))
        env = {"OPS_FILE": p, "CARGO_TARGET_DIR": tdir, "MIRI_NO_STD": "1",
               "RUSTFLAGS": "-Ctarget-feature=+simd128"}
        return hh.sh(["cargo", "+nightly", "miri", "run", "--offline", "-q", "--target", "wasm32-unknown-unknown"] + (["--release"] if release else []), cwd=cdir, env=env, timeout=timeout)

    outs = [None] * n
    crashed = []
    info = None
    with cf.ThreadPoolExecutor(max_workers=shards) as ex:
        for k, (rc, out, err) in enumerate(ex.map(one, range(shards))):
            first = out.split("\n", 1)[0]
            if first.startswith("cfg "):
                d = dict(tok.split("=") for tok in first.split()[1:])
                d["_line"] = first
                info = d
            per = hh.split_outputs(out, len(idx[k]))
            for j, i in enumerate(idx[k]):
                outs[i] = per[j]
            if rc != 0:
                crashed.append((k, rc, err[-3000:]))
    return outs, crashed, info


def run_nodewasm(cases, workdir, tag, timeout=1800):
    """real src/wasm.rs on a REAL WebAssembly engine (V8 through node): the runner and a scratch copy of <repo>/src are built
    as ONE no_std cdylib for wasm32-unknown-unknown (+simd128) against the core-only sysroot of `cargo miri setup`
    (harness/nodewasm/build.sh explains why one crate), then `node run.js module.wasm`.  Returns (outs, crashed, info) like
    run_miriwasm; (None, [("unavailable", ..)], None) when node / the sysroot / the build is not available."""
    import tempfile
    hh.ensure_repo_link()
    node = next((n for n in ("/usr/bin/nodejs", shutil.which("node") or "", shutil.which("nodejs") or "") if n and os.path.exists(n)), None)
    sysroot = os.path.expanduser("~/.cache/miri/lib/rustlib/wasm32-unknown-unknown/lib")
    if not node or not os.path.isdir(sysroot):
        return None, [("unavailable", 0, "node or the wasm32 core sysroot (cargo miri setup) is not present")], None
    ndir = os.path.join(hh.ROOT, "harness", "nodewasm")
    tdir = os.path.join(hh.BUILD, "t-nodewasm")
    os.makedirs(tdir, exist_ok=True)
    p = os.path.join(tdir, "ops.txt")
    hh.write_ops(cases, p)
    shutil.copy(p, os.path.join(workdir, f"{tag}.nodewasm.0.ops"))
    scratch = tempfile.mkdtemp(prefix="nodewasm-", dir="/var/tmp")     # scratch copy of src: outside /repo and /verif, removed below
    try:
        rc, out, err = hh.sh([os.path.join(ndir, "build.sh"), os.path.realpath(hh.REPO), p, tdir, os.path.join(scratch, "crate")], timeout=timeout)
        if rc != 0 or not out.strip():
            return None, [("unavailable", rc, "the single-crate wasm build failed: " + err[-1500:])], None
        wasm = out.strip().split("\n")[-1]
        rc, out, err = hh.sh([node, os.path.join(ndir, "run.js"), wasm], timeout=timeout)
    finally:
        shutil.rmtree(scratch, ignore_errors=True)
    n = len(cases)
    info = None
    first = out.split("\n", 1)[0]
    if first.startswith("cfg "):
        d = dict(tok.split("=") for tok in first.split()[1:])
        d["_line"] = first
        info = d
    outs = hh.split_outputs(out, n)
    crashed = [(0, rc, err[-3000:])] if rc != 0 else []
    return outs, crashed, info


def miri_unsupported(crashed):
    return any("unsupported operation" in c[2] and "does not indicate a bug in the program" in c[2] for c in crashed)


def run_wasm_any(cases, workdir, tag, shards=4):
    """Miri first (it also checks for UB); when Miri lacks an operation the code uses, the same cases on the real engine"""
    outs, crashed, info = run_miriwasm(cases, workdir, tag, shards=shards)
    if crashed and miri_unsupported(crashed):
        try:
            o2, c2, i2 = run_nodewasm(cases, workdir, tag)
        except Exception:  # noqa: BLE001
            o2 = None
        if o2 is not None:
            return o2, c2, (info or i2), "node"
    return outs, crashed, info, "miri"


X86_CKPTS = None


def gen_simd_target(sel, width_all=True):
    """op stream for a back end that only runs under Miri: all 32 remainder lengths, all widths,
    multi-packet inputs, chunkings, every cut, restore of checkpoints produced by other back ends
    (given as literal bytes: portable on the same target) and edge-value lanes"""
    def g(r, tier, info):
        cases = []
        lens = list(range(0, 34)) + [47, 48, 63, 64, 65, 96, 100, 192, 1000] if tier == "quick" else list(range(0, 131)) + [160, 200, 255, 256, 257, 1000, 4097]
        for n in lens:
            key = gen.key_for(r, n)
            data = rbytes(r, n)
            ws = (64, 128, 256) if (tier != "quick" or n % 3 == 0) else (r.choice((64, 128, 256)),)
            b = B(f"{sel}-{n}", [f"len%32={n % 32}", sel])
            for w in ws:
                i = b.op(f"hash {sel} {w} {kstr(key)} {hexbytes(data)}")
                j = b.op(f"hash portable {w} {kstr(key)} {hexbytes(data)}")
                b.eq(i, j, f"{sel} result differs from portable")
            # streamed + checkpoint bytes vs portable + cross restore at a cut
            cut = r.randrange(0, n + 1)
            b.op(f"new 0 {sel} {kstr(key)}")
            b.op(f"new 1 portable {kstr(key)}")
            for p in split_chunks(r, data[:cut], r.randrange(0, 3)):
                b.op(f"append 0 {hexbytes(p)}")
            b.op(f"append 1 {hexbytes(data[:cut])}")
            c0 = b.op("ckpt 0")
            c1 = b.op("ckpt 1")
            b.eq(c0, c1, f"{sel} checkpoint bytes differ from portable's for the same stream")
            b.op(f"restoreh 2 portable 0")      # portable restores the SIMD checkpoint
            b.op(f"restoreh 3 {sel} 1")         # SIMD restores the portable checkpoint
            for h in (0, 1, 2, 3):
                b.op(f"append {h} {hexbytes(data[cut:])}")
            w = r.choice((64, 128, 256))
            f = [b.op(f"fin {h} {w}") for h in (0, 1, 2, 3)]
            ref = b.op(f"hash portable {w} {kstr(key)} {hexbytes(data)}")
            for x in f:
                b.eq(x, ref, f"{sel}: result after cross-back-end checkpoint/restore differs from the uninterrupted hash")
            cases.append(b)
        # the provided one-shot helpers hashN(self, data) on an ALREADY FED hasher (a back end may override them)
        for p in ((1, 7, 16, 31) if tier == "quick" else range(1, 32)):
            for m in (0, 1, 32 - p, 40, 70):
                key = rkey(r)
                pre, data = rbytes(r, p), rbytes(r, m)
                w = r.choice((64, 128, 256))
                b = B(f"{sel}-hashfin-{p}-{m}", [sel, "hashfin"])
                b.op(f"new 0 {sel} {kstr(key)}")
                b.op(f"append 0 {hexbytes(pre)}")
                i = b.op(f"hashfin 0 {w} {hexbytes(data)}")
                j = b.op(f"hash portable {w} {kstr(key)} {hexbytes(pre + data)}")
                b.eq(i, j, f"{sel}: hashN(data) on a fed hasher differs from the portable hash of everything fed")
                cases.append(b)
        for c in (0, 1, 31, 32, 33, 2**31, 2**32 - 1):
            cases.append(gen.malformed(r, ["portable", sel, "auto"], count=c))
        for _ in range(6 if tier == "quick" else 120):
            cases.append(gen.malformed(r, ["portable", sel, "auto"]))
            cases.append(gen.observers(r, [sel, "auto"]))
            cases.append(gen.default_case(r, ["portable", sel, "auto"], std=False))
        if sel == "neon":
            cases.append(gen.neon_intrin_cases(r, reps=(3 if tier == "quick" else 40)))
        if sel == "wasm":
            # direct conformance of the modelled simd128 intrinsics (swizzle only where the executor implements it)
            cases.append(gen.wasm_intrin_cases(r, reps=(3 if tier == "quick" else 40), swizzle=bool(info.get("real_engine"))))
        return cases
    return g


def special_c03(res, tier, seed, workdir, stats):
    holder = {}

    def ex(cases, tag):
        outs, crashed, info = hh.run_miri("aarch64", cases, workdir, tag, shards=(hh.NPROC if tier == "thorough" else 6))
        holder["info"] = info
        return outs, crashed
    info0 = {"arch": "aarch64", "std": "1", "_line": "cfg arch=aarch64 std=1 tf_sse41=0 tf_avx2=0 simd128=0 cpu_sse41=0 cpu_avx2=0"}
    st = check_mod().run_config(res, "C03", tier, seed, "miri-aarch64", None, info0, workdir, gen_override=gen_simd_target("neon"), executor=ex, label="c03")
    st["target_info"] = (holder.get("info") or {}).get("_line")
    stats.append(st)
    res.cov["interpreter"] = "cargo +nightly miri run --target aarch64-unknown-linux-gnu (real src/aarch64.rs; ushl.v4i32 shim in the runner), dev and release profile"

    # the release profile (debug assertions off): code inside debug_assert!(..) disappears there
    def ex_rel(cases, tag):
        outs, crashed, info = hh.run_miri("aarch64", cases, workdir, tag, shards=(hh.NPROC if tier == "thorough" else 6), release=True)
        return outs, crashed
    st_r = check_mod().run_config(res, "C03", tier, seed * 131 + 7, "miri-aarch64-release", None, info0, workdir, gen_override=gen_simd_target("neon"), executor=ex_rel, label="c03rel")
    stats.append(dict(st_r, profile="release"))

    def esc():
        st2 = check_mod().run_config(res, "C03", tier, seed * 4099 + 17, "miri-aarch64", None, info0, workdir, gen_override=gen_simd_target("neon"), executor=ex, label="c03esc")
        stats.append(dict(st2, escalation="simd translation"))
    simd_translation_for("neon", "C03", res, tier, seed, workdir, stats, esc)


def special_c04(res, tier, seed, workdir, stats):
    holder = {}

    def ex(cases, tag):
        outs, crashed, info, engine = run_wasm_any(cases, workdir, tag, shards=(hh.NPROC if tier == "thorough" else 6))
        holder["info"] = info
        holder["engine"] = engine
        return outs, crashed
    info0 = {"arch": "wasm32", "std": "0", "simd128": "1", "_line": "cfg arch=wasm32 std=0 tf_sse41=0 tf_avx2=0 simd128=1 cpu_sse41=0 cpu_avx2=0"}
    st = check_mod().run_config(res, "C04", tier, seed, "miri-wasm32-simd128", None, info0, workdir, gen_override=gen_simd_target("wasm"), executor=ex, label="c04")
    st["target_info"] = (holder.get("info") or {}).get("_line")
    stats.append(st)
    res.cov["interpreter"] = "MIRI_NO_STD=1 cargo +nightly miri run --target wasm32-unknown-unknown -Ctarget-feature=+simd128 (real src/wasm.rs)"
    def ex_rel(cases, tag):
        outs, crashed, info = run_miriwasm(cases, workdir, tag, shards=(hh.NPROC if tier == "thorough" else 6), release=True)
        if crashed and miri_unsupported(crashed):
            o2, c2, _i2 = run_nodewasm(cases, workdir, tag)
            if o2 is not None:
                return o2, c2
        return outs, crashed
    st_r = check_mod().run_config(res, "C04", tier, seed * 131 + 7, "miri-wasm32-simd128-release", None, info0, workdir, gen_override=gen_simd_target("wasm"), executor=ex_rel, label="c04rel")
    stats.append(dict(st_r, profile="release"))
    if holder.get("engine") == "node":
        res.notes.append("Miri does not support an operation the wasm back end now uses; the stream was executed on the real engine (node/V8) instead")
        res.cov["interpreter"] += " - NOT usable for the current source (unsupported operation); the stream ran on node/V8"

    # second executor: the same source on a real WebAssembly engine (V8), different seed
    nholder = {}

    def ex_node(cases, tag):
        outs, crashed, info = run_nodewasm(cases, workdir, tag)
        nholder["crashed"] = crashed
        if outs is None:
            nholder["unavailable"] = crashed[0][2]
            # not executable here: hand back the model's own outputs so that nothing is compared (recorded as not executed)
            raise RuntimeError("nodewasm unavailable")
        return outs, crashed
    try:
        st2 = check_mod().run_config(res, "C04", tier, seed * 31 + 5, "node-wasm32-simd128", None, dict(info0, real_engine="1"), workdir, gen_override=gen_simd_target("wasm"), executor=ex_node, label="c04node")
        try:
            nver = hh.sh([next(n for n in ("/usr/bin/nodejs", shutil.which("node") or "", shutil.which("nodejs") or "") if n and os.path.exists(n)), "--version"])[1].strip()
        except Exception:  # noqa: BLE001
            nver = "?"
        stats.append(dict(st2, engine="node " + nver))
        res.cov["real_engine"] = "the same op streams on V8 (node): src/wasm.rs + the runner built as one no_std wasm32 cdylib (+simd128) against the core-only Miri sysroot; Debug ops are not observed there"
    except RuntimeError:
        res.cov["real_engine"] = "not executed: " + str(nholder.get("unavailable", ""))[:300]
    except Exception as e:  # noqa: BLE001   (the second executor is an addition: its own failure to run is never an alarm)
        res.cov["real_engine"] = f"not executed: {type(e).__name__}: {str(e)[:200]}"

    def esc():
        st2 = check_mod().run_config(res, "C04", tier, seed * 4099 + 19, "miri-wasm32-simd128", None, info0, workdir, gen_override=gen_simd_target("wasm"), executor=ex, label="c04esc")
        stats.append(dict(st2, escalation="simd translation"))
    simd_translation_for("wasm", "C04", res, tier, seed, workdir, stats, esc)


# ---------------------------------------------------------------- C09
def gen_c09_miri(r, tier, info):
    """x86 back ends under Miri (UB detector: out-of-bounds / misaligned / uninitialised reads)"""
    cases = []
    sels = ["sse", "avx", "auto"]
    lens = [0, 1, 3, 4, 7, 8, 12, 15, 16, 17, 19, 20, 23, 24, 27, 28, 31, 32, 33, 47, 63, 64, 65, 100] if tier == "quick" else list(range(0, 100)) + [127, 128, 129, 200]
    for n in lens:
        key = rkey(r)
        data = rbytes(r, n)
        b = B(f"c09-miri-{n}", [f"len%32={n % 32}"])
        for hi, s in enumerate(sels):
            b.op(f"fnew {hi} {s} {kstr(key)}")
            for p in split_chunks(r, data, r.randrange(0, 3)):
                b.op(f"append {hi} {hexbytes(p)}")
            b.op(f"ckpt {hi}")
            b.op(f"frestoreh {hi + 4} {r.choice(sels)} {hi}")
            b.op(f"fin {hi} {r.choice((64, 128, 256))}")
            b.op(f"fin {hi + 4} 256")
        cases.append(b)
    return cases


def special_c09(res, tier, seed, workdir, stats):
    configs = ["dev-std-base", "rel-std-base"] if tier == "quick" else ["dev-std-base", "rel-std-base", "rel-nostd-avx2", "dev-nostd-sse41", "rel-std-native", "dev-std-avx2"]
    built = hh.build_runners(configs)
    total = 0
    layouts = {}
    for c in configs:
        binp, blog = built[c]
        if binp is None:
            res.replay(dict(kind="impl-violates-property", config=c, message="crate does not build in this configuration", log=blog[-2000:]))
            res.n_oracle_fail += 1
            continue
        rc, out, err = hh.sh([binp, f"--guard={seed},{tier}"], timeout=3600)
        lay = [l for l in out.split("\n") if l.startswith("layout ")]
        layouts[c] = lay
        m = re.search(r"guard done cases=(\d+) mismatches=(\d+)", out)
        ncases = int(m.group(1)) if m else 0
        total += ncases
        st = dict(config=c, guard_cases=ncases, exit=rc)
        stats.append(st)
        if rc < 0 or rc >= 128 or (m is None and rc != 0):
            # a fault: re-run verbosely to name the case
            rc2, out2, err2 = hh.sh([binp, f"--guard={seed},{tier},verbose"], timeout=3600)
            last = [l for l in out2.split("\n") if l.startswith("case ")][-1:] or ["?"]
            res.replay(dict(kind="impl-violates-property", config=c, message=f"memory fault (exit {rc}) while hashing data placed against an inaccessible page / at a misaligned address: {last[0]}",
                            replay_cmd=f"{binp} --guard={seed},{tier},verbose", last_case=last[0]))
            res.n_oracle_fail += 1
        elif m and int(m.group(2)) > 0:
            mm = [l for l in out.split("\n") if l.startswith("MISMATCH")][:5]
            res.replay(dict(kind="impl-violates-property", config=c, message="result depends on placement / neighbouring memory: " + "; ".join(mm),
                            replay_cmd=f"{binp} --guard={seed},{tier},verbose"))
            res.n_oracle_fail += 1
        # checked premises of the C09 theorems: layout facts
        for l in lay:
            kv = dict(t.split("=") for t in l.split()[2:])
            name = l.split()[1]
            if name == "key" and kv.get("align") != "32":
                res.replay(dict(kind="impl-violates-property", config=c, message=f"Key is not 32-byte aligned ({l}) but AvxHash::force_new reads it with an aligned 32-byte load"))
                res.n_oracle_fail += 1
            if name == "avx" and "bufoff" in kv:
                off = re.search(r"Some\((\d+)\)", kv["bufoff"])
                if off and (int(off.group(1)) % 16 != 0 or int(kv.get("align", "0")) % 16 != 0):
                    res.replay(dict(kind="impl-violates-property", config=c, message=f"AvxHash packet buffer is not 16-byte aligned ({l}) but AvxHash::remainder reads it with an aligned load"))
                    res.n_oracle_fail += 1
    res.cov["guard_cases"] = total
    res.cov["layouts"] = layouts
    res.evals += total
    res.samples.append(dict(guard="placements: slice ending at / starting at a PROT_NONE page boundary, each chunk copied against the boundary, hasher object at the boundary, start alignments x two neighbour fills", layout=layouts.get(configs[0])))
    for i in range(min(total, 3)):
        res.keys.add(f"guard-{i}")
        res.nontrivial.add(f"guard-{i}")
    # Miri as UB detector for the x86 back ends
    holder = {}

    def ex(cases, tag):
        outs, crashed, info = hh.run_miri("x86avx2", cases, workdir, tag, shards=(hh.NPROC if tier == "thorough" else 6))
        holder["info"] = info
        holder["crashed"] = crashed
        return outs, crashed
    info0 = {"arch": "x86_64", "std": "1", "cpu_sse41": "1", "cpu_avx2": "1", "tf_avx2": "1", "tf_sse41": "1",
             "_line": "cfg arch=x86_64 std=1 tf_sse41=1 tf_avx2=1 simd128=0 cpu_sse41=1 cpu_avx2=1"}
    st = check_mod().run_config(res, "C09", tier, seed, "miri-x86_64+avx2", None, info0, workdir, gen_override=gen_c09_miri, executor=ex, label="c09-miri")
    stats.append(st)
    for k, rc, err in holder.get("crashed", []):
        if "Undefined Behavior" in err:
            ub = err[err.index("Undefined Behavior"):][:600]
            res.replay(dict(kind="impl-violates-property", config="miri x86_64 +avx2", message="Miri reports " + ub))
            res.n_oracle_fail += 1


# ---------------------------------------------------------------- C08
def special_c08(res, tier, seed, workdir, stats):
    """static release claim: the #[no_panic] wrappers around every public operation must link"""
    # the symbolic executor treats every slice index, range, split_at and copy_from_slice with its std bounds rule and turns a
    # would-be panic into "not translated": the byte-level functions being translated for EVERY pending length / clamped
    # count means none of those panic points is reachable in them (overflow checks are HH/PortablePanic.lean's part)
    core_translation(res, tier, seed, workdir, stats, pid="C08", only=["data_to_lanes", "remainder", "update_remainder", "checkpoint", "from_checkpoint", "unordered_load3"])
    if isinstance(res.cov.get("source_translation"), dict):
        res.cov["source_translation"]["meaning_for_this_property"] = "no out-of-bounds index / range / split_at / length-mismatched copy is reachable in these functions for any pending length (a would-be panic makes the function 'not translated')"
    cdir = os.path.join(hh.ROOT, "harness", "nopanic")
    lock = os.path.join(cdir, "Cargo.lock")
    if not os.path.exists(lock):
        shutil.copy(os.path.join(hh.REPO, "Cargo.lock"), lock)
    hh.ensure_repo_link()
    rc, out, err = hh.sh(["cargo", "build", "--offline", "--release"], cwd=cdir, env={"CARGO_TARGET_DIR": os.path.join(hh.BUILD, "t-nopanic")}, timeout=3600)
    txt = out + err
    res.cov["nopanic_wrappers"] = 4 * 13 + 10
    if rc != 0:
        fns = sorted(set(re.findall(r"detected panic in function `([^`]+)`", txt)))
        if fns:
            res.replay(dict(kind="impl-violates-property", config="release lto=fat cgu=1",
                            message=f"release build contains a panic path: #[no_panic] link failure in wrapper(s) {fns}", wrappers=fns, linker=txt[-1500:]))
            res.n_oracle_fail += 1
        else:
            res.corr_pending.append(dict(kind="correspondence-broken", stream="nopanic crate does not build", detail=txt[-1500:]))
        res.cov["nopanic_link"] = "FAILED"
    else:
        res.cov["nopanic_link"] = "ok"
        rc2, out2, err2 = hh.sh([os.path.join(hh.BUILD, "t-nopanic", "release", "nopanic")], input="some input bytes for the linked wrappers, longer than one packet......", timeout=60)
        res.cov["nopanic_run"] = "ok" if rc2 == 0 else f"exit {rc2}"
        if rc2 != 0:
            res.replay(dict(kind="impl-violates-property", message="the no_panic binary aborted at run time", output=(out2 + err2)[-800:]))
            res.n_oracle_fail += 1
    res.evals += 1


def check_mod():
    import check
    return check


T.PRE.update({"C16": pre_facts, "C17": pre_facts, "C18": pre_facts, "C15": pre_facts})
def gen_cross_c12(r, tier, info):
    return [gen.adapters(r, ["portable", "auto"]) for _ in range(20 if tier == "quick" else 300)] + [gen.builders(r) for _ in range(10 if tier == "quick" else 100)] + \
           [gen.provided(r, ["portable", "auto"], info) for _ in range(24 if tier == "quick" else 300)]


def special_c07(res, tier, seed, workdir, stats):
    """Default of the back ends that only run under Miri (NeonHash, WasmHash) + the BE portable path"""
    # the `impl Default` of every back end, read from the source: constructor applied to the derived all-zero key
    skeleton_translation(res, tier, seed, workdir, stats, pid="C07")
    def g_neon(r, tier, info):
        return [gen.default_case(r, ["portable", "neon", "auto"], std=False) for _ in range(8 if tier == "quick" else 100)]

    def g_wasm(r, tier, info):
        return [gen.default_case(r, ["portable", "wasm", "auto"], std=False) for _ in range(8 if tier == "quick" else 100)]
    if miri_ok("aarch64"):
        def ex(cases, tag):
            outs, crashed, info = hh.run_miri("aarch64", cases, workdir, tag, shards=4)
            return outs, crashed
        info0 = {"arch": "aarch64", "std": "1", "_line": "cfg arch=aarch64 std=1 tf_sse41=0 tf_avx2=0 simd128=0 cpu_sse41=0 cpu_avx2=0"}
        stats.append(check_mod().run_config(res, "C07", tier, seed, "miri-aarch64", None, info0, workdir, gen_override=g_neon, executor=ex, label="c07-neon"))
    else:
        res.notes.append("Miri aarch64 unavailable: NeonHash::default not executed")

    def exw(cases, tag):
        outs, crashed, info, _engine = run_wasm_any(cases, workdir, tag, shards=4)
        return outs, crashed
    info1 = {"arch": "wasm32", "std": "0", "simd128": "1", "_line": "cfg arch=wasm32 std=0 tf_sse41=0 tf_avx2=0 simd128=1 cpu_sse41=0 cpu_avx2=0"}
    stats.append(check_mod().run_config(res, "C07", tier, seed, "miri-wasm32-simd128", None, info1, workdir, gen_override=g_wasm, executor=exw, label="c07-wasm"))


CORE_LEAN = os.path.join(hh.LEAN, "HH", "Generated", "PortableCore.lean")
def recheck_generated(info, tier, module):
    """thorough tier: the compiled generated module is replayed through the independent re-checker as well"""
    if tier == "thorough":
        try:
            ok2, l2 = hh.leanchecker(module)
            info["leanchecker"] = "ok" if ok2 else "FAILED: " + l2[-300:]
        except Exception as e:  # noqa: BLE001
            info["leanchecker"] = f"not executed: {e}"


def advisory(fn):
    """a translation stage never decides a property: any failure to RUN it (tool crash, unexpected output) is recorded as
    'not executed' in the evidence and must not surface as an internal error of the check"""
    import functools

    @functools.wraps(fn)
    def wrapped(res, *a, **kw):
        try:
            return fn(res, *a, **kw)
        except Exception as e:  # noqa: BLE001
            import traceback
            res.notes.append(f"advisory stage {fn.__name__} not executed: {type(e).__name__}: {str(e)[:160]}")
            res.cov.setdefault("advisory_stage_errors", []).append(dict(stage=fn.__name__, error=traceback.format_exc()[-600:]))
    return wrapped


CORE_THMS = {"module_reduction": ["moduleReduction_eq"], "permute": ["permute_eq"], "zipper_merge_and_add": ["zipperPair_eq"],
             "update": ["update_eq"], "update_lanes": ["updateLanes_eq"], "new": ["newState_eq"], "finalize64": ["out64_eq", "finalize64_shape"],
             "finalize128": ["out128_eq", "finalize128_shape"], "finalize256": ["out256_eq", "finalize256_shape"],
             "data_to_lanes": ["dataToLanes_eq"], "remainder": [f"remainder{n}_eq" for n in range(33)],
             "update_remainder": [f"updateRemainder{n}_eq" for n in range(1, 32)],
             "unordered_load3": [f"unorderedLoad3_{n}_eq" for n in (0, 1, 2, 3, 5, 6, 7)],
             "checkpoint": [f"checkpoint{n}_eq" for n in range(33)],
             "from_checkpoint": [f"fromCheckpoint{n}_eq" for n in range(32)]}


@advisory
def core_translation(res, tier, seed, workdir, stats, pid="C01", only=None):
    """second tie for the arithmetic core of C01: `coregen` (syn, symbolic execution of straight-line code) translates
    module_reduction, permute, zipper_merge_and_add, update, update_lanes, the key schedule of new, the round counts /
    output expressions of finalize64/128/256, data_to_lanes, remainder (every length 0..=32), update_remainder (every
    pending length 1..=31, through HashPacket::len / as_slice of src/internal.rs), checkpoint (every pending length
    0..=32: all 164 bytes as expressions of the symbolic lanes and buffer bytes), from_checkpoint (164 symbolic bytes, one
    instance per value 0..=31 of the clamped count, under the hypothesis that the clamp has that value) and unordered_load3
    from the CURRENT src/portable.rs + src/internal.rs into Lean (HH/Generated/PortableCore.lean), and
    each translation is proved equal to the hand-written model for all inputs (by `rfl`: the model mirrors the source).
    Advisory by construction: a function the translator cannot handle any more is 'not translated'; a translated
    function whose theorem fails means the source text differs from the model - the dynamic tie then decides, after an
    escalated search; neither is an alarm by itself."""
    cdir = os.path.join(hh.ROOT, "harness", "facts")
    rc, out, err = hh.sh(["cargo", "build", "--offline", "--release", "-q"], cwd=cdir, env={"CARGO_TARGET_DIR": os.path.join(hh.BUILD, "t-facts")}, timeout=1800)
    info = dict(translator="harness/facts/src/bin/coregen.rs (syn; loops over literal ranges unrolled, &mut array parameters aliased, helper calls inlined)")
    res.cov["source_translation"] = info
    if rc != 0:
        info["status"] = "not executed: translator does not build"
        return
    tmp = CORE_LEAN + ".new"
    status_json = os.path.join(hh.BUILD, "coregen.json")
    rc, out, err = hh.sh([os.path.join(hh.BUILD, "t-facts", "release", "coregen"), os.path.join(hh.REPO, "src", "portable.rs"), tmp, status_json,
                          os.path.join(hh.REPO, "src", "internal.rs")], timeout=300)
    if rc != 0:
        info["status"] = "not executed: src/portable.rs does not parse / translator failed: " + (out + err)[-300:]
        return
    new = open(tmp).read()
    old = open(CORE_LEAN).read() if os.path.exists(CORE_LEAN) else None
    if new != old:
        os.replace(tmp, CORE_LEAN)
    else:
        os.unlink(tmp)
    st = json.load(open(status_json))
    info["functions"] = st
    if only:
        st = {k: v for k, v in st.items() if k in only}
        info["functions"] = st
    translated = [k for k, v in st.items() if v == "translated"]
    ok, blog = hh.lake_build(["HH.Generated.PortableCore"])
    thms = ["HH.Gen." + t for f in translated for t in CORE_THMS.get(f, [])]
    if ok:
        ax, text = hh.audit_axioms("HH.Generated.PortableCore", thms)
        good = [t for t in thms if ax.get(t) is not None and not (ax[t] - hh.STD_AXIOMS)]
        info["theorems_checked"] = len(good)
        info["theorems_failed"] = [t for t in thms if t not in good][:20]
        recheck_generated(info, tier, "HH.Generated.PortableCore")
        info["status"] = f"{len(translated)}/{len(st)} functions translated from the working tree; {len(good)}/{len(thms)} equality theorems (source translation = model, all inputs; remainder / update_remainder / unordered_load3: one theorem per buffer length, bytes universally quantified) checked by the kernel"
        if len(good) == len(thms):
            return
    # translated but not (all) proved equal: the text of the core differs from the model
    errs = [l for l in blog.split("\n") if "error" in l][:6]
    info["status"] = (info.get("status", "") + " | generated theorems do not all check: " + " ".join(errs))[:900]
    res.notes.append(f"the translated portable core no longer equals the model by definitional unfolding: escalating the {pid} search (thorough generator on the real code)")
    binp, _ = hh.build_runner("dev-std-base")
    if binp:
        i2 = hh.runner_info(binp)
        st2 = check_mod().run_config(res, pid, "thorough", seed * 4099 + 11, "dev-std-base", binp, i2, workdir, label="esc-core")
        stats.append(dict(st2, escalation="core translation"))


SIMD_FILES = {"x86": "SimdCore", "neon": "NeonCore", "wasm": "WasmCore"}
SIMD_THMS = {"SseHash::zipper_merge": "Sse.zipperMerge_eq", "SseHash::update": "Sse.update_eq", "SseHash::permute_and_update": "Sse.permuteAndUpdate_eq",
             "SseHash::modular_reduction": "Sse.modularReduction_eq", "AvxHash::zipper_merge": "Avx.zipperMerge_eq", "AvxHash::update": "Avx.update_eq",
             "AvxHash::permute_and_update": "Avx.permuteAndUpdate_eq", "AvxHash::modular_reduction": "Avx.modularReduction_eq", "AvxHash::permute": "Avx.permute_eq",
             "NeonHash::zipper_merge": "NeonG.zipperMerge_eq", "NeonHash::update": "NeonG.update_eq", "NeonHash::permute_and_update": "NeonG.permuteAndUpdate_eq",
             "NeonHash::modular_reduction": "NeonG.modularReduction_eq",
             "WasmHash::zipper_merge": "WasmG.zipperMerge_eq", "WasmHash::update": "WasmG.update_eq", "WasmHash::permute_and_update": "WasmG.permuteAndUpdate_eq",
             "WasmHash::modular_reduction": "WasmG.modularReduction_eq",
             **{f"{h}::finalize{w}": f"{g}.finalize{w}_shape" for h, g in (("NeonHash", "NeonG"), ("WasmHash", "WasmG"), ("SseHash", "Sse"), ("AvxHash", "Avx")) for w in (64, 128, 256)}}
SIMD_SRC = {"x86": "src/x86/sse.rs + v2x64u.rs and src/x86/avx.rs + v4x64u.rs", "neon": "src/aarch64.rs (NeonHash, its V2x64U and _mm_slli_si128_8)",
            "wasm": "src/wasm.rs (WasmHash, its V2x64U and the emulated _mm_* helpers)"}


@advisory
def simd_translation_for(which, pid, res, tier, seed, workdir, stats, escalate):
    """second tie for the straight-line intrinsic code of a SIMD back end: `simdgen` interprets the back end's source
    symbolically (newtype erased, operators resolved through the wrapper's own trait and inherent impls, free helper
    functions inlined, every intrinsic mapped to the modelled one) and emits HH/Generated/<file>.lean with one theorem
    per function: translation = hand-written model, for all register values (by `rfl`).  Advisory, like the portable
    core translation: never an alarm by itself."""
    mod = SIMD_FILES[which]
    lean = os.path.join(hh.LEAN, "HH", "Generated", mod + ".lean")
    cdir = os.path.join(hh.ROOT, "harness", "facts")
    rc, out, err = hh.sh(["cargo", "build", "--offline", "--release", "-q"], cwd=cdir, env={"CARGO_TARGET_DIR": os.path.join(hh.BUILD, "t-facts")}, timeout=1800)
    info = dict(translator=f"harness/facts/src/bin/simdgen.rs (syn; symbolic execution of {SIMD_SRC[which]})")
    res.cov["source_translation"] = info
    if rc != 0:
        info["status"] = "not executed: translator does not build"
        return
    tmp = lean + ".new"
    status_json = os.path.join(hh.BUILD, f"simdgen-{which}.json")
    rc, out, err = hh.sh([os.path.join(hh.BUILD, "t-facts", "release", "simdgen"), os.path.join(hh.REPO, "src", "x86"), tmp, status_json, which], timeout=300)
    if rc != 0:
        info["status"] = "not executed: translator failed: " + (out + err)[-300:]
        return
    new = open(tmp).read()
    old = open(lean).read() if os.path.exists(lean) else None
    if new != old:
        os.replace(tmp, lean)
    else:
        os.unlink(tmp)
    st = json.load(open(status_json))
    info["functions"] = st
    translated = [k for k, v in st.items() if v == "translated"]
    ok, blog = hh.lake_build(["HH.Generated." + mod])
    thms = ["HH.Gen." + SIMD_THMS[f] for f in translated if f in SIMD_THMS]
    if ok:
        ax, text = hh.audit_axioms("HH.Generated." + mod, thms)
        good = [t for t in thms if ax.get(t) is not None and not (ax[t] - hh.STD_AXIOMS)]
        info["theorems_checked"] = good
        recheck_generated(info, tier, "HH.Generated." + mod)
        info["status"] = f"{len(translated)}/{len(st)} functions translated from the working tree; {len(good)}/{len(thms)} equality theorems (source translation = hand-written model, all register values) checked by the kernel"
        if len(good) == len(thms):
            return
    errs = [l for l in blog.split("\n") if "error" in l][:6]
    info["status"] = (info.get("status", "") + " | generated theorems do not all check: " + " ".join(errs))[:900]
    res.notes.append(f"the translated SIMD core ({which}) no longer equals the model by definitional unfolding: escalating the {pid} search")
    escalate()


def simd_translation(res, tier, seed, workdir, stats):
    def esc():
        binp, _ = hh.build_runner("dev-std-base")
        if binp:
            i2 = hh.runner_info(binp)
            st2 = check_mod().run_config(res, "C02", "thorough", seed * 4099 + 13, "dev-std-base", binp, i2, workdir, label="esc-simd")
            stats.append(dict(st2, escalation="simd translation"))
    simd_translation_for("x86", "C02", res, tier, seed, workdir, stats, esc)


_c01_cross = mk_cross("C01", gen_cross_c01, ["s390x", "i686"])


def special_c01(res, tier, seed, workdir, stats):
    core_translation(res, tier, seed, workdir, stats, only=[k for k in CORE_THMS if k not in ("checkpoint", "from_checkpoint")])
    _c01_cross(res, tier, seed, workdir, stats)


SKEL_LEAN = os.path.join(hh.LEAN, "HH", "Generated", "Skeleton.lean")
SKEL_TAGS = {"PortableHash": "portable", "SseHash": "sse", "AvxHash": "avx", "NeonHash": "neon", "WasmHash": "wasm"}


@advisory
def skeleton_translation(res, tier, seed, workdir, stats, pid="C05", must=()):
    """tie of the CONTROL SKELETON that C05's buffering theorem is about: `skelgen` translates `append` (data of symbolic
    length: the buffer test, the chunk loop as `absorb`, fill / set_to / inner as their Pkt models, `update(data_to_lanes(..))`
    as the abstract `upd`) and the prologue of finalize64/128/256 (remainder test, round count) of all five back ends from the
    working tree, and each is proved equal to the model's `appendG` / `finalizeCommon K` for every state and byte string (rfl);
    `impl Default` of every back end is checked to be `<ctor>(Key::default())` with `Key` deriving `Default` (= the model's
    `default := new V4.zero`);
    HashPacket::{fill, set_to, len, is_empty, inner, as_slice} of src/internal.rs are translated with slices as lists
    (a view = offset + length, copy_from_slice = take ++ src ++ drop, split_at = take/drop) and proved equal to the Pkt model.
    Advisory: an untranslatable function is 'not translated'; a failing theorem escalates the search, never an alarm by itself."""
    cdir = os.path.join(hh.ROOT, "harness", "facts")
    rc, out, err = hh.sh(["cargo", "build", "--offline", "--release", "-q"], cwd=cdir, env={"CARGO_TARGET_DIR": os.path.join(hh.BUILD, "t-facts")}, timeout=1800)
    info = dict(translator="harness/facts/src/bin/skelgen.rs (syn; state-passing translation of append and the finalize prologues, calls mapped to the models of their callees)")
    res.cov["skeleton_translation"] = info
    if rc != 0:
        info["status"] = "not executed: translator does not build"
        return
    tmp = SKEL_LEAN + ".new"
    status_json = os.path.join(hh.BUILD, "skelgen.json")
    rc, out, err = hh.sh([os.path.join(hh.BUILD, "t-facts", "release", "skelgen"), os.path.join(hh.REPO, "src"), tmp, status_json], timeout=300)
    if rc != 0:
        info["status"] = "not executed: translator failed: " + (out + err)[-300:]
        return
    new = open(tmp).read()
    old = open(SKEL_LEAN).read() if os.path.exists(SKEL_LEAN) else None
    if new != old:
        os.replace(tmp, SKEL_LEAN)
    else:
        os.unlink(tmp)
    st = json.load(open(status_json))
    info["functions"] = st
    translated = [k for k, v in st.items() if v == "translated"]
    thms = []
    pk = {"fill": "fill_eq", "set_to": "setTo_eq", "len": "len_eq", "is_empty": "isEmpty_eq", "inner": "inner_eq", "as_slice": "asSlice_eq"}
    for f in translated:
        if "::" not in f:
            continue        # shape-only items (`impl_write!`, ..) carry no theorem
        ty, fn = f.split("::", 1)
        if ty == "HashPacket":
            if fn in pk:
                thms.append("HH.Gen.Skel.Packet." + pk[fn])
            continue
        tag = SKEL_TAGS.get(ty)
        if not tag:
            continue
        if fn == "append":
            thms += [f"HH.Gen.Skel.append_{tag}_eq", f"HH.Gen.Skel.append_{tag}_model"]
        elif fn == "default":
            thms.append(f"HH.Gen.Skel.default_{tag}_eq")
        else:
            thms.append(f"HH.Gen.Skel.{fn}_pro_{tag}_eq")
    ok, blog = hh.lake_build(["HH.Generated.Skeleton"])
    if ok:
        ax, text = hh.audit_axioms("HH.Generated.Skeleton", thms)
        good = [t for t in thms if ax.get(t) is not None and not (ax[t] - hh.STD_AXIOMS)]
        info["theorems_checked"] = len(good)
        recheck_generated(info, tier, "HH.Generated.Skeleton")
        info["status"] = f"{len(translated)}/{len(st)} functions translated from the working tree; {len(good)}/{len(thms)} theorems (translated skeleton = appendG / finalizeCommon of the model, all states and byte strings) checked by the kernel"
        missing = [m for m in must if st.get(m) != "translated"]
        if missing:
            info["status"] += " | outside the modelled shape: " + "; ".join(f"{m}: {st.get(m, 'absent')}" for m in missing)
        if len(good) == len(thms) and not missing:
            return
    errs = [l for l in blog.split("\n") if "error" in l][:6]
    info["status"] = (info.get("status", "") + " | generated theorems do not all check: " + " ".join(errs))[:900]
    res.notes.append(f"the translated append / finalize skeleton no longer equals the model by definitional unfolding: escalating the {pid} search (thorough generator on the real code)")
    binp, _ = hh.build_runner("dev-std-base")
    if binp:
        i2 = hh.runner_info(binp)
        st2 = check_mod().run_config(res, pid, "thorough", seed * 4099 + 23, "dev-std-base", binp, i2, workdir, label="esc-skel")
        stats.append(dict(st2, escalation="skeleton translation"))


LADDER_LEAN = os.path.join(hh.LEAN, "HH", "Generated", "Ladder.lean")


@advisory
def ladder_translation(res, tier, seed, workdir, stats):
    """tie of C10's selection model to the text of src/builder.rs: `ladgen` translates the cfg/run-time ladders of
    HighwayHasher::new and ::from_checkpoint into decision functions Cfg -> Cpu -> Option Backend, and extracts the union
    members, the (tag, member, constructed type) literals of the ladders and the arms of every `match self.tag`; the generated
    theorems say: translated ladder = the model's selectNew / selectRestore for every configuration and CPU; every literal
    builds the member's own type under the model's tag; every dispatch arm reads the member its tag names; every dispatch site
    has an arm, existing in the configuration, for the tag the ladder selects (tag validity from the source).
    Advisory: skipped items / failing theorems escalate the search, never an alarm by themselves."""
    cdir = os.path.join(hh.ROOT, "harness", "facts")
    rc, out, err = hh.sh(["cargo", "build", "--offline", "--release", "-q"], cwd=cdir, env={"CARGO_TARGET_DIR": os.path.join(hh.BUILD, "t-facts")}, timeout=1800)
    info = dict(translator="harness/facts/src/bin/ladgen.rs (syn; cfg attributes, cfg!(), is_x86_feature_detected!() and early returns of the ladders as a decision function; union / literal / dispatch-arm tables)")
    res.cov["ladder_translation"] = info
    if rc != 0:
        info["status"] = "not executed: translator does not build"
        return
    tmp = LADDER_LEAN + ".new"
    status_json = os.path.join(hh.BUILD, "ladgen.json")
    rc, out, err = hh.sh([os.path.join(hh.BUILD, "t-facts", "release", "ladgen"), os.path.join(hh.REPO, "src", "builder.rs"), tmp, status_json], timeout=300)
    if rc != 0:
        info["status"] = "not executed: translator failed: " + (out + err)[-300:]
        return
    new = open(tmp).read()
    old = open(LADDER_LEAN).read() if os.path.exists(LADDER_LEAN) else None
    if new != old:
        os.replace(tmp, LADDER_LEAN)
    else:
        os.unlink(tmp)
    st = json.load(open(status_json))
    info["items"] = st
    skipped = [k for k, v in st.items() if v != "translated"]
    thms = ["ctor_arms_ok", "dispatch_arms_ok"]
    if st.get("HighwayChoices") == "translated":
        thms += ["union_typed", "dispatch_member_exists"]
    if st.get("HighwayHasher::new") == "translated":
        thms += ["selectNew_eq", "dispatch_total_new"]
    if st.get("HighwayHasher::from_checkpoint") == "translated":
        thms += ["selectRestore_eq", "dispatch_total_restore"]
    thms = ["HH.Gen.Ladder." + t for t in thms]
    ok, blog = hh.lake_build(["HH.Generated.Ladder"])
    good = []
    if ok:
        ax, text = hh.audit_axioms("HH.Generated.Ladder", thms)
        good = [t for t in thms if ax.get(t) is not None and not (ax[t] - hh.STD_AXIOMS)]
        info["theorems_checked"] = good
        recheck_generated(info, tier, "HH.Generated.Ladder")
    info["status"] = f"{len(st) - len(skipped)}/{len(st)} items translated from the working tree; {len(good)}/{len(thms)} theorems (ladder = model for all Cfg x Cpu; literals / dispatch arms consistent with the model's tags; tag validity at every dispatch site) checked by the kernel"
    if ok and len(good) == len(thms) and not skipped:
        return
    errs = [l for l in blog.split("\n") if "error" in l][:6]
    info["status"] = (info["status"] + (" | skipped: " + "; ".join(f"{k}: {st[k]}" for k in skipped) if skipped else "") + (" | generated theorems do not all check: " + " ".join(errs) if errs else ""))[:1200]
    res.notes.append("the selection ladder / dispatch tables translated from src/builder.rs no longer match the model: escalating the C10 search (thorough generator on the real code)")
    binp, _ = hh.build_runner("dev-std-base")
    if binp:
        i2 = hh.runner_info(binp)
        st2 = check_mod().run_config(res, "C10", "thorough", seed * 4099 + 29, "dev-std-base", binp, i2, workdir, label="esc-ladder")
        stats.append(dict(st2, escalation="ladder translation"))


_c05_cross = mk_cross("C05", gen_cross_c05, ["s390x", "i686"])


def special_c05(res, tier, seed, workdir, stats):
    skeleton_translation(res, tier, seed, workdir, stats)
    _c05_cross(res, tier, seed, workdir, stats)


_c11_cross = mk_cross("C11", gen_cross_c11, ["s390x", "i686"])


def special_c11(res, tier, seed, workdir, stats):
    # from_checkpoint on 164 symbolic bytes, one instance per value of the clamped pending count, equals the model's decoder
    core_translation(res, tier, seed, workdir, stats, pid="C11", only=["from_checkpoint"])
    _c11_cross(res, tier, seed, workdir, stats)


_c12_cross = mk_cross("C12", gen_cross_c12)


def special_c12(res, tier, seed, workdir, stats):
    # the std adapters of src/macros.rs must be the four one-line forwards the machine models (no overridden provided method)
    skeleton_translation(res, tier, seed, workdir, stats, pid="C12", must=("impl_write!", "impl_hasher!"))
    _c12_cross(res, tier, seed, workdir, stats)


_c14_cross = mk_cross("C14", gen_cross_c14)


def special_c14(res, tier, seed, workdir, stats):
    # the checkpoint writer, translated from the source for every pending length, equals the model's encoding
    core_translation(res, tier, seed, workdir, stats, pid="C14", only=["checkpoint"])
    _c14_cross(res, tier, seed, workdir, stats)


T.SPECIAL.update({"C02": simd_translation, "C01": special_c01, "C05": special_c05, "C06": mk_cross("C06", gen_cross_c06),
                  "C07": special_c07, "C12": special_c12,
                  "C11": special_c11, "C13": mk_cross("C13", gen_cross_c13), "C14": special_c14})
T.SPECIAL.update({"C10": ladder_translation, "C15": special_c15, "C09": special_c09, "C03": special_c03, "C04": special_c04, "C08": special_c08, "C16": special_c16, "C17": special_c17, "C18": special_c18})
