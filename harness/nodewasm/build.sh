#!/bin/sh
# build the single-crate wasm runner: a scratch copy of <repo>/src with the runner appended as a module of the crate
# itself (the core-only sysroot of `MIRI_NO_STD=1 cargo miri setup` carries no machine code, so everything must be
# generated in ONE crate).  usage: build.sh <repo> <ops-file> <target-dir> <scratch-dir>  -> prints the .wasm path
set -e
REPO="$1"; OPS="$2"; TDIR="$3"; S="$4"
HERE="$(cd "$(dirname "$0")" && pwd)"
rm -rf "$S"; mkdir -p "$S/src"
cp -r "$REPO/src/." "$S/src/"
cp "$HERE/../common/exec.rs" "$S/src/__exec.rs"; cp "$HERE/../common/intrin.rs" "$S/src/intrin.rs"
cp "$HERE/src/runner.rs" "$S/src/__runner.rs"
cat >> "$S/src/lib.rs" <<'EOR'

// ---- appended by /verif/harness/nodewasm/build.sh (scratch copy only)
extern crate self as highway;
#[allow(unsafe_code, missing_docs, dead_code, unused, clippy::all)]
#[path = "__exec.rs"]
mod exec;
#[allow(unsafe_code, missing_docs)]
#[path = "__runner.rs"]
mod __runner;
EOR
cat > "$S/Cargo.toml" <<'EOR'
[package]
name = "highway"
version = "0.0.0"
edition = "2021"
[workspace]
[lib]
crate-type = ["cdylib"]
[features]
default = []
std = []
[profile.release]
panic = "abort"
debug-assertions = true
overflow-checks = true
codegen-units = 1
EOR
mkdir -p "$S/.cargo"; printf '[net]\noffline = true\n' > "$S/.cargo/config.toml"
SYSROOT="${MIRI_SYSROOT:-$HOME/.cache/miri}"
cd "$S"
build() {
  OPS_FILE="$OPS" CARGO_TARGET_DIR="$TDIR" RUSTFLAGS="--sysroot $SYSROOT -C target-feature=+simd128 -A warnings --cfg hh_nodewasm" \
    cargo +nightly build --offline -q --release --target wasm32-unknown-unknown
}
: > src/__syms.rs
printf '\n#[allow(missing_docs, unsafe_code)]\n#[path = "__syms.rs"]\nmod __syms;\n' >> src/lib.rs
if ! build 2> "$S/build1.err"; then
  # the code-less core does not provide its statics: the decimal digit table of core::fmt::num (reached through the
  # bounds-check panic messages) is the one this crate needs; define it under the mangled name the linker asks for
  SYM=$(grep -o 'undefined symbol: [A-Za-z0-9_]*DECIMAL_PAIRS' "$S/build1.err" | head -1 | sed 's/undefined symbol: //')
  if [ -z "$SYM" ]; then cat "$S/build1.err" 1>&2; exit 1; fi
  python3 - "$SYM" > src/__syms.rs <<'EOP'
import sys
pairs = "".join("%02d" % i for i in range(100))
print('#[export_name = "%s"]\npub static DECIMAL_PAIRS: &[u8; 200] = b"%s";' % (sys.argv[1], pairs))
EOP
  build 1>&2
fi
echo "$TDIR/wasm32-unknown-unknown/release/highway.wasm"
