#!/usr/bin/env python3
"""Confirm a seeded defect produced by a sub-agent and evaluate the checks against it.
usage: seed_eval.py <mutant-dir (/tmp/mut/C05)> <name> [--checks C01,C02,...]
 1. fresh scratch worktree of /repo: demo passes on the unmodified tree
 2. patch applied: crate builds, the pinned suite (cargo test --offline) passes, the demo fails
 3. saved to /verif/seeded/<name>/
 4. patch applied to /repo itself, checks run, patch undone
"""
import json, os, shutil, subprocess, sys, time

def sh(cmd, cwd=None, timeout=3600):
    r = subprocess.run(cmd, cwd=cwd, shell=True, stdout=subprocess.PIPE, stderr=subprocess.STDOUT, text=True, timeout=timeout,
                       env=dict(os.environ, CARGO_NET_OFFLINE="true"))
    return r.returncode, r.stdout

def main():
    mdir, name = sys.argv[1], sys.argv[2]
    checks = None
    if "--checks" in sys.argv:
        checks = sys.argv[sys.argv.index("--checks") + 1].split(",")
    out = os.path.join(mdir, "OUT")
    meta = json.load(open(os.path.join(out, "meta.json")))
    demo = "demo_test.rs" if os.path.exists(os.path.join(out, "demo_test.rs")) else "demo.rs"
    def opt(name, default=None):
        return sys.argv[sys.argv.index(name) + 1] if name in sys.argv else default
    custom_cmd = opt("--demo-cmd")
    custom_dst = opt("--demo-dst")
    if opt("--demo-src"):
        demo = opt("--demo-src")
    wt = f"/tmp/mutv-{name}"
    sh(f"git -C /repo worktree remove --force {wt}")
    rc, o = sh(f"git -C /repo worktree add -q --detach {wt} HEAD")
    assert rc == 0, o
    tgt = f"{wt}/target"
    result = dict(name=name, property=meta.get("property"), summary=meta.get("summary"), needs=meta.get("needs"))
    try:
        demo_dst = f"{wt}/tests/demo_test.rs" if demo == "demo_test.rs" else f"{wt}/examples/demo.rs"
        if custom_dst:
            demo_dst = os.path.join(wt, custom_dst)
            os.makedirs(os.path.dirname(demo_dst), exist_ok=True)
            for extra in (opt("--extra-files") or "").split(","):
                if extra:
                    src_, dst_ = extra.split(":")
                    os.makedirs(os.path.dirname(os.path.join(wt, dst_)), exist_ok=True)
                    shutil.copy(src_, os.path.join(wt, dst_))
        if custom_cmd:
            shutil.copy(os.path.join(out, demo), demo_dst)
            run_demo = custom_cmd.replace("{TGT}", tgt).replace("{WT}", wt)
        elif demo == "demo_test.rs":
            shutil.copy(os.path.join(out, demo), f"{wt}/tests/demo_test.rs")
            run_demo = f"CARGO_TARGET_DIR={tgt} cargo test --offline --test demo_test"
        else:
            shutil.copy(os.path.join(out, demo), f"{wt}/examples/demo.rs")
            run_demo = f"CARGO_TARGET_DIR={tgt} cargo run --offline --example demo"
        rc0, o0 = sh(run_demo, cwd=wt)
        result["demo_unmodified"] = "pass" if rc0 == 0 else "FAIL"
        rc, o = sh(f"git apply {out}/patch.diff", cwd=wt)
        result["patch_applies"] = rc == 0
        os.unlink(demo_dst)
        rcs, os_ = sh(f"CARGO_TARGET_DIR={tgt} cargo test --offline --no-fail-fast -- --skip demo 2>&1 | grep -E '^test result|FAILED|error' ", cwd=wt)
        # pinned suite = everything except the demo test binary
        lines = [l for l in os_.split("\n") if l.startswith("test result")]
        result["suite"] = lines
        result["suite_ok"] = all(" 0 failed" in l for l in lines) and len(lines) >= 6 and "error" not in os_
        rcn, on = sh(f"CARGO_TARGET_DIR={tgt} cargo build --offline --no-default-features", cwd=wt)
        result["nostd_builds"] = rcn == 0
        shutil.copy(os.path.join(out, demo), demo_dst)
        rc1, o1 = sh(run_demo, cwd=wt)
        result["demo_patched"] = "fail" if rc1 != 0 else "PASS(!)"
        result["demo_patched_tail"] = o1[-600:]
    finally:
        sh(f"git -C /repo worktree remove --force {wt}")
    confirmed = result["demo_unmodified"] == "pass" and result["demo_patched"] == "fail" and result["suite_ok"] and result["patch_applies"]
    result["confirmed"] = confirmed
    print(json.dumps({k: v for k, v in result.items() if k != "demo_patched_tail"}, indent=1))
    if not confirmed:
        print(result.get("demo_patched_tail"))
        return 1
    sdir = f"/verif/seeded/{name}"
    os.makedirs(sdir, exist_ok=True)
    shutil.copy(f"{out}/patch.diff", sdir)
    shutil.copy(f"{out}/{demo}", sdir)
    if custom_cmd:
        open(f"{sdir}/demo_cmd.txt", "w").write(f"demo placed at {custom_dst}; run: {custom_cmd}\n")
    # run the checks against it on a scratch instance of the framework + scratch worktree (tools/eval_patch.py),
    # so that neither /repo nor /verif's build caches are occupied
    inst = opt("--instance", "2")
    cmd = f"python3 /verif/tools/eval_patch.py {sdir}/patch.diff {name} --instance {inst}" + (f" --checks {','.join(checks)}" if checks else "")
    r = subprocess.run(cmd, shell=True, stdout=subprocess.PIPE, text=True, timeout=4 * 3600)
    res = json.loads(r.stdout)
    det = {}
    for pid, txt in res["checks"].items():
        v = txt if txt.startswith("VIOLATION") else None
        kind = txt.split("[")[1].split("]")[0] if v and "[" in txt else None
        det[pid] = dict(violation=(v.split(" [")[0] if v else None), kind=kind, raw=txt)
        print(pid, txt[:220], flush=True)
    meta_out = dict(property=meta.get("property"), summary=meta.get("summary"), needs=meta.get("needs"), agent_ran=meta.get("ran"),
                    confirmed=dict(demo_passes_unmodified=True, demo_fails_patched=True, pinned_suite_passes_patched=True, suite=result["suite"],
                                   builds_no_default_features=result["nostd_builds"]),
                    checks_quick={k: (v["violation"] or "silent") + (f" [{v.get('kind')}]" if v.get("kind") else "") for k, v in det.items()},
                    detected_by=[k for k, v in det.items() if v["violation"]],
                    detected_with_failing_input=[k for k, v in det.items() if v["violation"] and "no-failing-input-found" not in v["violation"]])
    json.dump(meta_out, open(f"{sdir}/meta.json", "w"), indent=1)
    print("detected_by", meta_out["detected_by"], "with input:", meta_out["detected_with_failing_input"])
    return 0

sys.exit(main())
