#!/usr/bin/env python3
"""Regenerate /verif/MANIFEST.json from the tables below (keeps it valid at all times)."""
import json, os, sys
ROOT = os.path.dirname(os.path.dirname(os.path.abspath(__file__)))
ALL = [f"C{i:02d}" for i in range(1, 19)]

CORR = ("Tie to the code: every run rebuilds the Rust runner(s) from /repo's working tree, executes generated op histories on the real crate "
        "and on the compiled Lean model, and diffs every output line; property oracles are evaluated on the real outputs.")
CLAIMS = {
 "C01": dict(cat="proof", tech="Lean 4 proof (refinement portable model = HighwayHash spec, published vectors by kernel evaluation) + differential correspondence model/crate",
   text="Kernel-checked theorems: for all keys and byte strings the model of PortableHash (append+finalize64/128/256) equals the independent HighwayHash specification, "
        "which itself reproduces all 195 published vectors in the kernel. " + CORR + " Oracle: real portable result vs the Lean Spec.",
   note="Trusted: Lean kernel; axioms propext/Classical.choice/Quot.sound + bv_decide axioms for three bit-vector lemmas (zipper, mul32, modular reduction, rotate); the hand-written Spec (validated by vectors only); the hand-written model (validated by the correspondence on every run); rustc.", ref="4/C01"),
 "C02": dict(cat="proof", tech="Lean 4 proof (SSE/AVX models over modelled intrinsics refine the portable model for all states) + correspondence over the build-configuration matrix",
   text="Kernel-checked: update, remainder (all 32 pending counts), length injection/rotation, permutation, finalisation outputs and modular reduction of the SSE4.1 and AVX2 models commute with the portable ones for ALL register states; "
        "hence every back end (and whatever the selection ladder picks in any Cfg/Cpu) returns the portable result for all keys, chunkings and widths. " + CORR + " Quick: 6 build configurations; thorough: all 20. Oracle: real SSE/AVX/auto vs real portable.",
   note="Trusted: Lean kernel + bv_decide axioms (listed per theorem in the evidence); intrinsic semantics of HH/Intrin/X86.lean (transcribed from Intel pseudo-code, validated by the streams against the real instructions); model/code correspondence; rustc/LLVM per configuration.", ref="4/C02"),
 "C03": dict(cat="proof", tech="Lean 4 proof (NEON model over modelled intrinsics refines the portable model for all states; checkpoint interchange from the shared codec theorems) + the real src/aarch64.rs executed under Miri (aarch64) against the model",
   text="Kernel-checked: the transcription of src/aarch64.rs (vmull/vmovn/vshrn update, vqtbl1q zipper, take::<N>/size&4 remainder for all 32 pending counts, USHL-based rotation, modular reduction) refines the portable model on ALL register states; hence NEON = portable = HighwayHash spec for every key, chunking and width, NEON checkpoints are byte-identical to every other back end's and restore transparently in both directions at every cut. "
        "Tie: the working-tree source of aarch64.rs (never compiled by the pinned suite on this host) runs under cargo miri --target aarch64-unknown-linux-gnu on the op file; every output incl. every checkpoint byte must equal the Lean NEON model; Miri additionally reports UB (out-of-bounds take::<N>, misaligned loads). Oracle: real NEON vs real portable on the same interpreter.",
   note="Partial with respect to silicon: intrinsic semantics come from stdarch as interpreted by Miri; llvm.aarch64.neon.ushl.v4i32 (behind vshlq_u32) is supplied by a 15-line shim in the runner written from the Arm ARM. Trusted additionally: HH/Intrin/Neon.lean, Lean kernel + bv_decide axioms (listed in the evidence).", ref="4/C03"),
 "C04": dict(cat="proof", tech="Lean 4 proof (Wasm simd128 model incl. reversed lane convention refines the portable model for all states) + the real src/wasm.rs executed under Miri (wasm32 +simd128) against the model",
   text="Kernel-checked: the transcription of src/wasm.rs (lane-reversed V2x64U, emulated _mm_* helpers, u8x16_shuffle zipper, len>=16 remainder split with replace_lane, modulo-width shifts) refines the portable model on ALL register states; hence Wasm = portable = spec for every key, chunking, width, and its checkpoints interchange with every back end. "
        "Tie: the working-tree wasm.rs runs under MIRI_NO_STD=1 cargo miri --target wasm32-unknown-unknown -Ctarget-feature=+simd128 (no_std/no_main runner) on the op file; every output must equal the Lean Wasm model. Oracle: real Wasm vs real portable on the same interpreter.",
   note="Partial with respect to a real wasm engine: intrinsic semantics come from stdarch as interpreted by Miri. Trusted additionally: HH/Intrin/Wasm.lean, Lean kernel + bv_decide axioms.", ref="4/C04"),
 "C05": dict(cat="proof", tech="Lean 4 proof (generic buffering theorem by induction over chunk lists, lifted to every back end) + correspondence on the fill x chunk-length grid",
   text="Kernel-checked: for every back end and every hasher state satisfying the packet invariant, every partition of the data into chunks gives the result of one append of the concatenation, at every width; empty appends are identities; all entry points are the same transformer. "
        + CORR + " Dynamic part enumerates the 32 x |C| control skeleton through append/Hasher::write/io::Write::write/write_all/io::copy.",
   note="Trusted: as C02.", ref="4/C05"),
 "C06": dict(cat="proof", tech="Lean 4 proof (codec round-trip on abstract states, induction over hop lists) + correspondence over cuts x back-end pairs x hops",
   text="Kernel-checked: decode(encode a)=a for every abstract state with <32 pending bytes; restoring a checkpoint on any back end yields the same abstract state; by induction any journey of hops over any back ends at any cut points leaves every later result equal to the uninterrupted hasher's. " + CORR,
   note="Trusted: as C02.", ref="4/C06"),
 "C07": dict(cat="proof", tech="Lean 4 proof (default = new zero-key on every back end; kernel-checked witness of the repaired defect) + correspondence ckpt(default) vs model",
   text="The models' Default transcribes the (repaired, commit acfa546) impl Default; theorem: every default hasher is observationally the zero-key portable hasher = Spec with zero key. The theorem is thin by design; its force is the correspondence on default/new pairs over all types and std/no_std builds. Oracle: default vs fnew(0), vs zero-key portable.",
   note="Trusted: as C02. Genuine defect found on the pinned tree and fixed (known_findings.json).", ref="4/C07"),
 "C11": dict(cat="proof", tech="Lean 4 proof (for ALL 164-byte arrays: invariant established, same abstract state on every back end, laws lifted from C05/C06) + malformed-checkpoint correspondence stream",
   text="Kernel-checked for every c in u8^164 (count field over all of u32): the restored hasher satisfies idx<32 on every back end, all back ends are in the same abstract state so every later result is equal, empty append is the identity, streaming invariance and checkpoint transparency hold. "
        + CORR + " Malformed stream: arbitrary lanes/buffer, count in {0..34,63,64,255,256,2^16,2^31-1,2^31,2^32-1,random}, dev and release profiles; any panic is an oracle failure.",
   note="Trusted: as C02. Genuine defect (count>=32) found on the pinned tree and fixed (commit 5f54294).", ref="4/C11"),
 "C14": dict(cat="proof", tech="Lean 4 proof (checkpoint = encode(abstract state); idempotence; zero padding) + byte-level correspondence of checkpoints across chunkings/back ends",
   text="Kernel-checked: the checkpoint is a function of (key, bytes consumed) only, identical across chunkings and back ends; from_checkpoint(c).checkpoint()=c for produced c; bytes 128..160 are the pending bytes followed by zeros. " + CORR,
   note="Trusted: as C02. Genuine defect (stale buffer bytes) found on the pinned tree and fixed (commit 508ab49).", ref="4/C14"),
 "C08": dict(cat="proof", tech="Lean 4 proof (Except-model of every panic point of the portable path, both profiles, induction over histories) + catch_unwind correspondence in dev and release + #[no_panic] link check of every public op",
   text="Kernel-checked: with every slice/index/split_at/copy_from_slice check (both profiles) and every debug_assert/overflow check (debug profile) of internal.rs/portable.rs written out in Except, append, finalize64/128/256, checkpoint and from_checkpoint(ANY 164 bytes) return ok and equal the pure model under the packet invariant, which every constructor establishes and every op preserves; lifted to arbitrary histories by induction. "
        + CORR + " Dynamic: dev (overflow-checks + debug-assertions) and release runners execute every history under catch_unwind; any `panic` output is an oracle failure. Static release claim: a release (lto=fat, 1 CGU) binary with #[no_panic] wrappers around every public operation of PortableHash/SseHash/AvxHash/HighwayHasher must link.",
   note="The Except-model covers the portable path on every pointer width >= 16 bits; for the SIMD back ends the data-dependent slicing (remainder, all 32 pending counts) is proved in range on the footprint model, their remaining panic points are the shared append skeleton; absence of panic edges in machine code is established by the linker experiment, not by Lean. Trusted: as C02, no-panic crate, lld.", ref="4/C08"),
 "C09": dict(cat="proof", tech="Lean 4 proof about an access-pattern model (every raw-pointer load of the back ends over regions with unreadable bytes, all 32 pending counts, arbitrary neighbouring memory) + guard-page placement runs + Miri as UB detector + measured layout premises",
   text="Kernel-checked on the footprint model: for every pending count 0..31 and ARBITRARY memory behind the slice (incl. an unmapped byte right after it) the SSE/AVX2/NEON remainder loads, the masked loads, and the packet loads of user data touch only bytes of the slice and return the value model's result - which has no access to addresses or neighbouring bytes, hence address independence; the AVX2 aligned loads are shown to need exactly the 16/32-byte alignment premises, which the harness measures (align_of, buffer offset) in every build. "
        "Dynamic: inputs, individual chunks and the hasher object itself placed against PROT_NONE pages, start alignments 0..63, two neighbour fills, all native back ends, dev+release; a fault or a placement-dependent result is a violation with the case as replay. Miri (x86_64 +avx2) executes SSE/AVX/dispatcher streams and its UB report is a violation. The same ops are diffed against the Lean model.",
   note="Partial: accesses introduced by the compiler and real page faults are outside any Lean model (covered only by the guard-page and Miri runs); the footprint model is a hand transcription of the unsafe access sites. Trusted: as C02 + mmap/mprotect, Miri.", ref="4/C09"),
 "C10": dict(cat="proof", tech="Lean 4 proof (complete case analysis of the 128-row configuration table + machine invariant by induction over histories) + tags observed in every build configuration x masked CPUID",
   text="Kernel-checked for all 128 (arch, std, target-feature, detected-feature) rows: the new-ladder picks a permitted back end, the restore-ladder picks the same, portable iff no SIMD permitted, the tag names an existing union member, SIMD constructors are Some iff std and detected; by induction over histories every HighwayHasher obtained by new/default/restore/clone carries that back end. "
        + CORR + " The oracle checks the property's RELATION (Lean `Permitted` evaluated on the observed tag), not equality with the model's choice; CPUID faulting gives the SSE-only and no-SIMD CPUs on this AVX2 host. Quick: 6 build configurations (+3 CPU masks on the std ones); thorough: all 20.",
   note="Trusted: Lean kernel (axioms propext/Quot.sound/Classical.choice); Dispatch.lean transcription (tied by observed tags); CPUID emulation in the harness; aarch64/wasm arms are covered by C03/C04 runners when built.", ref="4/C10"),
 "C12": dict(cat="proof", tech="Lean 4 proof (corollaries of the streaming/observer theorems on the machine) + correspondence driving the real Hasher / io::Write trait impls",
   text="Kernel-checked: finish() after any writes on any back end is the 64-bit hash of the concatenation and leaves the state unchanged; write consumes and reports the whole buffer; flush is a no-op; builder-made hashers depend on the key only. Thin on the model side by design; " + CORR + " Streams use Hasher::write, io::Write::write, write_all, io::copy, flush, finish interleavings.",
   note="Trusted: as C02. hash_one of std value types is exercised only through byte streams (the Hash impls of std types are not modelled).", ref="4/C12"),
 "C13": dict(cat="proof", tech="Lean 4 proof (induction over histories of the machine: observers removable, frame property) + correspondence on histories with observers and divergent clones",
   text="Kernel-checked: for every history, deleting all checkpoint/finish/flush/Debug calls changes neither the final world nor any other output; a clone is identical at cloning time; operations that do not name a handle never change it. In the model observers return the same state by definition; that the code does (hand-written union Clone/Debug, finish cloning) is what the correspondence stream checks on every tag arm reachable natively. " + CORR,
   note="Trusted: as C02.", ref="4/C13"),
 "C15": dict(cat="proof", tech="Lean 4 proof (frame + locality lemmas of step, induction over arbitrary interleavings) + interleaved multi-handle correspondence",
   text="Kernel-checked: for any two families of API calls over disjoint handles and ANY interleaving of their steps, each family's outputs equal those of its isolated run (the schedule quantifier at the granularity of atomic API calls). Partial: real thread schedules and the std feature-detection cache are runtime behaviour the model cannot exhibit; the source-level absence of global state is checked by the facts translator when C15's static half is built. " + CORR,
   note="Trusted: as C02; threads are not modelled (API calls are atomic in the model).", ref="4/C15"),
 "C16": dict(cat="translation_validation", tech="source-facts translator (syn, regenerated from /repo/src every run) + Lean 4 kernel-decided theorems over the fact table + forbid(unsafe_code) compile check",
   text="The property is about program text under every cfg combination, so the model is the fact table regenerated from the working tree on every run (all cfg branches, macro bodies as token trees). Kernel-decided theorems: no unsafe token, no lint override, no unsafe attribute / foreign block / raw pointer in the seven portable-path files; lib.rs denies unsafe_code; module and macro closure of what PortableHash executes; no #[path] redirection. Supporting check: the same files compile under #![forbid(unsafe_code)] with and without std. A violation is reported with the offending source span as the replay.",
   note="Trusted: the syn-based translator (facts, not judgement), rustc's lint for the compile check, Lean kernel (decide +kernel). Allow-lists in the theorems are strict: a harmless new lint attribute breaks the theorem and is reported as no-failing-input-found unless it concerns unsafe_code.", ref="4/C16"),
 "C17": dict(cat="translation_validation", tech="source-facts translator + Lean 4 kernel-decided theorems (only LE conversions, no target-sensitive construct) + the real portable code executed under Miri on big-endian and 32-bit targets against the one target-independent Lean model",
   text="Facts half (kernel-decided on the regenerated table): every byte<->integer conversion on the portable path is from/to_le_bytes; no cfg(target_endian/pointer_width), usize::MAX/BITS, isize, raw pointer; integer casts are the six inventoried ones. Dynamic half: the working-tree portable code runs natively (LE/64) and under Miri on s390x (BE/64), powerpc (BE/32), i686 (LE/32) on one op file (hashes, checkpoints, restores incl. huge count fields) and every output must equal the single Lean model, which has neither endianness nor word size.",
   note="Trusted: translator; Miri as interpreter of the foreign targets (not hardware); model/code correspondence. A Miri target whose sysroot is unavailable is recorded as not executed, never an alarm.", ref="4/C17"),
 "C18": dict(cat="other", tech="source-facts theorems in Lean 4 (no allocation-capable construct outside cfg(test)) + allocation-count observable of the correspondence (counting global allocator) + allocator-symbol check of the no_std rlib",
   text="A functional model has no heap; what decides the property: kernel-decided theorems over the regenerated source facts (no alloc-capable name, no alloc crate, std only for io::Write), a counting #[global_allocator] around every real operation (construct, append 0 B..256 KiB quick / 4 MiB thorough, write, finish, clone, checkpoint, restore, Debug into a stack sink, finalize) in std and no_std builds on all native back ends - every op must report 0 - while the same ops are diffed against the Lean model, and the no_std rlib must reference no allocator symbol.",
   note="Partial by nature: allocation is runtime behaviour; NEON/Wasm back ends are covered by the source facts only. Trusted: translator, the counting allocator, nm.", ref="4/C18"),
}

def main():
    checks = []
    for pid in ALL:
        c = CLAIMS.get(pid)
        if not c:
            continue
        checks.append(dict(property_id=pid, quick_cmd=f"bin/check {pid} quick", thorough_cmd=f"bin/check {pid} thorough",
                           evidence_file=f"/verif/evidence/{pid}.json", replay_cmd_template=f"bin/check {pid} quick --replay {{path}}",
                           engine="lean+correspondence",
                           level_claimed=dict(category=c["cat"], text=c["text"], design_ref="DESIGN.md section " + c["ref"]),
                           level_note=c["note"], technique=c["tech"]))
    na = [dict(property_id=p, reason="check not built yet (work in progress; DESIGN.md section 8 gives the order of work) - technique remains Lean proof + correspondence")
          for p in ALL if p not in CLAIMS]
    m = dict(version=1, setup_cmd="bin/setup",
             hooks=dict(guard="nickbabcock_highway_rs_verif", enable="no hooks needed: checkpoint()/Debug expose all state (DESIGN.md 3.5); runners are separate crates with a path dependency on /repo",
                        baseline_off_cmd="cd /repo && cargo test --workspace --no-fail-fast --offline", source_commits=[], add_only=True),
             engines=[dict(name="lean+correspondence", path="/verif/lean, /verif/harness, /verif/lib", serves_properties=sorted(CLAIMS),
                           kind_free_text="Lean 4 model + theorems (lake), Rust runners executing the real crate, Python driver diffing the two")],
             checks=checks,
             notes="Three genuine defects of the pinned tree were repaired by fix: commits in /repo (acfa546 C07, 5f54294 C11, 508ab49 C14); see known_findings.json and DESIGN.md section 1.",
             not_applicable=na)
    json.dump(m, open(os.path.join(ROOT, "MANIFEST.json"), "w"), indent=1)
    print("claimed:", sorted(CLAIMS), "unclaimed:", [x["property_id"] for x in na])

main()
