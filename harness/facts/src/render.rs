//! Compact, deterministic pretty-printer for token streams.
//!
//! `TokenStream::to_string()` puts spaces between almost all tokens
//! (`# [cfg (feature = "std")]`).  The Lean side wants text that looks like the
//! source (`#[cfg(feature = "std")]`, `data.len() as u64`), independent of the
//! original layout and of comments.  This is a heuristic printer, it never
//! fails and is only used to build `detail` / `cfg` strings.

use proc_macro2::{Delimiter, Spacing, TokenStream, TokenTree};

pub const KEYWORDS: &[&str] = &[
    "as", "async", "await", "box", "break", "const", "continue", "dyn", "else", "enum", "extern",
    "fn", "for", "if", "impl", "in", "let", "loop", "match", "mod", "move", "mut", "pub", "ref",
    "return", "static", "struct", "trait", "type", "unsafe", "use", "where", "while", "yield",
];

#[derive(Clone, Copy, PartialEq)]
enum Prev {
    Start,
    Ident,
    Kw,
    Lit,
    Close,
    Punct,
}

struct R {
    out: String,
    max: usize,
    prev: Prev,
    space_after: bool,
    upper: bool,
    fn_state: u8,
    depth: u32,
    prev_joint: bool,
    last_char: char,
    last_unary: bool,
    last_generic_close: bool,
    last_ident_pub: bool,
}

impl R {
    fn put(&mut self, space_before: bool, s: &str) {
        if self.prev != Prev::Start && self.space_after && space_before {
            self.out.push(' ');
        }
        self.out.push_str(s);
    }

    fn stream(&mut self, ts: TokenStream) {
        for tt in ts {
            if self.out.len() > self.max + 8 {
                return;
            }
            match tt {
                TokenTree::Ident(id) => {
                    let s = id.to_string();
                    let kw = KEYWORDS.contains(&s.as_str());
                    self.put(true, &s);
                    self.prev = if kw { Prev::Kw } else { Prev::Ident };
                    self.space_after = true;
                    self.upper = s.chars().next().map_or(false, |c| c.is_uppercase());
                    self.fn_state = if s == "fn" {
                        1
                    } else if self.fn_state == 1 {
                        2
                    } else {
                        0
                    };
                    self.last_ident_pub = s == "pub";
                    self.prev_joint = false;
                    self.last_generic_close = false;
                }
                TokenTree::Literal(l) => {
                    self.put(true, &l.to_string());
                    self.prev = Prev::Lit;
                    self.space_after = true;
                    self.prev_joint = false;
                    self.last_generic_close = false;
                    self.fn_state = 0;
                    self.last_ident_pub = false;
                }
                TokenTree::Group(g) => {
                    let (o, c, brace) = match g.delimiter() {
                        Delimiter::Parenthesis => ("(", ")", false),
                        Delimiter::Bracket => ("[", "]", false),
                        Delimiter::Brace => ("{", "}", true),
                        Delimiter::None => {
                            self.stream(g.stream());
                            continue;
                        }
                    };
                    let sb = if brace {
                        true
                    } else {
                        !(self.prev == Prev::Ident
                            || self.prev == Prev::Close
                            || self.last_generic_close
                            || self.last_ident_pub)
                    };
                    self.put(sb, o);
                    let empty = g.stream().is_empty();
                    let depth = self.depth;
                    self.depth = 0;
                    self.prev = Prev::Start;
                    self.space_after = false;
                    self.prev_joint = false;
                    self.last_generic_close = false;
                    self.fn_state = 0;
                    self.last_ident_pub = false;
                    if brace && !empty {
                        self.out.push(' ');
                    }
                    self.stream(g.stream());
                    if brace && !empty {
                        self.out.push(' ');
                    }
                    self.out.push_str(c);
                    self.depth = depth;
                    self.prev = Prev::Close;
                    self.space_after = true;
                    self.prev_joint = false;
                    self.last_generic_close = false;
                }
                TokenTree::Punct(p) => {
                    let ch = p.as_char();
                    let joint = p.spacing() == Spacing::Joint;
                    let operand_before = matches!(self.prev, Prev::Ident | Prev::Lit | Prev::Close)
                        || self.last_generic_close;
                    let sb;
                    let sa;
                    let mut unary = false;
                    let mut gen_close = false;
                    let cont = self.prev_joint && is_op_pair(self.last_char, ch);
                    if cont {
                        // second (or third) character of a multi-character operator
                        self.space_after = false;
                        sb = false;
                        unary = self.last_unary;
                        sa = match (self.last_char, ch) {
                            (':', ':') => false,
                            ('.', _) => false,
                            _ => !self.last_unary,
                        };
                        if ch == '>' && self.last_char == '>' && self.depth > 0 {
                            self.depth -= 1;
                            gen_close = true;
                        }
                    } else {
                        match ch {
                            ',' | ';' | '?' => {
                                sb = false;
                                sa = true;
                            }
                            '.' => {
                                sb = false;
                                sa = false;
                            }
                            ':' => {
                                if joint {
                                    sb = !(self.prev == Prev::Ident
                                        || self.prev == Prev::Close
                                        || self.last_generic_close);
                                    sa = false;
                                } else {
                                    sb = false;
                                    sa = true;
                                }
                            }
                            '!' => {
                                sb = joint || self.prev != Prev::Ident;
                                sa = false;
                            }
                            '#' | '$' | '\'' => {
                                sb = true;
                                sa = false;
                            }
                            '<' => {
                                let generic = !joint
                                    && (!operand_before
                                        || (self.prev == Prev::Ident
                                            && (self.upper || self.fn_state == 2)));
                                if generic {
                                    self.depth += 1;
                                    sb = self.prev != Prev::Ident;
                                    sa = false;
                                } else {
                                    sb = true;
                                    sa = true;
                                }
                            }
                            '>' => {
                                if self.depth > 0 {
                                    self.depth -= 1;
                                    gen_close = true;
                                    sb = false;
                                    sa = true;
                                } else {
                                    sb = true;
                                    sa = true;
                                }
                            }
                            '&' | '*' | '-' => {
                                sb = true;
                                if operand_before {
                                    sa = true;
                                } else {
                                    unary = true;
                                    sa = false;
                                }
                            }
                            _ => {
                                sb = true;
                                sa = true;
                            }
                        }
                    }
                    let mut buf = [0u8; 4];
                    self.put(sb, ch.encode_utf8(&mut buf));
                    self.prev = Prev::Punct;
                    self.space_after = sa;
                    self.prev_joint = joint;
                    self.last_char = ch;
                    self.last_unary = unary;
                    self.last_generic_close = gen_close;
                    self.upper = false;
                    self.fn_state = 0;
                    self.last_ident_pub = false;
                }
            }
        }
    }
}

/// `a` immediately followed by `b` is (part of) one operator.
fn is_op_pair(a: char, b: char) -> bool {
    matches!(
        (a, b),
        (':', ':')
            | ('-', '>')
            | ('=', '>')
            | ('.', '.')
            | ('.', '=')
            | ('&', '&')
            | ('|', '|')
            | ('<', '<')
            | ('>', '>')
            | ('=', '=')
            | ('!', '=')
            | ('<', '=')
            | ('>', '=')
            | ('+', '=')
            | ('-', '=')
            | ('*', '=')
            | ('/', '=')
            | ('%', '=')
            | ('^', '=')
            | ('&', '=')
            | ('|', '=')
    )
}

/// Cut `s` to at most `max` characters.
pub fn truncate(s: &str, max: usize) -> String {
    if s.chars().count() <= max {
        s.to_string()
    } else {
        s.chars().take(max).collect()
    }
}

/// Render a token stream compactly, truncated to `max` characters.
pub fn render(ts: TokenStream, max: usize) -> String {
    let mut r = R {
        out: String::new(),
        max: max.saturating_mul(4),
        prev: Prev::Start,
        space_after: false,
        upper: false,
        fn_state: 0,
        depth: 0,
        prev_joint: false,
        last_char: ' ',
        last_unary: false,
        last_generic_close: false,
        last_ident_pub: false,
    };
    r.stream(ts);
    truncate(&r.out, max)
}

#[cfg(test)]
mod tests {
    use super::render;

    fn r(s: &str) -> String {
        render(s.parse().unwrap(), 200)
    }

    #[test]
    fn samples() {
        assert_eq!(r("# [cfg (feature = \"std\")]"), "#[cfg(feature = \"std\")]");
        assert_eq!(r("#![allow(unsafe_code)]"), "#![allow(unsafe_code)]");
        assert_eq!(
            r("impl :: std :: io :: Write for $ hasher_struct { }"),
            "impl ::std::io::Write for $hasher_struct {}"
        );
        assert_eq!(r("data . len ( ) as u64"), "data.len() as u64");
        assert_eq!(r("(x >> 32) as u32"), "(x >> 32) as u32");
        assert_eq!(r("($z << 6) | ($y << 4)"), "($z << 6) | ($y << 4)");
        assert_eq!(
            r("if is_x86_feature_detected ! (\"avx2\") { a }"),
            "if is_x86_feature_detected!(\"avx2\") { a }"
        );
        assert_eq!(
            r("fn write(&mut self, bytes: &[u8]) -> ::std::io::Result<usize>"),
            "fn write(&mut self, bytes: &[u8]) -> ::std::io::Result<usize>"
        );
        assert_eq!(r("key.0.as_ptr().cast::<__m128i>()"), "key.0.as_ptr().cast::<__m128i>()");
        assert_eq!(r("x as * const u8"), "x as *const u8");
        assert_eq!(r("a != b && !c"), "a != b && !c");
        assert_eq!(r("v0[..2]"), "v0[..2]");
        assert_eq!(r("impl From<__m128i> for V2x64U"), "impl From<__m128i> for V2x64U");
        assert_eq!(r("f : & mut core :: fmt :: Formatter < '_ >"), "f: &mut core::fmt::Formatter<'_>");
        assert_eq!(r("all(not(feature = \"std\"), not(test))"), "all(not(feature = \"std\"), not(test))");
        assert_eq!(r("mem :: size_of :: < usize > ( )"), "mem::size_of::<usize>()");
    }
}
