import HH.Basic
/-!
# HH.Intrin.X86 — semantics of the SSE4.1 / AVX2 intrinsics used by `src/x86/*.rs`

Transcribed from the Intel Intrinsics Guide pseudo-code onto `BitVec 128`; a 256-bit register is
the pair of its two 128-bit lanes (`R256`), which is how almost every AVX2 instruction the crate
uses is specified ("per 128-bit lane").  These definitions are *trusted*; they are validated on
every run against the real instructions by the `intrin` conformance stream (see DESIGN.md).
Memory operands take the byte list they read from and an offset; bytes beyond the list read as 0
in this value-level model (the footprint model in `HH/Footprint.lean` makes such a read a fault).
-/
namespace HH
namespace X86

/-! ### 128-bit register views -/
@[inline] def lo64 (r : BitVec 128) : BitVec 64 := r.setWidth 64
@[inline] def hi64 (r : BitVec 128) : BitVec 64 := (r >>> 64).setWidth 64
@[inline] def mk (hi lo : BitVec 64) : BitVec 128 := hi ++ lo
@[inline] def lane32 (r : BitVec 128) (i : Nat) : BitVec 32 := r.extractLsb' (32 * i) 32
@[inline] def mk32 (d c b a : BitVec 32) : BitVec 128 := d ++ c ++ b ++ a
@[inline] def byteAt (r : BitVec 128) (i : Nat) : BitVec 8 := r.extractLsb' (8 * i) 8
def ofBytes16 (bs : List (BitVec 8)) : BitVec 128 := mk (le64 (bs.drop 8)) (le64 bs)

/-! ### loads / stores / set -/
/-- `_mm_loadu_si128(ptr)` / `_mm_load_si128(ptr)` where `ptr = mem.as_ptr().add(off)` -/
def loadu_si128 (mem : List (BitVec 8)) (off : Nat) : BitVec 128 := ofBytes16 (mem.drop off)
/-- `_mm_loadl_epi64` -/
def loadl_epi64 (mem : List (BitVec 8)) (off : Nat) : BitVec 128 := mk 0 (le64 (mem.drop off))
/-- `_mm_set_epi64x(e1, e0)` -/
def set_epi64x (e1 e0 : BitVec 64) : BitVec 128 := mk e1 e0
/-- `_mm_set_epi32(e3, e2, e1, e0)` -/
def set_epi32 (e3 e2 e1 e0 : BitVec 32) : BitVec 128 := mk32 e3 e2 e1 e0
/-- `_mm_set1_epi32` -/
def set1_epi32 (x : BitVec 32) : BitVec 128 := mk32 x x x x
/-- `_mm_cvtsi64_si128` -/
def cvtsi64_si128 (x : BitVec 64) : BitVec 128 := mk 0 x
/-- `_mm_cvtsi32_si128` -/
def cvtsi32_si128 (x : BitVec 32) : BitVec 128 := mk32 0 0 0 x
/-- `_mm_storeu_si128` into a `[u64; 2]` -/
def storeu_si128 (r : BitVec 128) : BitVec 64 × BitVec 64 := (lo64 r, hi64 r)
/-- `_mm_storel_epi64` -/
def storel_epi64 (r : BitVec 128) : BitVec 64 := lo64 r

/-! ### arithmetic / logic -/
def add_epi64 (a b : BitVec 128) : BitVec 128 := mk (hi64 a + hi64 b) (lo64 a + lo64 b)
def sub_epi64 (a b : BitVec 128) : BitVec 128 := mk (hi64 a - hi64 b) (lo64 a - lo64 b)
def and_si128 (a b : BitVec 128) : BitVec 128 := a &&& b
def or_si128 (a b : BitVec 128) : BitVec 128 := a ||| b
def xor_si128 (a b : BitVec 128) : BitVec 128 := a ^^^ b
/-- `_mm_andnot_si128(a, b) = (!a) & b` -/
def andnot_si128 (a b : BitVec 128) : BitVec 128 := ~~~a &&& b
/-- `_mm_mul_epu32`: low 32 bits of each 64-bit lane, multiplied to 64 bits -/
def mul_epu32 (a b : BitVec 128) : BitVec 128 :=
  mk (((hi64 a).setWidth 32).setWidth 64 * ((hi64 b).setWidth 32).setWidth 64)
     (((lo64 a).setWidth 32).setWidth 64 * ((lo64 b).setWidth 32).setWidth 64)
def sub_epi32 (a b : BitVec 128) : BitVec 128 :=
  mk32 (lane32 a 3 - lane32 b 3) (lane32 a 2 - lane32 b 2) (lane32 a 1 - lane32 b 1) (lane32 a 0 - lane32 b 0)

/-! ### shifts -/
/-- `_mm_srli_epi64(a, imm8)` -/
def srli_epi64 (a : BitVec 128) (imm : Nat) : BitVec 128 :=
  if imm > 63 then 0 else mk (hi64 a >>> imm) (lo64 a >>> imm)
/-- `_mm_slli_epi64(a, imm8)` -/
def slli_epi64 (a : BitVec 128) (imm : Nat) : BitVec 128 :=
  if imm > 63 then 0 else mk (hi64 a <<< imm) (lo64 a <<< imm)
/-- `_mm_slli_si128(a, imm8)`: byte shift of the whole register -/
def slli_si128 (a : BitVec 128) (imm : Nat) : BitVec 128 :=
  if imm > 15 then 0 else a <<< (8 * imm)
/-- `_mm_sll_epi32(a, count)`: count is the low 64 bits of `count` -/
def sll_epi32 (a count : BitVec 128) : BitVec 128 :=
  let c := (lo64 count).toNat
  if c > 31 then 0 else mk32 (lane32 a 3 <<< c) (lane32 a 2 <<< c) (lane32 a 1 <<< c) (lane32 a 0 <<< c)
/-- `_mm_srl_epi32(a, count)` -/
def srl_epi32 (a count : BitVec 128) : BitVec 128 :=
  let c := (lo64 count).toNat
  if c > 31 then 0 else mk32 (lane32 a 3 >>> c) (lane32 a 2 >>> c) (lane32 a 1 >>> c) (lane32 a 0 >>> c)
/-- one lane of `_mm256_sllv_epi32` / `_mm256_srlv_epi32` -/
def sllv32 (a c : BitVec 32) : BitVec 32 := if c.toNat > 31 then 0 else a <<< c.toNat
def srlv32 (a c : BitVec 32) : BitVec 32 := if c.toNat > 31 then 0 else a >>> c.toNat
def sllv_epi32 (a c : BitVec 128) : BitVec 128 :=
  mk32 (sllv32 (lane32 a 3) (lane32 c 3)) (sllv32 (lane32 a 2) (lane32 c 2))
       (sllv32 (lane32 a 1) (lane32 c 1)) (sllv32 (lane32 a 0) (lane32 c 0))
def srlv_epi32 (a c : BitVec 128) : BitVec 128 :=
  mk32 (srlv32 (lane32 a 3) (lane32 c 3)) (srlv32 (lane32 a 2) (lane32 c 2))
       (srlv32 (lane32 a 1) (lane32 c 1)) (srlv32 (lane32 a 0) (lane32 c 0))

/-! ### shuffles / inserts -/
/-- `_mm_shuffle_epi32(a, imm8)` -/
def shuffle_epi32 (a : BitVec 128) (imm : Nat) : BitVec 128 :=
  mk32 (lane32 a ((imm >>> 6) % 4)) (lane32 a ((imm >>> 4) % 4)) (lane32 a ((imm >>> 2) % 4)) (lane32 a (imm % 4))
/-- one output byte of `pshufb` -/
def pshufbByte (a : BitVec 128) (m : BitVec 8) : BitVec 8 :=
  if m.getLsbD 7 then 0 else byteAt a (m.toNat % 16)
/-- `_mm_shuffle_epi8(a, mask)` -/
def shuffle_epi8 (a mask : BitVec 128) : BitVec 128 :=
  pshufbByte a (byteAt mask 15) ++ pshufbByte a (byteAt mask 14) ++ pshufbByte a (byteAt mask 13) ++
  pshufbByte a (byteAt mask 12) ++ pshufbByte a (byteAt mask 11) ++ pshufbByte a (byteAt mask 10) ++
  pshufbByte a (byteAt mask 9) ++ pshufbByte a (byteAt mask 8) ++ pshufbByte a (byteAt mask 7) ++
  pshufbByte a (byteAt mask 6) ++ pshufbByte a (byteAt mask 5) ++ pshufbByte a (byteAt mask 4) ++
  pshufbByte a (byteAt mask 3) ++ pshufbByte a (byteAt mask 2) ++ pshufbByte a (byteAt mask 1) ++
  pshufbByte a (byteAt mask 0)
/-- `_mm_insert_epi32(a, i, imm8)` -/
def insert_epi32 (a : BitVec 128) (x : BitVec 32) (imm : Nat) : BitVec 128 :=
  mk32 (if imm % 4 = 3 then x else lane32 a 3) (if imm % 4 = 2 then x else lane32 a 2)
       (if imm % 4 = 1 then x else lane32 a 1) (if imm % 4 = 0 then x else lane32 a 0)
/-- `_mm_unpacklo_epi64(a, b)` -/
def unpacklo_epi64 (a b : BitVec 128) : BitVec 128 := mk (lo64 b) (lo64 a)

/-! ### compares / masked load -/
def cmpgt32 (a b : BitVec 32) : BitVec 32 := if b.slt a then 0xFFFFFFFF#32 else 0
/-- `_mm_cmpgt_epi32` (signed) -/
def cmpgt_epi32 (a b : BitVec 128) : BitVec 128 :=
  mk32 (cmpgt32 (lane32 a 3) (lane32 b 3)) (cmpgt32 (lane32 a 2) (lane32 b 2))
       (cmpgt32 (lane32 a 1) (lane32 b 1)) (cmpgt32 (lane32 a 0) (lane32 b 0))
def cmpeq64 (a b : BitVec 64) : BitVec 64 := if a = b then 0xFFFFFFFFFFFFFFFF#64 else 0
/-- `_mm_cmpeq_epi64` -/
def cmpeq_epi64 (a b : BitVec 128) : BitVec 128 := mk (cmpeq64 (hi64 a) (hi64 b)) (cmpeq64 (lo64 a) (lo64 b))
/-- one lane of `_mm_maskload_epi32`: loaded iff the mask lane's sign bit is set -/
def maskLane (mem : List (BitVec 8)) (off : Nat) (m : BitVec 32) : BitVec 32 :=
  if m.getLsbD 31 then le32 (mem.drop off) else 0
/-- `_mm_maskload_epi32(ptr, mask)` with `ptr = mem.as_ptr().add(off)` -/
def maskload_epi32 (mem : List (BitVec 8)) (off : Nat) (mask : BitVec 128) : BitVec 128 :=
  mk32 (maskLane mem (off + 12) (lane32 mask 3)) (maskLane mem (off + 8) (lane32 mask 2))
       (maskLane mem (off + 4) (lane32 mask 1)) (maskLane mem off (lane32 mask 0))

/-! ### 256-bit registers as two 128-bit lanes -/
structure R256 where
  lo : BitVec 128
  hi : BitVec 128
deriving DecidableEq, Repr, Inhabited

namespace R256
@[inline] def map2 (f : BitVec 128 → BitVec 128 → BitVec 128) (a b : R256) : R256 := ⟨f a.lo b.lo, f a.hi b.hi⟩
@[inline] def map (f : BitVec 128 → BitVec 128) (a : R256) : R256 := ⟨f a.lo, f a.hi⟩
/-- 32-bit lane `i ∈ 0..7` -/
def lane32 (a : R256) (i : Nat) : BitVec 32 := if i < 4 then X86.lane32 a.lo i else X86.lane32 a.hi (i - 4)
end R256

/-- `_mm256_loadu_si256` / `_mm256_load_si256` -/
def loadu_si256 (mem : List (BitVec 8)) (off : Nat) : R256 := ⟨loadu_si128 mem off, loadu_si128 mem (off + 16)⟩
/-- `_mm256_set_epi64x(e3, e2, e1, e0)` -/
def set256_epi64x (e3 e2 e1 e0 : BitVec 64) : R256 := ⟨mk e1 e0, mk e3 e2⟩
/-- `_mm256_storeu_si256` into `[u64; 4]` -/
def storeu_si256 (r : R256) : BitVec 64 × BitVec 64 × BitVec 64 × BitVec 64 := (lo64 r.lo, hi64 r.lo, lo64 r.hi, hi64 r.hi)
def add256_epi64 := R256.map2 add_epi64
def sub256_epi64 := R256.map2 sub_epi64
def and256 := R256.map2 and_si128
def or256 := R256.map2 or_si128
def xor256 := R256.map2 xor_si128
def andnot256 := R256.map2 andnot_si128
def mul256_epu32 := R256.map2 mul_epu32
def sub256_epi32 := R256.map2 sub_epi32
def shuffle256_epi32 (a : R256) (imm : Nat) : R256 := a.map (shuffle_epi32 · imm)
def shuffle256_epi8 := R256.map2 shuffle_epi8
def srli256_epi64 (a : R256) (imm : Nat) : R256 := a.map (srli_epi64 · imm)
def slli256_epi64 (a : R256) (imm : Nat) : R256 := a.map (slli_epi64 · imm)
/-- `_mm256_slli_si256`: byte shift within each 128-bit lane -/
def slli256_si256 (a : R256) (imm : Nat) : R256 := a.map (slli_si128 · imm)
def sllv256_epi32 := R256.map2 sllv_epi32
def srlv256_epi32 := R256.map2 srlv_epi32
def cmpeq256_epi64 := R256.map2 cmpeq_epi64
def unpacklo256_epi64 := R256.map2 unpacklo_epi64
def setzero256 : R256 := ⟨0, 0⟩
/-- `_mm256_castsi256_si128` -/
def castsi256_si128 (a : R256) : BitVec 128 := a.lo
/-- `_mm256_extracti128_si256(a, imm8)` -/
def extracti128_si256 (a : R256) (imm : Nat) : BitVec 128 := if imm % 2 = 1 then a.hi else a.lo
/-- `_mm256_castsi128_si256`: upper half undefined; modelled as 0 (always overwritten by the
following `_mm256_inserti128_si256(_, _, 1)` in the crate). -/
def castsi128_si256 (a : BitVec 128) : R256 := ⟨a, 0⟩
/-- `_mm256_inserti128_si256(a, b, imm8)` -/
def inserti128_si256 (a : R256) (b : BitVec 128) (imm : Nat) : R256 :=
  if imm % 2 = 1 then ⟨a.lo, b⟩ else ⟨b, a.hi⟩
/-- `_mm256_broadcastd_epi32` -/
def broadcastd_epi32 (a : BitVec 128) : R256 := ⟨set1_epi32 (lane32 a 0), set1_epi32 (lane32 a 0)⟩
/-- `_mm256_permutevar8x32_epi32(a, idx)` -/
def permutevar8x32_epi32 (a idx : R256) : R256 :=
  let sel (i : Nat) : BitVec 32 := a.lane32 ((idx.lane32 i).toNat % 8)
  ⟨mk32 (sel 3) (sel 2) (sel 1) (sel 0), mk32 (sel 7) (sel 6) (sel 5) (sel 4)⟩

end X86
end HH
