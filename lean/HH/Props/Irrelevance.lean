import HH.Proofs.MachineLemmas
/-!
# Configuration irrelevance of whole histories (strengthens C02 / C10 / C12 at the machine level)

Two machines running in ANY two environments (target class, std, compile-time and detected CPU
features) execute the same history of API calls on `HighwayHasher` and `PortableHash` handles:
every output is identical, except that `Debug` may report a different tag.  So the auto-selecting
hasher is observationally the portable hasher in every configuration, for whole histories
(constructors, appends through any entry point, clones, checkpoints, restores from arbitrary bytes
or from other handles, finishes, finalisations).
-/
namespace HH.Irrelevance

def Handle.rel (x y : Handle) : Prop := x.auto = y.auto ∧ x.h.abs = y.h.abs ∧ x.h.Inv ∧ y.h.Inv

def Wrel (w1 w2 : World) : Prop :=
  ∀ i, match w1.get i, w2.get i with
    | some x, some y => Handle.rel x y
    | none, none => True
    | _, _ => False

/-- outputs agree, tags up to the back end chosen -/
def Orel : Out → Out → Prop
  | .tag a _, .tag b _ => a = b
  | o1, o2 => o1 = o2

def selOk : Sel → Prop
  | .auto => True
  | .only .portable => True
  | _ => False

/-- operations on always-available hasher types, with well-formed (164-byte) checkpoints -/
def opOk : Op → Prop
  | .new _ s _ _ => selOk s
  | .default _ s => selOk s
  | .restore _ s _ c => selOk s ∧ c.length = 164
  | .restoreH _ s _ _ => selOk s
  | .hash s _ _ _ _ => selOk s
  | _ => True

theorem Wrel_get (w1 w2 : World) (h : Wrel w1 w2) (i : Nat) :
    (w1.get i = none ∧ w2.get i = none) ∨ (∃ x y, w1.get i = some x ∧ w2.get i = some y ∧ Handle.rel x y) := by
  have := h i
  cases h1 : w1.get i <;> cases h2 : w2.get i <;> simp [h1, h2] at this
  · exact Or.inl ⟨rfl, rfl⟩
  · exact Or.inr ⟨_, _, rfl, rfl, this⟩

theorem Wrel_put (w1 w2 : World) (h : Wrel w1 w2) (i : Nat) (x y : Handle) (hxy : Handle.rel x y) :
    Wrel (w1.put i x) (w2.put i y) := by
  intro j
  rw [World.get_put, World.get_put]
  by_cases hj : j = i
  · simp [hj, hxy]
  · simp only [hj, ↓reduceIte]; exact h j

theorem Wrel_del (w1 w2 : World) (h : Wrel w1 w2) (i : Nat) : Wrel (w1.del i) (w2.del i) := by
  intro j
  rw [World.get_del, World.get_del]
  by_cases hj : j = i
  · simp [hj]
  · simp only [hj, ↓reduceIte]; exact h j

/-- every back end has a model: the constructors of an always-available selection succeed -/
theorem construct_ok (env : Env) (sel : Sel) (hs : selOk sel) (force restore : Bool) (mk : Backend → Option Hasher)
    (hmk : ∀ b, ∃ h, mk b = some h) : ∃ x, construct env sel force restore mk = some x ∧ x.auto = (sel == .auto) ∧
      ∃ b, mk b = some x.h := by
  cases sel with
  | auto =>
    simp only [construct, resolve]
    obtain ⟨h, hh⟩ := hmk (if restore = true then selectRestore env.cfg env.cpu else selectNew env.cfg env.cpu)
    exact ⟨mkHandle .auto h, by simp [hh], rfl, _, hh⟩
  | only b =>
    cases b <;> simp only [selOk] at hs
    simp only [construct, resolve]
    obtain ⟨h, hh⟩ := hmk .portable
    exact ⟨mkHandle (.only .portable) h, by simp [hh], rfl, _, hh⟩

theorem new_total (k : V4) (b : Backend) : ∃ h, Hasher.new b k = some h := by cases b <;> exact ⟨_, rfl⟩
theorem default_total (b : Backend) : ∃ h, Hasher.default b = some h := by cases b <;> exact ⟨_, rfl⟩
theorem restore_total (c : List (BitVec 8)) (b : Backend) : ∃ h, Hasher.fromCheckpoint b c = some h := by
  cases b <;> exact ⟨_, rfl⟩

/-- one step: related worlds stay related and the outputs agree -/
theorem step_sim (e1 e2 : Env) (w1 w2 : World) (op : Op) (hw : Wrel w1 w2) (hop : opOk op) :
    Wrel (step e1 w1 op).1 (step e2 w2 op).1 ∧ Orel (step e1 w1 op).2 (step e2 w2 op).2 := by
  cases op with
  | reset => exact ⟨fun i => by simp [step, World.get_nil], rfl⟩
  | new h sel force key =>
    obtain ⟨x, hx, hxa, b1, hb1⟩ := construct_ok e1 sel hop force false (Hasher.new · key) (new_total key)
    obtain ⟨y, hy, hya, b2, hb2⟩ := construct_ok e2 sel hop force false (Hasher.new · key) (new_total key)
    have a1 := Hasher.new_abs b1 key x.h hb1
    have a2 := Hasher.new_abs b2 key y.h hb2
    simp only [step, hx, hy]
    exact ⟨Wrel_put _ _ hw h x y ⟨by rw [hxa, hya], a1.1.trans a2.1.symm, a1.2, a2.2⟩, rfl⟩
  | default h sel =>
    obtain ⟨x, hx, hxa, b1, hb1⟩ := construct_ok e1 sel hop true false Hasher.default default_total
    obtain ⟨y, hy, hya, b2, hb2⟩ := construct_ok e2 sel hop true false Hasher.default default_total
    have a1 := Hasher.default_abs b1 x.h hb1
    have a2 := Hasher.default_abs b2 y.h hb2
    simp only [step, hx, hy]
    exact ⟨Wrel_put _ _ hw h x y ⟨by rw [hxa, hya], a1.1.trans a2.1.symm, a1.2, a2.2⟩, rfl⟩
  | restore h sel force c =>
    obtain ⟨hs, hc⟩ := hop
    obtain ⟨x, hx, hxa, b1, hb1⟩ := construct_ok e1 sel hs force true (Hasher.fromCheckpoint · c) (restore_total c)
    obtain ⟨y, hy, hya, b2, hb2⟩ := construct_ok e2 sel hs force true (Hasher.fromCheckpoint · c) (restore_total c)
    have a1 := Hasher.fromCheckpoint_abs b1 c hc x.h hb1
    have a2 := Hasher.fromCheckpoint_abs b2 c hc y.h hb2
    simp only [step, hx, hy]
    exact ⟨Wrel_put _ _ hw h x y ⟨by rw [hxa, hya], a1.1.trans a2.1.symm, a1.2, a2.2⟩, rfl⟩
  | restoreH h sel force src =>
    rcases Wrel_get w1 w2 hw src with ⟨h1, h2⟩ | ⟨s1, s2, h1, h2, hr⟩
    · simp only [step, h1, h2]; exact ⟨hw, rfl⟩
    · have hck : s1.h.checkpoint = s2.h.checkpoint := by
        rw [Hasher.checkpoint_abs _ hr.2.2.1, Hasher.checkpoint_abs _ hr.2.2.2, hr.2.1]
      have hlen : s1.h.checkpoint.length = 164 := by
        rw [Hasher.checkpoint_abs _ hr.2.2.1]
        exact P.encode_length _ (Nat.le_of_lt (Hasher.abs_pending_lt _ hr.2.2.1))
      obtain ⟨x, hx, hxa, b1, hb1⟩ := construct_ok e1 sel hop force true (Hasher.fromCheckpoint · s1.h.checkpoint) (restore_total _)
      obtain ⟨y, hy, hya, b2, hb2⟩ := construct_ok e2 sel hop force true (Hasher.fromCheckpoint · s2.h.checkpoint) (restore_total _)
      have a1 := Hasher.fromCheckpoint_abs b1 _ hlen x.h hb1
      have a2 := Hasher.fromCheckpoint_abs b2 _ (hck ▸ hlen) y.h hb2
      simp only [step, h1, h2, hx, hy]
      exact ⟨Wrel_put _ _ hw h x y ⟨by rw [hxa, hya], by rw [a1.1, a2.1, hck], a1.2, a2.2⟩, rfl⟩
  | append h d =>
    rcases Wrel_get w1 w2 hw h with ⟨h1, h2⟩ | ⟨x, y, h1, h2, hr⟩
    · simp only [step, h1, h2]; exact ⟨hw, rfl⟩
    · have a1 := Hasher.append_abs x.h d hr.2.2.1
      have a2 := Hasher.append_abs y.h d hr.2.2.2
      simp only [step, h1, h2]
      exact ⟨Wrel_put _ _ hw h _ _ ⟨hr.1, by rw [a1.1, a2.1, hr.2.1], a1.2, a2.2⟩, rfl⟩
  | ioWrite h d =>
    rcases Wrel_get w1 w2 hw h with ⟨h1, h2⟩ | ⟨x, y, h1, h2, hr⟩
    · simp only [step, h1, h2]; exact ⟨hw, rfl⟩
    · have a1 := Hasher.append_abs x.h d hr.2.2.1
      have a2 := Hasher.append_abs y.h d hr.2.2.2
      simp only [step, h1, h2]
      exact ⟨Wrel_put _ _ hw h _ _ ⟨hr.1, by rw [a1.1, a2.1, hr.2.1], a1.2, a2.2⟩, rfl⟩
  | clone src dst =>
    rcases Wrel_get w1 w2 hw src with ⟨h1, h2⟩ | ⟨x, y, h1, h2, hr⟩
    · simp only [step, h1, h2]; exact ⟨hw, rfl⟩
    · simp only [step, h1, h2]; exact ⟨Wrel_put _ _ hw dst x y hr, rfl⟩
  | fin h wd =>
    rcases Wrel_get w1 w2 hw h with ⟨h1, h2⟩ | ⟨x, y, h1, h2, hr⟩
    · simp only [step, h1, h2]; exact ⟨hw, rfl⟩
    · simp only [step, h1, h2]
      refine ⟨Wrel_del _ _ hw h, ?_⟩
      simp only [Orel]
      rw [Hasher.finalize_abs _ wd hr.2.2.1, Hasher.finalize_abs _ wd hr.2.2.2, hr.2.1]
  | ckpt h =>
    rcases Wrel_get w1 w2 hw h with ⟨h1, h2⟩ | ⟨x, y, h1, h2, hr⟩
    · simp only [step, h1, h2]; exact ⟨hw, rfl⟩
    · simp only [step, h1, h2]
      refine ⟨hw, ?_⟩
      simp only [Orel]
      rw [Hasher.checkpoint_abs _ hr.2.2.1, Hasher.checkpoint_abs _ hr.2.2.2, hr.2.1]
  | finish h =>
    rcases Wrel_get w1 w2 hw h with ⟨h1, h2⟩ | ⟨x, y, h1, h2, hr⟩
    · simp only [step, h1, h2]; exact ⟨hw, rfl⟩
    · simp only [step, h1, h2]
      refine ⟨hw, ?_⟩
      simp only [Orel]
      rw [Hasher.finalize64_abs _ hr.2.2.1, Hasher.finalize64_abs _ hr.2.2.2, hr.2.1]
  | flush h =>
    rcases Wrel_get w1 w2 hw h with ⟨h1, h2⟩ | ⟨x, y, h1, h2, hr⟩
    · simp only [step, h1, h2]; exact ⟨hw, rfl⟩
    · simp only [step, h1, h2]; exact ⟨hw, rfl⟩
  | drop h =>
    rcases Wrel_get w1 w2 hw h with ⟨h1, h2⟩ | ⟨x, y, h1, h2, hr⟩
    · simp only [step, h1, h2]; exact ⟨hw, rfl⟩
    · simp only [step, h1, h2]; exact ⟨Wrel_del _ _ hw h, rfl⟩
  | debug h =>
    rcases Wrel_get w1 w2 hw h with ⟨h1, h2⟩ | ⟨x, y, h1, h2, hr⟩
    · simp only [step, h1, h2]; exact ⟨hw, rfl⟩
    · simp only [step, h1, h2]; exact ⟨hw, hr.1⟩
  | hash sel force wd key d =>
    obtain ⟨x, hx, hxa, b1, hb1⟩ := construct_ok e1 sel hop force false (Hasher.new · key) (new_total key)
    obtain ⟨y, hy, hya, b2, hb2⟩ := construct_ok e2 sel hop force false (Hasher.new · key) (new_total key)
    have a1 := Hasher.new_abs b1 key x.h hb1
    have a2 := Hasher.new_abs b2 key y.h hb2
    have p1 := Hasher.append_abs x.h d a1.2
    have p2 := Hasher.append_abs y.h d a2.2
    simp only [step, hx, hy]
    refine ⟨hw, ?_⟩
    simp only [Orel]
    rw [Hasher.finalize_abs _ wd p1.2, Hasher.finalize_abs _ wd p2.2, p1.1, p2.1, a1.1, a2.1]

  | writes h ws =>
    rcases Wrel_get w1 w2 hw h with ⟨h1, h2⟩ | ⟨x, y, h1, h2, hr⟩
    · simp only [step, h1, h2]; exact ⟨hw, rfl⟩
    · have a1 := Hasher.foldl_append_abs ws x.h hr.2.2.1
      have a2 := Hasher.foldl_append_abs ws y.h hr.2.2.2
      simp only [step, h1, h2]
      exact ⟨Wrel_put _ _ hw h _ _ ⟨hr.1, by rw [a1.1, a2.1, hr.2.1], a1.2, a2.2⟩, rfl⟩
  | hashOne key ws =>
    obtain ⟨x, hx, hxa, b1, hb1⟩ := construct_ok e1 .auto trivial false false (Hasher.new · key) (new_total key)
    obtain ⟨y, hy, hya, b2, hb2⟩ := construct_ok e2 .auto trivial false false (Hasher.new · key) (new_total key)
    have a1 := Hasher.new_abs b1 key x.h hb1
    have a2 := Hasher.new_abs b2 key y.h hb2
    have p1 := Hasher.foldl_append_abs ws x.h a1.2
    have p2 := Hasher.foldl_append_abs ws y.h a2.2
    simp only [step, hx, hy]
    refine ⟨hw, ?_⟩
    simp only [Orel]
    rw [Hasher.finalize64_abs _ p1.2, Hasher.finalize64_abs _ p2.2, p1.1, p2.1, a1.1, a2.1]

/-- outputs of two runs, pointwise related -/
def Orels : List Out → List Out → Prop
  | [], [] => True
  | a :: as, b :: bs => Orel a b ∧ Orels as bs
  | _, _ => False

/-- headline: ANY two configurations produce the same outputs on every history of calls on
`HighwayHasher` / `PortableHash` handles (tags excepted) -/
theorem config_irrelevant (e1 e2 : Env) (ops : List Op) (hops : ∀ op ∈ ops, opOk op) :
    ∀ w1 w2, Wrel w1 w2 → Orels (run e1 w1 ops).2 (run e2 w2 ops).2 := by
  induction ops with
  | nil => intro w1 w2 _; trivial
  | cons op ops ih =>
    intro w1 w2 hw
    have s := step_sim e1 e2 w1 w2 op hw (hops op List.mem_cons_self)
    simp only [run, Orels]
    exact ⟨s.2, ih (fun o ho => hops o (List.mem_cons_of_mem _ ho)) _ _ s.1⟩

theorem config_irrelevant_from_empty (e1 e2 : Env) (ops : List Op) (hops : ∀ op ∈ ops, opOk op) :
    Orels (run e1 [] ops).2 (run e2 [] ops).2 :=
  config_irrelevant e1 e2 ops hops [] [] (fun i => by simp [World.get_nil])

end HH.Irrelevance
