// Runner for the REAL src/wasm.rs on a real WebAssembly engine (V8 through node): a no_std cdylib for
// wasm32-unknown-unknown with `-Ctarget-feature=+simd128`, linked against the core-only sysroot that
// `MIRI_NO_STD=1 cargo +nightly miri setup` builds from rust-src (there is no prebuilt wasm32 target here).
// The op file is embedded at compile time (OPS_FILE); output goes through the imported `env.put(ptr, len)`.





use super::exec::{Cpu, Machine, Out};

#[link(wasm_import_module = "env")]
extern "C" {
    #[link_name = "put"]
    fn host_put(ptr: *const u8, len: usize);
}

static OPS: &[u8] = include_bytes!(env!("OPS_FILE"));

// core of the Miri sysroot is built with `--cfg miri`: its alignment helpers call this hook, which only Miri provides
#[no_mangle]
pub extern "Rust" fn miri_promise_symbolic_alignment(_ptr: *const (), _align: usize) {}

#[panic_handler]
fn panic(_: &core::panic::PanicInfo) -> ! {
    put(b"panic\n");
    core::arch::wasm32::unreachable()
}

fn put(b: &[u8]) {
    unsafe { host_put(b.as_ptr(), b.len()) }
}

#[no_mangle]
pub extern "C" fn run() -> i32 {
    put(b"cfg arch=wasm32 std=0 tf_sse41=0 tf_avx2=0 simd128=");
    put(if cfg!(target_feature = "simd128") { b"1" } else { b"0" });
    put(if cfg!(debug_assertions) { b" cpu_sse41=0 cpu_avx2=0 debug_assertions=1 ptr=32 endian=little\n" } else { b" cpu_sse41=0 cpu_avx2=0 debug_assertions=0 ptr=32 endian=little\n" });
    let mut m = Machine::new(Cpu { sse41: false, avx2: false });
    let mut scratch = [0u8; 8192];
    for line in OPS.split(|&c| c == b'\n') {
        if line.is_empty() {
            continue;
        }
        if line[0] == b'#' {
            put(line);
            put(b"\n");
            continue;
        }
        let mut emit = |b: &[u8]| put(b);
        let mut out = Out { emit: &mut emit };
        m.exec(line, &mut scratch[..], &mut out);
        put(b"\n");
    }
    0
}
