import HH.Portable
import HH.Spec
/-!
# HH.Machine — handles ↦ hashers, the operations of the public API, `step` and `run`

This is the executable model the correspondence check runs against the real crate, and the object
the history-level theorems (C05, C06, C12, C13, C15) are about.
-/
namespace HH

inductive Backend | portable | sse | avx | neon | wasm
deriving DecidableEq, Repr, Inhabited

/-- what the caller asks for: a concrete back end or `HighwayHasher` (auto-selected) -/
inductive Sel | only (b : Backend) | auto
deriving DecidableEq, Repr, Inhabited

inductive Width | w64 | w128 | w256
deriving DecidableEq, Repr, Inhabited

/-- a live hasher of some back end -/
inductive Hasher
  | portable (s : P.State)
deriving DecidableEq, Repr

namespace Hasher
def backend : Hasher → Backend
  | portable _ => .portable

def append : Hasher → List (BitVec 8) → Hasher
  | portable s, d => portable (P.append s d)

def finalize64 : Hasher → BitVec 64
  | portable s => P.finalize64 s

def finalize128 : Hasher → BitVec 64 × BitVec 64
  | portable s => P.finalize128 s

def finalize256 : Hasher → BitVec 64 × BitVec 64 × BitVec 64 × BitVec 64
  | portable s => P.finalize256 s

def checkpoint : Hasher → List (BitVec 8)
  | portable s => P.checkpoint s

def new : Backend → V4 → Option Hasher
  | .portable, k => some (portable (P.new k))
  | _, _ => none

def default : Backend → Option Hasher
  | .portable => some (portable P.default)
  | _ => none

def fromCheckpoint : Backend → List (BitVec 8) → Option Hasher
  | .portable, c => some (portable (P.fromCheckpoint c))
  | _, _ => none
end Hasher

end HH
