import HH.Packet
/-!
# HH.Portable — model of `src/portable.rs`, function by function (release semantics)

`PortableHash { v0, v1, mul0, mul1 : [u64;4], buffer : HashPacket }`.  Loops `for i in 0..4`
are written lane-wise through `V4.zipWith`.  Arithmetic is `BitVec 64` (wrapping), exactly the
`wrapping_*` / masked-shift semantics of the optimised build.
-/
namespace HH
namespace P

/-- `PortableHash` -/
structure State where
  st : St
  buffer : Pkt
deriving DecidableEq, Repr

def init0 : V4 := ⟨0xdbe6d5d5fe4cce2f#64, 0xa4093822299f31d0#64, 0x13198a2e03707344#64, 0x243f6a8885a308d3#64⟩
def init1 : V4 := ⟨0x3bd39e10cb0ef593#64, 0xc0acf169b5f18a8c#64, 0xbe5466cf34e90c6c#64, 0x452821e638d01377#64⟩

/-- `PortableHash::new` -/
def new (key : V4) : State :=
  { st := { v0 := V4.zipWith (· ^^^ ·) init0 key,
            v1 := V4.zipWith (· ^^^ ·) init1 (key.map (·.rotateLeft 32)),
            mul0 := init0, mul1 := init1 },
    buffer := Pkt.default }

/-- `impl Default for PortableHash` (after the `fix:` commit: the zero-key hasher) -/
def default : State := new V4.zero

/-- first half of `zipper_merge_and_add`: the value added to `lane[add0]` -/
def zipLo (v1 v0 : BitVec 64) : BitVec 64 :=
  (((v0 &&& 0xff000000#64) ||| (v1 &&& 0xff00000000#64)) >>> 24)
  ||| (((v0 &&& 0xff0000000000#64) ||| (v1 &&& 0xff000000000000#64)) >>> 16)
  ||| (v0 &&& 0xff0000#64)
  ||| ((v0 &&& 0xff00#64) <<< 32)
  ||| ((v1 &&& 0xff00000000000000#64) >>> 8)
  ||| (v0 <<< 56)

/-- second half of `zipper_merge_and_add`: the value added to `lane[add1]` -/
def zipHi (v1 v0 : BitVec 64) : BitVec 64 :=
  (((v1 &&& 0xff000000#64) ||| (v0 &&& 0xff00000000#64)) >>> 24)
  ||| (v1 &&& 0xff0000#64)
  ||| ((v1 &&& 0xff0000000000#64) >>> 16)
  ||| ((v1 &&& 0xff00#64) <<< 24)
  ||| ((v0 &&& 0xff000000000000#64) >>> 8)
  ||| ((v1 &&& 0xff#64) <<< 48)
  ||| (v0 &&& 0xff00000000000000#64)

/-- the two `zipper_merge_and_add(src[1], src[0], dst, 1, 0)` / `(src[3], src[2], dst, 3, 2)` calls -/
def zipperAdd (dst src : V4) : V4 :=
  ⟨dst.l0 + zipLo src.l1 src.l0, dst.l1 + zipHi src.l1 src.l0,
   dst.l2 + zipLo src.l3 src.l2, dst.l3 + zipHi src.l3 src.l2⟩

/-- `(a & 0xffff_ffff).wrapping_mul(b >> 32)` -/
def mul32 (a b : BitVec 64) : BitVec 64 := (a &&& 0xffffffff#64) * (b >>> 32)

/-- `PortableHash::update` -/
def update (s : St) (lanes : V4) : St :=
  let v1 := V4.add s.v1 lanes
  let v1 := V4.add v1 s.mul0
  let mul0 := V4.xor s.mul0 (V4.zipWith mul32 v1 s.v0)
  let v0 := V4.add s.v0 s.mul1
  let mul1 := V4.xor s.mul1 (V4.zipWith mul32 v0 v1)
  let v0 := zipperAdd v0 v1
  let v1 := zipperAdd v1 v0
  ⟨v0, v1, mul0, mul1⟩

/-- `PortableHash::data_to_lanes` (`chunks_exact(8).zip(result.iter_mut())`) -/
def dataToLanes (d : List (BitVec 8)) : V4 :=
  ⟨le64 d, le64 (d.drop 8), le64 (d.drop 16), le64 (d.drop 24)⟩

/-- `self.update(Self::data_to_lanes(chunk))` -/
def updPacket (s : St) (pkt : List (BitVec 8)) : St := update s (dataToLanes pkt)

/-- `PortableHash::permute` -/
def permute (v : V4) : V4 :=
  ⟨v.l2.rotateLeft 32, v.l3.rotateLeft 32, v.l0.rotateLeft 32, v.l1.rotateLeft 32⟩

def permuteAndUpdate (s : St) : St := update s (permute s.v0)

/-- `for _i in 0..n { self.permute_and_update() }` -/
def rounds : Nat → St → St
  | 0, s => s
  | n+1, s => rounds n (permuteAndUpdate s)

/-- one lane of `rotate_32_by(count, lanes)`; release semantics: `u32 << count` masks the count to
5 bits, `32 - count` wraps in `u64` and is masked likewise. -/
def rot32Lane (count : Nat) (lane : BitVec 64) : BitVec 64 :=
  let half0 : BitVec 32 := lane.setWidth 32
  let half1 : BitVec 32 := (lane >>> 32).setWidth 32
  let cl := count % 32
  let cr := ((2^64 + 32 - count) % 2^64) % 32
  let lo := ((half0 <<< cl) ||| (half0 >>> cr)).setWidth 64
  lo ||| (((half1 <<< cl) ||| (half1 >>> cr)).setWidth 64 <<< 32)

/-- `PortableHash::update_lanes(size)` -/
def updateLanes (s : St) (size : Nat) : St :=
  let sz : BitVec 64 := BitVec.ofNat 64 size
  { s with v0 := s.v0.map (· + ((sz <<< 32) + sz)), v1 := s.v1.map (rot32Lane size) }

/-- `PortableHash::remainder(bytes) -> [u8; 32]`, statement by statement -/
def remainder (bytes : List (BitVec 8)) : List (BitVec 8) :=
  if bytes.length > 32 then zeros 32 else
  let sizeMod4 := bytes.length % 4
  let jump := bytes.length - sizeMod4          -- `len & !3`
  let rem := bytes.drop jump
  let packet := bytes.take jump ++ zeros (32 - jump)
  if (bytes.length / 16) % 2 = 1 then          -- `size & 16 != 0`
    let src := bytes.drop (jump + sizeMod4 - 4)
    packet.take 28 ++ ((packet.drop 28).zipWith (fun _ b => b) (src.take 4))
      ++ (packet.drop 28).drop (min 4 src.length)
  else if sizeMod4 ≠ 0 then
    ((packet.set 16 (rem.getD 0 0)).set 17 (rem.getD (sizeMod4 / 2) 0)).set 18 (rem.getD (sizeMod4 - 1) 0)
  else packet

/-- `PortableHash::update_remainder` -/
def updateRemainder (x : State) : St :=
  let size := x.buffer.len
  let s := updateLanes x.st size
  let packet := remainder x.buffer.asSlice
  update s (dataToLanes packet)

/-- the common prologue of `finalize64/128/256` -/
def finalizeCommon (n : Nat) (x : State) : St :=
  let s := if !x.buffer.isEmpty then updateRemainder x else x.st
  rounds n s

/-- the 64-bit digest of the final lane state -/
def out64 (s : St) : BitVec 64 := s.v0.l0 + s.v1.l0 + s.mul0.l0 + s.mul1.l0

/-- the 128-bit digest of the final lane state -/
def out128 (s : St) : BitVec 64 × BitVec 64 :=
  (s.v0.l0 + s.mul0.l0 + s.v1.l2 + s.mul1.l2, s.v0.l1 + s.mul0.l1 + s.v1.l3 + s.mul1.l3)

/-- `PortableHash::finalize64` -/
def finalize64 (x : State) : BitVec 64 := out64 (finalizeCommon 4 x)

/-- `PortableHash::finalize128` -/
def finalize128 (x : State) : BitVec 64 × BitVec 64 := out128 (finalizeCommon 6 x)

/-- `PortableHash::module_reduction(a3_unmasked, a2, a1, a0) -> (low, high)` -/
def moduleReduction (a3u a2 a1 a0 : BitVec 64) : BitVec 64 × BitVec 64 :=
  let a3 := a3u &&& 0x3FFFFFFFFFFFFFFF#64
  let high := a1 ^^^ ((a3 <<< 1) ||| (a2 >>> 63)) ^^^ ((a3 <<< 2) ||| (a2 >>> 62))
  let low := a0 ^^^ (a2 <<< 1) ^^^ (a2 <<< 2)
  (low, high)

/-- the 256-bit digest of the final lane state -/
def out256 (s : St) : BitVec 64 × BitVec 64 × BitVec 64 × BitVec 64 :=
  let a := moduleReduction (s.v1.l1 + s.mul1.l1) (s.v1.l0 + s.mul1.l0) (s.v0.l1 + s.mul0.l1) (s.v0.l0 + s.mul0.l0)
  let b := moduleReduction (s.v1.l3 + s.mul1.l3) (s.v1.l2 + s.mul1.l2) (s.v0.l3 + s.mul0.l3) (s.v0.l2 + s.mul0.l2)
  (a.1, a.2, b.1, b.2)

/-- `PortableHash::finalize256` -/
def finalize256 (x : State) : BitVec 64 × BitVec 64 × BitVec 64 × BitVec 64 := out256 (finalizeCommon 10 x)

/-- `PortableHash::append` -/
def append (x : State) (data : List (BitVec 8)) : State :=
  let r := appendG updPacket (x.st, x.buffer) data
  ⟨r.1, r.2⟩

/-- lanes of the state in checkpoint order: `v0, v1, mul0, mul1` -/
def lanes16 (s : St) : List (BitVec 64) := s.v0.toList ++ s.v1.toList ++ s.mul0.toList ++ s.mul1.toList

/-- `PortableHash::checkpoint` (after the `fix:` commit: only the pending prefix of the buffer is
written, the rest of the 32-byte field stays zero). -/
def checkpoint (x : State) : List (BitVec 8) :=
  let pending := x.buffer.asSlice
  (lanes16 x.st).flatMap toLE64
    ++ (pending ++ zeros (32 - pending.length))
    ++ toLE32 (BitVec.ofNat 32 x.buffer.len)

def v4OfBytes (d : List (BitVec 8)) : V4 := dataToLanes d

/-- `PortableHash::from_checkpoint` (after the `fix:` commit: the count is clamped to 31). -/
def fromCheckpoint (data : List (BitVec 8)) : State :=
  let v0 := v4OfBytes data
  let v1 := v4OfBytes (data.drop 32)
  let mul0 := v4OfBytes (data.drop 64)
  let mul1 := v4OfBytes (data.drop 96)
  let buffered := (data.drop 128).take 32
  let len := (le32 (data.drop 160)).toNat
  let buffer := (Pkt.default.fill (buffered.take (min len 31))).1
  ⟨⟨v0, v1, mul0, mul1⟩, buffer⟩

/-- `HighwayHash::hash64/128/256` default methods: `append` then `finalizeN` -/
def hash64 (key : V4) (d : List (BitVec 8)) := finalize64 (append (new key) d)
def hash128 (key : V4) (d : List (BitVec 8)) := finalize128 (append (new key) d)
def hash256 (key : V4) (d : List (BitVec 8)) := finalize256 (append (new key) d)

end P
end HH
