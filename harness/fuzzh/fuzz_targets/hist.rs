// Coverage-guided search for a history of public API calls on which the REAL crate violates one of the
// properties (support tool of the Lean/correspondence checks: it proves nothing; it looks for the failing
// input once a proof obligation or the correspondence has broken, and feeds the correspondence with
// coverage-increasing histories).  The fuzz input is decoded into lines of the same protocol the runners
// and the Lean driver speak; every observation is compared with the PORTABLE hasher built from the
// handle's logical state (constructor + all bytes fed, appended in ONE call).
//
//   HH_DUMP=<file>   : do not execute; append the decoded op lines of each input to <file>
#![no_main]
use highway::{AvxHash, HighwayBuildHasher, HighwayHash, HighwayHasher, Key, PortableHash, SseHash};
use libfuzzer_sys::fuzz_target;
use std::fmt::Write as _;
use std::hash::{BuildHasher, Hasher};
use std::io::Write as _;

#[derive(Clone)]
enum H {
    P(PortableHash),
    S(SseHash),
    A(AvxHash),
    D(HighwayHasher),
}
macro_rules! each {
    ($s:expr, $h:ident => $e:expr) => {
        match $s {
            H::P($h) => $e,
            H::S($h) => $e,
            H::A($h) => $e,
            H::D($h) => $e,
        }
    };
}

#[derive(Clone)]
enum Base {
    Key([u64; 4]),
    Ckpt([u8; 164]),
}
#[derive(Clone)]
struct Slot {
    h: H,
    base: Base,
    fed: Vec<u8>,
}
impl Slot {
    fn reference(&self) -> PortableHash {
        let mut p = match &self.base {
            Base::Key(k) => PortableHash::new(Key(*k)),
            Base::Ckpt(c) => PortableHash::from_checkpoint(*c),
        };
        p.append(&self.fed);
        p
    }
}

const SEL: [&str; 4] = ["portable", "sse", "avx", "auto"];

fn cpu() -> (bool, bool) {
    (is_x86_feature_detected!("sse4.1"), is_x86_feature_detected!("avx2"))
}

fn mk(sel: usize, key: Option<[u64; 4]>, ck: Option<[u8; 164]>) -> Option<H> {
    let (sse, avx) = cpu();
    Some(match sel {
        0 => H::P(match key {
            Some(k) => PortableHash::new(Key(k)),
            None => PortableHash::from_checkpoint(ck?),
        }),
        1 if sse => H::S(unsafe {
            match key {
                Some(k) => SseHash::force_new(Key(k)),
                None => SseHash::force_from_checkpoint(ck?),
            }
        }),
        2 if avx => H::A(unsafe {
            match key {
                Some(k) => AvxHash::force_new(Key(k)),
                None => AvxHash::force_from_checkpoint(ck?),
            }
        }),
        3 => H::D(match key {
            Some(k) => HighwayHasher::new(Key(k)),
            None => HighwayHasher::from_checkpoint(ck?),
        }),
        _ => return None,
    })
}

struct In<'a> {
    d: &'a [u8],
    p: usize,
}
impl<'a> In<'a> {
    fn u8(&mut self) -> Option<u8> {
        let v = *self.d.get(self.p)?;
        self.p += 1;
        Some(v)
    }
    fn take(&mut self, n: usize) -> &'a [u8] {
        let n = n.min(self.d.len() - self.p);
        let s = &self.d[self.p..self.p + n];
        self.p += n;
        s
    }
    fn len(&mut self) -> Option<usize> {
        // small lengths are common, large ones reachable
        let a = self.u8()? as usize;
        Some(if a < 0xC0 { a & 0x3F } else { ((a & 0x3F) << 8) | self.u8()? as usize })
    }
}

const KEYS: [[u64; 4]; 6] = [
    [0, 0, 0, 0],
    [u64::MAX; 4],
    [1, 2, 3, 4],
    [0x0706050403020100, 0x0F0E0D0C0B0A0908, 0x1716151413121110, 0x1F1E1D1C1B1A1918],
    // low halves of v0 = mul0 ^ key just below 2^32 (carry into the high half on length injection)
    [0xdbe6d5d5fe4cce2f ^ 0xFFFF_FFF0, 0xa4093822299f31d0 ^ 0xFFFF_FFFF, 0x13198a2e03707344 ^ 0xFFFF_FFE1, 0x243f6a8885a308d3 ^ 0xFFFF_FFFE],
    [0x8000000000000000, 0x7FFFFFFFFFFFFFFF, 0x00000000FFFFFFFF, 0xFFFFFFFF00000000],
];

fn hex(b: &[u8]) -> String {
    if b.is_empty() {
        return "-".into();
    }
    let mut s = String::with_capacity(b.len() * 2);
    for x in b {
        write!(s, "{:02x}", x).unwrap();
    }
    s
}
fn kstr(k: &[u64; 4]) -> String {
    format!("{:x} {:x} {:x} {:x}", k[0], k[1], k[2], k[3])
}

fn fail(ops: &[String], what: &str) -> ! {
    eprintln!("PROPERTY-VIOLATION: {}", what);
    for o in ops {
        eprintln!("OP {}", o);
    }
    panic!("{}", what);
}

fn run(data: &[u8], dump: bool) -> Vec<String> {
    let mut inp = In { d: data, p: 0 };
    let mut ops: Vec<String> = Vec::new();
    let mut slots: [Option<Slot>; 4] = [None, None, None, None];
    // scratch with a movable start: the alignment of every payload varies with the input
    let mut scratch = vec![0u8; 1 << 16];
    let mut nops = 0;
    while let Some(op) = inp.u8() {
        nops += 1;
        if nops > 48 {
            break;
        }
        let hi = ((op >> 4) & 3) as usize;
        match op & 15 {
            0 | 1 => {
                // construct from a key
                let Some(kb) = inp.u8() else { break };
                let sel = (kb & 3) as usize;
                if kb & 0xC0 == 0x40 {
                    // Default::default() of the type (must be the zero-key hasher)
                    ops.push(format!("default {} {}", hi, SEL[sel]));
                    if !dump {
                        let (sse, avx) = cpu();
                        let h = match sel {
                            0 => Some(H::P(PortableHash::default())),
                            1 if sse => Some(H::S(SseHash::default())),
                            2 if avx => Some(H::A(AvxHash::default())),
                            3 => Some(if kb & 0x20 != 0 { H::D(HighwayBuildHasher::default().build_hasher()) } else { H::D(HighwayHasher::default()) }),
                            _ => None,
                        };
                        slots[hi] = h.map(|h| Slot { h, base: Base::Key([0; 4]), fed: Vec::new() });
                    }
                    continue;
                }
                let key = if kb & 0x80 != 0 {
                    let raw = inp.take(32);
                    let mut k = [0u64; 4];
                    for (i, c) in raw.chunks(8).enumerate() {
                        let mut b = [0u8; 8];
                        b[..c.len()].copy_from_slice(c);
                        k[i] = u64::from_le_bytes(b);
                    }
                    k
                } else {
                    KEYS[((kb >> 2) as usize) % KEYS.len()]
                };
                ops.push(format!("fnew {} {} {}", hi, SEL[sel], kstr(&key)));
                if !dump {
                    slots[hi] = mk(sel, Some(key), None).map(|h| Slot { h, base: Base::Key(key), fed: Vec::new() });
                }
            }
            2..=6 => {
                // feed bytes through one of the entry points
                let Some(n) = inp.len() else { break };
                let Some(ab) = inp.u8() else { break };
                let d = inp.take(n);
                let off = (ab & 63) as usize;
                let entry = ["append", "hwrite", "iowrite", "writeall", "iocopy"][((op & 15) - 2) as usize];
                ops.push(format!("{} {} {}", entry, hi, hex(d)));
                if dump {
                    continue;
                }
                let buf = &mut scratch[off..off + d.len()];
                buf.copy_from_slice(d);
                let buf: &[u8] = buf;
                if let Some(s) = &mut slots[hi] {
                    match entry {
                        "append" => each!(&mut s.h, x => x.append(buf)),
                        "hwrite" => each!(&mut s.h, x => Hasher::write(x, buf)),
                        "iowrite" => {
                            let r = each!(&mut s.h, x => std::io::Write::write(x, buf));
                            if r.ok() != Some(buf.len()) {
                                fail(&ops, "C12 io::Write::write did not report the full length");
                            }
                        }
                        "writeall" => each!(&mut s.h, x => x.write_all(buf).unwrap()),
                        _ => {
                            let mut rd: &[u8] = buf;
                            let r = each!(&mut s.h, x => std::io::copy(&mut rd, x));
                            if r.ok() != Some(buf.len() as u64) {
                                fail(&ops, "C12 io::copy did not consume everything");
                            }
                        }
                    }
                    s.fed.extend_from_slice(d);
                }
            }
            7 => {
                // vectored / formatted writes
                let Some(n1) = inp.len() else { break };
                let a = inp.take(n1).to_vec();
                let Some(n2) = inp.len() else { break };
                let b = inp.take(n2).to_vec();
                ops.push(format!("iowritev {} {} {}", hi, hex(&a), hex(&b)));
                if dump {
                    continue;
                }
                if let Some(s) = &mut slots[hi] {
                    let mut done = (0usize, 0usize);
                    let mut guard = 0;
                    while done.0 < a.len() || done.1 < b.len() {
                        guard += 1;
                        if guard > 8 {
                            fail(&ops, "C12 write_vectored makes no progress");
                        }
                        let ios = [std::io::IoSlice::new(&a[done.0..]), std::io::IoSlice::new(&b[done.1..])];
                        let mut k = each!(&mut s.h, x => x.write_vectored(&ios)).unwrap();
                        let t = k.min(a.len() - done.0);
                        done.0 += t;
                        k -= t;
                        done.1 += k.min(b.len() - done.1);
                    }
                    s.fed.extend_from_slice(&a);
                    s.fed.extend_from_slice(&b);
                }
            }
            8 => {
                // clone / clone_from
                let Some(t) = inp.u8() else { break };
                let dst = (t & 3) as usize;
                let cf = t & 4 != 0;
                ops.push(format!("{} {} {}", if cf { "clonefrom" } else { "clone" }, hi, dst));
                if dump || hi == dst {
                    continue;
                }
                if let Some(s) = slots[hi].clone() {
                    match (&mut slots[dst], cf) {
                        (Some(d), true) => match (&mut d.h, &s.h) {
                            (H::P(x), H::P(y)) => {
                                x.clone_from(y);
                                d.base = s.base.clone();
                                d.fed = s.fed.clone();
                            }
                            (H::S(x), H::S(y)) => {
                                x.clone_from(y);
                                d.base = s.base.clone();
                                d.fed = s.fed.clone();
                            }
                            (H::A(x), H::A(y)) => {
                                x.clone_from(y);
                                d.base = s.base.clone();
                                d.fed = s.fed.clone();
                            }
                            (H::D(x), H::D(y)) => {
                                x.clone_from(y);
                                d.base = s.base.clone();
                                d.fed = s.fed.clone();
                            }
                            _ => slots[dst] = Some(s),
                        },
                        _ => slots[dst] = Some(s),
                    }
                }
            }
            9 => {
                // checkpoint -> restore on another back end (hop)
                let Some(t) = inp.u8() else { break };
                let dst = (t & 3) as usize;
                let sel = ((t >> 2) & 3) as usize;
                ops.push(format!("ckpt {}", hi));
                ops.push(format!("frestoreh {} {} {}", dst, SEL[sel], hi));
                if dump {
                    continue;
                }
                if let Some(s) = &slots[hi] {
                    let c = each!(&s.h, x => x.checkpoint());
                    let r = s.reference().checkpoint();
                    if c != r {
                        fail(&ops, "C14/C06 checkpoint differs from the portable checkpoint of the same logical state");
                    }
                    let (base, fed) = (s.base.clone(), s.fed.clone());
                    slots[dst] = mk(sel, None, Some(c)).map(|h| Slot { h, base, fed });
                }
            }
            10 => {
                // restore from arbitrary bytes on every back end
                let Some(t) = inp.u8() else { break };
                let sel = (t & 3) as usize;
                let raw = inp.take(164);
                let mut c = [0u8; 164];
                c[..raw.len()].copy_from_slice(raw);
                if t & 0x80 != 0 {
                    // plausible count field
                    c[160] = t >> 2 & 31;
                    c[161] = 0;
                    c[162] = 0;
                    c[163] = 0;
                }
                ops.push(format!("frestore {} {} {}", hi, SEL[sel], hex(&c)));
                if !dump {
                    slots[hi] = mk(sel, None, Some(c)).map(|h| Slot { h, base: Base::Ckpt(c), fed: Vec::new() });
                }
            }
            11 => {
                // observers
                ops.push(format!("finish {}", hi));
                ops.push(format!("debug {}", hi));
                if dump {
                    continue;
                }
                if let Some(s) = &slots[hi] {
                    let f = each!(&s.h, x => x.finish());
                    let mut sink = String::new();
                    let _ = each!(&s.h, x => write!(sink, "{:?}", x));
                    let want = s.reference().finalize64();
                    if f != want {
                        fail(&ops, "C12/C13 finish() differs from the portable 64-bit hash of the logical state");
                    }
                }
            }
            12 | 13 | 14 => {
                let w = [64, 128, 256][((op & 15) - 12) as usize];
                ops.push(format!("fin {} {}", hi, w));
                if dump {
                    continue;
                }
                if let Some(s) = slots[hi].take() {
                    let r = s.reference();
                    let ok = match w {
                        64 => each!(s.h, x => x.finalize64()) == r.finalize64(),
                        128 => each!(s.h, x => x.finalize128()) == r.finalize128(),
                        _ => each!(s.h, x => x.finalize256()) == r.finalize256(),
                    };
                    if !ok {
                        fail(&ops, "C02/C05/C06/C11 finalize differs from the portable one-shot hash of the logical state");
                    }
                }
            }
            _ => {
                let Some(kb) = inp.u8() else { break };
                match kb >> 6 {
                    0 => {
                        // BuildHasher
                        let key = KEYS[(kb as usize) % KEYS.len()];
                        ops.push(format!("bh {} {}", hi, kstr(&key)));
                        if !dump {
                            let b = HighwayBuildHasher::new(Key(key));
                            slots[hi] = Some(Slot { h: H::D(b.build_hasher()), base: Base::Key(key), fed: Vec::new() });
                        }
                    }
                    1 => {
                        // provided one-shot helper on a fed hasher: hashN(self, data)
                        let Some(n) = inp.len() else { break };
                        let d = inp.take(n).to_vec();
                        let w = [64, 128, 256][(kb as usize) % 3];
                        ops.push(format!("hashfin {} {} {}", hi, w, hex(&d)));
                        if dump {
                            continue;
                        }
                        if let Some(mut s) = slots[hi].take() {
                            s.fed.extend_from_slice(&d);
                            let r = s.reference();
                            let ok = match w {
                                64 => each!(s.h, x => x.hash64(&d)) == r.finalize64(),
                                128 => each!(s.h, x => x.hash128(&d)) == r.finalize128(),
                                _ => each!(s.h, x => x.hash256(&d)) == r.finalize256(),
                            };
                            if !ok {
                                fail(&ops, "C05 hashN(data) on a fed hasher differs from the portable one-shot hash of everything fed");
                            }
                        }
                    }
                    _ => {
                        // value.hash(&mut hasher): the provided Hasher::write_* methods
                        let raw = inp.take(16);
                        let mut b16 = [0u8; 16];
                        b16[..raw.len()].copy_from_slice(raw);
                        let v = u128::from_le_bytes(b16);
                        let kind = (kb & 7) as usize;
                        let (tok, bytes): (String, Vec<u8>) = match kind {
                            0 => (format!("u8:{:x}", v as u8), (v as u8).to_ne_bytes().to_vec()),
                            1 => (format!("u16:{:x}", v as u16), (v as u16).to_ne_bytes().to_vec()),
                            2 => (format!("u32:{:x}", v as u32), (v as u32).to_ne_bytes().to_vec()),
                            3 => (format!("u64:{:x}", v as u64), (v as u64).to_ne_bytes().to_vec()),
                            4 => (format!("u128:{:x}", v), v.to_ne_bytes().to_vec()),
                            5 => (format!("usize:{:x}", v as usize), (v as usize).to_ne_bytes().to_vec()),
                            6 => (format!("i64:{:x}", v as u64), (v as u64).to_ne_bytes().to_vec()),
                            _ => (format!("bool:{}", (v & 1) as u8), vec![(v & 1) as u8]),
                        };
                        ops.push(format!("hwval {} {}", hi, tok));
                        if dump {
                            continue;
                        }
                        if let Some(s) = &mut slots[hi] {
                            use std::hash::Hash;
                            match kind {
                                0 => each!(&mut s.h, x => (v as u8).hash(x)),
                                1 => each!(&mut s.h, x => (v as u16).hash(x)),
                                2 => each!(&mut s.h, x => (v as u32).hash(x)),
                                3 => each!(&mut s.h, x => (v as u64).hash(x)),
                                4 => each!(&mut s.h, x => v.hash(x)),
                                5 => each!(&mut s.h, x => (v as usize).hash(x)),
                                6 => each!(&mut s.h, x => (v as u64 as i64).hash(x)),
                                _ => each!(&mut s.h, x => ((v & 1) == 1).hash(x)),
                            }
                            s.fed.extend_from_slice(&bytes);
                        }
                    }
                }
            }
        }
    }
    // final observation of everything alive
    for hi in 0..4 {
        ops.push(format!("ckpt {}", hi));
        ops.push(format!("finish {}", hi));
        if dump {
            continue;
        }
        if let Some(s) = &slots[hi] {
            let r = s.reference();
            if each!(&s.h, x => x.checkpoint()) != r.checkpoint() {
                fail(&ops, "C14 checkpoint differs from the portable checkpoint of the same logical state");
            }
            if each!(&s.h, x => x.finish()) != r.clone().finalize64() {
                fail(&ops, "C12 finish() differs from the portable 64-bit hash of the logical state");
            }
        }
    }
    ops
}

fuzz_target!(|data: &[u8]| {
    if let Ok(path) = std::env::var("HH_DUMP") {
        let ops = run(data, true);
        let mut f = std::fs::OpenOptions::new().create(true).append(true).open(path).unwrap();
        writeln!(f, "# case").unwrap();
        for o in ops {
            writeln!(f, "{}", o).unwrap();
        }
        return;
    }
    run(data, false);
});
