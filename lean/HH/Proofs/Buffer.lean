import HH.Packet
/-!
# Buffering theorem, generic in `upd`

One proof serves the five textually duplicated `append`s: for every state whose packet satisfies
`Inv` (32-byte buffer, `idx < 32`),

* `absP (appendG upd x d) = AbsAppend upd (absP x) d`  and `Inv` is preserved, where
  `absP x = (lanes, buf.take idx)` forgets the stale tail of the buffer and `AbsAppend`
  re-packetises `pending ++ data` with the `chunks_exact` recursion;
* `AbsAppend (AbsAppend a x) y = AbsAppend a (x ++ y)`.
-/
namespace HH
variable {S : Type}

/-- abstract state: lane state + pending bytes -/
def absP (x : S × Pkt) : S × List (BitVec 8) := (x.1, x.2.buf.take x.2.idx)

/-- abstract append: packetise `pending ++ data` -/
def AbsAppend (upd : S → List (BitVec 8) → S) (a : S × List (BitVec 8)) (data : List (BitVec 8)) :
    S × List (BitVec 8) :=
  absorb upd (a.2.length + data.length) a.1 (a.2 ++ data)

/-- the invariant of `HashPacket` between calls -/
def Pkt.Inv (p : Pkt) : Prop := p.idx < 32 ∧ p.buf.length = 32

theorem Pkt.default_inv : Pkt.default.Inv := by
  simp [Pkt.Inv, Pkt.default, zeros]

theorem absorb_fuel (upd : S → List (BitVec 8) → S) : ∀ (f g : Nat) (s : S) (d : List (BitVec 8)),
    d.length ≤ f → d.length ≤ g → absorb upd f s d = absorb upd g s d := by
  intro f
  induction f with
  | zero => intro g s d h1 _; cases g with
    | zero => rfl
    | succ g => simp at h1; subst h1; simp [absorb]
  | succ f ih => intro g s d h1 h2; cases g with
    | zero => simp at h2; subst h2; simp [absorb]
    | succ g =>
      simp only [absorb]
      split
      · apply ih <;> simp <;> omega
      · rfl

theorem absorb_short (upd : S → List (BitVec 8) → S) (f : Nat) (s : S) (d : List (BitVec 8))
    (h : d.length < 32) : absorb upd f s d = (s, d) := by
  cases f with
  | zero => rfl
  | succ f => simp [absorb]; omega

theorem absorb_rem_lt (upd : S → List (BitVec 8) → S) : ∀ (f : Nat) (s : S) (d : List (BitVec 8)),
    d.length ≤ f → (absorb upd f s d).2.length < 32 := by
  intro f
  induction f with
  | zero => intro s d h; simp at h; subst h; simp [absorb]
  | succ f ih => intro s d h; simp only [absorb]; split
                 · apply ih; simp; omega
                 · simp; omega

theorem appendG_abs (upd : S → List (BitVec 8) → S) (x : S × Pkt) (data : List (BitVec 8))
    (hx : x.2.Inv) :
    absP (appendG upd x data) = AbsAppend upd (absP x) data ∧ (appendG upd x data).2.Inv := by
  obtain ⟨s, p⟩ := x
  obtain ⟨hidx, hlen⟩ := hx
  simp only at hidx hlen
  unfold appendG
  by_cases h0 : p.idx = 0
  · simp only [Pkt.isEmpty, h0, beq_self_eq_true, ↓reduceIte, absP, AbsAppend, Pkt.setTo, List.take_zero,
      List.nil_append, List.length_nil, Nat.zero_add]
    have hr := absorb_rem_lt upd data.length s data (Nat.le_refl _)
    refine ⟨?_, ?_, ?_⟩
    · simp
    · simpa using hr
    · simp [hlen]; omega
  · have h0' : (p.idx == 0) = false := by simp [h0]
    simp only [Pkt.isEmpty, h0', Bool.false_eq_true, ↓reduceIte, Pkt.fill, hlen]
    by_cases hf : 32 - p.idx > data.length
    · simp only [hf, ↓reduceIte, absP, AbsAppend]
      refine ⟨?_, ?_, ?_⟩
      · have : (p.buf.take p.idx ++ data).length < 32 := by simp; omega
        rw [absorb_short _ _ _ _ this]
        have h1 : (List.take p.idx p.buf).length = p.idx := by simp; omega
        simp only [Prod.mk.injEq, true_and]
        rw [List.take_append_of_le_length (by simp; omega)]
        rw [List.take_append]
        simp [h1]
        rw [List.take_of_length_le (by simp; omega)]
      · simp only; omega
      · simp [hlen]; omega
    · simp only [hf, ↓reduceIte, absP, AbsAppend, Pkt.setTo, Pkt.inner]
      have h1 : (List.take p.idx p.buf).length = p.idx := by simp; omega
      have hd : List.drop (p.idx + (32 - p.idx)) p.buf = [] := by
        apply List.drop_of_length_le; omega
      rw [hd, List.append_nil]
      have hfull : (List.take p.idx p.buf ++ List.take (32 - p.idx) data).length = 32 := by simp; omega
      have hr := absorb_rem_lt upd (data.drop (32 - p.idx)).length
        (upd s (List.take p.idx p.buf ++ List.take (32 - p.idx) data)) (data.drop (32 - p.idx)) (Nat.le_refl _)
      refine ⟨?_, ?_, ?_⟩
      · have hge : 32 ≤ (List.take p.idx p.buf ++ data).length := by simp; omega
        have : (List.take p.idx p.buf).length + data.length = ((List.take p.idx p.buf).length + data.length - 1) + 1 := by
          have hh := hge; rw [List.length_append] at hh; omega
        rw [this]
        simp only [absorb, hge, ↓reduceIte]
        have e1 : (List.take p.idx p.buf ++ data).take 32 = List.take p.idx p.buf ++ List.take (32 - p.idx) data := by
          rw [List.take_append, List.take_of_length_le (by omega), h1]
        have e2 : (List.take p.idx p.buf ++ data).drop 32 = data.drop (32 - p.idx) := by
          rw [List.drop_append, List.drop_of_length_le (by omega), h1]; simp
        rw [e1, e2]
        rw [absorb_fuel upd ((List.take p.idx p.buf).length + data.length - 1) (data.drop (32 - p.idx)).length _ _ (by simp; omega) (Nat.le_refl _)]
        simp
      · simpa using hr
      · have := hr; simp at this ⊢; omega

theorem absorb_append (upd : S → List (BitVec 8) → S) : ∀ (f : Nat) (s : S) (xs ys : List (BitVec 8)),
    xs.length ≤ f →
    absorb upd (xs.length + ys.length) s (xs ++ ys) =
      absorb upd ((absorb upd f s xs).2.length + ys.length) (absorb upd f s xs).1 ((absorb upd f s xs).2 ++ ys) := by
  intro f
  induction f with
  | zero => intro s xs ys h; simp at h; subst h; simp [absorb]
  | succ f ih =>
    intro s xs ys h
    by_cases hx : 32 ≤ xs.length
    · have hge : 32 ≤ (xs ++ ys).length := by simp; omega
      have e : xs.length + ys.length = (xs.length + ys.length - 1) + 1 := by omega
      rw [e]
      simp only [absorb, hge, hx, ↓reduceIte]
      have e1 : (xs ++ ys).take 32 = xs.take 32 := by
        rw [List.take_append_of_le_length hx]
      have e2 : (xs ++ ys).drop 32 = xs.drop 32 ++ ys := by
        rw [List.drop_append_of_le_length hx]
      rw [e1, e2]
      rw [absorb_fuel upd (xs.length + ys.length - 1) ((xs.drop 32).length + ys.length) _ _ (by simp; omega) (by simp)]
      exact ih (upd s (xs.take 32)) (xs.drop 32) ys (by simp; omega)
    · simp only [absorb, hx, ↓reduceIte]

theorem AbsAppend_assoc (upd : S → List (BitVec 8) → S) (a : S × List (BitVec 8)) (d1 d2 : List (BitVec 8)) :
    AbsAppend upd (AbsAppend upd a d1) d2 = AbsAppend upd a (d1 ++ d2) := by
  unfold AbsAppend
  have := absorb_append upd (a.2.length + d1.length) a.1 (a.2 ++ d1) d2 (by simp)
  simp only [List.length_append, List.append_assoc] at this ⊢
  rw [← this]
  congr 1
  omega

theorem AbsAppend_nil (upd : S → List (BitVec 8) → S) (a : S × List (BitVec 8)) (h : a.2.length < 32) :
    AbsAppend upd a [] = a := by
  unfold AbsAppend
  simp only [List.append_nil, List.length_nil, Nat.add_zero]
  rw [absorb_short _ _ _ _ h]

theorem AbsAppend_pending_lt (upd : S → List (BitVec 8) → S) (a : S × List (BitVec 8)) (d : List (BitVec 8)) :
    (AbsAppend upd a d).2.length < 32 := by
  unfold AbsAppend
  exact absorb_rem_lt upd _ _ _ (by simp)

/-- folding `appendG` over a list of chunks -/
theorem foldl_appendG_abs (upd : S → List (BitVec 8) → S) (chunks : List (List (BitVec 8))) :
    ∀ (x : S × Pkt), x.2.Inv →
      absP (chunks.foldl (appendG upd) x) = AbsAppend upd (absP x) chunks.flatten ∧
      (chunks.foldl (appendG upd) x).2.Inv := by
  induction chunks with
  | nil =>
    intro x hx
    refine ⟨?_, hx⟩
    simp only [List.foldl_nil, List.flatten_nil]
    rw [AbsAppend_nil]
    simp only [absP]
    have := hx.1; have := hx.2
    simp; omega
  | cons c cs ih =>
    intro x hx
    have h1 := appendG_abs upd x c hx
    have h2 := ih (appendG upd x c) h1.2
    refine ⟨?_, h2.2⟩
    simp only [List.foldl_cons, List.flatten_cons]
    rw [h2.1, h1.1, AbsAppend_assoc]

end HH

namespace HH
variable {S T : Type}

/-- a lane-state map that commutes with the packet step commutes with packetisation -/
theorem absorb_map (g : S → T) (updS : S → List (BitVec 8) → S) (updT : T → List (BitVec 8) → T)
    (hg : ∀ s p, g (updS s p) = updT (g s) p) :
    ∀ (f : Nat) (s : S) (d : List (BitVec 8)),
      (g (absorb updS f s d).1, (absorb updS f s d).2) = absorb updT f (g s) d := by
  intro f
  induction f with
  | zero => intro s d; rfl
  | succ f ih =>
    intro s d
    simp only [absorb]
    split
    · rw [ih, hg]
    · rfl

theorem AbsAppend_map (g : S → T) (updS : S → List (BitVec 8) → S) (updT : T → List (BitVec 8) → T)
    (hg : ∀ s p, g (updS s p) = updT (g s) p) (a : S × List (BitVec 8)) (d : List (BitVec 8)) :
    (g (AbsAppend updS a d).1, (AbsAppend updS a d).2) = AbsAppend updT (g a.1, a.2) d := by
  unfold AbsAppend
  exact absorb_map g updS updT hg _ _ _

end HH
