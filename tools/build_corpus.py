#!/usr/bin/env python3
"""(Re)build /verif/corpus/<pid>.json from the seeded defects: apply each patch to /repo, run the check of the
property it was written against, keep the minimised failing history + the violated constraint, undo the patch.
On the unchanged tree every corpus entry passes; they run first in every check of that property."""
import glob, json, os, subprocess, sys
def sh(c): return subprocess.run(c, shell=True, stdout=subprocess.PIPE, stderr=subprocess.STDOUT, text=True)
assert sh("git -C /repo status --porcelain -- src").stdout.strip() == ""
# usage: build_corpus.py [--only e,f,g]   (round letters: merge the new entries into the existing corpus files)
only = sys.argv[sys.argv.index("--only") + 1].split(",") if "--only" in sys.argv else None
corpus = {}
if only:
    for f in glob.glob("/verif/corpus/*.json"):
        corpus[os.path.basename(f)[:-5]] = json.load(open(f))
for d in sorted(glob.glob("/verif/seeded/*/")):
    name = os.path.basename(d.rstrip("/"))
    if only and not (len(name) >= 4 and name[3] in only and (len(name) == 4 or name[4] == "-")):
        continue
    if not os.path.exists(d + "meta.json") or not os.path.exists(d + "patch.diff"):
        continue
    meta = json.load(open(d + "meta.json"))
    pid = meta["property"]
    targets = [pid] + ([] if only else [p for p in meta.get("detected_with_failing_input", []) if p != pid][:2])
    assert sh(f"git -C /repo apply {d}patch.diff").returncode == 0
    try:
        for p in targets:
            o = sh(f"cd /verif && bin/check {p} quick").stdout
            v = [l for l in o.split("\n") if l.startswith("VIOLATION") and "no-failing" not in l]
            for line in v[:3]:
                rp = line.split("replay=")[1].split()[0]
                r = json.load(open(rp))
                if r.get("minimised_ops") and r.get("minimised_cons") and "cross" not in str(r.get("config")) and "miri" not in str(r.get("config")):
                    corpus.setdefault(p, []).append(dict(source=name, config=r.get("config"), ops=r["minimised_ops"], cons=r["minimised_cons"], message=r.get("minimised_message")))
                    print(name, p, len(r["minimised_ops"]), "ops")
                    break
    finally:
        sh("git -C /repo checkout -- . && git -C /repo clean -fdq src")
os.makedirs("/verif/corpus", exist_ok=True)
for p, es in corpus.items():
    # de-duplicate
    seen, out = set(), []
    for e in es:
        k = json.dumps(e["ops"])
        if k not in seen:
            seen.add(k); out.append(e)
    json.dump(out, open(f"/verif/corpus/{p}.json", "w"), indent=1)
print({p: len(v) for p, v in corpus.items()})
