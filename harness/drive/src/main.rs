// Native runner: executes the line protocol on the real crate in-process.
//   drive [--alloc] [--cpu=none|sse41|avx2] [--info] [OPSFILE]
#[path = "../../common/exec.rs"]
mod exec;
mod guard;

use exec::{Cpu, Machine, Out};
use std::alloc::{GlobalAlloc, Layout, System};
use std::io::{BufRead, Write};
use std::sync::atomic::{AtomicUsize, Ordering};

struct Counting;
static ALLOCS: AtomicUsize = AtomicUsize::new(0);
unsafe impl GlobalAlloc for Counting {
    unsafe fn alloc(&self, l: Layout) -> *mut u8 {
        ALLOCS.fetch_add(1, Ordering::Relaxed);
        System.alloc(l)
    }
    unsafe fn dealloc(&self, p: *mut u8, l: Layout) {
        System.dealloc(p, l)
    }
    unsafe fn realloc(&self, p: *mut u8, l: Layout, n: usize) -> *mut u8 {
        ALLOCS.fetch_add(1, Ordering::Relaxed);
        System.realloc(p, l, n)
    }
    unsafe fn alloc_zeroed(&self, l: Layout) -> *mut u8 {
        ALLOCS.fetch_add(1, Ordering::Relaxed);
        System.alloc_zeroed(l)
    }
}
#[global_allocator]
static A: Counting = Counting;

/// CPUID faulting: make `cpuid` trap and emulate it with the AVX2 / SSE4.1 bits masked, so that
/// `is_x86_feature_detected!` (std's run-time detection) sees an SSE-only or a no-SIMD CPU.
#[cfg(all(target_arch = "x86_64", target_os = "linux"))]
mod cpumask {
    use std::sync::atomic::{AtomicU32, Ordering};
    pub static MASK_LEAF1_ECX: AtomicU32 = AtomicU32::new(0);
    pub static MASK_LEAF7_EBX: AtomicU32 = AtomicU32::new(0);
    const ARCH_GET_CPUID: libc::c_long = 0x1011;
    const ARCH_SET_CPUID: libc::c_long = 0x1012;

    unsafe fn set_cpuid(on: libc::c_long) -> libc::c_long {
        libc::syscall(libc::SYS_arch_prctl, ARCH_SET_CPUID, on)
    }

    extern "C" fn handler(_sig: libc::c_int, _info: *mut libc::siginfo_t, ctx: *mut libc::c_void) {
        unsafe {
            let uc = ctx as *mut libc::ucontext_t;
            let gregs = &mut (*uc).uc_mcontext.gregs;
            let rip = gregs[libc::REG_RIP as usize] as *const u8;
            if *rip == 0x0f && *rip.add(1) == 0xa2 {
                let leaf = gregs[libc::REG_RAX as usize] as u32;
                let sub = gregs[libc::REG_RCX as usize] as u32;
                set_cpuid(1);
                let r = core::arch::x86_64::__cpuid_count(leaf, sub);
                set_cpuid(0);
                let mut ebx = r.ebx;
                let mut ecx = r.ecx;
                if leaf == 1 {
                    ecx &= !MASK_LEAF1_ECX.load(Ordering::Relaxed);
                }
                if leaf == 7 && sub == 0 {
                    ebx &= !MASK_LEAF7_EBX.load(Ordering::Relaxed);
                }
                gregs[libc::REG_RAX as usize] = r.eax as i64;
                gregs[libc::REG_RBX as usize] = ebx as i64;
                gregs[libc::REG_RCX as usize] = ecx as i64;
                gregs[libc::REG_RDX as usize] = r.edx as i64;
                gregs[libc::REG_RIP as usize] += 2;
            } else {
                // a genuine fault: restore default action and return to re-fault
                libc::signal(libc::SIGSEGV, libc::SIG_DFL);
            }
        }
    }

    /// returns false when the kernel/CPU does not support CPUID faulting
    pub fn install(kind: &str) -> bool {
        unsafe {
            if libc::syscall(libc::SYS_arch_prctl, ARCH_GET_CPUID, 0) < 0 {
                return false;
            }
            match kind {
                "none" => {
                    MASK_LEAF1_ECX.store(1 << 19, Ordering::Relaxed);
                    MASK_LEAF7_EBX.store(1 << 5, Ordering::Relaxed);
                }
                "sse41" => {
                    MASK_LEAF7_EBX.store(1 << 5, Ordering::Relaxed);
                }
                _ => {}
            }
            let mut sa: libc::sigaction = core::mem::zeroed();
            sa.sa_sigaction = handler as *const () as usize;
            sa.sa_flags = libc::SA_SIGINFO | libc::SA_NODEFER;
            libc::sigemptyset(&mut sa.sa_mask);
            if libc::sigaction(libc::SIGSEGV, &sa, core::ptr::null_mut()) != 0 {
                return false;
            }
            set_cpuid(0) == 0
        }
    }
}

fn detect() -> Cpu {
    #[cfg(target_arch = "x86_64")]
    {
        Cpu { sse41: std::is_x86_feature_detected!("sse4.1"), avx2: std::is_x86_feature_detected!("avx2") }
    }
    #[cfg(not(target_arch = "x86_64"))]
    {
        Cpu { sse41: false, avx2: false }
    }
}

fn info(cpu: Cpu) -> String {
    let arch = if cfg!(target_arch = "x86_64") {
        "x86_64"
    } else if cfg!(target_arch = "aarch64") {
        "aarch64"
    } else if cfg!(target_family = "wasm") {
        "wasm32"
    } else {
        "other"
    };
    format!(
        "cfg arch={} std={} tf_sse41={} tf_avx2={} simd128={} cpu_sse41={} cpu_avx2={} debug_assertions={} ptr={} endian={}",
        arch,
        cfg!(feature = "std") as u8,
        cfg!(target_feature = "sse4.1") as u8,
        cfg!(target_feature = "avx2") as u8,
        cfg!(target_feature = "simd128") as u8,
        cpu.sse41 as u8,
        cpu.avx2 as u8,
        cfg!(debug_assertions) as u8,
        core::mem::size_of::<usize>() * 8,
        if cfg!(target_endian = "little") { "little" } else { "big" }
    )
}

fn main() {
    let mut alloc_mode = false;
    let mut want_info = false;
    let mut file: Option<String> = None;
    let mut guard_mode: Option<(u64, bool, bool)> = None;
    let mut threads: usize = 0;
    for a in std::env::args().skip(1) {
        if let Some(spec) = a.strip_prefix("--guard=") {
            // --guard=<seed>,<quick|thorough>[,verbose]
            let parts: Vec<&str> = spec.split(',').collect();
            let seed = parts.first().and_then(|s| s.parse().ok()).unwrap_or(1);
            guard_mode = Some((seed, parts.get(1) == Some(&"thorough"), parts.get(2) == Some(&"verbose")));
            continue;
        }
        if let Some(n) = a.strip_prefix("--threads=") {
            threads = n.parse().unwrap_or(16);
            continue;
        }
        if a == "--alloc" {
            alloc_mode = true;
        } else if a == "--info" {
            want_info = true;
        } else if let Some(kind) = a.strip_prefix("--cpu=") {
            #[cfg(all(target_arch = "x86_64", target_os = "linux"))]
            {
                if !cpumask::install(kind) {
                    println!("cpu-mask-unavailable");
                    return;
                }
            }
            #[cfg(not(all(target_arch = "x86_64", target_os = "linux")))]
            {
                let _ = kind;
                println!("cpu-mask-unavailable");
                return;
            }
        } else if a.starts_with("--") {
            eprintln!("unknown flag {a}");
            std::process::exit(2);
        } else {
            file = Some(a);
        }
    }
    let cpu = detect();
    if let Some((seed, thorough, verbose)) = guard_mode {
        std::process::exit(guard::guard_main(seed, thorough, verbose, cpu.sse41, cpu.avx2));
    }
    if want_info {
        println!("{}", info(cpu));
        return;
    }
    std::panic::set_hook(Box::new(|_| {}));
    if threads > 0 {
        // C15: the cases of the op file are executed concurrently on `threads` OS threads, each case on
        // its own handle table; the output is printed in file order and must equal the sequential run
        let text = std::fs::read(file.expect("--threads needs an ops file")).expect("read ops");
        let mut cases: Vec<Vec<Vec<u8>>> = Vec::new();
        for line in text.split(|&c| c == b'\n') {
            if line.starts_with(b"# case") || cases.is_empty() {
                cases.push(Vec::new());
            }
            if !line.is_empty() {
                cases.last_mut().unwrap().push(line.to_vec());
            }
        }
        let ncases = cases.len();
        let shared: &'static [highway::HighwayBuildHasher; 4] = Box::leak(Box::new(exec::make_shared()));
        let results: Vec<std::sync::Mutex<Vec<u8>>> = (0..ncases).map(|_| std::sync::Mutex::new(Vec::new())).collect();
        let next = std::sync::atomic::AtomicUsize::new(0);
        std::thread::scope(|sc| {
            for _ in 0..threads {
                sc.spawn(|| {
                    let mut scratch = vec![0u8; 1 << 20];
                    loop {
                        let i = next.fetch_add(1, Ordering::Relaxed);
                        if i >= ncases {
                            break;
                        }
                        let mut m = Machine::new(cpu);
                        m.shared = Some(shared);
                        let mut outv: Vec<u8> = Vec::new();
                        let mut lineno = i;
                        for line in &cases[i] {
                            lineno = lineno.wrapping_add(1);
                            let align_off = lineno.wrapping_mul(37) % 64;
                            if line.first() == Some(&b'#') {
                                outv.extend_from_slice(line);
                                outv.push(b'\n');
                                continue;
                            }
                            let r = std::panic::catch_unwind(std::panic::AssertUnwindSafe(|| {
                                let mut local: Vec<u8> = Vec::new();
                                {
                                    let mut emit = |b: &[u8]| local.extend_from_slice(b);
                                    let mut out = Out { emit: &mut emit };
                                    m.exec(line, &mut scratch[align_off..], &mut out);
                                }
                                local
                            }));
                            match r {
                                Ok(l) => outv.extend_from_slice(&l),
                                Err(_) => outv.extend_from_slice(b"panic"),
                            }
                            outv.push(b'\n');
                            std::thread::yield_now();
                        }
                        *results[i].lock().unwrap() = outv;
                    }
                });
            }
        });
        let stdout = std::io::stdout();
        let mut w = stdout.lock();
        for r in &results {
            w.write_all(&r.lock().unwrap()).unwrap();
        }
        return;
    }
    let input: Box<dyn BufRead> = match file {
        Some(f) => Box::new(std::io::BufReader::new(std::fs::File::open(f).expect("open ops"))),
        None => Box::new(std::io::BufReader::new(std::io::stdin())),
    };
    let stdout = std::io::stdout();
    let mut w = std::io::BufWriter::with_capacity(1 << 20, stdout.lock());
    let mut m = Machine::new(cpu);
    m.shared = Some(Box::leak(Box::new(exec::make_shared())));
    let mut scratch = vec![0u8; 8 << 20];
    let mut linebuf: Vec<u8> = Vec::with_capacity(1 << 16);
    let mut obuf: Vec<u8> = Vec::with_capacity(1 << 12);
    // the payload of every op is decoded at a different address alignment (mod 64): nothing the library
    // computes may depend on where the caller's bytes live
    let mut lineno: usize = 0;
    for line in input.split(b'\n') {
        let line = line.expect("read");
        lineno = lineno.wrapping_add(1);
        let align_off = lineno.wrapping_mul(37) % 64;
        linebuf.clear();
        linebuf.extend_from_slice(&line);
        while linebuf.last() == Some(&b'\r') || linebuf.last() == Some(&b' ') {
            linebuf.pop();
        }
        if linebuf.first() == Some(&b'#') {
            w.write_all(&linebuf).unwrap();
            w.write_all(b"\n").unwrap();
            continue;
        }
        obuf.clear();
        let before;
        let after;
        {
            let obuf_ref = &mut obuf;
            let mut emit = |b: &[u8]| obuf_ref.extend_from_slice(b);
            let m_ref = &mut m;
            let scratch_ref = &mut scratch[align_off..];
            let lb = &linebuf[..];
            before = ALLOCS.load(Ordering::Relaxed);
            let r = std::panic::catch_unwind(std::panic::AssertUnwindSafe(move || {
                let mut out = Out { emit: &mut emit };
                m_ref.exec(lb, scratch_ref, &mut out);
            }));
            after = ALLOCS.load(Ordering::Relaxed);
            if r.is_err() {
                obuf.clear();
                obuf.extend_from_slice(b"panic");
                // drop the handle the op named (its state may be half-updated)
                let mut it = linebuf.split(|&c| c == b' ');
                let _ = it.next();
                if let Some(t) = it.next() {
                    if let Ok(s) = std::str::from_utf8(t) {
                        if let Ok(h) = s.parse::<usize>() {
                            if h < exec::NH {
                                m.hs[h] = None;
                            }
                        }
                    }
                }
            }
        }
        w.write_all(&obuf).unwrap();
        if alloc_mode {
            // obuf growth is pre-reserved; report allocations made while the op ran
            write!(w, " a={}", after - before).unwrap();
        }
        w.write_all(b"\n").unwrap();
    }
    w.flush().unwrap();
}
