// C09: adversarial placement.  Inputs (and each chunk, and the hasher object itself) are placed in a
// mapping whose neighbours are PROT_NONE pages, at every start alignment, ending or starting exactly
// at a page boundary; neighbouring bytes are varied.  Every result must equal the one computed from a
// plain heap copy.  An out-of-slice read faults (SIGSEGV) — the caller sees the signal and re-runs
// with --guard-verbose to name the case.
use highway::{HighwayHash, HighwayHasher, Key, PortableHash};
#[cfg(target_arch = "x86_64")]
use highway::{AvxHash, SseHash};
use std::io::Write;

const PAGE: usize = 4096;

pub struct Region {
    base: *mut u8,
    rw: *mut u8,
    rw_len: usize,
}

impl Region {
    pub fn new(pages: usize) -> Region {
        unsafe {
            let total = (pages + 2) * PAGE;
            let base = libc::mmap(core::ptr::null_mut(), total, libc::PROT_NONE, libc::MAP_PRIVATE | libc::MAP_ANONYMOUS, -1, 0) as *mut u8;
            assert!(base as isize != -1, "mmap failed");
            let rw = base.add(PAGE);
            assert!(libc::mprotect(rw as *mut libc::c_void, pages * PAGE, libc::PROT_READ | libc::PROT_WRITE) == 0);
            Region { base, rw, rw_len: pages * PAGE }
        }
    }
    /// slice of `len` bytes ending exactly at the end of the readable area (next byte is unmapped)
    pub fn at_end(&self, len: usize) -> &mut [u8] {
        unsafe { core::slice::from_raw_parts_mut(self.rw.add(self.rw_len - len), len) }
    }
    /// slice starting exactly at the start of the readable area (previous byte is unmapped)
    pub fn at_start(&self, len: usize) -> &mut [u8] {
        unsafe { core::slice::from_raw_parts_mut(self.rw, len) }
    }
    /// interior slice whose start address is `align` modulo 64
    pub fn interior(&self, align: usize, len: usize) -> &mut [u8] {
        unsafe {
            let mid = self.rw.add(PAGE / 2);
            let a = (mid as usize + 63) & !63;
            core::slice::from_raw_parts_mut((a + align) as *mut u8, len)
        }
    }
    pub fn fill(&self, b: u8) {
        unsafe { core::ptr::write_bytes(self.rw, b, self.rw_len) }
    }
}

impl Drop for Region {
    fn drop(&mut self) {
        unsafe {
            libc::munmap(self.base as *mut libc::c_void, self.rw_len + 2 * PAGE);
        }
    }
}

struct Rng(u64);
impl Rng {
    fn next(&mut self) -> u64 {
        self.0 ^= self.0 << 13;
        self.0 ^= self.0 >> 7;
        self.0 ^= self.0 << 17;
        self.0
    }
    fn below(&mut self, n: usize) -> usize {
        (self.next() % n as u64) as usize
    }
}

#[derive(Clone, Copy, PartialEq, Debug)]
pub enum Be {
    Portable,
    Sse,
    Avx,
    Auto,
}

type Res = (u64, [u64; 2], [u64; 4], [u8; 164]);

fn run_chunks<H: HighwayHash + Clone>(mut h: H, chunks: &[&[u8]]) -> Res {
    for c in chunks {
        h.append(c);
    }
    let ck = h.checkpoint();
    (h.clone().finalize64(), h.clone().finalize128(), h.finalize256(), ck)
}

fn run(be: Be, key: Key, chunks: &[&[u8]]) -> Res {
    match be {
        Be::Portable => run_chunks(PortableHash::new(key), chunks),
        Be::Auto => run_chunks(HighwayHasher::new(key), chunks),
        #[cfg(target_arch = "x86_64")]
        Be::Sse => run_chunks(unsafe { SseHash::force_new(key) }, chunks),
        #[cfg(target_arch = "x86_64")]
        Be::Avx => run_chunks(unsafe { AvxHash::force_new(key) }, chunks),
        #[cfg(not(target_arch = "x86_64"))]
        _ => run_chunks(PortableHash::new(key), chunks),
    }
}

/// the hasher object itself placed so that it ends at the page boundary (as far as its alignment
/// allows); all operations go through the in-place object
fn run_object_at_edge<H: HighwayHash + Clone>(region: &Region, make: impl Fn() -> H, chunks: &[&[u8]]) -> Res {
    unsafe {
        let size = core::mem::size_of::<H>();
        let align = core::mem::align_of::<H>();
        let end = region.rw.add(region.rw_len) as usize;
        let addr = (end - size) & !(align - 1);
        let p = addr as *mut H;
        core::ptr::write(p, make());
        for c in chunks {
            (*p).append(c);
        }
        let ck = (*p).checkpoint();
        let a = (*p).clone().finalize64();
        let b = (*p).clone().finalize128();
        let h = core::ptr::read(p);
        (a, b, h.finalize256(), ck)
    }
}

fn run_obj(be: Be, region: &Region, key: Key, chunks: &[&[u8]]) -> Res {
    match be {
        Be::Portable => run_object_at_edge(region, || PortableHash::new(key), chunks),
        Be::Auto => run_object_at_edge(region, || HighwayHasher::new(key), chunks),
        #[cfg(target_arch = "x86_64")]
        Be::Sse => run_object_at_edge(region, || unsafe { SseHash::force_new(key) }, chunks),
        #[cfg(target_arch = "x86_64")]
        Be::Avx => run_object_at_edge(region, || unsafe { AvxHash::force_new(key) }, chunks),
        #[cfg(not(target_arch = "x86_64"))]
        _ => run_object_at_edge(region, || PortableHash::new(key), chunks),
    }
}

/// offset of the 32-byte packet buffer inside the hasher object, found by restoring a checkpoint
/// with a distinctive pending pattern and scanning the object's bytes
fn buffer_offset<H>(h: &H) -> Option<usize> {
    let size = core::mem::size_of::<H>();
    let bytes = unsafe { core::slice::from_raw_parts(h as *const H as *const u8, size) };
    let pat: Vec<u8> = (0..31u8).map(|i| 0xA5 ^ i.wrapping_mul(7)).collect();
    (0..size.saturating_sub(31)).find(|&o| bytes[o..o + 31] == pat[..])
}

fn marker_ckpt() -> [u8; 164] {
    let mut c = [0u8; 164];
    for i in 0..31u8 {
        c[128 + i as usize] = 0xA5 ^ i.wrapping_mul(7);
    }
    c[160] = 31;
    c
}

pub fn layout(cpu_sse: bool, cpu_avx: bool) -> String {
    let c = marker_ckpt();
    let mut s = String::new();
    let p = PortableHash::from_checkpoint(c);
    s += &format!("layout portable size={} align={} bufoff={:?}\n", core::mem::size_of::<PortableHash>(), core::mem::align_of::<PortableHash>(), buffer_offset(&p));
    s += &format!("layout key size={} align={}\n", core::mem::size_of::<Key>(), core::mem::align_of::<Key>());
    s += &format!("layout auto size={} align={}\n", core::mem::size_of::<HighwayHasher>(), core::mem::align_of::<HighwayHasher>());
    #[cfg(target_arch = "x86_64")]
    {
        if cpu_sse {
            let h = unsafe { SseHash::force_from_checkpoint(c) };
            s += &format!("layout sse size={} align={} bufoff={:?}\n", core::mem::size_of::<SseHash>(), core::mem::align_of::<SseHash>(), buffer_offset(&h));
        }
        if cpu_avx {
            let h = unsafe { AvxHash::force_from_checkpoint(c) };
            s += &format!("layout avx size={} align={} bufoff={:?}\n", core::mem::size_of::<AvxHash>(), core::mem::align_of::<AvxHash>(), buffer_offset(&h));
            let a = HighwayHasher::from_checkpoint(c);
            s += &format!("layout auto bufoff={:?}\n", buffer_offset(&a));
        }
    }
    s
}

pub fn guard_main(seed: u64, thorough: bool, verbose: bool, cpu_sse: bool, cpu_avx: bool) -> i32 {
    let out = std::io::stdout();
    let mut out = out.lock();
    write!(out, "{}", layout(cpu_sse, cpu_avx)).unwrap();
    out.flush().unwrap();
    let mut rng = Rng(seed.wrapping_mul(0x9E3779B97F4A7C15) | 1);
    let region = Region::new(2);
    let obj_region = Region::new(1);
    let mut bes = vec![Be::Portable, Be::Auto];
    if cpu_sse {
        bes.push(Be::Sse);
    }
    if cpu_avx {
        bes.push(Be::Avx);
    }
    let lens: Vec<usize> = if thorough { (0..=200).chain([255, 256, 257, 1000, 4095, 4096]).collect() } else { (0..=70).chain([95, 96, 97, 128, 129, 200]).collect() };
    let aligns: Vec<usize> = if thorough { (0..64).collect() } else { vec![0, 1, 2, 3, 4, 7, 8, 9, 15, 16, 17, 24, 31, 32, 33, 48, 63] };
    let mut cases = 0usize;
    let mut mismatches = 0usize;
    for &len in &lens {
        let data: Vec<u8> = (0..len).map(|_| rng.next() as u8).collect();
        let key = Key([rng.next(), rng.next(), rng.next(), rng.next()]);
        for &be in &bes {
            let expected = run(be, key, &[&data[..]]);
            let mut check = |name: &str, got: Res, out: &mut dyn Write| {
                cases += 1;
                if got != expected {
                    mismatches += 1;
                    writeln!(out, "MISMATCH {name} be={be:?} len={len}").unwrap();
                }
            };
            macro_rules! step {
                ($name:expr, $body:expr) => {{
                    if verbose {
                        writeln!(out, "case {} be={:?} len={}", $name, be, len).unwrap();
                        out.flush().unwrap();
                    }
                    let got = $body;
                    check(&$name, got, &mut out);
                }};
            }
            // 1. slice ends exactly at the page boundary
            if len <= PAGE {
                region.fill(0x5A);
                let s = region.at_end(len);
                s.copy_from_slice(&data);
                step!("end/whole".to_string(), run(be, key, &[&s[..]]));
                if len > 0 {
                    let k = rng.below(len + 1);
                    step!(format!("end/split{k}"), run(be, key, &[&s[..k], &s[k..]]));
                    let k2 = rng.below(len + 1);
                    let (a, b) = (k.min(k2), k.max(k2));
                    step!(format!("end/split{a},{b}"), run(be, key, &[&s[..a], &s[a..b], &s[b..]]));
                }
                // each chunk itself placed against the page end (copied there just before the append)
                if len > 0 {
                    let k = rng.below(len + 1);
                    step!(format!("end/chunk-at-edge{k}"), {
                        let mut parts: Vec<&[u8]> = Vec::new();
                        let r2 = Region::new(1);
                        let c1 = r2.at_end(k);
                        c1.copy_from_slice(&data[..k]);
                        let r3 = Region::new(1);
                        let c2 = r3.at_end(len - k);
                        c2.copy_from_slice(&data[k..]);
                        parts.push(&c1[..]);
                        parts.push(&c2[..]);
                        run(be, key, &parts)
                    });
                }
                // 2. slice starts exactly at the page start
                region.fill(0xC3);
                let s = region.at_start(len);
                s.copy_from_slice(&data);
                step!("start/whole".to_string(), run(be, key, &[&s[..]]));
                // 3. hasher object itself against the inaccessible page
                step!("object-at-edge".to_string(), run_obj(be, &obj_region, key, &[&data[..]]));
                if len > 1 {
                    let k = rng.below(len);
                    step!(format!("object-at-edge/split{k}"), run_obj(be, &obj_region, key, &[&data[..k], &data[k..]]));
                }
            }
            // 4. every start alignment, two different neighbourhoods
            if len + 128 <= PAGE {
                for &a in &aligns {
                    for fillb in [0x00u8, 0xFF] {
                        region.fill(fillb);
                        let s = region.interior(a, len);
                        s.copy_from_slice(&data);
                        let k = if len > 0 { rng.below(len + 1) } else { 0 };
                        step!(format!("align{a}/fill{fillb:02x}/split{k}"), run(be, key, &[&s[..k], &s[k..]]));
                    }
                }
            }
        }
    }
    writeln!(out, "guard done cases={cases} mismatches={mismatches}").unwrap();
    if mismatches > 0 { 1 } else { 0 }
}
