#!/usr/bin/env python3
import json, sys, glob, jsonschema
jsonschema.validate(json.load(open('/verif/MANIFEST.json')), json.load(open('/root/.vp/MANIFEST.schema.json'))); print('manifest valid')
sch = json.load(open('/root/.vp/EVIDENCE.schema.json'))
for f in sorted(glob.glob('/verif/evidence/*.json')):
    try:
        jsonschema.validate(json.load(open(f)), sch); print(f, 'valid')
    except Exception as e:
        print(f, 'INVALID', str(e)[:300])
