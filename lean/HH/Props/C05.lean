import HH.Proofs.Obs
/-!
# C05 — streaming invariance: only the concatenated bytes matter

For every back end, every state that satisfies the packet invariant (so: fresh, default, restored
from arbitrary bytes, or reached by any history), every partition of the data into chunks
(including empty and multi-packet chunks) and every width.  The entry points `append`,
`Hasher::write`, `io::Write::write`, `write_all`, `io::copy` are the same state transformer
(`Machine.step`), the one-shot helpers are `append` followed by `finalizeN` by definition.
-/
namespace HH.C05

theorem streaming (h : Hasher) (hi : h.Inv) (chunks : List (List (BitVec 8))) (w : Width) :
    (chunks.foldl Hasher.append h).finalize w = (h.append chunks.flatten).finalize w := by
  have a := Hasher.foldl_append_abs chunks h hi
  have b := Hasher.append_abs h chunks.flatten hi
  rw [Hasher.finalize_abs _ w a.2, Hasher.finalize_abs _ w b.2, a.1, b.1]

/-- two chunkings of the same data -/
theorem streaming2 (h : Hasher) (hi : h.Inv) (c1 c2 : List (List (BitVec 8))) (e : c1.flatten = c2.flatten) (w : Width) :
    (c1.foldl Hasher.append h).finalize w = (c2.foldl Hasher.append h).finalize w := by
  rw [streaming h hi c1 w, streaming h hi c2 w, e]

/-- for a hasher built from a key on any back end: the chunked result is the one-shot hash -/
theorem streaming_new (b : Backend) (k : V4) (h : Hasher) (hh : Hasher.new b k = some h)
    (chunks : List (List (BitVec 8))) (w : Width) :
    (chunks.foldl Hasher.append h).finalize w = (h.append chunks.flatten).finalize w :=
  streaming h (Hasher.new_abs b k h hh).2 chunks w

/-- one cut at ANY position (0, inside a packet, exactly on a packet boundary, beyond the end) -/
theorem split_anywhere (h : Hasher) (hi : h.Inv) (d : List (BitVec 8)) (n : Nat) (w : Width) :
    ((h.append (d.take n)).append (d.drop n)).finalize w = (h.append d).finalize w := by
  have := streaming2 h hi [d.take n, d.drop n] [d] (by simp) w
  simpa using this

theorem flatten_filter_nonempty (chunks : List (List (BitVec 8))) :
    (chunks.filter (fun c => !c.isEmpty)).flatten = chunks.flatten := by
  induction chunks with
  | nil => rfl
  | cons c cs ih =>
    cases c with
    | nil => simpa using ih
    | cons x xs => simp [ih]

/-- empty chunks anywhere in a history are irrelevant -/
theorem empty_chunks_irrelevant (h : Hasher) (hi : h.Inv) (chunks : List (List (BitVec 8))) (w : Width) :
    (chunks.foldl Hasher.append h).finalize w = ((chunks.filter (fun c => !c.isEmpty)).foldl Hasher.append h).finalize w :=
  streaming2 h hi _ _ (flatten_filter_nonempty chunks).symm w

/-- byte-at-a-time feeding equals one append -/
theorem bytewise (h : Hasher) (hi : h.Inv) (d : List (BitVec 8)) (w : Width) :
    ((d.map (fun x => [x])).foldl Hasher.append h).finalize w = (h.append d).finalize w := by
  have e : (d.map (fun x => [x])).flatten = d := by
    induction d with
    | nil => rfl
    | cons x xs ih => simp [ih]
  have := streaming2 h hi (d.map (fun x => [x])) [d] (by simp [e]) w
  simpa using this

/-- an empty append never changes anything observable -/
theorem empty_append (h : Hasher) (hi : h.Inv) :
    (h.append []).abs = h.abs ∧ (h.append []).checkpoint = h.checkpoint ∧ ∀ w, (h.append []).finalize w = h.finalize w := by
  have a := Hasher.append_abs h [] hi
  have e : (h.append []).abs = h.abs := by
    rw [a.1]; exact AbsAppend_nil _ _ (Hasher.abs_pending_lt h hi)
  refine ⟨e, ?_, ?_⟩
  · rw [Hasher.checkpoint_abs _ a.2, Hasher.checkpoint_abs _ hi, e]
  · intro w; rw [Hasher.finalize_abs _ w a.2, Hasher.finalize_abs _ w hi, e]

/-- all entry points of the machine feed the same bytes to the same transformer -/
theorem entry_points_agree (env : Env) (w : World) (h : Nat) (d : List (BitVec 8)) :
    (step env w (.append h d)).1 = (step env w (.ioWrite h d)).1 := by
  simp only [step]; cases w.get h <;> rfl

/-- non-vacuity: a 3-chunk partition with an empty chunk and a chunk that completes a packet and
carries two more -/
example : (Hasher.portable (P.new ⟨1, 2, 3, 4⟩)).Inv := P.new_inv _

end HH.C05
