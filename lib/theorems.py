"""Inventory of the Lean theorems each property's check requires (audited with #print axioms on
every run), claimed levels, assumptions.  A theorem listed here that no longer exists or no longer
checks makes the check report `proof-broken`."""


def allowed_extra_axiom(a):
    # bv_decide's axioms; accepted for bit-twiddling lemmas only and reported in the evidence
    return a in ("Lean.ofReduceBool", "Lean.trustCompiler") or "_native.bv_decide.ax" in a


MODEL_TRUST = [
    "hand-written Lean model of the Rust source, tied to /repo's working tree by the correspondence check of this run (op streams executed on the real crate and on the model, outputs diffed)",
    "Rust semantics of slices/wrapping arithmetic/chunks_exact as transcribed in the model",
]
SIMD_TRUST = ["semantics of the x86 intrinsics in HH/Intrin/X86.lean (Intel pseudo-code), validated against the real instructions through the SSE/AVX correspondence streams"]

THEOREMS = {
    "C01": dict(module="HH.Props.C01", trusted=MODEL_TRUST + ["HH/Spec.lean: hand transcription of the HighwayHash algorithm, validated in the kernel against the 195 published vectors + 5 README/test vectors"],
                theorems=[
        ("HH.C01.hash64_eq_spec", "∀ key data, P.hash64 key data = Spec.hash64 key data"),
        ("HH.C01.hash128_eq_spec", "∀ key data, P.hash128 key data = Spec.hash128 key data"),
        ("HH.C01.hash256_eq_spec", "∀ key data, P.hash256 key data = Spec.hash256 key data"),
        ("HH.C01.spec_vectors64", "Spec.hash64 reproduces the 65 published 64-bit vectors (decide +kernel)"),
        ("HH.C01.spec_vectors128", "Spec.hash128 reproduces the 65 published 128-bit vectors"),
        ("HH.C01.spec_vectors256", "Spec.hash256 reproduces the 65 published 256-bit vectors"),
        ("HH.C01.spec_vectors_misc", "README vectors, two >=0x80 vectors, zero-key empty input"),
        ("HH.C01.portable_vectors64", "the portable model reproduces the published 64-bit vectors"),
    ]),
    "C02": dict(module="HH.Props.C02", trusted=MODEL_TRUST + SIMD_TRUST, theorems=[
        ("HH.C02.backend_eq_portable", "∀ backend key chunks width: result of any back end built from a key = portable result"),
        ("HH.C02.sse_hash64", "∀ k d, Sse.finalize64 (Sse.append (Sse.new k) d) = P.hash64 k d"),
        ("HH.C02.sse_hash128", "same, 128 bit"), ("HH.C02.sse_hash256", "same, 256 bit"),
        ("HH.C02.avx_hash64", "∀ k d, Avx.finalize64 (Avx.append (Avx.new k) d) = P.hash64 k d"),
        ("HH.C02.avx_hash128", "same, 128 bit"), ("HH.C02.avx_hash256", "same, 256 bit"),
        ("HH.C02.auto_eq_portable", "∀ Cfg Cpu: the back end chosen by the selection ladder gives the portable result"),
        ("HH.C02.sse_eq_spec64", "SSE = HighwayHash spec (64 bit)"), ("HH.C02.avx_eq_spec256", "AVX = HighwayHash spec (256 bit)"),
    ]),
    "C05": dict(module="HH.Props.C05", trusted=MODEL_TRUST + SIMD_TRUST, theorems=[
        ("HH.C05.streaming", "∀ hasher (any back end, packet invariant) chunks width: foldl append then finalize = append (flatten) then finalize"),
        ("HH.C05.streaming2", "two chunkings of the same data give the same result"),
        ("HH.C05.streaming_new", "instance for hashers built from a key"),
        ("HH.C05.empty_append", "an empty append changes no observable"),
        ("HH.C05.entry_points_agree", "append / Hasher::write / io::Write::write are the same state transformer of the machine"),
    ]),
    "C06": dict(module="HH.Props.C06", trusted=MODEL_TRUST + SIMD_TRUST, theorems=[
        ("HH.C06.hop_transparent", "checkpoint + restore on any back end: every later finalize/checkpoint equals the original's"),
        ("HH.C06.journey_abs", "any number of hops over any back ends at any cut points preserves the abstract state"),
        ("HH.C06.journey_transparent", "after any journey every later result equals the uninterrupted hasher's"),
    ]),
    "C07": dict(module="HH.Props.C07", trusted=MODEL_TRUST + SIMD_TRUST, theorems=[
        ("HH.C07.default_eq_new", "∀ back end, default = new zeroKey"),
        ("HH.C07.default_hash", "every default hasher is observationally the zero-key portable hasher"),
        ("HH.C07.default_hash64_spec", "default portable hasher computes Spec.hash64 zeroKey"),
        ("HH.C07.legacy_default_ne", "kernel-checked witness of the fixed defect (derived Default: hash 0)"),
    ]),
    "C11": dict(module="HH.Props.C11", trusted=MODEL_TRUST + SIMD_TRUST, theorems=[
        ("HH.C11.restored_inv", "∀ c ∈ u8^164, ∀ back end: restored hasher satisfies idx<32 and has abstract state decodeAbs c"),
        ("HH.C11.backend_independent", "∀ c, any two back ends: all later finalize/checkpoint/finish results equal"),
        ("HH.C11.restored_laws", "empty append is identity, streaming invariance, own checkpoints restore transparently"),
        ("HH.C11.decoded_count_lt", "pending count < 32 for every count field"),
        ("HH.C11.legacy_count32_breaks", "kernel-checked witness of the fixed defect (count=32)"),
    ]),
    "C14": dict(module="HH.Props.C14", trusted=MODEL_TRUST + SIMD_TRUST, theorems=[
        ("HH.C14.ckpt_of_abs", "checkpoint is a function of the abstract state"),
        ("HH.C14.canonical", "same key + same stream, any chunkings, any back ends: identical 164 bytes = encode(key, bytes)"),
        ("HH.C14.idempotent", "from_checkpoint(c).checkpoint() = c for produced c"),
        ("HH.C14.buffer_field", "bytes 128..160 = pending bytes followed by zeros (no absorbed input)"),
        ("HH.C14.legacy_leak", "kernel-checked witness of the fixed defect (stale bytes in the buffer)"),
    ]),
}

LEVEL = {k: "proof" for k in THEOREMS}
EXPLAIN = {}
ASSUME = {
    k: ["the Lean model corresponds to the code: established for this run by the differential correspondence stream (see coverage.traces_validated_against_impl / model_disagreements)",
        "rustc/LLVM compile the crate according to Rust semantics"] for k in ["C01", "C02", "C05", "C06", "C07", "C10", "C11", "C12", "C13", "C14", "C15"]
}
SPECIAL = {}
