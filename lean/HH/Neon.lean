import HH.Packet
import HH.Portable
import HH.Intrin.Neon
/-!
# HH.Neon — model of `src/aarch64.rs` (`NeonHash` and its `V2x64U`), statement by statement over the
modelled NEON intrinsics.  `V2x64U::new(hi, low) = vld1q_u64([low, hi])`.
-/
namespace HH
namespace NeonB
open Neon

structure Regs where
  v0L : BitVec 128
  v0H : BitVec 128
  v1L : BitVec 128
  v1H : BitVec 128
  mul0L : BitVec 128
  mul0H : BitVec 128
  mul1L : BitVec 128
  mul1H : BitVec 128
deriving DecidableEq, Repr

structure State where
  r : Regs
  buffer : Pkt
deriving DecidableEq, Repr

/-- `V2x64U::new(hi, low)` -/
def v2new (hi low : BitVec 64) : BitVec 128 := vld1q_u64 low hi
/-- `V2x64U::rotate_by_32`: `vrev64q_u32` -/
def rotateBy32 (x : BitVec 128) : BitVec 128 := vrev64q_u32 x
/-- `V2x64U::and_not(self, neg_mask) = vbicq_u64(self, neg_mask)` -/
def andNot (self negMask : BitVec 128) : BitVec 128 := vbicq_u64 self negMask
/-- `_mm_slli_si128_8(a) = vextq_u8(vdupq_n_u8(0), a, 8)` -/
def slli8 (a : BitVec 128) : BitVec 128 := vextq_u8 (vdupq_n_u8 0) a 8

def init0L := v2new 0xa4093822299f31d0#64 0xdbe6d5d5fe4cce2f#64
def init0H := v2new 0x243f6a8885a308d3#64 0x13198a2e03707344#64
def init1L := v2new 0xc0acf169b5f18a8c#64 0x3bd39e10cb0ef593#64
def init1H := v2new 0x452821e638d01377#64 0xbe5466cf34e90c6c#64

/-- `NeonHash::force_new` -/
def new (key : V4) : State :=
  let keyL := v2new key.l1 key.l0
  let keyH := v2new key.l3 key.l2
  { r := { v0L := veorq_u64 keyL init0L, v0H := veorq_u64 keyH init0H,
           v1L := veorq_u64 (rotateBy32 keyL) init1L, v1H := veorq_u64 (rotateBy32 keyH) init1H,
           mul0L := init0L, mul0H := init0H, mul1L := init1L, mul1H := init1H },
    buffer := Pkt.default }

/-- `impl Default for NeonHash` (after the `fix:` commit) -/
def default : State := new V4.zero

/-- `NeonHash::zipper_merge`: table lookup with `[3,12,2,5,14,1,15,0,11,4,10,13,9,6,8,7]` -/
def zipperMerge (v : BitVec 128) : BitVec 128 :=
  vqtbl1q_u8 v (vld1q_u8 [3, 12, 2, 5, 14, 1, 15, 0, 11, 4, 10, 13, 9, 6, 8, 7] 0)

/-- `NeonHash::update` -/
def update (s : Regs) (packetH packetL : BitVec 128) : Regs :=
  let v1L := vaddq_u64 s.v1L packetL
  let v1H := vaddq_u64 s.v1H packetH
  let v1L := vaddq_u64 v1L s.mul0L
  let v1H := vaddq_u64 v1H s.mul0H
  let mul0L := veorq_u64 s.mul0L (vmull_u32 (vmovn_u64 v1L) (vshrn_n_u64 s.v0L 32))
  let mul0H := veorq_u64 s.mul0H (vmull_u32 (vmovn_u64 v1H) (vshrn_n_u64 s.v0H 32))
  let v0L := vaddq_u64 s.v0L s.mul1L
  let v0H := vaddq_u64 s.v0H s.mul1H
  let mul1L := veorq_u64 s.mul1L (vmull_u32 (vmovn_u64 v0L) (vshrn_n_u64 v1L 32))
  let mul1H := veorq_u64 s.mul1H (vmull_u32 (vmovn_u64 v0H) (vshrn_n_u64 v1H 32))
  let v0L := vaddq_u64 v0L (zipperMerge v1L)
  let v0H := vaddq_u64 v0H (zipperMerge v1H)
  let v1L := vaddq_u64 v1L (zipperMerge v0L)
  let v1H := vaddq_u64 v1H (zipperMerge v0H)
  ⟨v0L, v0H, v1L, v1H, mul0L, mul0H, mul1L, mul1H⟩

/-- `data_to_lanes` (two `vld1q_u8`) followed by `update` -/
def updPacket (s : Regs) (pkt : List (BitVec 8)) : Regs := update s (vld1q_u8 pkt 16) (vld1q_u8 pkt 0)

def permuteAndUpdate (s : Regs) : Regs := update s (rotateBy32 s.v0L) (rotateBy32 s.v0H)

def rounds : Nat → Regs → Regs
  | 0, s => s
  | n+1, s => rounds n (permuteAndUpdate s)

/-- `NeonHash::load_multiple_of_four(bytes, size)`, `bytes = mem[off .. off+len]`; `take::<N>` reads
`N` bytes through a raw pointer (no bounds check) -/
def loadMultipleOfFour (mem : List (BitVec 8)) (off len size : Nat) : BitVec 128 :=
  let mask4 := v2new 0 0xFFFFFFFF#64
  let (mask4, dataOff, ret) :=
    if len ≥ 8 then (slli8 mask4, off + 8, v2new 0 (le64 (mem.drop off)))
    else (mask4, off, v2new 0 0)
  if (size / 4) % 2 = 1 then               -- `size & 4 != 0`
    let last4 := le32 (mem.drop dataOff)   -- `take::<4>(data)`
    vorrq_u64 ret (vandq_u64 (vdupq_n_u32 last4) mask4)
  else ret

/-- `NeonHash::remainder(bytes)`, `bytes = buf[..n]` -/
def remainder (buf : List (BitVec 8)) (n : Nat) : BitVec 128 × BitVec 128 :=
  let bytes := buf.take n
  let sizeMod4 := n % 4
  if (n / 16) % 2 = 1 then
    let packetL := vld1q_u8 buf 0
    let packett := loadMultipleOfFour buf 16 (n - 16) n
    let rem := bytes.drop ((n - sizeMod4) + sizeMod4 - 4)
    let last4 := le32 rem
    let packetH := vsetq_lane_u32 last4 packett 3
    (packetH, packetL)
  else
    let rem := bytes.drop (n - sizeMod4)
    let packetL := loadMultipleOfFour buf 0 n n
    let last4 := unorderedLoad3 rem
    let packetH := v2new 0 last4
    (packetH, packetL)

/-- `NeonHash::rotate_32_by(count: i32)` on one register: `vshlq_u32` by `count` and by `count - 32` -/
def rotate32By (v : BitVec 128) (count : Nat) : BitVec 128 :=
  let countLeft := vdupq_n_u32 (BitVec.ofNat 32 count)
  let countRight := vdupq_n_u32 (BitVec.ofNat 32 (count + (2 ^ 32 - 32)))   -- `count + (!32 + 1)` in i32
  vorrq_u64 (vshlq_u32 v countLeft) (vshlq_u32 v countRight)

/-- `NeonHash::update_remainder` -/
def updateRemainder (x : State) : Regs :=
  let size := x.buffer.len
  let vsize := vdupq_n_u32 (BitVec.ofNat 32 size)
  let s := x.r
  let s := { s with v0L := vaddq_u64 s.v0L vsize, v0H := vaddq_u64 s.v0H vsize }
  let s := { s with v1L := rotate32By s.v1L size, v1H := rotate32By s.v1H size }
  let p := remainder x.buffer.buf x.buffer.idx
  update s p.1 p.2

def finalizeCommon (n : Nat) (x : State) : Regs :=
  let s := if !x.buffer.isEmpty then updateRemainder x else x.r
  rounds n s

def finalize64 (x : State) : BitVec 64 :=
  let s := finalizeCommon 4 x
  (vst1q_u64 (vaddq_u64 (vaddq_u64 s.v0L s.mul0L) (vaddq_u64 s.v1L s.mul1L))).1

def finalize128 (x : State) : BitVec 64 × BitVec 64 :=
  let s := finalizeCommon 6 x
  vst1q_u64 (vaddq_u64 (vaddq_u64 s.v0L s.mul0L) (vaddq_u64 s.v1H s.mul1H))

/-- `NeonHash::modular_reduction` -/
def modularReduction (x init : BitVec 128) : BitVec 128 :=
  let zero := vdupq_n_u32 0
  let signBit128 := vsetq_lane_u32 0x80000000#32 zero 3
  let topBits2 := vshrq_n_u64 x 62
  let shifted1Unmasked := vaddq_u64 x x
  let topBits1 := vshrq_n_u64 x 63
  let shifted2 := vaddq_u64 shifted1Unmasked shifted1Unmasked
  let newLowBits2 := slli8 topBits2
  let shifted1 := andNot shifted1Unmasked signBit128
  let newLowBits1 := slli8 topBits1
  veorq_u64 (veorq_u64 (veorq_u64 (veorq_u64 init shifted2) newLowBits2) shifted1) newLowBits1

def finalize256 (x : State) : BitVec 64 × BitVec 64 × BitVec 64 × BitVec 64 :=
  let s := finalizeCommon 10 x
  let hashL := modularReduction (vaddq_u64 s.v1L s.mul1L) (vaddq_u64 s.v0L s.mul0L)
  let hashH := modularReduction (vaddq_u64 s.v1H s.mul1H) (vaddq_u64 s.v0H s.mul0H)
  (lo64 hashL, hi64 hashL, lo64 hashH, hi64 hashH)

def append (x : State) (data : List (BitVec 8)) : State :=
  let r := appendG updPacket (x.r, x.buffer) data
  ⟨r.1, r.2⟩

def toPortable (s : Regs) : St :=
  ⟨⟨lo64 s.v0L, hi64 s.v0L, lo64 s.v0H, hi64 s.v0H⟩, ⟨lo64 s.v1L, hi64 s.v1L, lo64 s.v1H, hi64 s.v1H⟩,
   ⟨lo64 s.mul0L, hi64 s.mul0L, lo64 s.mul0H, hi64 s.mul0H⟩, ⟨lo64 s.mul1L, hi64 s.mul1L, lo64 s.mul1H, hi64 s.mul1H⟩⟩

def fromPortable (p : St) : Regs :=
  ⟨v2new p.v0.l1 p.v0.l0, v2new p.v0.l3 p.v0.l2, v2new p.v1.l1 p.v1.l0, v2new p.v1.l3 p.v1.l2,
   v2new p.mul0.l1 p.mul0.l0, v2new p.mul0.l3 p.mul0.l2, v2new p.mul1.l1 p.mul1.l0, v2new p.mul1.l3 p.mul1.l2⟩

def checkpoint (x : State) : List (BitVec 8) := P.checkpoint ⟨toPortable x.r, x.buffer⟩

def fromCheckpoint (data : List (BitVec 8)) : State :=
  let p := P.fromCheckpoint data
  ⟨fromPortable p.st, p.buffer⟩

end NeonB
end HH
