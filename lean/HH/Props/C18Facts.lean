import HH.Generated.SourceFacts
import HH.Props.FactsLib
/-!
# C18 (source half) — no allocation-capable construct in library code; C15 (source half) — no
process-global state
-/
namespace HH.C18
open HH.Facts

/-- no allocation-capable name (alloc::, Vec, Box, String, Rc, Arc, vec!, format!, to_vec, to_owned,
to_string, collect, …) outside `#[cfg(test)]` items, in any file -/
theorem no_alloc_names : (facts.all fun f => !(f.kind == "alloc" && !f.test)) = true := by decide +kernel

/-- no `extern crate` (in particular no `extern crate alloc`) -/
theorem no_extern_crate : (facts.all fun f => !(f.kind == "extern_crate")) = true := by decide +kernel

/-- paths into `std` stay inside (a) the modules of `std` that are re-exports of `core` (which cannot
allocate: there is no allocator below `alloc`), and (b) the handful of `std::io` items an `io::Write`
adapter needs (`Write`, `Result`, `IoSlice`, `IoSliceMut`, `ErrorKind`).  Everything else in `std` — `env`,
`fs`, `vec`, `string`, `collections`, `boxed`, `rc`, `sync`, `thread`, `io::Error::new/other`, `io::BufWriter`,
… — may allocate and is rejected. -/
def coreMirrors : List String :=
  ["fmt", "hash", "mem", "ops", "cmp", "convert", "arch", "marker", "default", "clone", "num", "option", "result", "error", "iter",
   "slice", "str", "borrow", "any", "cell", "ptr", "time", "prelude", "primitive", "simd", "task", "future", "pin", "panic",
   "hint", "array", "ascii", "char", "u8", "u16", "u32", "u64", "u128", "usize", "i8", "i16", "i32", "i64", "i128", "isize",
   "is_x86_feature_detected", "debug_assert", "assert", "write", "writeln", "cfg", "compile_error", "concat", "stringify"]
def ioItems : List String := ["Write", "Result", "IoSlice", "IoSliceMut", "ErrorKind"]
def stdPathOk (p : String) : Bool :=
  match (HH.FactsLib.segsOf p).filter (· != "") with
  | "std" :: "io" :: item :: rest =>
    ioItems.contains item && (rest.isEmpty || item == "Write" || item == "ErrorKind" ||
      -- the variant constructors of `io::Result<T>` (`::std::io::Result::Ok(..)`): constructing a `Result` allocates nothing
      (item == "Result" && (rest == ["Ok"] || rest == ["Err"])))
  | "std" :: m :: _ => coreMirrors.contains m
  | _ => false
theorem std_paths : (facts.all fun f => !(f.kind == "std_path" && !f.test) || stdPathOk f.detail) = true := by
  decide +kernel

example : stdPathOk "::std::io::Write" = true ∧ stdPathOk "::std::fmt::Arguments" = true ∧ stdPathOk "::std::io::IoSlice" = true ∧
    stdPathOk "std::env::var" = false ∧ stdPathOk "::std::io::Error::other" = false ∧ stdPathOk "std::vec::Vec" = false ∧ stdPathOk "std::error::Error" = true ∧
    stdPathOk "::std::io::Result::Ok" = true ∧ stdPathOk "::std::io::Result::unwrap" = false := by decide +kernel

end HH.C18

