import HH.Proofs.MachineLemmas
import HH.Props.C05
import HH.Props.C02
/-!
# C12 — std `Hasher` / `io::Write` / `BuildHasher` adapters are faithful

In the model the adapters are what `src/macros.rs` and `src/hash.rs` say they are: `write` is
`append`, `finish` is `finalize64` of a clone, `io::Write::write` is `append` returning the full
length, `flush` does nothing, `build_hasher` is `HighwayHasher::new(self.key)`.  The theorems are
therefore short corollaries of C05/C13; what makes them say something about the code is the
correspondence stream, which drives the real trait implementations.
-/
namespace HH.C12

/-- `Hasher::finish` after any sequence of writes is the 64-bit hash of exactly the bytes written so
far (for a hasher of any back end built from a key) -/
theorem finish_is_hash_of_written (b : Backend) (k : V4) (h : Hasher) (hh : Hasher.new b k = some h)
    (writes : List (List (BitVec 8))) :
    (writes.foldl Hasher.append h).finalize64 = P.hash64 k writes.flatten := by
  have hb := Hasher.new_abs b k h hh
  have hp := Hasher.new_abs .portable k (Hasher.portable (P.new k)) rfl
  have o := Hasher.obs_eq h _ hb.2 hp.2 (hb.1.trans hp.1.symm) writes
  rw [o.2.2]
  have s := C05.streaming (Hasher.portable (P.new k)) hp.2 writes .w64
  simp only [Hasher.finalize, Digest.d64.injEq] at s
  rw [s]; rfl

/-- `finish` does not change the hasher: it can be called repeatedly and between writes -/
theorem finish_pure (env : Env) (w : World) (h : Nat) : (step env w (.finish h)).1 = w :=
  observer_world env w (.finish h) rfl

/-- `io::Write::write` consumes the whole buffer, reports its full length, never fails -/
theorem write_consumes_all (env : Env) (w : World) (h : Nat) (d : List (BitVec 8)) (x : Handle)
    (hx : w.get h = some x) :
    (step env w (.ioWrite h d)).2 = .n d.length ∧
    (step env w (.ioWrite h d)).1.get h = some { x with h := x.h.append d } := by
  simp [step, hx, World.get_put]

/-- `flush` succeeds and does nothing -/
theorem flush_noop (env : Env) (w : World) (h : Nat) (x : Handle) (hx : w.get h = some x) :
    step env w (.flush h) = (w, .ok) := by
  simp [step, hx]

/-- `build_hasher` hands out hashers that depend on nothing but the builder's key (and the build
configuration): independent of the world, of the builder instance, of earlier hashers -/
theorem build_hasher_depends_on_key_only (env : Env) (w1 w2 : World) (h : Nat) (k : V4) :
    (step env w1 (.new h .auto false k)).1.get h = (step env w2 (.new h .auto false k)).1.get h ∧
    (step env w1 (.new h .auto false k)).2 = (step env w2 (.new h .auto false k)).2 := by
  have := step_local env w1 w2 (.new h .auto false k) rfl
  simp only [step]
  split <;> simp [World.get_put, World.get_del]

/-- hence equal values (equal byte streams fed by their `Hash` impl) hash equally across builder
instances: the result is the portable 64-bit hash of (key, bytes) -/
theorem hash_one_value (c : Cfg) (cpu : Cpu) (k : V4) (h : Hasher) (hh : Hasher.new (selectNew c cpu) k = some h)
    (stream : List (List (BitVec 8))) :
    (stream.foldl Hasher.append h).finalize64 = P.hash64 k stream.flatten :=
  finish_is_hash_of_written _ k h hh stream

end HH.C12
