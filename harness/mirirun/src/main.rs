// Runner for `cargo +nightly miri run --target <cross target>`: executes the line protocol on the
// REAL crate source under Miri's interpreter (aarch64 NEON back end, big-endian and 32-bit portable
// path).  The op file is embedded at compile time (OPS_FILE), output goes to stdout.
#![cfg_attr(target_arch = "aarch64", feature(abi_unadjusted, link_llvm_intrinsics, simd_ffi))]
#![allow(internal_features)]

#[path = "../../common/exec.rs"]
mod exec;

use exec::{Cpu, Machine, Out};

static OPS: &[u8] = include_bytes!(env!("OPS_FILE"));

// Miri does not implement `llvm.aarch64.neon.ushl.v4i32` (behind `vshlq_u32`); supply it, written
// from the Arm ARM pseudo-code of USHL (vector): per 32-bit lane, shift = SInt(low byte of the
// shift lane); left shift for shift >= 0 (0 when >= 32), logical right shift by -shift otherwise.
#[cfg(target_arch = "aarch64")]
mod shim {
    use core::arch::aarch64::{int32x4_t, uint32x4_t};
    #[export_name = "llvm.aarch64.neon.ushl.v4i32"]
    pub extern "unadjusted" fn ushl_v4i32(a: uint32x4_t, b: int32x4_t) -> uint32x4_t {
        let a: [u32; 4] = unsafe { core::mem::transmute(a) };
        let b: [i32; 4] = unsafe { core::mem::transmute(b) };
        let mut r = [0u32; 4];
        for i in 0..4 {
            let sh = b[i] as i8 as i32;
            r[i] = if sh >= 0 {
                if sh >= 32 { 0 } else { a[i] << sh }
            } else if -sh >= 32 {
                0
            } else {
                a[i] >> (-sh)
            };
        }
        unsafe { core::mem::transmute(r) }
    }
}

fn info() -> String {
    let arch = if cfg!(target_arch = "x86_64") {
        "x86_64"
    } else if cfg!(target_arch = "aarch64") {
        "aarch64"
    } else if cfg!(target_family = "wasm") {
        "wasm32"
    } else {
        "other"
    };
    format!(
        "cfg arch={} std={} tf_sse41={} tf_avx2={} simd128={} cpu_sse41={} cpu_avx2={} debug_assertions={} ptr={} endian={}",
        arch,
        cfg!(feature = "std") as u8,
        cfg!(target_feature = "sse4.1") as u8,
        cfg!(target_feature = "avx2") as u8,
        cfg!(target_feature = "simd128") as u8,
        cfg!(target_feature = "sse4.1") as u8,
        cfg!(target_feature = "avx2") as u8,
        cfg!(debug_assertions) as u8,
        core::mem::size_of::<usize>() * 8,
        if cfg!(target_endian = "little") { "little" } else { "big" }
    )
}

fn main() {
    println!("{}", info());
    let mut m = Machine::new(Cpu { sse41: cfg!(target_feature = "sse4.1"), avx2: cfg!(target_feature = "avx2") });
    let mut scratch = vec![0u8; 1 << 16];
    let mut obuf: Vec<u8> = Vec::with_capacity(1 << 12);
    for line in OPS.split(|&c| c == b'\n') {
        if line.is_empty() {
            continue;
        }
        if line[0] == b'#' {
            println!("{}", core::str::from_utf8(line).unwrap());
            continue;
        }
        obuf.clear();
        {
            let obuf_ref = &mut obuf;
            let mut emit = |b: &[u8]| obuf_ref.extend_from_slice(b);
            let mut out = Out { emit: &mut emit };
            m.exec(line, &mut scratch[..], &mut out);
        }
        println!("{}", core::str::from_utf8(&obuf).unwrap());
    }
}
