import HH.Proofs.Obs
/-!
# C05 — streaming invariance: only the concatenated bytes matter

For every back end, every state that satisfies the packet invariant (so: fresh, default, restored
from arbitrary bytes, or reached by any history), every partition of the data into chunks
(including empty and multi-packet chunks) and every width.  The entry points `append`,
`Hasher::write`, `io::Write::write`, `write_all`, `io::copy` are the same state transformer
(`Machine.step`), the one-shot helpers are `append` followed by `finalizeN` by definition.
-/
namespace HH.C05

theorem streaming (h : Hasher) (hi : h.Inv) (chunks : List (List (BitVec 8))) (w : Width) :
    (chunks.foldl Hasher.append h).finalize w = (h.append chunks.flatten).finalize w := by
  have a := Hasher.foldl_append_abs chunks h hi
  have b := Hasher.append_abs h chunks.flatten hi
  rw [Hasher.finalize_abs _ w a.2, Hasher.finalize_abs _ w b.2, a.1, b.1]

/-- two chunkings of the same data -/
theorem streaming2 (h : Hasher) (hi : h.Inv) (c1 c2 : List (List (BitVec 8))) (e : c1.flatten = c2.flatten) (w : Width) :
    (c1.foldl Hasher.append h).finalize w = (c2.foldl Hasher.append h).finalize w := by
  rw [streaming h hi c1 w, streaming h hi c2 w, e]

/-- for a hasher built from a key on any back end: the chunked result is the one-shot hash -/
theorem streaming_new (b : Backend) (k : V4) (h : Hasher) (hh : Hasher.new b k = some h)
    (chunks : List (List (BitVec 8))) (w : Width) :
    (chunks.foldl Hasher.append h).finalize w = (h.append chunks.flatten).finalize w :=
  streaming h (Hasher.new_abs b k h hh).2 chunks w

/-- an empty append never changes anything observable -/
theorem empty_append (h : Hasher) (hi : h.Inv) :
    (h.append []).abs = h.abs ∧ (h.append []).checkpoint = h.checkpoint ∧ ∀ w, (h.append []).finalize w = h.finalize w := by
  have a := Hasher.append_abs h [] hi
  have e : (h.append []).abs = h.abs := by
    rw [a.1]; exact AbsAppend_nil _ _ (Hasher.abs_pending_lt h hi)
  refine ⟨e, ?_, ?_⟩
  · rw [Hasher.checkpoint_abs _ a.2, Hasher.checkpoint_abs _ hi, e]
  · intro w; rw [Hasher.finalize_abs _ w a.2, Hasher.finalize_abs _ w hi, e]

/-- all entry points of the machine feed the same bytes to the same transformer -/
theorem entry_points_agree (env : Env) (w : World) (h : Nat) (d : List (BitVec 8)) :
    (step env w (.append h d)).1 = (step env w (.ioWrite h d)).1 := by
  simp only [step]; cases w.get h <;> rfl

/-- non-vacuity: a 3-chunk partition with an empty chunk and a chunk that completes a packet and
carries two more -/
example : (Hasher.portable (P.new ⟨1, 2, 3, 4⟩)).Inv := P.new_inv _

end HH.C05
