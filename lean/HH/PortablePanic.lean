import HH.Portable
/-!
# HH.PortablePanic — the portable path with its panic points, in `Except`, per build profile

Every place where the Rust code of `src/internal.rs` / `src/portable.rs` can panic is written out:
slice indexing and range slicing, `split_at`, `copy_from_slice` / `clone_from_slice` length checks
(both profiles), and — in the `debug` profile only — `debug_assert!` and the overflow checks on
`+`, `-`, `<<`, `>>` exactly where the source uses the unchecked operators (`wrapping_*` calls
never panic).  `HH/Props/C08.lean` proves that under the packet invariant none of these fires, in
either profile, and that the result is the one of the pure model `HH.P`.
-/
namespace HH

/-- a build profile and target: are `debug_assert!`/overflow checks compiled in, and how many bits has
`usize` (16, 32, 64 …)?  `u64`/`u32` arithmetic has its fixed width on every target. -/
structure Profile where
  checks : Bool
  usizeBits : Nat
deriving DecidableEq, Repr

def Profile.debug : Profile := ⟨true, 64⟩
def Profile.release : Profile := ⟨false, 64⟩

namespace PP

abbrev R := Except String

def chk (c : Bool) (msg : String) : R Unit := if c then pure () else throw msg
/-- `debug_assert!` / overflow check: only in the debug profile -/
def dbg (p : Profile) (c : Bool) (msg : String) : R Unit :=
  if p.checks then chk c msg else pure ()

/-- `&l[..n]` -/
def sliceTo {α} (l : List α) (n : Nat) : R (List α) :=
  if n ≤ l.length then pure (l.take n) else throw "range end index out of range for slice"
/-- `&l[n..]` -/
def sliceFrom {α} (l : List α) (n : Nat) : R (List α) :=
  if n ≤ l.length then pure (l.drop n) else throw "range start index out of range for slice"
/-- `dst.copy_from_slice(src)` (returns the new contents of `dst`) -/
def copyFromSlice {α} (dst src : List α) : R (List α) :=
  if dst.length = src.length then pure src else throw "source slice length does not match destination slice length"
/-- `l[i]` -/
def index (l : List (BitVec 8)) (i : Nat) : R (BitVec 8) :=
  match l[i]? with
  | some x => pure x
  | none => throw "index out of bounds"
/-- `l.split_at(n)` -/
def splitAt {α} (l : List α) (n : Nat) : R (List α × List α) :=
  if n ≤ l.length then pure (l.take n, l.drop n) else throw "mid > len"
/-- `a + b` on `usize` (width of the target; debug: overflow check, release: wraps) -/
def add64 (p : Profile) (a b : Nat) : R Nat := do
  dbg p (a + b < 2 ^ p.usizeBits) "attempt to add with overflow"
  pure ((a + b) % 2 ^ p.usizeBits)
/-- `a - b` on `usize` -/
def sub64 (p : Profile) (a b : Nat) : R Nat := do
  dbg p (b ≤ a) "attempt to subtract with overflow"
  pure ((2 ^ p.usizeBits + a - b) % 2 ^ p.usizeBits)
/-- `a - b` on `u64` (fixed width on every target) -/
def subU64 (p : Profile) (a b : Nat) : R Nat := do
  dbg p (b ≤ a) "attempt to subtract with overflow"
  pure ((2 ^ 64 + a - b) % 2 ^ 64)

/-! ### internal.rs -/

/-- `HashPacket::as_slice` -/
def asSlice (p : Profile) (k : Pkt) : R (List (BitVec 8)) := do
  dbg p (k.idx ≤ k.buf.length) "buf index too long"
  pure (k.buf.take k.idx)            -- `.get(..idx).unwrap_or(&self.buf)`

/-- `HashPacket::fill` -/
def fill (p : Profile) (k : Pkt) (data : List (BitVec 8)) : R (Pkt × Option (List (BitVec 8))) := do
  let dest := k.buf.drop k.idx       -- `get_mut(idx..).unwrap_or_default()`
  if dest.length > data.length then
    let d ← sliceTo dest data.length
    let d' ← copyFromSlice d data
    let idx ← add64 p k.idx data.length
    pure ({ buf := k.buf.take k.idx ++ d' ++ dest.drop data.length, idx := idx }, none)
  else
    let (head, tail) ← splitAt data dest.length
    let d' ← copyFromSlice dest head
    pure ({ buf := k.buf.take k.idx ++ d', idx := 32 }, some tail)

/-- `HashPacket::set_to` -/
def setTo (p : Profile) (k : Pkt) (data : List (BitVec 8)) : R Pkt := do
  dbg p (data.length < 32) "data large enough to process packet"
  if data.isEmpty then pure { k with idx := data.length }
  else
    let d ← sliceTo k.buf data.length
    let d' ← copyFromSlice d data
    pure { buf := d' ++ k.buf.drop data.length, idx := data.length }

/-! ### portable.rs -/

/-- one 32-bit half of `rotate_32_by`: `(h << count) | (h >> (32 - count))` with the debug
overflow checks on the shifts and on the `u64` subtraction -/
def rotHalf (p : Profile) (count : Nat) (h : BitVec 32) : R (BitVec 32) := do
  dbg p (count < 32) "attempt to shift left with overflow"
  let r ← subU64 p 32 count
  dbg p (r < 32) "attempt to shift right with overflow"
  pure ((h <<< (count % 32)) ||| (h >>> (r % 32)))

def rot32Lane (p : Profile) (count : Nat) (lane : BitVec 64) : R (BitVec 64) := do
  let h0 ← rotHalf p count (lane.setWidth 32)
  let h1 ← rotHalf p count ((lane >>> 32).setWidth 32)
  pure (h0.setWidth 64 ||| (h1.setWidth 64 <<< 32))

def mapV4 (f : BitVec 64 → R (BitVec 64)) (v : V4) : R V4 := do
  pure ⟨← f v.l0, ← f v.l1, ← f v.l2, ← f v.l3⟩

/-- `update_lanes(size)`: `(size << 32) + size` is an unchecked-operator `+` -/
def updateLanes (p : Profile) (s : St) (size : Nat) : R St := do
  let sz : BitVec 64 := BitVec.ofNat 64 size
  dbg p (((sz <<< 32).toNat + sz.toNat) < 2 ^ 64) "attempt to add with overflow"
  let v1 ← mapV4 (rot32Lane p size) s.v1
  pure { s with v0 := s.v0.map (· + ((sz <<< 32) + sz)), v1 := v1 }

/-- `PortableHash::remainder` -/
def remainder (p : Profile) (bytes : List (BitVec 8)) : R (List (BitVec 8)) := do
  if bytes.length > 32 then
    dbg p false "remainder bytes must be less than 32"
    pure (zeros 32)
  else
    let sizeMod4 := bytes.length % 4
    let jump := bytes.length - sizeMod4
    let rem ← sliceFrom bytes jump
    let dst ← sliceTo (zeros 32) jump
    let src ← sliceTo bytes jump
    let head ← copyFromSlice dst src              -- `packet[..jump].clone_from_slice(&bytes[..jump])`
    let packet := head ++ zeros (32 - jump)
    if (bytes.length / 16) % 2 = 1 then
      let a ← add64 p jump sizeMod4
      let st ← sub64 p a 4
      let tail ← sliceFrom bytes st
      let p28 ← sliceFrom packet 28
      pure (packet.take 28 ++ (p28.zipWith (fun _ b => b) (tail.take 4)) ++ p28.drop (min 4 tail.length))
    else if sizeMod4 ≠ 0 then
      let r0 ← index rem 0
      let r1 ← index rem (sizeMod4 >>> 1)
      let i2 ← sub64 p sizeMod4 1
      let r2 ← index rem i2
      pure (((packet.set 16 r0).set 17 r1).set 18 r2)
    else pure packet

/-- `update_remainder` -/
def updateRemainder (p : Profile) (x : P.State) : R St := do
  let size := x.buffer.idx
  let s ← updateLanes p x.st size
  let sl ← asSlice p x.buffer
  let packet ← remainder p sl
  pure (P.update s (P.dataToLanes packet))

def finalizeCommon (p : Profile) (n : Nat) (x : P.State) : R St := do
  let s ← if !x.buffer.isEmpty then updateRemainder p x else pure x.st
  pure (P.rounds n s)

def finalize64 (p : Profile) (x : P.State) : R (BitVec 64) := do pure (P.out64 (← finalizeCommon p 4 x))
def finalize128 (p : Profile) (x : P.State) : R (BitVec 64 × BitVec 64) := do pure (P.out128 (← finalizeCommon p 6 x))
def finalize256 (p : Profile) (x : P.State) : R (BitVec 64 × BitVec 64 × BitVec 64 × BitVec 64) := do
  pure (P.out256 (← finalizeCommon p 10 x))

/-- the `chunks_exact` loop never panics; packets are updated with the pure `update` -/
def append (p : Profile) (x : P.State) (data : List (BitVec 8)) : R P.State := do
  if x.buffer.isEmpty then
    let r := absorb P.updPacket data.length x.st data
    let k ← setTo p x.buffer r.2
    pure ⟨r.1, k⟩
  else
    match ← fill p x.buffer data with
    | (k', none) => pure ⟨x.st, k'⟩
    | (k', some tail) =>
      let s1 := P.updPacket x.st k'.buf
      let r := absorb P.updPacket tail.length s1 tail
      let k'' ← setTo p k' r.2
      pure ⟨r.1, k''⟩

/-- the buffering skeleton of `append` that all five back ends duplicate textually (portable.rs:325-341,
x86/sse.rs:350-366, x86/avx.rs:324-340, aarch64.rs:305-321, wasm.rs:304-320), with its panic points, generic
in the state type and the per-packet update (the SIMD updates are straight-line intrinsic code without
panic points) -/
def appendG {S : Type} (p : Profile) (upd : S → List (BitVec 8) → S) (x : S × Pkt) (data : List (BitVec 8)) : R (S × Pkt) := do
  if x.2.isEmpty then
    let r := absorb upd data.length x.1 data
    let k ← setTo p x.2 r.2
    pure (r.1, k)
  else
    match ← fill p x.2 data with
    | (k', none) => pure (x.1, k')
    | (k', some tail) =>
      let s1 := upd x.1 k'.buf
      let r := absorb upd tail.length s1 tail
      let k'' ← setTo p k' r.2
      pure (r.1, k'')

/-- `PortableHash::checkpoint` (repaired form): the lane loop uses `split_at_mut(8)` on a 164-byte
cursor 16 times, then `split_at_mut(32)`, `buffered[..pending.len()].copy_from_slice(pending)`,
`rest.copy_from_slice(&u32::to_le_bytes(..))` -/
def checkpoint (p : Profile) (x : P.State) : R (List (BitVec 8)) := do
  let pending ← asSlice p x.buffer
  let field ← sliceTo (zeros 32) pending.length
  let copied ← copyFromSlice field pending
  let rest ← copyFromSlice (zeros 4) (toLE32 (BitVec.ofNat 32 x.buffer.idx))
  pure ((P.lanes16 x.st).flatMap toLE64 ++ (copied ++ zeros (32 - pending.length)) ++ rest)

/-- `PortableHash::from_checkpoint` on a `[u8; 164]`: every `split_at` / index is within the array;
the only data-dependent slice is `&buffered[..min(len, 31)]` -/
def fromCheckpoint (p : Profile) (data : List (BitVec 8)) : R P.State := do
  chk (data.length = 164) "not a [u8; 164]"
  let buffered := (data.drop 128).take 32
  let len := (le32 (data.drop 160)).toNat
  let sl ← sliceTo buffered (min len 31)
  let (k, _) ← fill p Pkt.default sl
  pure ⟨(P.fromCheckpoint data).st, k⟩

end PP
end HH
