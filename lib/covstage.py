"""Coverage of the tie: which regions of the crate's source (as compiled for this host, dev profile) are
executed by the op streams that this run compared with the Lean model.

Measured with rustc's source-based coverage (-C instrument-coverage, nightly toolchain's llvm-profdata /
llvm-cov) on an instrumented build of the same native runner.  Purpose:
  * evidence: `coverage.tie_coverage` lists, per source file, regions executed / total and the regions the
    streams never reached (on the unchanged tree: the `unreachable_unchecked` arms of the tag dispatch - whose
    never being reached is what C10's tag-validity theorem says -, the compile-time cfg! arms that are dead
    in this configuration, and the defensive `debug_assert!(false)` branch of `remainder`);
  * adaptivity: a region that is uncovered now and was not uncovered on the pinned tree (committed baseline
    /verif/coverage_baseline.json, keyed by file + source text, so line shifts do not matter) is NEW CODE THE
    CORRESPONDENCE DOES NOT EXERCISE - typically a freshly added fast path or threshold.  The check then
    escalates (thorough-tier generator on the real code with the property's oracles, longer coverage-guided
    search) and reports what remains uncovered in the evidence.  An uncovered region alone is never an alarm.
Unavailable tooling is recorded as "not executed".
"""
import glob, json, os, re, time
import hh

NIGHTLY_BIN = os.path.expanduser("~/.rustup/toolchains/nightly-x86_64-unknown-linux-gnu/lib/rustlib/x86_64-unknown-linux-gnu/bin")
BASELINE = os.path.join(hh.ROOT, "coverage_baseline.json")
COV_PIDS = {"C01", "C02", "C05", "C06", "C07", "C08", "C10", "C11", "C12", "C13", "C14", "C15"}
_BIN = {}


def build():
    if "bin" in _BIN:
        return _BIN["bin"]
    hh.ensure_repo_link()
    tdir = os.path.join(hh.BUILD, "t-cov")
    cdir = os.path.join(hh.ROOT, "harness", "drive")
    rc, out, err = hh.sh(["cargo", "+nightly", "build", "--offline", "-q"], cwd=cdir,
                         env={"CARGO_TARGET_DIR": tdir, "RUSTFLAGS": "-C instrument-coverage"}, timeout=1800)
    binp = os.path.join(tdir, "debug", "drive")
    ok = rc == 0 and os.path.exists(binp) and os.path.exists(os.path.join(NIGHTLY_BIN, "llvm-cov"))
    _BIN["bin"] = binp if ok else None
    _BIN["log"] = (out + err)[-300:]
    return _BIN["bin"]


def measure(pid, workdir):
    """run the instrumented runner over this run's op files of the dev-std-base class; returns
    (per-file summary, uncovered regions as list of [file, line, text])"""
    binp = build()
    if not binp:
        return None, None
    pdir = os.path.join(workdir, "cov")
    os.makedirs(pdir, exist_ok=True)
    for f in glob.glob(os.path.join(pdir, "*.profraw")):
        os.unlink(f)
    files = sorted(glob.glob(os.path.join(workdir, "*.real.*.ops")))
    jobs = []
    for f in files:
        base = os.path.basename(f)
        if "miri" in base or "cross" in base:
            continue
        m = re.match(r"^[^.]+\.(.+)\.real\.\d+\.ops$", base)
        tag = m.group(1) if m else ""
        if not (tag.startswith("dev-std-base") or "fuzzcorpus" in tag or tag.startswith("search") or "threads" in tag or tag.startswith("esc")):
            continue
        cpu = None
        for c in ("none", "sse41", "avx2"):
            if tag.endswith("." + c):
                cpu = c
        jobs.append((f, cpu))
    if not jobs:
        return None, None

    def one(i):
        f, cpu = jobs[i]
        hh.sh([binp] + ([f"--cpu={cpu}"] if cpu else []) + [f], env={"LLVM_PROFILE_FILE": os.path.join(pdir, f"p{i}.profraw")}, timeout=600)
    import concurrent.futures as cf
    with cf.ThreadPoolExecutor(max_workers=8) as ex:
        list(ex.map(one, range(len(jobs))))
    raws = glob.glob(os.path.join(pdir, "*.profraw"))
    if not raws:
        return None, None
    prof = os.path.join(pdir, "all.profdata")
    rc, o, e = hh.sh([os.path.join(NIGHTLY_BIN, "llvm-profdata"), "merge", "-sparse"] + raws + ["-o", prof], timeout=600)
    if rc != 0:
        return None, None
    src = os.path.realpath(os.path.join(hh.REPO, "src"))
    rc, o, e = hh.sh([os.path.join(NIGHTLY_BIN, "llvm-cov"), "export", binp, f"-instr-profile={prof}", "-skip-expansions"], timeout=600)
    if rc != 0:
        return None, None
    data = json.loads(o)["data"][0]
    regs = {}
    for fn in data["functions"]:
        for r in fn["regions"]:
            ls, cs, le, ce, cnt, fid, efid, kind = r
            if kind != 0:
                continue
            path = os.path.realpath(fn["filenames"][fid])
            if not path.startswith(src + os.sep):
                continue
            key = (os.path.relpath(path, src), ls, cs, le, ce)
            regs[key] = regs.get(key, 0) + cnt
    per = {}
    texts = {}
    unc = []
    allr = set()
    for (rel, ls, cs, le, ce), cnt in sorted(regs.items()):
        p = per.setdefault(rel, dict(regions=0, executed=0))
        p["regions"] += 1
        if rel not in texts:
            try:
                texts[rel] = open(os.path.join(src, rel)).read().split("\n")
            except OSError:
                texts[rel] = []
        t = texts[rel][ls - 1].strip() if ls - 1 < len(texts[rel]) else ""
        allr.add((rel, t))
        if cnt > 0:
            p["executed"] += 1
        elif [rel, t] not in [[u[0], u[2]] for u in unc]:
            unc.append([rel, ls, t])
    measure.all_regions = allr
    return per, unc


def load_baseline():
    try:
        return json.load(open(BASELINE))
    except Exception:
        return {}


def stage(res, pid, tier, seed, workdir, configs_stats):
    if pid not in COV_PIDS:
        return
    t0 = time.time()
    per, unc = measure(pid, workdir)
    if per is None:
        res.notes.append("tie-coverage stage not executed (nightly llvm-tools / instrumented build unavailable or no native op files)")
        return
    base = load_baseline().get(pid)
    tc = dict(files={k: f"{v['executed']}/{v['regions']}" for k, v in per.items()},
              regions=sum(v["regions"] for v in per.values()), executed=sum(v["executed"] for v in per.values()),
              never_executed=[f"{u[0]}:{u[1]}: {u[2][:100]}" for u in unc][:60],
              method="rustc -C instrument-coverage on the native runner (dev, std, no target features; + masked-CPU runs where the property uses them), op files of this run")
    if os.environ.get("VERIF_COV_RECORD"):
        rec = os.environ["VERIF_COV_RECORD"]
        cur = {}
        try:
            cur = json.load(open(rec))
        except Exception:
            pass
        old = cur.get(pid, [])
        for u in unc:
            if [u[0], u[2]] not in old:
                old.append([u[0], u[2]])
        cur[pid] = old
        allb = cur.get("_all", [])
        have = {(a[0], a[1]) for a in allb}
        for a in sorted(getattr(measure, "all_regions", set())):
            if a not in have:
                allb.append([a[0], a[1]])
        cur["_all"] = allb
        json.dump(cur, open(rec, "w"), indent=0)
    new = []
    allbase = load_baseline().get("_all")
    if base is not None and allbase is not None:
        # NEW code = a region whose (file, source text) did not exist in the pinned tree at all; regions that existed
        # and are merely not reached by this seed's streams are listed but do not escalate
        bset = {(b[0], b[1]) for b in base} | {(b[0], b[1]) for b in allbase}
        new = [u for u in unc if (u[0], u[2]) not in bset]
        tc["baseline"] = "coverage_baseline.json (all regions of the pinned tree + its never-executed ones, seeds 1-3)"
    tc["new_uncovered"] = [f"{u[0]}:{u[1]}: {u[2][:100]}" for u in new]
    if new:
        # code the fixed generators do not reach: escalate on the real code (oracles only), then measure again
        import check as check_mod
        import props as P
        import fuzzstage
        res.notes.append(f"{len(new)} source region(s) not exercised by the quick streams and not in the coverage baseline: escalating (thorough generator + longer search)")
        binp, _ = hh.build_runner("dev-std-base")
        if binp and pid in P.PROPS:
            info = hh.runner_info(binp)
            t1 = time.time()
            for it in range(3):
                if time.time() - t1 > 75 or res.n_oracle_fail:
                    break
                st = check_mod.run_config(res, pid, "thorough" if it == 0 else "quick", seed * 104729 + it, "dev-std-base", binp, info, workdir,
                                          skip_model=True, label=f"esc{it}")
                configs_stats.append(dict(st, escalation=True))
        if not res.n_oracle_fail:
            try:
                fuzzstage.stage(res, pid, tier, seed * 17 + 3, workdir, secs=40, stats=configs_stats)
            except Exception as e:
                res.notes.append(f"escalated search failed to run: {str(e)[:120]}")
        per2, unc2 = measure(pid, workdir)
        if unc2 is not None:
            still = [u for u in unc2 if (u[0], u[2]) not in bset]
            tc["still_uncovered_after_escalation"] = [f"{u[0]}:{u[1]}: {u[2][:100]}" for u in still]
    tc["wall_s"] = round(time.time() - t0, 1)
    res.cov["tie_coverage"] = tc
