//! coregen: translate the straight-line arithmetic core of `src/portable.rs` into Lean definitions by
//! symbolic execution (loops over literal ranges are unrolled, `&mut [u64; 4]` parameters alias the caller's
//! array, calls to the translated helpers are inlined).  Output: `HH/Generated/PortableCore.lean` with
//! `Gen.*` definitions and, for each of them, a theorem stating that it equals the hand-written model
//! (`HH.P.*`) for ALL inputs.  A function whose source no longer fits the supported subset is skipped (and
//! listed in the JSON status): the stage is then "not applicable" for it, never an alarm.
//!
//! usage: coregen <repo>/src/portable.rs <out.lean> <status.json>
use std::collections::HashMap;
use std::fmt::Write as _;
use syn::{BinOp, Expr, ImplItem, Item, Lit, Pat, Stmt, UnOp};

#[derive(Clone, Debug)]
enum Val {
    W(String),     // a 64-bit word: Lean term of type BitVec 64 (a variable or let-bound name)
    N(u64),        // a usize / integer literal used as index or shift count
    Arr(Vec<Val>), // [u64; 4]
    Tup(Vec<Val>),
    Ref(String),   // &mut / & of an environment entry (aliasing)
    ElemRef(String, usize), // `for x in arr.iter_mut()`: a reference to one element
    W32(String),   // a 32-bit word: Lean term of type BitVec 32
    SN(String),    // a u64 parameter used as a count / size: Lean variable of type Nat (its word is `BitVec.ofNat 64 n`)
    SE(String),    // a u64 value computed from such a parameter: Lean term of type Nat (already reduced mod 2^64)
    Unit,
}

struct Ex<'a> {
    env: HashMap<String, Val>,
    lets: Vec<(String, String)>,
    fresh: usize,
    fns: &'a HashMap<String, syn::ImplItemFn>,
    depth: usize,
}

type R<T> = Result<T, String>;

fn lit_u64(l: &syn::LitInt) -> R<u64> {
    l.base10_parse::<u64>().map_err(|e| format!("literal: {e}"))
}

impl<'a> Ex<'a> {
    fn new(fns: &'a HashMap<String, syn::ImplItemFn>) -> Self {
        Ex { env: HashMap::new(), lets: Vec::new(), fresh: 0, fns, depth: 0 }
    }
    fn bind(&mut self, e: String) -> Val {
        self.fresh += 1;
        let n = format!("t{}", self.fresh);
        self.lets.push((n.clone(), e));
        Val::W(n)
    }
    fn word(&self, v: &Val) -> R<String> {
        match v {
            Val::W(s) => Ok(s.clone()),
            Val::N(n) => Ok(format!("({:#x}#64)", n)),
            Val::SN(n) => Ok(format!("(BitVec.ofNat 64 {n})")),
            Val::Ref(k) => self.word(self.env.get(k).ok_or("dangling ref")?),
            Val::ElemRef(k, i) => match self.env.get(k) {
                Some(Val::Arr(a)) if *i < a.len() => self.word(&a[*i]),
                _ => Err("dangling element ref".into()),
            },
            other => Err(format!("expected a word, got {:?}", other)),
        }
    }
    fn place_key(&mut self, e: &Expr) -> R<(String, Option<usize>)> {
        // returns (env key, element index)
        match e {
            Expr::Index(ix) => {
                let (k, none) = self.place_key(&ix.expr)?;
                if none.is_some() {
                    return Err("nested index".into());
                }
                let i = match self.eval(&ix.index)? {
                    Val::N(n) => n as usize,
                    o => return Err(format!("index is not a literal: {:?}", o)),
                };
                Ok((k, Some(i)))
            }
            Expr::Field(f) => {
                let base = match &*f.base {
                    Expr::Path(p) if p.path.is_ident("self") => "self".to_string(),
                    _ => return Err("field of non-self".into()),
                };
                let name = match &f.member {
                    syn::Member::Named(id) => id.to_string(),
                    _ => return Err("tuple field".into()),
                };
                Ok((format!("{base}.{name}"), None))
            }
            Expr::Path(p) => {
                let id = p.path.get_ident().ok_or("path place")?.to_string();
                match self.env.get(&id) {
                    Some(Val::Ref(k)) => Ok((k.clone(), None)),
                    Some(Val::ElemRef(k, i)) => Ok((k.clone(), Some(*i))),
                    Some(_) => Ok((id, None)),
                    None => Err(format!("unknown variable {id}")),
                }
            }
            Expr::Unary(u) if matches!(u.op, UnOp::Deref(_)) => self.place_key(&u.expr),
            Expr::Paren(p) => self.place_key(&p.expr),
            Expr::Reference(r) => self.place_key(&r.expr),
            _ => Err("unsupported place".into()),
        }
    }
    fn store(&mut self, place: &Expr, v: Val) -> R<()> {
        let (k, idx) = self.place_key(place)?;
        match idx {
            None => {
                self.env.insert(k, v);
            }
            Some(i) => match self.env.get_mut(&k) {
                Some(Val::Arr(a)) if i < a.len() => a[i] = v,
                _ => return Err(format!("store into non-array {k}")),
            },
        }
        Ok(())
    }
    fn bin(&mut self, op: &BinOp, l: Val, r: Val) -> R<Val> {
        // integer arithmetic on literals (indices)
        if let (Val::N(a), Val::N(b)) = (&l, &r) {
            return Ok(Val::N(match op {
                BinOp::Add(_) | BinOp::AddAssign(_) => a + b,
                BinOp::Sub(_) | BinOp::SubAssign(_) => a.checked_sub(*b).ok_or("underflow")?,
                BinOp::Mul(_) => a * b,
                BinOp::Shl(_) => a << b,
                BinOp::Shr(_) => a >> b,
                BinOp::BitAnd(_) => a & b,
                BinOp::BitOr(_) => a | b,
                BinOp::BitXor(_) => a ^ b,
                _ => return Err("literal op".into()),
            }));
        }
        // 32-bit halves and symbolic counts (release semantics: shift counts are masked to the width, `-` on u64 wraps)
        match (&l, &r, op) {
            (Val::N(a), Val::SN(c), BinOp::Sub(_)) => return Ok(Val::SE(format!("((2^64 + {a} - {c}) % 2^64)"))),
            (Val::W32(x), Val::SN(c), BinOp::Shl(_)) => return Ok(Val::W32(format!("({x} <<< ({c} % 32))"))),
            (Val::W32(x), Val::SN(c), BinOp::Shr(_)) => return Ok(Val::W32(format!("({x} >>> ({c} % 32))"))),
            (Val::W32(x), Val::SE(c), BinOp::Shl(_)) => return Ok(Val::W32(format!("({x} <<< ({c} % 32))"))),
            (Val::W32(x), Val::SE(c), BinOp::Shr(_)) => return Ok(Val::W32(format!("({x} >>> ({c} % 32))"))),
            (Val::W32(x), Val::W32(y), BinOp::BitOr(_)) => return Ok(Val::W32(format!("({x} ||| {y})"))),
            (Val::W32(x), Val::W32(y), BinOp::BitAnd(_)) => return Ok(Val::W32(format!("({x} &&& {y})"))),
            (Val::W32(x), Val::W32(y), BinOp::BitXor(_)) => return Ok(Val::W32(format!("({x} ^^^ {y})"))),
            (Val::W32(_), _, _) | (_, Val::W32(_), _) => return Err("unsupported 32-bit operation".into()),
            (Val::SN(c), Val::N(k), BinOp::Shl(_)) if *k < 64 => return Ok(self.bind(format!("((BitVec.ofNat 64 {c}) <<< {k})"))),
            // plain `+` on u64 where one side derives from the size parameter: release semantics (wrapping); the
            // overflow check of the debug profile is the business of HH/PortablePanic.lean
            (_, Val::SN(_), BinOp::Add(_)) | (Val::SN(_), _, BinOp::Add(_)) => {
                let (a, b) = (self.word(&l)?, self.word(&r)?);
                return Ok(self.bind(format!("({a} + {b})")));
            }
            _ => {}
        }
        let lw = self.word(&l)?;
        let e = match op {
            BinOp::BitAnd(_) | BinOp::BitAndAssign(_) => format!("({lw} &&& {})", self.word(&r)?),
            BinOp::BitOr(_) | BinOp::BitOrAssign(_) => format!("({lw} ||| {})", self.word(&r)?),
            BinOp::BitXor(_) | BinOp::BitXorAssign(_) => format!("({lw} ^^^ {})", self.word(&r)?),
            BinOp::Shl(_) | BinOp::ShlAssign(_) => match r {
                Val::N(n) if n < 64 => format!("({lw} <<< {n})"),
                _ => return Err("shift by a non-literal".into()),
            },
            BinOp::Shr(_) | BinOp::ShrAssign(_) => match r {
                Val::N(n) if n < 64 => format!("({lw} >>> {n})"),
                _ => return Err("shift by a non-literal".into()),
            },
            _ => return Err("unsupported binary operator (plain + - * may overflow-check: only wrapping_* are translated)".into()),
        };
        Ok(self.bind(e))
    }
    fn call_fn(&mut self, name: &str, args: Vec<Val>) -> R<Val> {
        let f = self.fns.get(name).ok_or_else(|| format!("call of untranslated function {name}"))?.clone();
        if self.depth > 4 {
            return Err("call depth".into());
        }
        let saved = std::mem::take(&mut self.env);
        // keep the caller's entries reachable through references: copy everything under a prefix
        let mut inner: HashMap<String, Val> = HashMap::new();
        for (k, v) in &saved {
            inner.insert(format!("^{k}"), v.clone());
        }
        let params: Vec<_> = f.sig.inputs.iter().filter_map(|a| match a {
            syn::FnArg::Typed(t) => match &*t.pat {
                Pat::Ident(i) => Some(i.ident.to_string()),
                _ => None,
            },
            _ => None,
        }).collect();
        if params.len() != args.len() {
            self.env = saved;
            return Err(format!("arity of {name}"));
        }
        for (p, a) in params.iter().zip(args) {
            let a = match a {
                Val::Ref(k) => Val::Ref(format!("^{k}")),
                o => o,
            };
            inner.insert(p.clone(), a);
        }
        self.env = inner;
        self.depth += 1;
        let r = self.block(&f.block);
        self.depth -= 1;
        // write back caller entries (they may have been mutated through references)
        let inner = std::mem::take(&mut self.env);
        let mut restored = saved;
        for (k, v) in inner {
            if let Some(orig) = k.strip_prefix('^') {
                restored.insert(orig.to_string(), v);
            }
        }
        self.env = restored;
        let r = r?;
        Ok(match r {
            Val::Ref(k) => Val::Ref(k.trim_start_matches('^').to_string()),
            o => o,
        })
    }
    fn eval(&mut self, e: &Expr) -> R<Val> {
        match e {
            Expr::Lit(l) => match &l.lit {
                Lit::Int(i) => Ok(Val::N(lit_u64(i)?)),
                _ => Err("non-integer literal".into()),
            },
            Expr::Paren(p) => self.eval(&p.expr),
            Expr::Group(g) => self.eval(&g.expr),
            Expr::Path(p) => {
                let id = p.path.get_ident().ok_or("qualified path as value")?.to_string();
                self.env.get(&id).cloned().ok_or(format!("unknown variable {id}"))
            }
            Expr::Field(_) | Expr::Index(_) => {
                let (k, idx) = self.place_key(e)?;
                let v = self.env.get(&k).cloned().ok_or(format!("unknown place {k}"))?;
                match (v, idx) {
                    (v, None) => Ok(v),
                    (Val::Arr(a), Some(i)) if i < a.len() => Ok(a[i].clone()),
                    _ => Err("index into non-array".into()),
                }
            }
            Expr::Unary(u) => match u.op {
                UnOp::Deref(_) => {
                    let v = self.eval(&u.expr)?;
                    match v {
                        Val::Ref(k) => self.env.get(&k).cloned().ok_or("dangling".into()),
                        Val::ElemRef(k, i) => match self.env.get(&k) {
                            Some(Val::Arr(a)) if i < a.len() => Ok(a[i].clone()),
                            _ => Err("dangling element".into()),
                        },
                        o => Ok(o),
                    }
                }
                UnOp::Not(_) => {
                    let w = self.eval(&u.expr)?;
                    let w = self.word(&w)?;
                    Ok(self.bind(format!("(~~~{w})")))
                }
                _ => Err("unary".into()),
            },
            Expr::Reference(r) => {
                let (k, idx) = self.place_key(&r.expr)?;
                if idx.is_some() {
                    return Err("reference to element".into());
                }
                Ok(Val::Ref(k))
            }
            Expr::Binary(b) => {
                let l = self.eval(&b.left)?;
                let r = self.eval(&b.right)?;
                self.bin(&b.op, l, r)
            }
            Expr::Array(a) => {
                let mut v = Vec::new();
                for x in &a.elems {
                    v.push(self.eval(x)?);
                }
                Ok(Val::Arr(v))
            }
            Expr::Tuple(t) => {
                let mut v = Vec::new();
                for x in &t.elems {
                    v.push(self.eval(x)?);
                }
                Ok(Val::Tup(v))
            }
            Expr::MethodCall(m) => {
                let name = m.method.to_string();
                let recv = self.eval(&m.receiver)?;
                let recv = match recv {
                    Val::Ref(k) => self.env.get(&k).cloned().ok_or("dangling")?,
                    o => o,
                };
                let mut args = Vec::new();
                for a in &m.args {
                    args.push(self.eval(a)?);
                }
                match (name.as_str(), args.as_slice()) {
                    ("wrapping_add", [x]) => {
                        let (a, b) = (self.word(&recv)?, self.word(x)?);
                        Ok(self.bind(format!("({a} + {b})")))
                    }
                    ("wrapping_mul", [x]) => {
                        let (a, b) = (self.word(&recv)?, self.word(x)?);
                        Ok(self.bind(format!("({a} * {b})")))
                    }
                    ("wrapping_sub", [x]) => {
                        let (a, b) = (self.word(&recv)?, self.word(x)?);
                        Ok(self.bind(format!("({a} - {b})")))
                    }
                    ("rotate_left", [Val::N(n)]) => {
                        let a = self.word(&recv)?;
                        Ok(self.bind(format!("(BitVec.rotateLeft {a} {n})")))
                    }
                    _ => Err(format!("method {name}")),
                }
            }
            Expr::Cast(c) => {
                let v = self.eval(&c.expr)?;
                let ty = { let t = &c.ty; quote::quote!(#t).to_string() };
                let _ = &ty;
                match ty.as_str() {
                    "u32" => {
                        let w = self.word(&v)?;
                        Ok(Val::W32(format!("(BitVec.setWidth 32 {w})")))
                    }
                    "u64" => match v {
                        Val::W32(x) => Ok(self.bind(format!("(BitVec.setWidth 64 {x})"))),
                        o => Ok(o),
                    },
                    _ => Err(format!("cast to {ty}")),
                }
            }
            Expr::Call(c) => {
                // `u64::from(x)` of a 32-bit half
                if let Expr::Path(p) = &*c.func {
                    let segs: Vec<String> = p.path.segments.iter().map(|s| s.ident.to_string()).collect();
                    if segs == ["u64", "from"] && c.args.len() == 1 {
                        let v = self.eval(&c.args[0])?;
                        return match v {
                            Val::W32(x) => Ok(self.bind(format!("(BitVec.setWidth 64 {x})"))),
                            o => Ok(o),
                        };
                    }
                }
                let fname = match &*c.func {
                    Expr::Path(p) => p.path.segments.last().map(|s| s.ident.to_string()).ok_or("call path")?,
                    _ => return Err("call of non-path".into()),
                };
                let mut args = Vec::new();
                for a in &c.args {
                    args.push(self.eval(a)?);
                }
                self.call_fn(&fname, args)
            }
            Expr::Assign(a) => {
                let v = self.eval(&a.right)?;
                self.store(&a.left, v)?;
                Ok(Val::Unit)
            }
            Expr::Struct(s) => {
                // `PortableHash { v0: [..], v1: [..], mul0, mul1, buffer: .. }`: the four lane arrays
                let mut out = Vec::new();
                for want in ["v0", "v1", "mul0", "mul1"] {
                    let f = s.fields.iter().find(|f| matches!(&f.member, syn::Member::Named(n) if n == want)).ok_or("struct field")?;
                    out.push(self.eval(&f.expr)?);
                }
                Ok(Val::Tup(out))
            }
            Expr::ForLoop(f) => {
                // `for i in A..B { .. }` with literal bounds, or `for (i, x) in arr.iter().enumerate() { .. }`
                if let Expr::Range(r) = &*f.expr {
                    let (Some(a), Some(b)) = (&r.start, &r.end) else { return Err("open range".into()) };
                    let (Val::N(a), Val::N(b)) = (self.eval(a)?, self.eval(b)?) else { return Err("non-literal range".into()) };
                    let var = match &*f.pat {
                        Pat::Ident(i) => i.ident.to_string(),
                        Pat::Wild(_) => "_".to_string(),
                        _ => return Err("loop pattern".into()),
                    };
                    for i in a..b {
                        self.env.insert(var.clone(), Val::N(i));
                        self.block(&f.body)?;
                    }
                    return Ok(Val::Unit);
                }
                if let (Pat::Ident(pi), Expr::MethodCall(im)) = (&*f.pat, &*f.expr) {
                    if im.method == "iter_mut" {
                        let (k, idx) = self.place_key(&im.receiver)?;
                        if idx.is_some() {
                            return Err("iter_mut of an element".into());
                        }
                        let n = match self.env.get(&k) {
                            Some(Val::Arr(a)) => a.len(),
                            _ => return Err("iter_mut over non-array".into()),
                        };
                        for i in 0..n {
                            self.env.insert(pi.ident.to_string(), Val::ElemRef(k.clone(), i));
                            self.block(&f.body)?;
                        }
                        return Ok(Val::Unit);
                    }
                }
                if let (Pat::Tuple(pt), Expr::MethodCall(en)) = (&*f.pat, &*f.expr) {
                    if en.method == "enumerate" {
                        if let Expr::MethodCall(it) = &*en.receiver {
                            if it.method == "iter" {
                                let arr = self.eval(&it.receiver)?;
                                let arr = match arr {
                                    Val::Ref(k) => self.env.get(&k).cloned().ok_or("dangling")?,
                                    o => o,
                                };
                                let Val::Arr(items) = arr else { return Err("enumerate over non-array".into()) };
                                let names: Vec<String> = pt.elems.iter().filter_map(|p| match p {
                                    Pat::Ident(i) => Some(i.ident.to_string()),
                                    _ => None,
                                }).collect();
                                if names.len() != 2 {
                                    return Err("enumerate pattern".into());
                                }
                                for (i, x) in items.into_iter().enumerate() {
                                    self.env.insert(names[0].clone(), Val::N(i as u64));
                                    self.env.insert(names[1].clone(), x);
                                    self.block(&f.body)?;
                                }
                                return Ok(Val::Unit);
                            }
                        }
                    }
                }
                Err("unsupported loop".into())
            }
            Expr::Block(b) => self.block(&b.block),
            _ => Err(format!("unsupported expression kind: {}", quote::quote!(#e).to_string().chars().take(60).collect::<String>())),
        }
    }
    fn compound(&mut self, b: &syn::ExprBinary) -> R<Option<Val>> {
        let assign = matches!(b.op, BinOp::BitXorAssign(_) | BinOp::BitOrAssign(_) | BinOp::BitAndAssign(_) | BinOp::ShlAssign(_) | BinOp::ShrAssign(_));
        if !assign {
            return Ok(None);
        }
        let cur = self.eval(&b.left)?;
        let rhs = self.eval(&b.right)?;
        let v = self.bin(&b.op, cur, rhs)?;
        self.store(&b.left, v)?;
        Ok(Some(Val::Unit))
    }
    fn stmt(&mut self, s: &Stmt) -> R<Val> {
        match s {
            Stmt::Local(l) => {
                let init = l.init.as_ref().ok_or("let without init")?;
                let v = self.eval(&init.expr)?;
                let mut pat = &l.pat;
                if let Pat::Type(t) = pat {
                    pat = &t.pat;
                }
                match pat {
                    Pat::Ident(i) => {
                        self.env.insert(i.ident.to_string(), v);
                    }
                    Pat::Tuple(t) => {
                        let Val::Tup(vs) = v else { return Err("tuple pattern on non-tuple".into()) };
                        for (p, x) in t.elems.iter().zip(vs) {
                            if let Pat::Ident(i) = p {
                                self.env.insert(i.ident.to_string(), x);
                            } else {
                                return Err("nested pattern".into());
                            }
                        }
                    }
                    _ => return Err("let pattern".into()),
                }
                Ok(Val::Unit)
            }
            Stmt::Expr(e, semi) => {
                if let Expr::Binary(b) = e {
                    if let Some(v) = self.compound(b)? {
                        return Ok(v);
                    }
                }
                let v = self.eval(e)?;
                Ok(if semi.is_some() { Val::Unit } else { v })
            }
            _ => Err("item/macro statement".into()),
        }
    }
    fn block(&mut self, b: &syn::Block) -> R<Val> {
        let mut last = Val::Unit;
        for s in &b.stmts {
            last = self.stmt(s)?;
        }
        Ok(last)
    }
    fn lets_text(&self) -> String {
        let mut o = String::new();
        for (n, e) in &self.lets {
            let _ = writeln!(o, "  let {n} : BitVec 64 := {e}");
        }
        o
    }
}

fn v4vars(prefix: &str) -> Val {
    Val::Arr((0..4).map(|i| Val::W(format!("{prefix}.l{i}"))).collect())
}
fn self_env(ex: &mut Ex) {
    for f in ["v0", "v1", "mul0", "mul1"] {
        ex.env.insert(format!("self.{f}"), v4vars(&format!("s.{f}")));
    }
}
fn v4_text(ex: &Ex, v: &Val) -> R<String> {
    let Val::Arr(a) = v else { return Err("expected [u64; 4]".into()) };
    if a.len() != 4 {
        return Err("array length".into());
    }
    let w: Vec<String> = a.iter().map(|x| ex.word(x)).collect::<R<_>>()?;
    Ok(format!("⟨{}, {}, {}, {}⟩", w[0], w[1], w[2], w[3]))
}
fn st_text(ex: &Ex) -> R<String> {
    let mut parts = Vec::new();
    for f in ["v0", "v1", "mul0", "mul1"] {
        parts.push(v4_text(ex, ex.env.get(&format!("self.{f}")).ok_or("state field")?)?);
    }
    Ok(format!("⟨{}, {}, {}, {}⟩", parts[0], parts[1], parts[2], parts[3]))
}

/// statements of a finalize function after its last `for` loop
fn tail_after_loops(f: &syn::ImplItemFn) -> syn::Block {
    let mut idx = 0;
    for (i, s) in f.block.stmts.iter().enumerate() {
        if matches!(s, Stmt::Expr(Expr::ForLoop(_), _)) || matches!(s, Stmt::Expr(Expr::If(_), _)) {
            idx = i + 1;
        }
    }
    syn::Block { brace_token: f.block.brace_token, stmts: f.block.stmts[idx..].to_vec() }
}

fn main() {
    let args: Vec<String> = std::env::args().collect();
    let src = std::fs::read_to_string(&args[1]).expect("read portable.rs");
    let file = syn::parse_file(&src).expect("parse");
    let mut fns: HashMap<String, syn::ImplItemFn> = HashMap::new();
    for it in &file.items {
        if let Item::Impl(im) = it {
            if im.trait_.is_none() {
                for ii in &im.items {
                    if let ImplItem::Fn(f) = ii {
                        fns.insert(f.sig.ident.to_string(), f.clone());
                    }
                }
            }
        }
    }
    let mut out = String::new();
    let mut thms = String::new();
    let mut status: Vec<(String, String)> = Vec::new();
    out.push_str("-- GENERATED by /verif/harness/facts (coregen) from src/portable.rs; do not edit.\nimport HH.Portable\nnamespace HH.Gen\n\n");

    // helper closure style: run one translation, append on success
    let mut emit = |name: &str, r: R<(String, String)>| match r {
        Ok((d, t)) => {
            out.push_str(&d);
            out.push('\n');
            thms.push_str(&t);
            thms.push('\n');
            status.push((name.to_string(), "translated".to_string()));
        }
        Err(e) => status.push((name.to_string(), format!("skipped: {e}"))),
    };

    // module_reduction
    emit("module_reduction", (|| {
        let f = fns.get("module_reduction").ok_or("missing")?;
        let mut ex = Ex::new(&fns);
        let names: Vec<String> = f.sig.inputs.iter().filter_map(|a| match a { syn::FnArg::Typed(t) => match &*t.pat { Pat::Ident(i) => Some(i.ident.to_string()), _ => None }, _ => None }).collect();
        if names.len() != 4 { return Err("arity".into()); }
        for (n, v) in names.iter().zip(["a3u", "a2", "a1", "a0"]) { ex.env.insert(n.clone(), Val::W(v.to_string())); }
        let r = ex.block(&f.block)?;
        let Val::Tup(t) = r else { return Err("result shape".into()) };
        let d = format!("def moduleReduction (a3u a2 a1 a0 : BitVec 64) : BitVec 64 × BitVec 64 :=\n{}  ({}, {})\n", ex.lets_text(), ex.word(&t[0])?, ex.word(&t[1])?);
        let t = "theorem moduleReduction_eq (a3u a2 a1 a0 : BitVec 64) : moduleReduction a3u a2 a1 a0 = P.moduleReduction a3u a2 a1 a0 := rfl\n".to_string();
        Ok((d, t))
    })());

    // permute
    emit("permute", (|| {
        let f = fns.get("permute").ok_or("missing")?;
        let mut ex = Ex::new(&fns);
        let p = f.sig.inputs.iter().find_map(|a| match a { syn::FnArg::Typed(t) => match &*t.pat { Pat::Ident(i) => Some(i.ident.to_string()), _ => None }, _ => None }).ok_or("param")?;
        ex.env.insert("#v".into(), v4vars("v"));
        ex.env.insert(p, Val::Ref("#v".into()));
        let r = ex.block(&f.block)?;
        let d = format!("def permute (v : V4) : V4 :=\n{}  {}\n", ex.lets_text(), v4_text(&ex, &r)?);
        let t = "theorem permute_eq (v : V4) : permute v = P.permute v := rfl\n".to_string();
        Ok((d, t))
    })());

    // zipper_merge_and_add on lanes (1, 0)
    emit("zipper_merge_and_add", (|| {
        let mut ex = Ex::new(&fns);
        ex.env.insert("#lane".into(), Val::Arr(vec![Val::W("a".into()), Val::W("b".into()), Val::W("c".into()), Val::W("d".into())]));
        ex.call_fn("zipper_merge_and_add", vec![Val::W("v1".into()), Val::W("v0".into()), Val::Ref("#lane".into()), Val::N(1), Val::N(0)])?;
        let Some(Val::Arr(l)) = ex.env.get("#lane").cloned() else { return Err("lane".into()) };
        let d = format!("def zipperPair (v1 v0 a b : BitVec 64) : BitVec 64 × BitVec 64 :=\n{}  ({}, {})\n", ex.lets_text(), ex.word(&l[0])?, ex.word(&l[1])?);
        let t = "theorem zipperPair_eq (v1 v0 a b : BitVec 64) : zipperPair v1 v0 a b = (a + P.zipLo v1 v0, b + P.zipHi v1 v0) := rfl\n".to_string();
        Ok((d, t))
    })());

    // update
    emit("update", (|| {
        let f = fns.get("update").ok_or("missing")?;
        let mut ex = Ex::new(&fns);
        self_env(&mut ex);
        let p = f.sig.inputs.iter().find_map(|a| match a { syn::FnArg::Typed(t) => match &*t.pat { Pat::Ident(i) => Some(i.ident.to_string()), _ => None }, _ => None }).ok_or("param")?;
        ex.env.insert(p, v4vars("lanes"));
        ex.block(&f.block)?;
        let d = format!("def update (s : St) (lanes : V4) : St :=\n{}  {}\n", ex.lets_text(), st_text(&ex)?);
        let t = "theorem update_eq (s : St) (lanes : V4) : update s lanes = P.update s lanes := rfl\n".to_string();
        Ok((d, t))
    })());

    // update_lanes (length injection + rotate_32_by, symbolic size)
    emit("update_lanes", (|| {
        let f = fns.get("update_lanes").ok_or("missing")?;
        let mut ex = Ex::new(&fns);
        self_env(&mut ex);
        let p = f.sig.inputs.iter().find_map(|a| match a { syn::FnArg::Typed(t) => match &*t.pat { Pat::Ident(i) => Some(i.ident.to_string()), _ => None }, _ => None }).ok_or("param")?;
        ex.env.insert(p, Val::SN("size".into()));
        ex.block(&f.block)?;
        let d = format!("def updateLanes (s : St) (size : Nat) : St :=\n{}  {}\n", ex.lets_text(), st_text(&ex)?);
        let t = "theorem updateLanes_eq (s : St) (size : Nat) : updateLanes s size = P.updateLanes s size := rfl\n".to_string();
        Ok((d, t))
    })());

    // new (key schedule)
    emit("new", (|| {
        let f = fns.get("new").ok_or("missing")?;
        let mut ex = Ex::new(&fns);
        let p = f.sig.inputs.iter().find_map(|a| match a { syn::FnArg::Typed(t) => match &*t.pat { Pat::Ident(i) => Some(i.ident.to_string()), _ => None }, _ => None }).ok_or("param")?;
        ex.env.insert(p, v4vars("key"));
        let r = ex.block(&f.block)?;
        let Val::Tup(t) = r else { return Err("result shape".into()) };
        let parts: Vec<String> = t.iter().map(|v| v4_text(&ex, &match v { Val::Ref(k) => ex.env.get(k).cloned().unwrap_or(Val::Unit), o => o.clone() })).collect::<R<_>>()?;
        let d = format!("def newState (key : V4) : St :=\n{}  ⟨{}, {}, {}, {}⟩\n", ex.lets_text(), parts[0], parts[1], parts[2], parts[3]);
        let t = "theorem newState_eq (key : V4) : newState key = (P.new key).st := rfl\n".to_string();
        Ok((d, t))
    })());

    // finalize outputs (the statements after the permutation rounds)
    for (name, lean, ty, model, shape) in [
        ("finalize64", "out64", "BitVec 64", "P.out64", 1usize),
        ("finalize128", "out128", "BitVec 64 × BitVec 64", "P.out128", 2),
        ("finalize256", "out256", "BitVec 64 × BitVec 64 × BitVec 64 × BitVec 64", "P.out256", 4),
    ] {
        emit(name, (|| {
            let f = fns.get(name).ok_or("missing")?;
            let tail = tail_after_loops(f);
            let mut ex = Ex::new(&fns);
            self_env(&mut ex);
            let r = ex.block(&tail)?;
            let body = match (&r, shape) {
                (Val::W(_), 1) => ex.word(&r)?,
                (Val::Arr(a), n) if a.len() == n => {
                    let w: Vec<String> = a.iter().map(|x| ex.word(x)).collect::<R<_>>()?;
                    format!("({})", w.join(", "))
                }
                _ => return Err("result shape".into()),
            };
            // number of permutation rounds: the literal bound of the `for _i in 0..K` loop
            let k = f.block.stmts.iter().find_map(|s| match s {
                Stmt::Expr(Expr::ForLoop(fl), _) => match &*fl.expr {
                    Expr::Range(r) => match (&r.start, &r.end) {
                        (Some(a), Some(b)) => match (&**a, &**b) {
                            (Expr::Lit(la), Expr::Lit(lb)) => match (&la.lit, &lb.lit) {
                                (Lit::Int(x), Lit::Int(y)) if lit_u64(x).ok() == Some(0) => lit_u64(y).ok(),
                                _ => None,
                            },
                            _ => None,
                        },
                        _ => None,
                    },
                    _ => None,
                },
                _ => None,
            }).ok_or("round loop not found")?;
            let d = format!("def {lean} (s : St) : {ty} :=\n{}  {}\ndef {lean}Rounds : Nat := {k}\n", ex.lets_text(), body);
            let fin = name;
            let t = format!("theorem {lean}_eq (s : St) : {lean} s = {model} s := rfl\n/-- the whole `{fin}`: prologue (shared `finalizeCommon`), the source's round count, the source's output expression -/\ntheorem {fin}_shape (x : P.State) : P.{fin} x = {lean} (P.finalizeCommon {lean}Rounds x) := rfl\n");
            Ok((d, t))
        })());
    }

    out.push_str("/-! ### the translated source equals the hand-written model, for all inputs -/\n\n");
    out.push_str(&thms);
    out.push_str("\nend HH.Gen\n");
    std::fs::write(&args[2], out).expect("write lean");
    let js: Vec<String> = status.iter().map(|(n, s)| format!("  {:?}: {:?}", n, s)).collect();
    std::fs::write(&args[3], format!("{{\n{}\n}}\n", js.join(",\n"))).expect("write status");
    for (n, s) in &status {
        println!("coregen {n}: {s}");
    }
}
