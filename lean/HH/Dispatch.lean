import HH.Basic
/-!
# HH.Dispatch — build configuration, CPU, the selection ladders of `src/builder.rs`, and the
property's notion of a *permitted* back end.
-/
namespace HH

inductive Backend | portable | sse | avx | neon | wasm
deriving DecidableEq, Repr, Inhabited

/-- the `tag: u8` of `HighwayHasher` -/
def Backend.tag : Backend → Nat
  | .portable => 0 | .avx => 1 | .sse => 2 | .neon => 3 | .wasm => 4

/-- target classes the cfg attributes of the crate distinguish -/
inductive Arch | x86_64 | aarch64 | wasmSimd | other
deriving DecidableEq, Repr, Inhabited

/-- compile-time configuration: target class, `feature = "std"`, `cfg!(target_feature = ..)` -/
structure Cfg where
  arch : Arch
  std : Bool
  tfSse41 : Bool
  tfAvx2 : Bool
deriving DecidableEq, Repr, Inhabited

/-- what `is_x86_feature_detected!` reports at run time -/
structure Cpu where
  sse41 : Bool
  avx2 : Bool
deriving DecidableEq, Repr, Inhabited

/-- the ladder of `HighwayHasher::new` (src/builder.rs:147-219) -/
def selectNew (c : Cfg) (cpu : Cpu) : Backend :=
  match c.arch with
  | .x86_64 =>
    if c.tfAvx2 then .avx
    else if c.tfSse41 then .sse
    else if c.std && cpu.avx2 then .avx
    else if c.std && cpu.sse41 then .sse
    else .portable
  | .aarch64 => .neon
  | .wasmSimd => .wasm
  | .other => .portable

/-- the (textually separate) ladder of `HighwayHasher::from_checkpoint` (src/builder.rs:223-295) -/
def selectRestore (c : Cfg) (cpu : Cpu) : Backend :=
  match c.arch with
  | .x86_64 =>
    if c.tfAvx2 then .avx
    else if c.tfSse41 then .sse
    else if c.std && cpu.avx2 then .avx
    else if c.std && cpu.sse41 then .sse
    else .portable
  | .aarch64 => .neon
  | .wasmSimd => .wasm
  | .other => .portable

/-- `SseHash::new` / `SseHash::from_checkpoint` return `Some` iff (std ∧ detected) -/
def sseCtorSome (c : Cfg) (cpu : Cpu) : Bool := c.std && cpu.sse41
/-- `AvxHash::new` / `AvxHash::from_checkpoint` return `Some` iff (std ∧ detected) -/
def avxCtorSome (c : Cfg) (cpu : Cpu) : Bool := c.std && cpu.avx2

/-- C10: the back ends the configuration *permits* the auto-selecting hasher to use: a SIMD back end
only when enabled at compile time or (with std) detected at run time; portable where the target has
a portable union member. -/
def Permitted (c : Cfg) (cpu : Cpu) : Backend → Prop
  | .avx => c.arch = .x86_64 ∧ (c.tfAvx2 = true ∨ (c.std = true ∧ cpu.avx2 = true))
  | .sse => c.arch = .x86_64 ∧ (c.tfSse41 = true ∨ (c.std = true ∧ cpu.sse41 = true))
  | .neon => c.arch = .aarch64
  | .wasm => c.arch = .wasmSimd
  | .portable => c.arch = .x86_64 ∨ c.arch = .other

instance (c : Cfg) (cpu : Cpu) (b : Backend) : Decidable (Permitted c cpu b) := by
  cases b <;> unfold Permitted <;> infer_instance

/-- no SIMD back end is permitted at all -/
def NoSimdPermitted (c : Cfg) (cpu : Cpu) : Prop :=
  ¬ Permitted c cpu .avx ∧ ¬ Permitted c cpu .sse ∧ ¬ Permitted c cpu .neon ∧ ¬ Permitted c cpu .wasm

instance (c : Cfg) (cpu : Cpu) : Decidable (NoSimdPermitted c cpu) := by
  unfold NoSimdPermitted; infer_instance

def Backend.ofTag? : Nat → Option Backend
  | 0 => some .portable | 1 => some .avx | 2 => some .sse | 3 => some .neon | 4 => some .wasm | _ => none

/-- a compile-time target feature implies the CPU has it (otherwise the binary is not runnable) -/
def Cpu.Runs (c : Cfg) (cpu : Cpu) : Prop :=
  (c.tfAvx2 = true → cpu.avx2 = true) ∧ (c.tfSse41 = true → cpu.sse41 = true)

end HH
