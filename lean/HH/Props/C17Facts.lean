import HH.Generated.SourceFacts
import HH.Props.C16
/-!
# C17 (source half) — byte order / word size neutrality of the portable path, over the regenerated
fact table
-/
namespace HH.C17
open HH.Facts

def inP (f : Fact) : Bool := C16.portableFiles.contains f.file

/-- every byte ⇄ integer conversion on the portable path is explicitly little-endian -/
def allowedConv : List String := ["to_le_bytes", "from_le_bytes", "u64::from_le_bytes", "u32::from_le_bytes", "u64::to_le_bytes", "u32::to_le_bytes"]
theorem only_le_conversions :
    (facts.all fun f => !(inP f && f.kind == "conv") || allowedConv.contains f.detail) = true := by decide +kernel

/-- no native-endian / pointer-width-sensitive construct: no `cfg(target_endian|target_pointer_width)`,
no `usize::MAX/BITS`, `size_of::<usize>`, `isize`, no raw-pointer construct -/
theorem no_target_sensitive :
    (facts.all fun f => !(inP f && (f.kind == "target_cfg" || f.kind == "usize_sens" || f.kind == "ptr"))) = true := by
  decide +kernel

/-- the only integer casts in non-test code of the portable path: lengths ≤ 32 widened/narrowed,
`u32 → usize` of the checkpoint count, and the 32-bit halves of a lane -/
def allowedCasts : List String :=
  ["self.buffer.len() as u32", "len as usize", "*lane as u32", "(*lane >> 32) as u32", "bytes.len() as u64", "self.buffer.len() as u64"]
theorem casts_inventory :
    (facts.all fun f => !(inP f && f.kind == "cast" && !f.test) || allowedCasts.contains f.detail) = true := by
  decide +kernel

theorem conv_nonvacuous : (facts.filter fun f => inP f && f.kind == "conv").length ≥ 4 := by decide +kernel

end HH.C17
