import HH.Generated.SourceFacts
/-! Shared definitions for the theorems over the regenerated source-fact table (no theorems here, so
that a broken theorem of one property never takes another property's file down with it). -/
namespace HH.FactsLib
open HH.Facts

/-- the files of the portable path: the portable hasher, buffering, key, traits, the std adapter
macros, the collection builder type, the crate root -/
def portableFiles : List String := ["lib.rs", "portable.rs", "internal.rs", "key.rs", "traits.rs", "macros.rs", "hash.rs"]

/-- files whose code `PortableHash` executes -/
def coreFiles : List String := ["portable.rs", "internal.rs", "key.rs", "traits.rs", "macros.rs"]

def inP (f : Fact) : Bool := portableFiles.contains f.file

/-! string tests on character lists (structurally recursive, so the kernel can evaluate them) -/
def isPrefix : List Char → List Char → Bool
  | [], _ => true
  | _ :: _, [] => false
  | a :: as, b :: bs => a == b && isPrefix as bs
def infixOf (pat : List Char) : List Char → Bool
  | [] => pat.isEmpty
  | c :: cs => isPrefix pat (c :: cs) || infixOf pat cs
/-- `pat` occurs in `s` -/
def has (s pat : String) : Bool := infixOf pat.toList s.toList
/-- `s` starts with `pat` -/
def startsWith (s pat : String) : Bool := isPrefix pat.toList s.toList


end HH.FactsLib
