import HH.Machine
import HH.Proofs.Obs
/-!
# Lemmas about the handle table and `step`: frame property, locality, world invariants
-/
namespace HH

namespace World
theorem get_put (w : World) (i j : Nat) (x : Handle) :
    (w.put i x).get j = if j = i then some x else w.get j := by
  unfold World.put World.get World.del
  by_cases h : j = i
  · subst h; simp
  · simp only [h, ↓reduceIte]
    have hij : (i == j) = false := by simp; omega
    simp only [List.find?_cons, hij]
    congr 1
    rw [List.find?_filter]
    congr 1
    funext p
    by_cases hp : p.1 = j
    · simp [hp, h]
    · simp [hp]

theorem get_del (w : World) (i j : Nat) :
    (w.del i).get j = if j = i then none else w.get j := by
  unfold World.get World.del
  by_cases h : j = i
  · subst h
    simp only [↓reduceIte, Option.map_eq_none_iff]
    rw [List.find?_eq_none]
    intro p hp
    simp only [List.mem_filter, bne_iff_ne, ne_eq] at hp
    simp [hp.2]
  · simp only [h, ↓reduceIte]
    congr 1
    rw [List.find?_filter]
    congr 1
    funext p
    by_cases hp : p.1 = j
    · simp [hp, h]
    · simp [hp]

theorem get_nil (j : Nat) : World.get [] j = none := rfl
end World

/-- handles an operation reads or writes -/
def Op.handles : Op → List Nat
  | .reset => []
  | .new h _ _ _ => [h]
  | .default h _ => [h]
  | .restore h _ _ _ => [h]
  | .restoreH h _ _ src => [h, src]
  | .append h _ => [h]
  | .ioWrite h _ => [h]
  | .clone src dst => [src, dst]
  | .fin h _ => [h]
  | .ckpt h => [h]
  | .finish h => [h]
  | .flush h => [h]
  | .drop h => [h]
  | .debug h => [h]
  | .hash _ _ _ _ _ => []
  | .writes h _ => [h]
  | .hashOne _ _ => []

def Op.isReset : Op → Bool
  | .reset => true
  | _ => false

/-- operations taking the hasher by shared reference -/
def Op.isObserver : Op → Bool
  | .ckpt _ | .finish _ | .flush _ | .debug _ => true
  | _ => false

/-- frame property: an operation leaves every handle it does not name unchanged -/
theorem step_frame (env : Env) (w : World) (op : Op) (j : Nat) (hr : op.isReset = false) (hj : j ∉ op.handles) :
    (step env w op).1.get j = w.get j := by
  cases op <;> simp only [Op.handles, List.mem_cons, List.not_mem_nil, or_false, not_or, Op.isReset] at hj hr <;>
    simp only [step]
  all_goals first
    | (split <;> simp [World.get_put, World.get_del, hj])
    | (split <;> (try split) <;> simp [World.get_put, World.get_del, hj])
    | rfl
    | skip
  all_goals (cases hr)

/-- observers never change the world -/
theorem observer_world (env : Env) (w : World) (op : Op) (h : op.isObserver = true) : (step env w op).1 = w := by
  cases op <;> simp only [Op.isObserver, Bool.false_eq_true] at h <;> simp only [step] <;> split <;> rfl

end HH

namespace HH

/-- locality: the output and the new contents of the named handles depend only on the old
contents of the named handles -/
theorem step_local (env : Env) (w1 w2 : World) (op : Op) (hr : op.isReset = false)
    (agree : ∀ j ∈ op.handles, w1.get j = w2.get j) :
    (step env w1 op).2 = (step env w2 op).2 ∧
    ∀ j ∈ op.handles, (step env w1 op).1.get j = (step env w2 op).1.get j := by
  cases op <;> simp only [Op.handles, List.mem_cons, List.not_mem_nil, or_false, forall_eq_or_imp, forall_eq,
    Op.isReset] at agree hr <;> simp only [step, Op.handles, List.mem_cons, List.not_mem_nil, or_false, forall_eq_or_imp, forall_eq]
  case reset => cases hr
  case hash => split <;> simp
  case hashOne => split <;> simp
  case writes h ws => rw [agree]; split <;> simp [World.get_put, agree]
  case new h sel force key => split <;> simp [World.get_put, World.get_del]
  case default h sel => split <;> simp [World.get_put, World.get_del]
  case restore h sel force c => split <;> simp [World.get_put, World.get_del]
  case restoreH h sel force src =>
    rw [agree.2]
    split
    · exact ⟨rfl, agree.1, agree.2⟩
    · split <;> simp [World.get_put, World.get_del, agree.2]
  case append h d => rw [agree]; split <;> simp [World.get_put, agree]
  case ioWrite h d => rw [agree]; split <;> simp [World.get_put, agree]
  case clone src dst =>
    rw [agree.1]
    split
    · exact ⟨rfl, agree.1, agree.2⟩
    · simp [World.get_put, agree.1]
  case fin h wd => rw [agree]; split <;> simp [World.get_del, agree]
  case ckpt h => rw [agree]; split <;> simp [agree]
  case finish h => rw [agree]; split <;> simp [agree]
  case flush h => rw [agree]; split <;> simp [agree]
  case drop h => rw [agree]; split <;> simp [World.get_del, agree]
  case debug h => rw [agree]; split <;> simp [agree]

end HH
