import HH.Neon
import HH.Proofs.PortableSpec
import HH.Proofs.X86Lemmas
import Mathlib.Tactic.IntervalCases
/-!
# The NEON model refines the portable model (step lemmas, valid for ALL register states)
-/
namespace HH
namespace Neon

/-! the register views of the NEON model are literally those of the x86 model: reuse its lane kit -/
theorem lo64_eq (r : BitVec 128) : lo64 r = X86.lo64 r := rfl
theorem hi64_eq (r : BitVec 128) : hi64 r = X86.hi64 r := rfl
theorem mk_eq (h l : BitVec 64) : mk h l = X86.mk h l := rfl
theorem mk32_eq (d c b a : BitVec 32) : mk32 d c b a = X86.mk32 d c b a := rfl
theorem lane32_eq (r : BitVec 128) (i : Nat) : lane32 r i = X86.lane32 r i := rfl

@[simp] theorem lo64_mk (h l : BitVec 64) : lo64 (mk h l) = l := X86.lo64_mk h l
@[simp] theorem hi64_mk (h l : BitVec 64) : hi64 (mk h l) = h := X86.hi64_mk h l
theorem mk_lo_hi (r : BitVec 128) : mk (hi64 r) (lo64 r) = r := X86.mk_lo_hi r
theorem ext128 (a b : BitVec 128) (h1 : lo64 a = lo64 b) (h2 : hi64 a = hi64 b) : a = b := X86.ext128 a b h1 h2
@[simp] theorem lo64_eor (a b : BitVec 128) : lo64 (veorq_u64 a b) = lo64 a ^^^ lo64 b := X86.lo64_xor a b
@[simp] theorem hi64_eor (a b : BitVec 128) : hi64 (veorq_u64 a b) = hi64 a ^^^ hi64 b := X86.hi64_xor a b
@[simp] theorem lo64_add (a b : BitVec 128) : lo64 (vaddq_u64 a b) = lo64 a + lo64 b := by simp [vaddq_u64]
@[simp] theorem hi64_add (a b : BitVec 128) : hi64 (vaddq_u64 a b) = hi64 a + hi64 b := by simp [vaddq_u64]
@[simp] theorem lo64_ld (e0 e1 : BitVec 64) : lo64 (vld1q_u64 e0 e1) = e0 := by simp [vld1q_u64]
@[simp] theorem hi64_ld (e0 e1 : BitVec 64) : hi64 (vld1q_u64 e0 e1) = e1 := by simp [vld1q_u64]

theorem narrow_lo (x y : BitVec 64) : ((x.setWidth 32 ++ y.setWidth 32 : BitVec 64).setWidth 32).setWidth 64 = y &&& 0xffffffff#64 := by bv_lsb
theorem narrow_hi (x y : BitVec 64) : (((x.setWidth 32 ++ y.setWidth 32 : BitVec 64) >>> 32).setWidth 32).setWidth 64 = x &&& 0xffffffff#64 := by bv_lsb
theorem shr32_mask (b : BitVec 64) : (b >>> 32) &&& 0xffffffff#64 = b >>> 32 := X86.shr32_low b

theorem vmull_lanes (a b : BitVec 128) :
    vmull_u32 (vmovn_u64 a) (vshrn_n_u64 b 32) = mk (P.mul32 (hi64 a) (hi64 b)) (P.mul32 (lo64 a) (lo64 b)) := by
  simp only [vmull_u32, vmovn_u64, vshrn_n_u64, P.mul32, narrow_lo, narrow_hi, shr32_mask]

theorem vrev_rot (v : BitVec 128) : vrev64q_u32 v = mk ((hi64 v).rotateLeft 32) ((lo64 v).rotateLeft 32) := by
  have : vrev64q_u32 v = X86.shuffle_epi32 v 177 := by
    simp only [vrev64q_u32, X86.shuffle_epi32, mk32_eq, lane32_eq, Nat.reduceShiftRight, Nat.reduceMod]
  rw [this, X86.shuffle_epi32_rot]; rfl

/-- USHL by a small non-negative count is a left shift; by `count - 32` (as i32) a right shift by `32 - count` -/
theorem shLeft (n : Nat) (h : n < 32) : ((BitVec.ofNat 32 n).setWidth 8).toInt = (n : Int) := by
  interval_cases n <;> decide
theorem shRight (n : Nat) (h : n < 32) : ((BitVec.ofNat 32 (n + (2 ^ 32 - 32))).setWidth 8).toInt = (n : Int) - 32 := by
  interval_cases n <;> decide
theorem ushl_left (a : BitVec 32) (n : Nat) (h : n < 32) : ushl32 a (BitVec.ofNat 32 n) = a <<< n := by
  have h1 : (n : Int) ≥ 0 := by omega
  have h2 : ¬ (n : Int) ≥ 32 := by omega
  simp only [ushl32, shLeft n h, h1, h2, ↓reduceIte, Int.toNat_natCast]
theorem ushl_right (a : BitVec 32) (n : Nat) (h0 : n ≠ 0) (h : n < 32) :
    ushl32 a (BitVec.ofNat 32 (n + (2 ^ 32 - 32))) = a >>> (32 - n) := by
  have h1 : ¬ ((n : Int) - 32 ≥ 0) := by omega
  have h2 : ¬ (-((n : Int) - 32) ≥ 32) := by omega
  have h3 : (-((n : Int) - 32)).toNat = 32 - n := by omega
  simp only [ushl32, shRight n h, h1, h2, ↓reduceIte, h3]
theorem ushl_right0 (a : BitVec 32) : ushl32 a (BitVec.ofNat 32 (0 + (2 ^ 32 - 32))) = 0 := by
  have : ((BitVec.ofNat 32 (0 + (2 ^ 32 - 32))).setWidth 8).toInt = -32 := by decide
  simp only [ushl32, this]
  simp
end Neon

namespace NeonB
open Neon

set_option maxRecDepth 100000 in
set_option maxHeartbeats 2000000 in
theorem zipper_lanes (v : BitVec 128) :
    zipperMerge v = mk (P.zipHi (hi64 v) (lo64 v)) (P.zipLo (hi64 v) (lo64 v)) := by
  have hidx : vld1q_u8 [3, 12, 2, 5, 14, 1, 15, 0, 11, 4, 10, 13, 9, 6, 8, 7] 0 = 0x070806090D0A040B000F010E05020C03#128 := by decide
  simp only [zipperMerge, hidx, vqtbl1q_u8, tblByte, byteAt, BitVec.reduceExtractLsb', BitVec.reduceToNat, Nat.reduceLT, ↓reduceIte, Nat.reduceMul]
  unfold P.zipHi P.zipLo mk lo64 hi64
  bv_bits

def lanesOfRegs (pH pL : BitVec 128) : V4 := ⟨lo64 pL, hi64 pL, lo64 pH, hi64 pH⟩

theorem update_refines (r : Regs) (pH pL : BitVec 128) :
    toPortable (update r pH pL) = P.update (toPortable r) (lanesOfRegs pH pL) := by
  simp only [update, toPortable, P.update, lanesOfRegs, zipper_lanes, vmull_lanes, lo64_add, hi64_add, lo64_eor, hi64_eor,
    lo64_mk, hi64_mk, V4.add, V4.xor, V4.zipWith, P.zipperAdd]

theorem loadu_lanes (pkt : List (BitVec 8)) :
    lanesOfRegs (vld1q_u8 pkt 16) (vld1q_u8 pkt 0) = P.dataToLanes pkt := by
  simp [lanesOfRegs, vld1q_u8, P.dataToLanes]

theorem updPacket_refines (r : Regs) (pkt : List (BitVec 8)) :
    toPortable (updPacket r pkt) = P.updPacket (toPortable r) pkt := by
  simp only [updPacket, update_refines, loadu_lanes, P.updPacket]

theorem permuteAndUpdate_refines (r : Regs) :
    toPortable (permuteAndUpdate r) = P.permuteAndUpdate (toPortable r) := by
  simp only [permuteAndUpdate, update_refines, P.permuteAndUpdate]
  congr 1
  simp [lanesOfRegs, rotateBy32, vrev_rot, P.permute, toPortable]

theorem rounds_refines (n : Nat) (r : Regs) : toPortable (rounds n r) = P.rounds n (toPortable r) := by
  induction n generalizing r with
  | zero => rfl
  | succ n ih => simp only [rounds, P.rounds, ih, permuteAndUpdate_refines]

theorem toPortable_fromPortable (p : St) : toPortable (fromPortable p) = p := by
  simp [toPortable, fromPortable, v2new]

theorem fromPortable_toPortable (r : Regs) : fromPortable (toPortable r) = r := by
  simp [toPortable, fromPortable, v2new, vld1q_u64, mk_lo_hi]

theorem new_refines (k : V4) : toPortable (new k).r = (P.new k).st := by
  simp [new, toPortable, P.new, rotateBy32, vrev_rot, init0L, init0H, init1L, init1H, P.init0, P.init1, v2new,
    V4.zipWith, V4.map]
  refine ⟨⟨?_, ?_, ?_, ?_⟩, ⟨?_, ?_, ?_, ?_⟩⟩ <;> exact BitVec.xor_comm _ _

theorem lo64_shr (a : BitVec 128) (k : Nat) : lo64 (vshrq_n_u64 a k) = lo64 a >>> k := by simp only [vshrq_n_u64, lo64_mk]
theorem hi64_shr (a : BitVec 128) (k : Nat) : hi64 (vshrq_n_u64 a k) = hi64 a >>> k := by simp only [vshrq_n_u64, hi64_mk]
theorem dup0 : vdupq_n_u8 0 = (0 : BitVec 128) := by decide
theorem lo64_slli8 (a : BitVec 128) : lo64 (slli8 a) = 0 := by
  simp only [slli8, vextq_u8, dup0, Nat.reduceMul, Nat.reduceSub, BitVec.zero_ushiftRight, BitVec.zero_or]
  unfold lo64; bv_lsb
theorem hi64_slli8 (a : BitVec 128) : hi64 (slli8 a) = lo64 a := by
  simp only [slli8, vextq_u8, dup0, Nat.reduceMul, Nat.reduceSub, BitVec.zero_ushiftRight, BitVec.zero_or]
  unfold lo64 hi64; bv_lsb
theorem lo64_bic (a b : BitVec 128) : lo64 (vbicq_u64 a b) = lo64 a &&& ~~~(lo64 b) := by unfold lo64 vbicq_u64; bv_lsb
theorem hi64_bic (a b : BitVec 128) : hi64 (vbicq_u64 a b) = hi64 a &&& ~~~(hi64 b) := by unfold hi64 vbicq_u64; bv_lsb
theorem signBit_lo : lo64 (vsetq_lane_u32 0x80000000#32 (vdupq_n_u32 0) 3) = 0 := by decide
theorem signBit_hi : hi64 (vsetq_lane_u32 0x80000000#32 (vdupq_n_u32 0) 3) = 0x8000000000000000#64 := by decide

theorem vld1q_mk32 (mem : List (BitVec 8)) (off : Nat) :
    vld1q_u8 mem off = X86.mk32 (le32 ((mem.drop off).drop 12)) (le32 ((mem.drop off).drop 8)) (le32 ((mem.drop off).drop 4)) (le32 (mem.drop off)) := by
  have : vld1q_u8 mem off = X86.ofBytes16 (mem.drop off) := by
    simp only [vld1q_u8, X86.ofBytes16, mk_eq, List.drop_drop, Nat.add_comm]
  rw [this, X86.ofBytes16_mk32]
theorem v2new_mk32 (h l : BitVec 64) :
    v2new h l = X86.mk32 ((h >>> 32).setWidth 32) (h.setWidth 32) ((l >>> 32).setWidth 32) (l.setWidth 32) := by
  simp only [v2new, vld1q_u64, mk_eq, X86.mk_as_mk32]
theorem mask_lo : v2new 0 0xFFFFFFFF#64 = X86.mk32 0 0 0 0xFFFFFFFF#32 := by decide
theorem slli8_mk32 (d c b a : BitVec 32) : slli8 (X86.mk32 d c b a) = X86.mk32 b a 0 0 := by
  apply X86.ext128
  · have := lo64_slli8 (X86.mk32 d c b a)
    simp only [lo64_eq] at this
    rw [this, X86.lo64_mk32]; exact X86.join32_zero.symm
  · have := hi64_slli8 (X86.mk32 d c b a)
    simp only [lo64_eq, hi64_eq] at this
    rw [this, X86.hi64_mk32, X86.lo64_mk32]
theorem zero_mk32 : v2new 0 0 = X86.mk32 0 0 0 0 := by decide
theorem dup_mk32 (x : BitVec 32) : vdupq_n_u32 x = X86.mk32 x x x x := rfl
theorem and_mk32 (d c b a d' c' b' a' : BitVec 32) :
    vandq_u64 (X86.mk32 d c b a) (X86.mk32 d' c' b' a') = X86.mk32 (d &&& d') (c &&& c') (b &&& b') (a &&& a') := X86.and_mk32 ..
theorem or_mk32 (d c b a d' c' b' a' : BitVec 32) :
    vorrq_u64 (X86.mk32 d c b a) (X86.mk32 d' c' b' a') = X86.mk32 (d ||| d') (c ||| c') (b ||| b') (a ||| a') := X86.or_mk32 ..
theorem setlane3 (d c b a x : BitVec 32) : vsetq_lane_u32 x (X86.mk32 d c b a) 3 = X86.mk32 x c b a := by
  have h := X86.lane32_mk32 d c b a
  simp only [vsetq_lane_u32, lane32_eq, mk32_eq, h.1, h.2.1, h.2.2.1, ↓reduceIte, OfNat.ofNat_ne_zero, OfNat.ofNat_ne_one, Nat.reduceEqDiff]
theorem le64_lo (l : List (BitVec 8)) : (le64 l).setWidth 32 = le32 l := by rw [X86.le64_join, X86.join32_lo]
theorem le64_hi (l : List (BitVec 8)) : ((le64 l) >>> 32).setWidth 32 = le32 (l.drop 4) := by rw [X86.le64_join, X86.join32_hi]
theorem z32a : ((0 : BitVec 64) >>> 32).setWidth 32 = (0 : BitVec 32) := by decide
theorem z32b : (0 : BitVec 64).setWidth 32 = (0 : BitVec 32) := by decide

set_option maxRecDepth 100000 in
set_option maxHeartbeats 16000000 in
theorem remainder_refines_fn (n : Nat) (h : n < 32) (f : Fin 32 → BitVec 8) :
    lanesOfRegs (remainder (List.ofFn f) n).1 (remainder (List.ofFn f) n).2
      = P.dataToLanes (P.remainder ((List.ofFn f).take n)) := by
  interval_cases n <;>
  (simp [remainder, loadMultipleOfFour, P.remainder, P.dataToLanes, lanesOfRegs, unorderedLoad3, zeros, List.ofFn_succ,
    List.replicate, List.set, List.zipWith]
   try simp only [vld1q_mk32, mask_lo, slli8_mk32, zero_mk32, dup_mk32, v2new_mk32, le64_lo, le64_hi, z32a, z32b, and_mk32, or_mk32, setlane3,
     lo64_eq, hi64_eq, X86.lo64_mk32, X86.hi64_mk32, X86.le64_join, List.drop_succ_cons, List.drop_zero, X86.load3_1, X86.load3_2, X86.load3_3,
     X86.join32_lo, X86.join32_hi]
   try simp [X86.le32_cons4, X86.le32_zero4, X86.and_ones32, X86.join32_zero])

theorem list_eq_ofFn (buf : List (BitVec 8)) (h : buf.length = 32) :
    buf = List.ofFn (fun i : Fin 32 => buf[i.val]'(by omega)) := by
  apply List.ext_getElem
  · simp [h]
  · intro i h1 h2; rw [List.getElem_ofFn]

theorem remainder_refines (buf : List (BitVec 8)) (n : Nat) (hb : buf.length = 32) (h : n < 32) :
    lanesOfRegs (remainder buf n).1 (remainder buf n).2 = P.dataToLanes (P.remainder (buf.take n)) := by
  rw [list_eq_ofFn buf hb]
  exact remainder_refines_fn n h _

theorem vsize_add (v : BitVec 128) (n : Nat) (h : n < 32) :
    vaddq_u64 v (vdupq_n_u32 (BitVec.ofNat 32 n)) =
      mk (hi64 v + ((BitVec.ofNat 64 n <<< 32) + BitVec.ofNat 64 n)) (lo64 v + ((BitVec.ofNat 64 n <<< 32) + BitVec.ofNat 64 n)) := by
  apply ext128
  · simp only [lo64_add, lo64_mk]; congr 1
    interval_cases n <;> decide
  · simp only [hi64_add, hi64_mk]; congr 1
    interval_cases n <;> decide

theorem lane32_dup (x : BitVec 32) (k : Nat) (hk : k < 4) : lane32 (vdupq_n_u32 x) k = x := by
  have := X86.lane32_set1 x k hk
  exact this

theorem rotate32By_lanes (v : BitVec 128) (n : Nat) (h : n < 32) :
    rotate32By v n = mk (P.rot32Lane n (hi64 v)) (P.rot32Lane n (lo64 v)) := by
  have l0 := fun x => lane32_dup x 0 (by decide)
  have l1 := fun x => lane32_dup x 1 (by decide)
  have l2 := fun x => lane32_dup x 2 (by decide)
  have l3 := fun x => lane32_dup x 3 (by decide)
  by_cases h0 : n = 0
  · subst h0
    have hz : X86.mk32 (0 : BitVec 32) 0 0 0 = (0 : BitVec 128) := by decide
    simp only [rotate32By, vshlq_u32, l0, l1, l2, l3, ushl_left _ 0 h, ushl_right0, BitVec.shiftLeft_zero, mk32_eq, lane32_eq, X86.mk32_lanes,
      vorrq_u64, hz, X86.rot32Lane_zero, mk_eq, lo64_eq, hi64_eq, X86.mk_lo_hi]
    simp
  · simp only [rotate32By, vshlq_u32, l0, l1, l2, l3, ushl_left _ n h, ushl_right _ n h0 h, mk32_eq, lane32_eq, vorrq_u64]
    have e : ∀ a b : BitVec 128, a ||| b = X86.or_si128 a b := fun _ _ => rfl
    rw [e, X86.or_mk32]
    have := X86.rot_mk32 v n h0 h
    simp only [X86.rot32] at this
    rw [this]; rfl


theorem updateRemainder_refines (x : State) (hb : x.buffer.buf.length = 32) (hi : x.buffer.idx < 32) :
    toPortable (updateRemainder x) =
      P.update (P.updateLanes (toPortable x.r) x.buffer.idx) (P.dataToLanes (P.remainder (x.buffer.buf.take x.buffer.idx))) := by
  simp only [updateRemainder, update_refines, remainder_refines _ _ hb hi, Pkt.len]
  congr 1
  simp only [toPortable, P.updateLanes, vsize_add _ _ hi, rotate32By_lanes _ _ hi, lo64_mk, hi64_mk, V4.map]

theorem finalizeCommon_refines (n : Nat) (x : State) (hx : x.buffer.Inv) :
    toPortable (finalizeCommon n x) = P.finAbs n (toPortable x.r, x.buffer.asSlice) := by
  obtain ⟨hi, hb⟩ := hx
  have hl : (List.take x.buffer.idx x.buffer.buf).length = x.buffer.idx := by simp; omega
  simp only [finalizeCommon, rounds_refines, P.finAbs, Pkt.asSlice, hl, Pkt.isEmpty]
  by_cases h0 : x.buffer.idx = 0
  · simp [h0]
  · simp [h0, updateRemainder_refines x hb hi]

theorem modLaneN (xh xl ih il : BitVec 64) :
    il ^^^ (xl <<< 2) ^^^ 0 ^^^ ((xl <<< 1) &&& ~~~(0 : BitVec 64)) ^^^ 0 = (P.moduleReduction xh xl ih il).1 ∧
    ih ^^^ (xh <<< 2) ^^^ (xl >>> 62) ^^^ ((xh <<< 1) &&& ~~~(0x8000000000000000#64)) ^^^ (xl >>> 63) = (P.moduleReduction xh xl ih il).2 := by
  unfold P.moduleReduction
  constructor <;> bv_lsb

theorem modularReduction_refines (x init : BitVec 128) :
    (lo64 (modularReduction x init), hi64 (modularReduction x init))
      = P.moduleReduction (hi64 x) (lo64 x) (hi64 init) (lo64 init) := by
  have a := modLaneN (hi64 x) (lo64 x) (hi64 init) (lo64 init)
  simp only [modularReduction, andNot, lo64_eor, hi64_eor, lo64_slli8, hi64_slli8, lo64_shr, hi64_shr, lo64_bic, hi64_bic, lo64_add, hi64_add,
    X86.add_self_shl, X86.shl1_shl1, signBit_lo, signBit_hi]
  exact Prod.ext a.1 a.2

theorem finalize64_refines (x : State) (hx : x.buffer.Inv) :
    finalize64 x = P.out64 (P.finAbs 4 (toPortable x.r, x.buffer.asSlice)) := by
  rw [← finalizeCommon_refines 4 x hx]
  simp only [finalize64, vst1q_u64, lo64_add, P.out64, toPortable]
  ac_rfl

theorem finalize128_refines (x : State) (hx : x.buffer.Inv) :
    finalize128 x = P.out128 (P.finAbs 6 (toPortable x.r, x.buffer.asSlice)) := by
  rw [← finalizeCommon_refines 6 x hx]
  simp only [finalize128, vst1q_u64, lo64_add, hi64_add, P.out128, toPortable, Prod.mk.injEq]
  constructor <;> ac_rfl

theorem finalize256_refines (x : State) (hx : x.buffer.Inv) :
    finalize256 x = P.out256 (P.finAbs 10 (toPortable x.r, x.buffer.asSlice)) := by
  rw [← finalizeCommon_refines 10 x hx]
  simp only [finalize256, P.out256, toPortable]
  have h1 := modularReduction_refines (vaddq_u64 (finalizeCommon 10 x).v1L (finalizeCommon 10 x).mul1L)
    (vaddq_u64 (finalizeCommon 10 x).v0L (finalizeCommon 10 x).mul0L)
  have h2 := modularReduction_refines (vaddq_u64 (finalizeCommon 10 x).v1H (finalizeCommon 10 x).mul1H)
    (vaddq_u64 (finalizeCommon 10 x).v0H (finalizeCommon 10 x).mul0H)
  simp only [lo64_add, hi64_add] at h1 h2
  rw [← h1, ← h2]

def abs (x : State) : St × List (BitVec 8) := (toPortable x.r, x.buffer.asSlice)

theorem append_abs (x : State) (d : List (BitVec 8)) (hx : x.buffer.Inv) :
    abs (append x d) = AbsAppend P.updPacket (abs x) d ∧ (append x d).buffer.Inv := by
  have h := appendG_abs updPacket (x.r, x.buffer) d hx
  refine ⟨?_, h.2⟩
  have h1 := h.1
  simp only [absP] at h1
  simp only [abs, append, Pkt.asSlice]
  have hm := AbsAppend_map toPortable updPacket P.updPacket updPacket_refines (x.r, List.take x.buffer.idx x.buffer.buf) d
  rw [← hm, ← h1]

theorem new_abs (k : V4) : abs (new k) = (Spec.reset k, []) ∧ (new k).buffer.Inv := by
  refine ⟨?_, Pkt.default_inv⟩
  have := P.new_abs k
  simp only [absP] at this
  simp only [abs, new_refines, Pkt.asSlice]
  exact this

end NeonB
end HH
