import HH.Proofs.PortableSpec
import HH.Props.Vectors
/-!
# C01 — the portable hasher computes exactly HighwayHash (64/128/256 bit)

`P.hashN key data` is the model of `PortableHash::new(key).hashN(data)` (`append` then
`finalizeN`, `src/traits.rs`); `Spec.hashN` is the specification of `HH/Spec.lean`.
The quantifiers are unbounded: every key, every byte string, every width.
Purity ("a pure function of (key, bytes, width)") is by construction: the model is a function.
-/
namespace HH.C01

theorem hash64_eq_spec (key : V4) (data : List (BitVec 8)) : P.hash64 key data = Spec.hash64 key data := by
  simp only [P.hash64, P.finalize64_eq, P.process_eq_spec, Spec.hash64, P.out64]

theorem hash128_eq_spec (key : V4) (data : List (BitVec 8)) : P.hash128 key data = Spec.hash128 key data := by
  simp only [P.hash128, P.finalize128_eq, P.process_eq_spec, Spec.hash128, P.out128]

theorem hash256_eq_spec (key : V4) (data : List (BitVec 8)) : P.hash256 key data = Spec.hash256 key data := by
  simp only [P.hash256, P.finalize256_eq, P.process_eq_spec, Spec.hash256, P.out256, P.moduleReduction_eq_spec]

/-! ### the specification reproduces the published vectors (checked by the kernel) -/

def testKey : V4 := ⟨0x0706050403020100#64, 0x0F0E0D0C0B0A0908#64, 0x1716151413121110#64, 0x1F1E1D1C1B1A1918#64⟩
def countBytes (n : Nat) : List (BitVec 8) := (List.range n).map (BitVec.ofNat 8)

theorem spec_vectors64 : (List.range 65).map (fun i => Spec.hash64 testKey (countBytes i)) = Vectors.expected64 := by
  decide +kernel
theorem spec_vectors128 : (List.range 65).map (fun i => Spec.hash128 testKey (countBytes i)) = Vectors.expected128 := by
  decide +kernel
theorem spec_vectors256 : (List.range 65).map (fun i => Spec.hash256 testKey (countBytes i)) = Vectors.expected256 := by
  decide +kernel

/-- README / lib.rs doc vectors and the two `≥ 0x80` vectors of tests/hash.rs -/
theorem spec_vectors_misc :
    Spec.hash64 ⟨1, 2, 3, 4⟩ [0xff#8] = 0x7858f24d2d79b2b2#64 ∧
    Spec.hash128 ⟨1, 2, 3, 4⟩ [0xff#8] = (0xbb007d2462e77f3c#64, 0x224508f916b3991f#64) ∧
    Spec.hash256 ⟨1, 2, 3, 4⟩ [0xff#8] = (0x7161cadbf7cd70e1#64, 0xaac4905de62b2f5e#64, 0x07b02b936933faa7#64, 0xc8efcfc45b239f8d#64) ∧
    Spec.hash64 ⟨1, 2, 3, 4⟩ ((List.range 33).map fun x => BitVec.ofNat 8 (128 + x)) = 0x53c516cce478cad7#64 ∧
    Spec.hash64 ⟨0, 0, 0, 0⟩ [] = 0x7035da75b9d54469#64 := by
  decide +kernel

/-- hence the portable model itself reproduces every published vector -/
theorem portable_vectors64 : (List.range 65).map (fun i => P.hash64 testKey (countBytes i)) = Vectors.expected64 := by
  simp only [hash64_eq_spec]; exact spec_vectors64

/-- non-vacuity: the theorems talk about non-trivial inputs (33 bytes ≥ 0x80: one whole packet + a
1-byte remainder) -/
example : P.hash64 ⟨1, 2, 3, 4⟩ ((List.range 33).map fun x => BitVec.ofNat 8 (128 + x)) = 0x53c516cce478cad7#64 := by
  rw [hash64_eq_spec]; exact spec_vectors_misc.2.2.2.1

end HH.C01
