import HH.Proofs.Obs
import HH.Props.EndToEnd
/-!
# C06 — checkpoint/restore is transparent at every cut point and across back ends

A *hop* checkpoints the current hasher and restores the bytes on some back end.  After any number
of hops, interleaved with arbitrary appends, every later result (any suffix chunking, any width,
further checkpoints) equals that of the uninterrupted hasher.
-/
namespace HH.C06

/-- one hop -/
theorem hop_transparent (h : Hasher) (hi : h.Inv) (b : Backend) (h' : Hasher)
    (hr : Hasher.fromCheckpoint b h.checkpoint = some h') (suffix : List (List (BitVec 8))) :
    (∀ w, (suffix.foldl Hasher.append h').finalize w = (suffix.foldl Hasher.append h).finalize w) ∧
    (suffix.foldl Hasher.append h').checkpoint = (suffix.foldl Hasher.append h).checkpoint := by
  have r := Hasher.restore_abs h hi b h' hr
  have o := Hasher.obs_eq h' h r.2 hi r.1 suffix
  exact ⟨o.1, o.2.1⟩

/-- a segment of a journey: append some chunks, then checkpoint and restore on back end `b` -/
structure Leg where
  chunks : List (List (BitVec 8))
  b : Backend

/-- run a journey; `none` if some back end is unavailable -/
def journey : Hasher → List Leg → Option Hasher
  | h, [] => some h
  | h, l :: ls =>
    match Hasher.fromCheckpoint l.b (l.chunks.foldl Hasher.append h).checkpoint with
    | some h' => journey h' ls
    | none => none

/-- the same data without any hop -/
def straight : Hasher → List Leg → Hasher
  | h, [] => h
  | h, l :: ls => straight (l.chunks.foldl Hasher.append h) ls

/-- any number of hops, any back ends, any cut points: the abstract state is that of the
uninterrupted hasher -/
theorem journey_abs : ∀ (legs : List Leg) (h g : Hasher), h.Inv → g.Inv → h.abs = g.abs →
    ∀ h', journey h legs = some h' → h'.abs = (straight g legs).abs ∧ h'.Inv ∧ (straight g legs).Inv := by
  intro legs
  induction legs with
  | nil =>
    intro h g hi gi e h' hj
    simp only [journey, Option.some.injEq] at hj
    subst hj
    exact ⟨e, hi, gi⟩
  | cons l ls ih =>
    intro h g hi gi e h' hj
    simp only [journey] at hj
    split at hj
    · rename_i h1 hr
      have a1 := Hasher.foldl_append_abs l.chunks h hi
      have a2 := Hasher.foldl_append_abs l.chunks g gi
      have r := Hasher.restore_abs _ a1.2 l.b h1 hr
      have e1 : h1.abs = (l.chunks.foldl Hasher.append g).abs := by rw [r.1, a1.1, a2.1, e]
      exact ih h1 (l.chunks.foldl Hasher.append g) r.2 a2.2 e1 h' hj
    · simp at hj

/-- headline: after any journey, every later result equals the uninterrupted one -/
theorem journey_transparent (legs : List Leg) (h : Hasher) (hi : h.Inv) (h' : Hasher)
    (hj : journey h legs = some h') (suffix : List (List (BitVec 8))) (w : Width) :
    (suffix.foldl Hasher.append h').finalize w = (suffix.foldl Hasher.append (straight h legs)).finalize w := by
  have j := journey_abs legs h h hi hi rfl h' hj
  exact (Hasher.obs_eq h' _ j.2.1 j.2.2 j.1 suffix).1 w

/-- after any journey the later checkpoints (and `finish`) are the uninterrupted ones, byte for byte -/
theorem journey_checkpoint (legs : List Leg) (h : Hasher) (hi : h.Inv) (h' : Hasher)
    (hj : journey h legs = some h') (suffix : List (List (BitVec 8))) :
    (suffix.foldl Hasher.append h').checkpoint = (suffix.foldl Hasher.append (straight h legs)).checkpoint ∧
    (suffix.foldl Hasher.append h').finalize64 = (suffix.foldl Hasher.append (straight h legs)).finalize64 := by
  have j := journey_abs legs h h hi hi rfl h' hj
  exact (Hasher.obs_eq h' _ j.2.1 j.2.2 j.1 suffix).2

/-- all bytes appended along a journey -/
def legsData (legs : List Leg) : List (BitVec 8) := (legs.map (fun l => l.chunks.flatten)).flatten

theorem straight_abs : ∀ (legs : List Leg) (h : Hasher), h.Inv →
    (straight h legs).abs = absAppend h.abs (legsData legs) ∧ (straight h legs).Inv := by
  intro legs
  induction legs with
  | nil =>
    intro h hi
    refine ⟨?_, hi⟩
    simp only [straight, legsData, List.map_nil, List.flatten_nil, absAppend]
    rw [AbsAppend_nil _ _ (Hasher.abs_pending_lt h hi)]
  | cons l ls ih =>
    intro h hi
    have a := Hasher.foldl_append_abs l.chunks h hi
    have r := ih _ a.2
    refine ⟨?_, r.2⟩
    simp only [straight]
    rw [r.1, a.1]
    simp only [legsData, List.map_cons, List.flatten_cons, absAppend]
    exact AbsAppend_assoc _ _ _ _

/-- end to end: a hasher built from a key on any back end, carried through any journey (any cut points, any back end per
hop) and then fed any suffix, outputs the *specification's* digest of all the bytes, at every width -/
theorem journey_is_spec (b : Backend) (k : V4) (h : Hasher) (hh : Hasher.new b k = some h) (legs : List Leg)
    (h' : Hasher) (hj : journey h legs = some h') (suffix : List (List (BitVec 8))) (w : Width) :
    (suffix.foldl Hasher.append h').finalize w = EndToEnd.specDigest w k (legsData legs ++ suffix.flatten) := by
  have n := Hasher.new_abs b k h hh
  have j := journey_abs legs h h n.2 n.2 rfl h' hj
  have s := straight_abs legs h n.2
  have a := Hasher.foldl_append_abs suffix h' j.2.1
  rw [Hasher.finalize_abs _ w a.2, a.1, j.1, s.1, n.1]
  simp only [absAppend]
  rw [AbsAppend_assoc]
  exact EndToEnd.digestAbs_spec w k _

/-- non-vacuity: a two-hop journey portable → sse → avx exists -/
example : ∃ h', journey (Hasher.portable (P.new ⟨1, 2, 3, 4⟩)) [⟨[[1, 2, 3]], .sse⟩, ⟨[[4], []], .avx⟩] = some h' := by
  simp [journey, Hasher.fromCheckpoint]

end HH.C06
