import HH.Props.FactsLib
/-! # C15 (source half) — no process-global mutable state anywhere in `src/` (regenerated fact table) -/
namespace HH.C15
open HH.Facts HH.FactsLib

/-- an immutable `static NAME: T = …` item (the table records its name; an interior-mutability type in
`T` is recorded as a separate fact and rejected on its own) -/
def immutableStatic (d : String) : Bool := startsWith d "static " && !startsWith d "static mut "

/-- no `static mut` item, `thread_local!`/`lazy_static!`, interior-mutability or synchronisation type
(`Cell`, `RefCell`, `UnsafeCell`, `Once*`, `Lazy*`, `Mutex`, `RwLock`, `Atomic*`, …), and no foreign block,
anywhere in `src/` outside tests: the constructs through which Rust code reaches mutable state it was not
handed a `&mut` to.  Immutable `static` tables (constants with an address) are not state and are allowed. -/
theorem no_global_state :
    (facts.all fun f => !((f.kind == "global" && !immutableStatic f.detail) || f.kind == "extern_block") || f.test) = true := by
  decide +kernel

example : immutableStatic "static INIT_MUL0" = true ∧ immutableStatic "static mut SCRATCH" = false ∧
    immutableStatic "AtomicU8" = false ∧ immutableStatic "thread_local" = false := by decide +kernel
end HH.C15
