//! C16 supporting compile check: the portable-path sources of the working tree, included by
//! `#[path]`, must compile under `#![forbid(unsafe_code)]` (which, unlike `deny`, cannot be
//! overridden by an inner `allow`), with and without the `std` feature.
#![forbid(unsafe_code)]
#![allow(non_snake_case, dead_code, unused_imports, unused_macros)]
#![cfg_attr(not(feature = "std"), no_std)]

#[macro_use]
#[path = "../../../.build/repo/src/macros.rs"]
mod macros;
#[path = "../../../.build/repo/src/internal.rs"]
mod internal;
#[path = "../../../.build/repo/src/key.rs"]
mod key;
#[path = "../../../.build/repo/src/portable.rs"]
mod portable;
#[path = "../../../.build/repo/src/traits.rs"]
mod traits;
/// stand-in for the dispatcher so that `hash.rs` (the collection builder type) compiles here
mod builder {
    pub use crate::portable::PortableHash as HighwayHasher;
}
#[path = "../../../.build/repo/src/hash.rs"]
mod hash;

pub use crate::hash::HighwayBuildHasher;
pub use crate::key::Key;
pub use crate::portable::PortableHash;
pub use crate::traits::HighwayHash;
