// Runner for the REAL src/wasm.rs under Miri: `MIRI_NO_STD=1 cargo +nightly miri run --target
// wasm32-unknown-unknown` with `-Ctarget-feature=+simd128`.  no_std / no_main; the op file is
// embedded at compile time (OPS_FILE); output goes through `miri_write_to_stdout`.
#![no_std]
#![no_main]

#[path = "../../common/exec.rs"]
mod exec;

use exec::{Cpu, Machine, Out};

extern "Rust" {
    fn miri_write_to_stdout(bytes: &[u8]);
}

static OPS: &[u8] = include_bytes!(env!("OPS_FILE"));

#[panic_handler]
fn panic(_: &core::panic::PanicInfo) -> ! {
    unsafe { miri_write_to_stdout(b"panic\n") };
    core::arch::wasm32::unreachable()
}

fn put(b: &[u8]) {
    unsafe { miri_write_to_stdout(b) }
}

#[no_mangle]
fn miri_start(_argc: isize, _argv: *const *const u8) -> isize {
    put(b"cfg arch=wasm32 std=0 tf_sse41=0 tf_avx2=0 simd128=");
    put(if cfg!(target_feature = "simd128") { b"1" } else { b"0" });
    put(b" cpu_sse41=0 cpu_avx2=0 debug_assertions=1 ptr=32 endian=little\n");
    let mut m = Machine::new(Cpu { sse41: false, avx2: false });
    let mut scratch = [0u8; 8192];
    for line in OPS.split(|&c| c == b'\n') {
        if line.is_empty() {
            continue;
        }
        if line[0] == b'#' {
            put(line);
            put(b"\n");
            continue;
        }
        let mut emit = |b: &[u8]| put(b);
        let mut out = Out { emit: &mut emit };
        m.exec(line, &mut scratch[..], &mut out);
        put(b"\n");
    }
    0
}
