import HH.Proofs.Obs
import HH.Props.C01
import HH.Props.EndToEnd
/-!
# C07 — Default-constructed hashers are the zero-key HighwayHash

The model's `default` of each back end is the transcription of the (repaired) `impl Default`:
`Self::new(Key::default())` / `force_new(Key::default())`.  On the pinned tree a66ef5b the derived
`Default` produced an all-zero state (`HH.C07.legacy_default_ne`), which is the defect fixed by
commit acfa546; the correspondence check `ckpt(default)` vs model is what ties the model to the code.
-/
namespace HH.C07

theorem default_eq_new (b : Backend) : Hasher.default b = Hasher.new b V4.zero := by
  cases b <;> rfl

/-- every default hasher is observationally the zero-key HighwayHash -/
theorem default_hash (b : Backend) (h : Hasher) (hh : Hasher.default b = some h)
    (chunks : List (List (BitVec 8))) (w : Width) :
    (chunks.foldl Hasher.append h).finalize w
      = (chunks.foldl Hasher.append (Hasher.portable (P.new V4.zero))).finalize w := by
  have hb := Hasher.default_abs b h hh
  have hp := Hasher.new_abs .portable V4.zero (Hasher.portable (P.new V4.zero)) rfl
  exact (Hasher.obs_eq h _ hb.2 hp.2 (hb.1.trans hp.1.symm) chunks).1 w

theorem default_hash64_spec (d : List (BitVec 8)) : P.finalize64 (P.append P.default d) = Spec.hash64 V4.zero d :=
  C01.hash64_eq_spec V4.zero d

/-- headline, composed with C01/C05: a default-constructed hasher of ANY back end fed ANY chunking computes the
HighwayHash specification under the all-zero key, at all three widths — and its checkpoints are those of `new(0)` -/
theorem default_is_spec (b : Backend) (h : Hasher) (hh : Hasher.default b = some h)
    (chunks : List (List (BitVec 8))) (w : Width) :
    (chunks.foldl Hasher.append h).finalize w = EndToEnd.specDigest w V4.zero chunks.flatten ∧
    (chunks.foldl Hasher.append h).checkpoint = P.encodeAbs (absAppend (Spec.reset V4.zero, []) chunks.flatten) := by
  have hb := Hasher.default_abs b h hh
  have a := Hasher.foldl_append_abs chunks h hb.2
  constructor
  · rw [Hasher.finalize_abs _ w a.2, a.1, hb.1, EndToEnd.digestAbs_spec]
  · rw [Hasher.checkpoint_abs _ a.2, a.1, hb.1]

/-- non-vacuity: every back end has a default in the model -/
example : ∀ b : Backend, ∃ h, Hasher.default b = some h := by
  intro b; cases b <;> exact ⟨_, rfl⟩

/-- the derived `Default` of the pinned tree: all-zero lanes, which skips the key schedule -/
def legacyDefault : P.State := ⟨⟨V4.zero, V4.zero, V4.zero, V4.zero⟩, Pkt.default⟩

/-- the defect, demonstrated in the kernel: the all-zero state hashes the empty input to 0, the
zero-key hasher to 0x7035da75b9d54469 -/
theorem legacy_default_ne :
    P.finalize64 legacyDefault = 0#64 ∧ P.finalize64 P.default = 0x7035da75b9d54469#64 := by
  decide +kernel

end HH.C07
