/-!
# HH.Basic — words, bytes, lanes, little-endian conversions, packetisation

Core-only (no Mathlib) so that everything here links into the `driver` executable.
Bytes are `BitVec 8`, lanes `BitVec 64`, byte strings `List (BitVec 8)`.
-/
namespace HH

/-- four 64-bit lanes (`[u64; 4]` in the Rust code) -/
structure V4 where
  l0 : BitVec 64
  l1 : BitVec 64
  l2 : BitVec 64
  l3 : BitVec 64
deriving DecidableEq, Repr, Inhabited

namespace V4
@[inline] def map (f : BitVec 64 → BitVec 64) (a : V4) : V4 := ⟨f a.l0, f a.l1, f a.l2, f a.l3⟩
@[inline] def zipWith (f : BitVec 64 → BitVec 64 → BitVec 64) (a b : V4) : V4 :=
  ⟨f a.l0 b.l0, f a.l1 b.l1, f a.l2 b.l2, f a.l3 b.l3⟩
@[inline] def add (a b : V4) : V4 := zipWith (· + ·) a b
@[inline] def xor (a b : V4) : V4 := zipWith (· ^^^ ·) a b
def toList (a : V4) : List (BitVec 64) := [a.l0, a.l1, a.l2, a.l3]
def zero : V4 := ⟨0, 0, 0, 0⟩
end V4

/-- the 1024-bit HighwayHash state (`v0, v1, mul0, mul1`) -/
structure St where
  v0 : V4
  v1 : V4
  mul0 : V4
  mul1 : V4
deriving DecidableEq, Repr, Inhabited

/-- `u64::from_le_bytes([x[0], …, x[7]])`; missing bytes read as 0 (never happens on valid paths). -/
def le64 (bs : List (BitVec 8)) : BitVec 64 :=
  bs.getD 7 0 ++ bs.getD 6 0 ++ bs.getD 5 0 ++ bs.getD 4 0 ++
  bs.getD 3 0 ++ bs.getD 2 0 ++ bs.getD 1 0 ++ bs.getD 0 0

/-- `u32::from_le_bytes` -/
def le32 (bs : List (BitVec 8)) : BitVec 32 :=
  bs.getD 3 0 ++ bs.getD 2 0 ++ bs.getD 1 0 ++ bs.getD 0 0

/-- `u64::to_le_bytes` -/
def toLE64 (x : BitVec 64) : List (BitVec 8) :=
  [x.extractLsb' 0 8, x.extractLsb' 8 8, x.extractLsb' 16 8, x.extractLsb' 24 8,
   x.extractLsb' 32 8, x.extractLsb' 40 8, x.extractLsb' 48 8, x.extractLsb' 56 8]

/-- `u32::to_le_bytes` -/
def toLE32 (x : BitVec 32) : List (BitVec 8) :=
  [x.extractLsb' 0 8, x.extractLsb' 8 8, x.extractLsb' 16 8, x.extractLsb' 24 8]

def zeros (n : Nat) : List (BitVec 8) := List.replicate n 0

/-- `chunks_exact(32)` loop followed by `.remainder()`: fold `upd` over the whole 32-byte packets of
`d`, return the new state and the unconsumed tail (`< 32` bytes when `d.length ≤ fuel`). -/
def absorb {S : Type} (upd : S → List (BitVec 8) → S) : Nat → S → List (BitVec 8) → S × List (BitVec 8)
  | 0, s, d => (s, d)
  | f+1, s, d => if 32 ≤ d.length then absorb upd f (upd s (d.take 32)) (d.drop 32) else (s, d)

end HH
