import HH.Hex
import HH.Machine
import HH.IntrinEval
/-!
# Driver — the model behind the line protocol

One operation per input line, one canonical result per output line.  The Rust runners
(`/verif/harness/*`) execute the same lines on the real crate; `bin/check` diffs the streams.
Usage: `driver "<cfg line printed by the runner's --info>"`.
-/
open HH

def parseSel? : String → Option Sel
  | "portable" => some (.only .portable)
  | "sse" => some (.only .sse)
  | "avx" => some (.only .avx)
  | "neon" => some (.only .neon)
  | "wasm" => some (.only .wasm)
  | "auto" => some .auto
  | _ => none

def parseKey? (a b c d : String) : Option V4 := do
  pure ⟨← parseU64? a, ← parseU64? b, ← parseU64? c, ← parseU64? d⟩

def parseWidth? : String → Option Width
  | "64" => some .w64 | "128" => some .w128 | "256" => some .w256 | _ => none

def digestHex : Digest → String
  | .d64 x => u64Hex x
  | .d128 x => u64Hex x.1 ++ u64Hex x.2
  | .d256 x => u64Hex x.1 ++ u64Hex x.2.1 ++ u64Hex x.2.2.1 ++ u64Hex x.2.2.2

def outStr : Out → String
  | .ok => "ok" | .none => "none" | .nohandle => "nohandle"
  | .n k => s!"n={k}"
  | .bytes b => bytesHex b
  | .digest d => digestHex d
  | .tag true t => s!"tag={t}"
  | .tag false t => s!"backend={t}"


/-- target facts the provided trait methods depend on (`to_ne_bytes`, `usize`), from the cfg line -/
def parseTarget (s : String) : StdT.Target :=
  let kv := (s.splitOn " ").filterMap fun t => match t.splitOn "=" with
    | [k, v] => some (k, v) | _ => none
  let get (k : String) : String := ((kv.find? (·.1 == k)).map (·.2)).getD ""
  { bigEndian := get "endian" == "big", ptrBytes := (get "ptr").toNat?.getD 64 / 8 }

def parseIntKind? : String → Option StdT.IntKind
  | "u8" | "i8" => some .w8 | "u16" | "i16" => some .w16 | "u32" | "i32" => some .w32
  | "u64" | "i64" => some .w64 | "u128" | "i128" => some .w128 | "usize" | "isize" => some .wptr
  | _ => none

/-- u32 values travel as little-endian groups of four bytes in the protocol -/
def groupU32 : List (BitVec 8) → List Nat
  | a :: b :: c :: d :: rest => (a.toNat + 256 * b.toNat + 65536 * c.toNat + 16777216 * d.toNat) :: groupU32 rest
  | _ => []

/-- the value grammar of the `hashone` / `hashrec` / `hwval` ops -/
def parseVal? (tok : String) : Option StdT.Val :=
  match tok.splitOn ":" with
  | ["unit"] => some .unit
  | ["bool", "0"] => some (.bool false)
  | ["bool", "1"] => some (.bool true)
  | ["char", x] => (parseHexNat? x).map .char
  | ["bytes", x] => (parseBytes? x).map .bytes
  | ["str", x] => (parseBytes? x).map .str
  | ["u32s", x] => do
    let b ← parseBytes? x
    if b.length % 4 ≠ 0 then none else pure (.u32s (groupU32 b))
  | ["pss", a, b] => do pure (.pair (.str (← parseBytes? a)) (.str (← parseBytes? b)))
  | ["pib", k, v, b] => do pure (.pair (.int (← parseIntKind? k) (← parseHexNat? v)) (.bytes (← parseBytes? b)))
  | ["ou64", "none"] => some (.opt none)
  | ["ou64", x] => (parseHexNat? x).map fun v => .opt (some (.int .w64 v))
  | ["obytes", "none"] => some (.opt none)
  | ["obytes", x] => (parseBytes? x).map fun b => .opt (some (.bytes b))
  | [k, x] => do pure (.int (← parseIntKind? k) (← parseHexNat? x))
  | _ => none

def sharedKeys : List V4 :=
  [⟨1, 2, 3, 4⟩, ⟨0, 0, 0, 0⟩,
   ⟨0x0706050403020100, 0x0F0E0D0C0B0A0908, 0x1716151413121110, 0x1F1E1D1C1B1A1918⟩,
   ⟨0xdbe6d5d5fe4cce2f ^^^ 0xFFFFFFF0, 0xFFFFFFFFFFFFFFFF, 0x8000000000000000, 0x00000000FFFFFFFF⟩]

def writesStr (ws : List (List (BitVec 8))) : String :=
  if ws.isEmpty then "nowrites" else "|".intercalate (ws.map bytesHex)

/-- `none` = malformed line; `some (none, s)` = answered by the driver itself with `s` -/
def parseOp (env : Env) (tgt : StdT.Target) (line : String) : Option (Option Op × String) :=
  match line.trimAscii.toString.splitOn " " with
  | ["reset"] => some (some .reset, "")
  | ["shone", slot, v] => do
    -- `hash_one` on one of the process-wide shared builders (fixed keys, see harness/common/exec.rs)
    let k ← (sharedKeys[slot.toNat?.getD 99]?); let val ← parseVal? v
    pure (some (.hashOne k (StdT.writes tgt val)), "")
  | ["shbh", hs, slot] => do
    let h ← hs.toNat?; let k ← (sharedKeys[slot.toNat?.getD 99]?)
    pure (some (.new h .auto false k), "")
  | ["writefmtx", hs, _mode, _arg, exp] => do
    -- `write!(hasher, <format string of mode>, args..)`: the provided `io::Write::write_fmt` makes `write` calls whose
    -- concatenation is the formatted text `exp` (computed by the generator from the std formatting rules)
    let h ← hs.toNat?; let d ← parseBytes? exp
    if !env.cfg.std then pure (none, "unsupported") else pure (some (.writes h [d]), "")
  | ["hashone", a, b, c, d, v] => do
    let k ← parseKey? a b c d; let val ← parseVal? v
    pure (some (.hashOne k (StdT.writes tgt val)), "")
  | ["hashrec", v] => do
    let val ← parseVal? v
    pure (none, writesStr (StdT.writes tgt val))
  | "iowritev" :: hs :: bufs => do
    let h ← hs.toNat?
    if bufs.isEmpty || bufs.length > 4 then none else
    let bs ← bufs.mapM parseBytes?
    if !env.cfg.std then pure (none, "unsupported")
    -- `write_vectored` repeated until everything is consumed: the bytes of all buffers, in order
    else pure (some (.writes h [bs.flatten]), "")
  | [op, hs, sel, a, b, c, d] =>
    if op == "new" || op == "fnew" then do
      let h ← hs.toNat?; let s ← parseSel? sel; let k ← parseKey? a b c d
      pure (some (.new h s (op == "fnew") k), "")
    else none
  | ["bh", hs, a, b, c, d] => do
    -- `HighwayBuildHasher::new(key).build_hasher()` is `HighwayHasher::new(key)` (src/hash.rs)
    let h ← hs.toNat?; let k ← parseKey? a b c d
    pure (some (.new h .auto false k), "")
  | ["bhd", hs] => do
    let h ← hs.toNat?
    pure (some (.new h .auto false V4.zero), "")
  | ["default", hs, sel] => do
    let h ← hs.toNat?; let s ← parseSel? sel
    pure (some (.default h s), "")
  | [op, hs, sel, x] =>
    if op == "restore" || op == "frestore" then do
      let h ← hs.toNat?; let s ← parseSel? sel; let c ← parseBytes? x
      if c.length ≠ 164 then none else pure (some (.restore h s (op == "frestore") c), "")
    else if op == "restoreh" || op == "frestoreh" then do
      let h ← hs.toNat?; let s ← parseSel? sel; let j ← x.toNat?
      pure (some (.restoreH h s (op == "frestoreh") j), "")
    else none
  | [op, hs, x] =>
    if op == "hwval" then do
      let h ← hs.toNat?; let val ← parseVal? x
      pure (some (.writes h (StdT.writes tgt val)), "")
    else if op == "writefmt" then do
      let h ← hs.toNat?; let d ← parseBytes? x
      if !env.cfg.std then pure (none, "unsupported") else pure (some (.writes h [d]), "")
    else if op == "clone" || op == "clonefrom" then do
      let h ← hs.toNat?; let j ← x.toNat?
      pure (some (.clone h j), "")
    else if op == "fin" then do
      let h ← hs.toNat?; let w ← parseWidth? x
      pure (some (.fin h w), "")
    else if op == "append" || op == "hwrite" then do
      let h ← hs.toNat?; let d ← parseBytes? x
      pure (some (.append h d), "")
    else if op == "iowrite" || op == "iocopy" || op == "writeall" then do
      let h ← hs.toNat?; let d ← parseBytes? x
      if !env.cfg.std then pure (none, "unsupported")
      else if op == "writeall" then pure (some (.append h d), "")
      else pure (some (.ioWrite h d), "")
    else none
  | [op, hs] => do
    let h ← hs.toNat?
    if op == "ckpt" then pure (some (.ckpt h), "")
    else if op == "finish" then pure (some (.finish h), "")
    else if op == "flush" then (if env.cfg.std then pure (some (.flush h), "") else pure (none, "unsupported"))
    else if op == "drop" then pure (some (.drop h), "")
    else if op == "debug" || op == "debugx" then pure (some (.debug h), "")
    else none
  | [op, sel, wd, a, b, c, d, x] =>
    if op == "hash" || op == "fhash" then do
      let s ← parseSel? sel; let w ← parseWidth? wd; let k ← parseKey? a b c d; let data ← parseBytes? x
      pure (some (.hash s (op == "fhash") w k data), "")
    else if op == "spec" then none
    else none
  | _ => none

def specLine (line : String) : Option String :=
  match line.trimAscii.toString.splitOn " " with
  | ["spec", wd, a, b, c, d, x] => do
    let k ← parseKey? a b c d; let data ← parseBytes? x
    if wd == "64" then pure (u64Hex (Spec.hash64 k data))
    else if wd == "128" then (let r := Spec.hash128 k data; pure (u64Hex r.1 ++ u64Hex r.2))
    else if wd == "256" then (let r := Spec.hash256 k data; pure (u64Hex r.1 ++ u64Hex r.2.1 ++ u64Hex r.2.2.1 ++ u64Hex r.2.2.2))
    else none
  | _ => none

/-- C10 oracle queries: is the observed tag a permitted back end in this configuration? -/
def queryLine (env : Env) (line : String) : Option String :=
  match line.trimAscii.toString.splitOn " " with
  | ["permitted", t] =>
    match t.toNat? >>= Backend.ofTag? with
    | some b => some (if decide (Permitted env.cfg env.cpu b) then "yes" else "no")
    | none => some "no"
  | ["nosimd"] => some (if decide (NoSimdPermitted env.cfg env.cpu) then "yes" else "no")
  | _ => none

def stepLine (env : Env) (tgt : StdT.Target) (w : World) (line : String) : World × String :=
  if line.trimAscii.toString == "" then (w, "") else
  -- `hashN(self, data)` on a live hasher is the trait's provided `append` + `finalizeN` (src/traits.rs)
  match (match line.trimAscii.toString.splitOn " " with
    | ["hashfin", hs, wd, x] => (do
        let h ← hs.toNat?; let wd ← parseWidth? wd; let d ← parseBytes? x
        pure (h, wd, d) : Option (Nat × Width × List (BitVec 8)))
    | _ => none) with
  | some (h, wd, d) =>
    match w.get h with
    | none => (w, "nohandle")
    | some _ =>
      let (w1, _) := step env w (.append h d)
      let (w2, o) := step env w1 (.fin h wd)
      (w2, outStr o)
  | none =>
  match ((specLine line).orElse (fun _ => queryLine env line)).orElse
      (fun _ => if env.cfg.arch == .x86_64 && env.cpu.avx2 then intrinLine (line.trimAscii.toString.splitOn " ")
                else if env.cfg.arch == .wasmSimd then intrinLineWasm (line.trimAscii.toString.splitOn " ")
                else if env.cfg.arch == .aarch64 then intrinLineNeon (line.trimAscii.toString.splitOn " ")
                else (if (line.trimAscii.toString.splitOn " ").headD "" == "intrin" then some "none" else none)) with
  | some s => (w, s)
  | none =>
    match parseOp env tgt line with
    | none => (w, "bad-op")
    | some (none, s) => (w, s)
    | some (some op, _) =>
      -- `NeonHash` implements neither `core::hash::Hasher` nor `std::io::Write` (src/aarch64.rs has
      -- no impl_write!/impl_hasher!): the runner reports `unsupported` for trait calls on it
      let tok := (line.trimAscii.toString.splitOn " ").headD ""
      let viaTrait := tok == "hwrite" || tok == "iowrite" || tok == "writeall" || tok == "iocopy" || tok == "finish" || tok == "flush" ||
        tok == "hwval" || tok == "iowritev" || tok == "writefmt" || tok == "writefmtx"
      let hnd : Option Nat := match op with
        | .append h _ | .ioWrite h _ | .finish h | .flush h | .writes h _ => some h
        | _ => none
      match viaTrait, hnd.bind (World.get w) with
      | true, some x => if !x.auto && x.h.backend == .neon then (w, "unsupported") else
          let (w', o) := step env w op
          (w', outStr o)
      | _, _ =>
        let (w', o) := step env w op
        (w', outStr o)

partial def loop (env : Env) (tgt : StdT.Target) (h : IO.FS.Stream) (out : IO.FS.Stream) (w : World) : IO Unit := do
  let line ← h.getLine
  if line.isEmpty then return ()
  if line.startsWith "#" then
    out.putStrLn line.trimAscii.toString
    loop env tgt h out w
  else
    let (w', o) := stepLine env tgt w line
    out.putStrLn o
    loop env tgt h out w'

/-- parse the `cfg k=v …` line printed by a runner's `--info` -/
def parseEnv (s : String) : Env :=
  let kv := (s.splitOn " ").filterMap fun t => match t.splitOn "=" with
    | [k, v] => some (k, v) | _ => none
  let get (k : String) : String := ((kv.find? (·.1 == k)).map (·.2)).getD ""
  let arch : Arch := match get "arch" with
    | "x86_64" => .x86_64
    | "aarch64" => .aarch64
    | "wasm32" => if get "simd128" == "1" then .wasmSimd else .other
    | _ => .other
  { cfg := { arch := arch, std := get "std" == "1", tfSse41 := get "tf_sse41" == "1", tfAvx2 := get "tf_avx2" == "1" },
    cpu := { sse41 := get "cpu_sse41" == "1", avx2 := get "cpu_avx2" == "1" } }

def main (args : List String) : IO Unit := do
  let env : Env := match args with
    | [a] => parseEnv a
    | _ => { cfg := { arch := .other, std := true, tfSse41 := false, tfAvx2 := false }, cpu := { sse41 := false, avx2 := false } }
  let tgt : StdT.Target := match args with
    | [a] => parseTarget a
    | _ => { bigEndian := false, ptrBytes := 8 }
  let stdin ← IO.getStdin
  let stdout ← IO.getStdout
  loop env tgt stdin stdout []
