import HH.Props.FactsLib
/-!
# C16 — the portable path contains no unsafe code in any configuration

The property quantifies over program text and cfg combinations, so the object of the theorems is
`HH.Facts.facts`, regenerated from `/repo/src` by the `syn` translator on every run (all cfg
branches, macro bodies as token trees).  The theorems are decided by the kernel on the *current*
fact table; they are cfg-independent because the translator does not evaluate cfg.
-/
namespace HH.C16
open HH.Facts HH.FactsLib

/-- no `unsafe` token (block, fn, impl, trait, extern, inside macro bodies) in any portable file -/
theorem no_unsafe : (facts.all fun f => !(inP f && f.kind == "unsafe")) = true := by decide +kernel

theorem no_unsafe' (f : Fact) (hf : f ∈ facts) (hp : inP f = true) : f.kind ≠ "unsafe" := by
  have := List.all_eq_true.mp no_unsafe f hf
  intro hk; simp [hp, hk] at this

/-- no lint attribute of a portable file mentions `unsafe_code` (directly or inside `cfg_attr`) except
to deny or forbid it: nothing re-allows unsafe code -/
def strictUnsafeLints : List String :=
  ["inner deny(unsafe_code)", "inner forbid(unsafe_code)", "outer deny(unsafe_code)", "outer forbid(unsafe_code)"]
theorem no_lint_override :
    (facts.all fun f => !(inP f && (f.kind == "lint" || f.kind == "crate_attr") && has f.detail "unsafe_code")
      || strictUnsafeLints.contains f.detail || f.detail == "#![deny(unsafe_code)]" || f.detail == "#![forbid(unsafe_code)]") = true := by
  decide +kernel

/-- the crate root denies `unsafe_code` for every module that does not opt out -/
theorem lib_denies_unsafe :
    (facts.any fun f => f.file == "lib.rs" && f.kind == "lint" && f.detail == "inner deny(unsafe_code)" && f.cfg == "") = true := by
  decide +kernel

/-- no attribute that needs `unsafe` semantics and no foreign block in portable files -/
theorem no_unsafe_attr_or_extern :
    (facts.all fun f => !(inP f && (f.kind == "unsafe_attr" || f.kind == "extern_block"))) = true := by
  decide +kernel

/-- module closure, computed on the module graph of the current tree: every source file reachable from the
files `PortableHash` is written in — through `use` items, expression / type / macro-body paths into the
crate (`crate::m::f(..)` calls included), `super::` paths, root-level re-exports resolved to the module
they come from, and submodule declarations; `#[cfg(test)]` items excluded, every cfg branch included — is
free of `unsafe` tokens, unsafe attributes, foreign blocks and of lint attributes
that re-allow `unsafe_code`.  A new helper module with unsafe code called from the portable path (under
whatever cfg) falsifies this theorem; a harmless new import of an unsafe-free module does not. -/
theorem module_closure :
    (facts.all fun f => !(portableClosure.contains f.file) ||
      !(f.kind == "unsafe" || f.kind == "unsafe_attr" || f.kind == "extern_block" ||
        ((f.kind == "lint" || f.kind == "crate_attr") && has f.detail "unsafe_code" && !strictUnsafeLints.contains f.detail))) = true := by
  decide +kernel

/-- on the current tree the closure is exactly the five files the portable hasher is written in (kept as a
separate, purely informative theorem: a harmless new unsafe-free module changes it without any alarm,
because the check only requires `module_closure`) -/
example : coreFiles.all (portableClosure.contains ·) = true := by decide +kernel

/-- macros invoked by the portable hasher's files are never ones defined in a non-portable file of
the crate (such as `x86/macros.rs`): they are the crate's own `impl_write!`/`impl_hasher!` (defined in
macros.rs, free of unsafe tokens by `no_unsafe`) or macros of core/std -/
theorem macro_closure :
    (facts.all fun m => !(coreFiles.contains m.file && m.kind == "macro") ||
      facts.all fun d => !(d.kind == "macro_def" && d.detail == m.detail && !inP d)) = true := by
  decide +kernel

/-- no `#[path]` redirection: the modules of the crate root are the files they name -/
theorem no_path_redirect :
    (facts.all fun f => !(f.kind == "mod" && has f.detail "path=")) = true := by
  decide +kernel

/-- non-vacuity: the table is not empty and does contain unsafe facts elsewhere -/
theorem table_nontrivial : (facts.any fun f => f.kind == "unsafe" && f.file == "builder.rs") = true ∧ facts.length > 500 := by
  decide +kernel

end HH.C16
