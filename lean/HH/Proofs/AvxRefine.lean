import HH.Avx
import HH.Proofs.X86Lemmas
import HH.Proofs.PortableSpec
import Mathlib.Tactic.IntervalCases
/-!
# The AVX2 model refines the portable model (step lemmas, valid for ALL register states)
-/
namespace HH
namespace Avx
open X86

theorem shufImm_eq : shufImm = 177 := rfl

theorem r256ToV4_map2_add (a b : R256) : r256ToV4 (add256_epi64 a b) = V4.add (r256ToV4 a) (r256ToV4 b) := by
  simp [r256ToV4, add256_epi64, R256.map2, V4.add, V4.zipWith]

theorem r256ToV4_xor (a b : R256) : r256ToV4 (xor256 a b) = V4.xor (r256ToV4 a) (r256ToV4 b) := by
  simp [r256ToV4, xor256, R256.map2, V4.xor, V4.zipWith]

theorem r256ToV4_mul (a b : R256) :
    r256ToV4 (mulLow32 a (shrBy32 b)) = V4.zipWith P.mul32 (r256ToV4 a) (r256ToV4 b) := by
  simp [r256ToV4, mulLow32, shrBy32, mul256_epu32, srli256_epi64, R256.map2, R256.map, mul_epu32_srli, V4.zipWith]

theorem zipperMerge_eq (v : R256) :
    zipperMerge v =
      ⟨mk (P.zipHi (hi64 v.lo) (lo64 v.lo)) (P.zipLo (hi64 v.lo) (lo64 v.lo)),
       mk (P.zipHi (hi64 v.hi) (lo64 v.hi)) (P.zipLo (hi64 v.hi) (lo64 v.hi))⟩ := by
  have h : set256_epi64x 0x070806090D0A040B#64 0x000F010E05020C03#64 0x070806090D0A040B#64 0x000F010E05020C03#64
      = ⟨set_epi64x 0x070806090D0A040B#64 0x000F010E05020C03#64, set_epi64x 0x070806090D0A040B#64 0x000F010E05020C03#64⟩ := rfl
  simp only [zipperMerge, shuffle256_epi8, R256.map2, h, zipper_shuffle]

theorem update_refines (r : Regs) (packet : R256) :
    toPortable (update r packet) = P.update (toPortable r) (r256ToV4 packet) := by
  simp only [update, toPortable, P.update, zipperMerge_eq, P.zipperAdd, r256ToV4, add256_epi64, xor256, mulLow32, shrBy32,
    mul256_epu32, srli256_epi64, R256.map2, R256.map, mul_epu32_srli, V4.add, V4.xor, V4.zipWith, lo64_add, hi64_add,
    lo64_xor, hi64_xor, lo64_mk, hi64_mk]

theorem loadu_lanes (pkt : List (BitVec 8)) : r256ToV4 (loadu_si256 pkt 0) = P.dataToLanes pkt := by
  simp [r256ToV4, loadu_si256, loadu_si128, ofBytes16, P.dataToLanes]

theorem updPacket_refines (r : Regs) (pkt : List (BitVec 8)) :
    toPortable (updPacket r pkt) = P.updPacket (toPortable r) pkt := by
  simp only [updPacket, update_refines, loadu_lanes, P.updPacket]

theorem permute_eq (v : R256) : permute v = ⟨shuffle_epi32 v.hi 177, shuffle_epi32 v.lo 177⟩ := by
  have i0 : (lane32 (mk 0x0000000600000007#64 0x0000000400000005#64) 0).toNat % 8 = 5 := by decide
  have i1 : (lane32 (mk 0x0000000600000007#64 0x0000000400000005#64) 1).toNat % 8 = 4 := by decide
  have i2 : (lane32 (mk 0x0000000600000007#64 0x0000000400000005#64) 2).toNat % 8 = 7 := by decide
  have i3 : (lane32 (mk 0x0000000600000007#64 0x0000000400000005#64) 3).toNat % 8 = 6 := by decide
  have i4 : (lane32 (mk 0x0000000200000003#64 0x0000000000000001#64) 0).toNat % 8 = 1 := by decide
  have i5 : (lane32 (mk 0x0000000200000003#64 0x0000000000000001#64) 1).toNat % 8 = 0 := by decide
  have i6 : (lane32 (mk 0x0000000200000003#64 0x0000000000000001#64) 2).toNat % 8 = 3 := by decide
  have i7 : (lane32 (mk 0x0000000200000003#64 0x0000000000000001#64) 3).toNat % 8 = 2 := by decide
  simp only [permute, permutevar8x32_epi32, set256_epi64x, R256.lane32, Nat.reduceLT, ↓reduceIte, Nat.reduceSub, i0, i1, i2, i3, i4, i5, i6, i7,
    shuffle_epi32, Nat.reduceShiftRight, Nat.reduceMod]

theorem permute_lanes (v : R256) : r256ToV4 (permute v) = P.permute (r256ToV4 v) := by
  simp only [permute_eq, shuffle_epi32_rot, r256ToV4, P.permute, lo64_mk, hi64_mk]


theorem permuteAndUpdate_refines (r : Regs) :
    toPortable (permuteAndUpdate r) = P.permuteAndUpdate (toPortable r) := by
  simp only [permuteAndUpdate, update_refines, P.permuteAndUpdate, permute_lanes]
  rfl

theorem rounds_refines (n : Nat) (r : Regs) : toPortable (rounds n r) = P.rounds n (toPortable r) := by
  induction n generalizing r with
  | zero => rfl
  | succ n ih => simp only [rounds, P.rounds, ih, permuteAndUpdate_refines]

theorem r256_roundtrip (v : V4) : r256ToV4 (v4ToR256 v) = v := by
  simp [r256ToV4, v4ToR256, set256_epi64x]

theorem v4_roundtrip (r : R256) : v4ToR256 (r256ToV4 r) = r := by
  simp [r256ToV4, v4ToR256, set256_epi64x, mk_lo_hi]

theorem toPortable_fromPortable (p : St) : toPortable (fromPortable p) = p := by
  simp [toPortable, fromPortable, r256_roundtrip]

theorem fromPortable_toPortable (r : Regs) : fromPortable (toPortable r) = r := by
  simp [toPortable, fromPortable, v4_roundtrip]

theorem new_refines (k : V4) : toPortable (new k).r = (P.new k).st := by
  simp [new, toPortable, P.new, rotateBy32, shufImm_eq, shuffle256_epi32, R256.map, shuffle_epi32_rot, mul0Init, mul1Init,
    P.init0, P.init1, V4.zipWith, V4.map, r256ToV4, set256_epi64x, xor256, R256.map2]
  refine ⟨⟨?_, ?_, ?_, ?_⟩, ⟨?_, ?_, ?_, ?_⟩⟩ <;> exact BitVec.xor_comm _ _

/-! ### remainder: every pending count 0..31, all byte values -/

theorem lane32_set (e3 e2 e1 e0 : BitVec 32) :
    lane32 (set_epi32 e3 e2 e1 e0) 0 = e0 ∧ lane32 (set_epi32 e3 e2 e1 e0) 1 = e1 ∧ lane32 (set_epi32 e3 e2 e1 e0) 2 = e2 ∧ lane32 (set_epi32 e3 e2 e1 e0) 3 = e3 :=
  lane32_mk32 e3 e2 e1 e0

theorem sizeLane' (n : Nat) (h : n < 32) : lane32 (cvtsi64_si128 (BitVec.ofNat 64 n)) 0 = BitVec.ofNat 32 n := by
  simp only [cvtsi64_si128, lane32_0, lo64_mk]
  apply BitVec.eq_of_toNat_eq
  simp [BitVec.toNat_setWidth, BitVec.toNat_ofNat]

set_option maxRecDepth 100000 in
set_option maxHeartbeats 16000000 in
theorem remainder_refines_fn (n : Nat) (h : n < 32) (f : Fin 32 → BitVec 8) :
    r256ToV4 (remainder (List.ofFn f) n) = P.dataToLanes (P.remainder ((List.ofFn f).take n)) := by
  have s0 := fun x => lane32_set1 x 0 (by decide)
  have s1 := fun x => lane32_set1 x 1 (by decide)
  have s2 := fun x => lane32_set1 x 2 (by decide)
  have s3 := fun x => lane32_set1 x 3 (by decide)
  interval_cases n <;>
  (simp [remainder, P.remainder, P.dataToLanes, r256ToV4, unorderedLoad3, zeros, List.ofFn_succ, List.replicate, List.set, List.zipWith,
    loadu_si128, broadcastd_epi32, castsi256_si128, castsi128_si256, inserti128_si256, cmpgt_epi32, cmpgt32, maskload_epi32, maskLane,
    s0, s1, s2, s3, sizeLane' _ h, (lane32_set _ _ _ _).1, (lane32_set _ _ _ _).2.1, (lane32_set _ _ _ _).2.2.1, (lane32_set _ _ _ _).2.2.2,
    (lane32_mk32 _ _ _ _).1, (lane32_mk32 _ _ _ _).2.1, (lane32_mk32 _ _ _ _).2.2.1, (lane32_mk32 _ _ _ _).2.2.2]
   try simp only [ofBytes16_mk32, insert3, lo64_mk32, hi64_mk32, le64_join, List.drop_succ_cons, List.drop_zero]
   try simp only [cvtsi64_si128, lo64_mk, hi64_mk, load3_1, load3_2, load3_3]
   try simp [le32_cons4, le32_zero4, and_ones32, join32_zero])

theorem list_eq_ofFn (buf : List (BitVec 8)) (h : buf.length = 32) :
    buf = List.ofFn (fun i : Fin 32 => buf[i.val]'(by omega)) := by
  apply List.ext_getElem
  · simp [h]
  · intro i h1 h2; rw [List.getElem_ofFn]

theorem remainder_refines (buf : List (BitVec 8)) (n : Nat) (hb : buf.length = 32) (h : n < 32) :
    r256ToV4 (remainder buf n) = P.dataToLanes (P.remainder (buf.take n)) := by
  rw [list_eq_ofFn buf hb]
  exact remainder_refines_fn n h _

end Avx
end HH

namespace HH
namespace Avx
open X86

/-! ### length injection and rotation (variable per-lane shifts) -/

theorem size256_eq (n : Nat) :
    broadcastd_epi32 (cvtsi64_si128 (BitVec.ofNat 64 n)) =
      ⟨set1_epi32 (lane32 (cvtsi64_si128 (BitVec.ofNat 64 n)) 0), set1_epi32 (lane32 (cvtsi64_si128 (BitVec.ofNat 64 n)) 0)⟩ := rfl

theorem vsize_add (v : BitVec 128) (n : Nat) (h : n < 32) :
    add_epi64 v (set1_epi32 (lane32 (cvtsi64_si128 (BitVec.ofNat 64 n)) 0)) =
      mk (hi64 v + ((BitVec.ofNat 64 n <<< 32) + BitVec.ofNat 64 n)) (lo64 v + ((BitVec.ofNat 64 n <<< 32) + BitVec.ofNat 64 n)) := by
  apply ext128
  · simp only [lo64_add, lo64_mk]; congr 1
    interval_cases n <;> decide
  · simp only [hi64_add, hi64_mk]; congr 1
    interval_cases n <;> decide

theorem sizeLane (n : Nat) (h : n < 32) : lane32 (cvtsi64_si128 (BitVec.ofNat 64 n)) 0 = BitVec.ofNat 32 n := sizeLane' n h

theorem tipLane : lane32 (cvtsi32_si128 32) 0 = 32#32 := by decide

theorem rotate_lanes (v : BitVec 128) (n : Nat) (h : n < 32) :
    or_si128 (sllv_epi32 v (set1_epi32 (lane32 (cvtsi64_si128 (BitVec.ofNat 64 n)) 0)))
             (srlv_epi32 v (sub_epi32 (set1_epi32 (lane32 (cvtsi32_si128 32) 0)) (set1_epi32 (lane32 (cvtsi64_si128 (BitVec.ofNat 64 n)) 0))))
      = mk (P.rot32Lane n (hi64 v)) (P.rot32Lane n (lo64 v)) := by
  have hn : (BitVec.ofNat 32 n).toNat = n := by simp [BitVec.toNat_ofNat]; omega
  have hs : (32#32 - BitVec.ofNat 32 n).toNat = 32 - n := by
    simp [BitVec.toNat_sub, BitVec.toNat_ofNat]; omega
  have l0 := lane32_set1 (BitVec.ofNat 32 n) 0 (by decide)
  have l1 := lane32_set1 (BitVec.ofNat 32 n) 1 (by decide)
  have l2 := lane32_set1 (BitVec.ofNat 32 n) 2 (by decide)
  have l3 := lane32_set1 (BitVec.ofNat 32 n) 3 (by decide)
  have t0 := lane32_set1 (32#32) 0 (by decide)
  have t1 := lane32_set1 (32#32) 1 (by decide)
  have t2 := lane32_set1 (32#32) 2 (by decide)
  have t3 := lane32_set1 (32#32) 3 (by decide)
  by_cases h0 : n = 0
  · subst h0
    have h32 : (32 : Nat) > 31 := by decide
    have hz : mk32 (0 : BitVec 32) 0 0 0 = (0 : BitVec 128) := by decide
    simp only [sizeLane 0 h, tipLane, sllv_epi32, srlv_epi32, sub_epi32, sllv32, srlv32, l0, l1, l2, l3, t0, t1, t2, t3, lane32_mk32,
      hn, hs, Nat.sub_zero, h32, Nat.not_lt_zero, gt_iff_lt, ↓reduceIte, BitVec.shiftLeft_zero, mk32_lanes, rot32Lane_zero, mk_lo_hi, or_si128]
    rw [hz]; simp
  · have h1 : ¬ n > 31 := by omega
    have h2 : ¬ 32 - n > 31 := by omega
    simp only [sizeLane n h, tipLane, sllv_epi32, srlv_epi32, sub_epi32, sllv32, srlv32, l0, l1, l2, l3, t0, t1, t2, t3, lane32_mk32,
      hn, hs, h1, h2, ↓reduceIte, or_mk32]
    exact rot_mk32 v n h0 h


theorem updateRemainder_refines (x : State) (hb : x.buffer.buf.length = 32) (hi : x.buffer.idx < 32) :
    toPortable (updateRemainder x) =
      P.update (P.updateLanes (toPortable x.r) x.buffer.idx) (P.dataToLanes (P.remainder (x.buffer.buf.take x.buffer.idx))) := by
  simp only [updateRemainder, update_refines, remainder_refines _ _ hb hi, Pkt.len]
  congr 1
  simp only [toPortable, P.updateLanes, size256_eq, broadcastd_epi32, add256_epi64, sllv256_epi32, srlv256_epi32, sub256_epi32,
    or256, R256.map2, vsize_add _ _ hi, rotate_lanes _ _ hi, r256ToV4, lo64_mk, hi64_mk, V4.map]

/-! ### finalisation -/

theorem finalizeCommon_refines (n : Nat) (x : State) (hx : x.buffer.Inv) :
    toPortable (finalizeCommon n x) = P.finAbs n (toPortable x.r, x.buffer.asSlice) := by
  obtain ⟨hi, hb⟩ := hx
  have hl : (List.take x.buffer.idx x.buffer.buf).length = x.buffer.idx := by simp; omega
  simp only [finalizeCommon, rounds_refines, P.finAbs, Pkt.asSlice, hl, Pkt.isEmpty]
  by_cases h0 : x.buffer.idx = 0
  · simp [h0]
  · simp [h0, updateRemainder_refines x hb hi]

theorem modLane (xh xl ih il : BitVec 64) :
    il ^^^ (xl <<< 2) ^^^ 0 ^^^ (~~~(0 : BitVec 64) &&& (xl <<< 1)) ^^^ 0 = (P.moduleReduction xh xl ih il).1 ∧
    ih ^^^ (xh <<< 2) ^^^ (xl >>> 62) ^^^ (~~~((0xFFFFFFFFFFFFFFFF#64) <<< 63) &&& (xh <<< 1)) ^^^ (xl >>> 63) = (P.moduleReduction xh xl ih il).2 := by
  unfold P.moduleReduction
  constructor <;> bv_lsb

theorem modularReduction_refines (x init : R256) :
    r256ToV4 (modularReduction x init) =
      ⟨(P.moduleReduction (hi64 x.lo) (lo64 x.lo) (hi64 init.lo) (lo64 init.lo)).1,
       (P.moduleReduction (hi64 x.lo) (lo64 x.lo) (hi64 init.lo) (lo64 init.lo)).2,
       (P.moduleReduction (hi64 x.hi) (lo64 x.hi) (hi64 init.hi) (lo64 init.hi)).1,
       (P.moduleReduction (hi64 x.hi) (lo64 x.hi) (hi64 init.hi) (lo64 init.hi)).2⟩ := by
  have h62 : ¬ (62 : Nat) > 63 := by decide
  have h63 : ¬ (63 : Nat) > 63 := by decide
  have a := modLane (hi64 x.lo) (lo64 x.lo) (hi64 init.lo) (lo64 init.lo)
  have b := modLane (hi64 x.hi) (lo64 x.hi) (hi64 init.hi) (lo64 init.hi)
  simp only [modularReduction, andNot, andnot256, xor256, add256_epi64, srli256_epi64, slli256_epi64, slli256_si256, cmpeq256_epi64,
    unpacklo256_epi64, setzero256, R256.map2, R256.map, r256ToV4, lo64_xor, hi64_xor, lo64_unpacklo, hi64_unpacklo, lo64_zero, hi64_zero,
    lo64_andnot, hi64_andnot, lo64_slli _ _ h63, hi64_slli _ _ h63, lo64_slli8, hi64_slli8, lo64_cmpeq_self, hi64_cmpeq_self,
    lo64_srli _ _ h62, hi64_srli _ _ h62, lo64_srli _ _ h63, hi64_srli _ _ h63, lo64_add, hi64_add, add_self_shl, shl1_shl1,
    BitVec.zero_shiftLeft, V4.mk.injEq]
  exact ⟨a.1, a.2, b.1, b.2⟩

theorem finalize64_refines (x : State) (hx : x.buffer.Inv) :
    finalize64 x = P.out64 (P.finAbs 4 (toPortable x.r, x.buffer.asSlice)) := by
  rw [← finalizeCommon_refines 4 x hx]
  simp only [finalize64, storel_epi64, castsi256_si128, add256_epi64, R256.map2, lo64_add, P.out64, toPortable, r256ToV4]
  ac_rfl

theorem finalize128_refines (x : State) (hx : x.buffer.Inv) :
    finalize128 x = P.out128 (P.finAbs 6 (toPortable x.r, x.buffer.asSlice)) := by
  rw [← finalizeCommon_refines 6 x hx]
  simp only [finalize128, storeu_si128, castsi256_si128, extracti128_si256, add256_epi64, R256.map2, lo64_add, hi64_add,
    P.out128, toPortable, r256ToV4, Prod.mk.injEq]
  constructor <;> simp <;> ac_rfl

theorem finalize256_refines (x : State) (hx : x.buffer.Inv) :
    finalize256 x = P.out256 (P.finAbs 10 (toPortable x.r, x.buffer.asSlice)) := by
  rw [← finalizeCommon_refines 10 x hx]
  have h := modularReduction_refines (add256_epi64 (finalizeCommon 10 x).v1 (finalizeCommon 10 x).mul1)
    (add256_epi64 (finalizeCommon 10 x).v0 (finalizeCommon 10 x).mul0)
  simp only [r256ToV4, V4.mk.injEq, add256_epi64, R256.map2, lo64_add, hi64_add] at h
  obtain ⟨h1, h2, h3, h4⟩ := h
  simp only [finalize256, storeu_si256, h1, h2, h3, h4, P.out256, toPortable, r256ToV4, add256_epi64, R256.map2, lo64_add, hi64_add]

/-! ### append on abstract states -/

/-- abstraction of an AVX hasher: portable-order lanes + pending bytes -/
def abs (x : State) : St × List (BitVec 8) := (toPortable x.r, x.buffer.asSlice)

theorem append_abs (x : State) (d : List (BitVec 8)) (hx : x.buffer.Inv) :
    abs (append x d) = AbsAppend P.updPacket (abs x) d ∧ (append x d).buffer.Inv := by
  have h := appendG_abs updPacket (x.r, x.buffer) d hx
  refine ⟨?_, h.2⟩
  have h1 := h.1
  simp only [absP] at h1
  simp only [abs, append, Pkt.asSlice]
  have hm := AbsAppend_map toPortable updPacket P.updPacket updPacket_refines (x.r, List.take x.buffer.idx x.buffer.buf) d
  rw [← hm, ← h1]

theorem new_abs (k : V4) : abs (new k) = (Spec.reset k, []) ∧ (new k).buffer.Inv := by
  refine ⟨?_, Pkt.default_inv⟩
  have := P.new_abs k
  simp only [absP] at this
  simp only [abs, new_refines, Pkt.asSlice]
  exact this

end Avx
end HH
