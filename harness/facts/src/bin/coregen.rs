//! coregen: translate the straight-line arithmetic core of `src/portable.rs` into Lean definitions by
//! symbolic execution (loops over literal ranges are unrolled, `&mut [u64; 4]` parameters alias the caller's
//! array, calls to the translated helpers are inlined).  Output: `HH/Generated/PortableCore.lean` with
//! `Gen.*` definitions and, for each of them, a theorem stating that it equals the hand-written model
//! (`HH.P.*`) for ALL inputs.  A function whose source no longer fits the supported subset is skipped (and
//! listed in the JSON status): the stage is then "not applicable" for it, never an alarm.
//!
//! usage: coregen <repo>/src/portable.rs <out.lean> <status.json>
use std::collections::HashMap;
use std::fmt::Write as _;
use syn::{BinOp, Expr, ImplItem, Item, Lit, Pat, Stmt, UnOp};

#[derive(Clone, Debug)]
enum Val {
    W(String),     // a 64-bit word: Lean term of type BitVec 64 (a variable or let-bound name)
    N(u64),        // a usize / integer literal used as index or shift count
    Arr(Vec<Val>), // [u64; 4]
    Tup(Vec<Val>),
    Ref(String),   // &mut / & of an environment entry (aliasing)
    ElemRef(String, usize), // `for x in arr.iter_mut()`: a reference to one element
    W32(String),   // a 32-bit word: Lean term of type BitVec 32
    SN(String),    // a u64 parameter used as a count / size: Lean variable of type Nat (its word is `BitVec.ofNat 64 n`)
    SE(String),    // a u64 value computed from such a parameter: Lean term of type Nat (already reduced mod 2^64)
    B(String),     // a byte: Lean term of type BitVec 8
    Slice(String, usize, usize), // a view (env key of the underlying array, start, length): `&x[a..b]`
    Bool(bool),    // a condition that is decided by the (literal) lengths
    List(Vec<Val>), // the items of an iterator (`iter_mut`, `zip`, `chunks_exact` over literal lengths)
    Range(Option<usize>, Option<usize>),
    Opt(Option<Box<Val>>),
    Unit,
}

fn pre(v: &Val) -> Val {
    match v {
        Val::Ref(k) => Val::Ref(format!("^{k}")),
        Val::ElemRef(k, i) => Val::ElemRef(format!("^{k}"), *i),
        Val::Slice(k, a, b) => Val::Slice(format!("^{k}"), *a, *b),
        Val::Arr(a) => Val::Arr(a.iter().map(pre).collect()),
        Val::Tup(a) => Val::Tup(a.iter().map(pre).collect()),
        Val::List(a) => Val::List(a.iter().map(pre).collect()),
        Val::Opt(Some(x)) => Val::Opt(Some(Box::new(pre(x)))),
        o => o.clone(),
    }
}
fn unpre(v: &Val) -> Val {
    let st = |k: &String| k.strip_prefix('^').unwrap_or(k).to_string();
    match v {
        Val::Ref(k) => Val::Ref(st(k)),
        Val::ElemRef(k, i) => Val::ElemRef(st(k), *i),
        Val::Slice(k, a, b) => Val::Slice(st(k), *a, *b),
        Val::Arr(a) => Val::Arr(a.iter().map(unpre).collect()),
        Val::Tup(a) => Val::Tup(a.iter().map(unpre).collect()),
        Val::List(a) => Val::List(a.iter().map(unpre).collect()),
        Val::Opt(Some(x)) => Val::Opt(Some(Box::new(unpre(x)))),
        o => o.clone(),
    }
}

struct Ex<'a> {
    env: HashMap<String, Val>,
    lets: Vec<(String, String)>,
    fresh: usize,
    fns: &'a HashMap<String, syn::ImplItemFn>,
    depth: usize,
    ret: Option<Val>,
    release_plus: bool,
    consts: HashMap<String, u64>, // `const NAME: usize = LIT;` items of the translated files
    min_choice: Option<u64>, // the value assumed for `x.min(c)` of a data-dependent x (one instance per value)
    assume: Vec<String>,     // the assumptions made that way, as Lean propositions
    opaque: Vec<String>, // helpers that are applied (as their generated `Gen.*` definition) instead of inlined
}

type R<T> = Result<T, String>;

thread_local! {
    /// `const NAME: usize = LIT;` items of the translated files (set once in main)
    static CONSTS: std::cell::RefCell<HashMap<String, u64>> = std::cell::RefCell::new(HashMap::new());
}

fn lit_u64(l: &syn::LitInt) -> R<u64> {
    l.base10_parse::<u64>().map_err(|e| format!("literal: {e}"))
}

impl<'a> Ex<'a> {
    fn new(fns: &'a HashMap<String, syn::ImplItemFn>) -> Self {
        Ex { env: HashMap::new(), lets: Vec::new(), fresh: 0, fns, depth: 0, ret: None, release_plus: false, consts: CONSTS.with(|c| c.borrow().clone()), min_choice: None, assume: Vec::new(), opaque: Vec::new() }
    }
    fn bind(&mut self, e: String) -> Val {
        self.fresh += 1;
        let n = format!("t{}", self.fresh);
        self.lets.push((n.clone(), e));
        Val::W(n)
    }
    fn word(&self, v: &Val) -> R<String> {
        match v {
            Val::W(s) => Ok(s.clone()),
            Val::N(n) => Ok(format!("({:#x}#64)", n)),
            Val::SN(n) => Ok(format!("(BitVec.ofNat 64 {n})")),
            Val::Ref(k) => self.word(self.env.get(k).ok_or("dangling ref")?),
            Val::ElemRef(k, i) => match self.env.get(k) {
                Some(Val::Arr(a)) if *i < a.len() => self.word(&a[*i]),
                _ => Err("dangling element ref".into()),
            },
            other => Err(format!("expected a word, got {:?}", other)),
        }
    }
    fn byte(&self, v: &Val) -> R<String> {
        match v {
            Val::B(s) => Ok(s.clone()),
            Val::N(n) if *n < 256 => Ok(format!("({n}#8)")),
            Val::Ref(k) => self.byte(self.env.get(k).ok_or("dangling ref")?),
            Val::ElemRef(k, i) => match self.env.get(k) {
                Some(Val::Arr(a)) if *i < a.len() => self.byte(&a[*i]),
                _ => Err("dangling element ref".into()),
            },
            other => Err(format!("expected a byte, got {:?}", other)),
        }
    }
    /// follow `Ref` links from an environment key to the entry that holds the value
    fn chase(&self, mut k: String) -> String {
        for _ in 0..16 {
            match self.env.get(&k) {
                Some(Val::Ref(k2)) => k = k2.clone(),
                _ => break,
            }
        }
        k
    }
    /// an array or slice as (key of the underlying array, start, length)
    fn sliceable(&mut self, e: &Expr) -> R<(String, usize, usize)> {
        let v = self.eval(e)?;
        self.sliceable_val(v, Some(e))
    }
    fn sliceable_val(&mut self, v: Val, e: Option<&Expr>) -> R<(String, usize, usize)> {
        match v {
            Val::Slice(k, a, n) => Ok((k, a, n)),
            Val::Ref(k) => {
                let k = self.chase(k);
                match self.env.get(&k) {
                    Some(Val::Arr(a)) => Ok((k.clone(), 0, a.len())),
                    Some(Val::Slice(k2, a, n)) => Ok((k2.clone(), *a, *n)),
                    _ => Err("reference to a non-array".into()),
                }
            }
            Val::Arr(a) => {
                let e = e.ok_or("array temporary used as a slice")?;
                let (k, idx) = self.place_key(e)?;
                if idx.is_some() {
                    return Err("element used as a slice".into());
                }
                Ok((k, 0, a.len()))
            }
            o => Err(format!("expected an array or slice, got {:?}", o)),
        }
    }
    fn items(&mut self, v: Val) -> R<Vec<Val>> {
        match v {
            Val::List(l) => Ok(l),
            Val::Arr(a) => Ok(a),
            o => {
                let (k, a, n) = self.sliceable_val(o, None)?;
                match self.env.get(&k) {
                    Some(Val::Arr(arr)) if a + n <= arr.len() => Ok(arr[a..a + n].to_vec()),
                    _ => Err("items of a dangling slice".into()),
                }
            }
        }
    }
    fn place_key(&mut self, e: &Expr) -> R<(String, Option<usize>)> {
        // returns (env key, element index)
        match e {
            Expr::Index(ix) => {
                let (k, none) = self.place_key(&ix.expr)?;
                if none.is_some() {
                    return Err("nested index".into());
                }
                let i = match self.eval(&ix.index)? {
                    Val::N(n) => n as usize,
                    o => return Err(format!("index is not a literal: {:?}", o)),
                };
                match self.env.get(&k) {
                    Some(Val::Slice(k2, a, n)) => {
                        if i >= *n {
                            return Err("index out of bounds (the source would panic)".into());
                        }
                        Ok((k2.clone(), Some(a + i)))
                    }
                    Some(Val::Arr(a)) if i >= a.len() => Err("index out of bounds (the source would panic)".into()),
                    _ => Ok((k, Some(i))),
                }
            }
            Expr::Field(f) => {
                let base = match &*f.base {
                    Expr::Path(p) if p.path.is_ident("self") => "self".to_string(),
                    other => {
                        let (k, idx) = self.place_key(other)?;
                        if idx.is_some() {
                            return Err("field of an element".into());
                        }
                        k
                    }
                };
                let name = match &f.member {
                    syn::Member::Named(id) => id.to_string(),
                    _ => return Err("tuple field".into()),
                };
                Ok((self.chase(format!("{base}.{name}")), None))
            }
            Expr::Path(p) => {
                let id = p.path.get_ident().ok_or("path place")?.to_string();
                match self.env.get(&id) {
                    Some(Val::Ref(k)) => Ok((self.chase(k.clone()), None)),
                    Some(Val::ElemRef(k, i)) => Ok((k.clone(), Some(*i))),
                    Some(_) => Ok((id, None)),
                    None => Err(format!("unknown variable {id}")),
                }
            }
            Expr::Unary(u) if matches!(u.op, UnOp::Deref(_)) => self.place_key(&u.expr),
            Expr::Paren(p) => self.place_key(&p.expr),
            Expr::Reference(r) => self.place_key(&r.expr),
            _ => Err("unsupported place".into()),
        }
    }
    fn store(&mut self, place: &Expr, v: Val) -> R<()> {
        let (k, idx) = self.place_key(place)?;
        match idx {
            None => {
                self.env.insert(k, v);
            }
            Some(i) => match self.env.get_mut(&k) {
                Some(Val::Arr(a)) if i < a.len() => a[i] = v,
                _ => return Err(format!("store into non-array {k}")),
            },
        }
        Ok(())
    }
    fn bin(&mut self, op: &BinOp, l: Val, r: Val) -> R<Val> {
        // integer arithmetic on literals (indices)
        if let (Val::N(a), Val::N(b)) = (&l, &r) {
            match op {
                BinOp::Gt(_) => return Ok(Val::Bool(a > b)),
                BinOp::Lt(_) => return Ok(Val::Bool(a < b)),
                BinOp::Ge(_) => return Ok(Val::Bool(a >= b)),
                BinOp::Le(_) => return Ok(Val::Bool(a <= b)),
                BinOp::Eq(_) => return Ok(Val::Bool(a == b)),
                BinOp::Ne(_) => return Ok(Val::Bool(a != b)),
                BinOp::Rem(_) if *b != 0 => return Ok(Val::N(a % b)),
                BinOp::Div(_) if *b != 0 => return Ok(Val::N(a / b)),
                _ => {}
            }
            return Ok(Val::N(match op {
                BinOp::Add(_) | BinOp::AddAssign(_) => a + b,
                BinOp::Sub(_) | BinOp::SubAssign(_) => a.checked_sub(*b).ok_or("underflow")?,
                BinOp::Mul(_) => a * b,
                BinOp::Shl(_) => a << b,
                BinOp::Shr(_) => a >> b,
                BinOp::BitAnd(_) => a & b,
                BinOp::BitOr(_) => a | b,
                BinOp::BitXor(_) => a ^ b,
                _ => return Err("literal op".into()),
            }));
        }
        // 32-bit halves and symbolic counts (release semantics: shift counts are masked to the width, `-` on u64 wraps)
        match (&l, &r, op) {
            (Val::N(a), Val::SN(c), BinOp::Sub(_)) => return Ok(Val::SE(format!("((2^64 + {a} - {c}) % 2^64)"))),
            (Val::W32(x), Val::N(c), BinOp::Shl(_)) => return Ok(Val::W32(format!("({x} <<< {})", c % 32))),
            (Val::W32(x), Val::N(c), BinOp::Shr(_)) => return Ok(Val::W32(format!("({x} >>> {})", c % 32))),
            (Val::W32(x), Val::SN(c), BinOp::Shl(_)) => return Ok(Val::W32(format!("({x} <<< ({c} % 32))"))),
            (Val::W32(x), Val::SN(c), BinOp::Shr(_)) => return Ok(Val::W32(format!("({x} >>> ({c} % 32))"))),
            (Val::W32(x), Val::SE(c), BinOp::Shl(_)) => return Ok(Val::W32(format!("({x} <<< ({c} % 32))"))),
            (Val::W32(x), Val::SE(c), BinOp::Shr(_)) => return Ok(Val::W32(format!("({x} >>> ({c} % 32))"))),
            (Val::W32(x), Val::W32(y), BinOp::BitOr(_)) => return Ok(Val::W32(format!("({x} ||| {y})"))),
            (Val::W32(x), Val::W32(y), BinOp::BitAnd(_)) => return Ok(Val::W32(format!("({x} &&& {y})"))),
            (Val::W32(x), Val::W32(y), BinOp::BitXor(_)) => return Ok(Val::W32(format!("({x} ^^^ {y})"))),
            (Val::W32(_), _, _) | (_, Val::W32(_), _) => return Err("unsupported 32-bit operation".into()),
            (Val::SN(c), Val::N(k), BinOp::Shl(_)) if *k < 64 => return Ok(self.bind(format!("((BitVec.ofNat 64 {c}) <<< {k})"))),
            // plain `+` on u64 where one side derives from the size parameter: release semantics (wrapping); the
            // overflow check of the debug profile is the business of HH/PortablePanic.lean
            (_, Val::SN(_), BinOp::Add(_)) | (Val::SN(_), _, BinOp::Add(_)) => {
                let (a, b) = (self.word(&l)?, self.word(&r)?);
                return Ok(self.bind(format!("({a} + {b})")));
            }
            _ => {}
        }
        if let (true, BinOp::Add(_)) = (self.release_plus, op) {
            let (a, b) = (self.word(&l)?, self.word(&r)?);
            return Ok(self.bind(format!("({a} + {b})")));
        }
        let lw = self.word(&l)?;
        let e = match op {
            BinOp::BitAnd(_) | BinOp::BitAndAssign(_) => format!("({lw} &&& {})", self.word(&r)?),
            BinOp::BitOr(_) | BinOp::BitOrAssign(_) => format!("({lw} ||| {})", self.word(&r)?),
            BinOp::BitXor(_) | BinOp::BitXorAssign(_) => format!("({lw} ^^^ {})", self.word(&r)?),
            BinOp::Shl(_) | BinOp::ShlAssign(_) => match r {
                Val::N(n) if n < 64 => format!("({lw} <<< {n})"),
                _ => return Err("shift by a non-literal".into()),
            },
            BinOp::Shr(_) | BinOp::ShrAssign(_) => match r {
                Val::N(n) if n < 64 => format!("({lw} >>> {n})"),
                _ => return Err("shift by a non-literal".into()),
            },
            _ => return Err("unsupported binary operator (plain + - * may overflow-check: only wrapping_* are translated)".into()),
        };
        Ok(self.bind(e))
    }
    fn call_fn(&mut self, name: &str, args: Vec<Val>) -> R<Val> {
        self.call_with_self(name, None, args)
    }
    /// inline a call; `self_prefix` = the caller's environment prefix that the callee sees as `self`
    /// (`self` for `self.f(..)`, `self.buffer` for `self.buffer.f(..)`)
    fn call_with_self(&mut self, name: &str, self_prefix: Option<&str>, args: Vec<Val>) -> R<Val> {
        if self.opaque.iter().any(|o| o == name) {
            match (name, self_prefix, args.as_slice()) {
                ("update_lanes", Some("self"), [Val::N(n)]) => {
                    let st = st_text(self)?;
                    self.fresh += 1;
                    let nm = format!("s{}", self.fresh);
                    self.lets.push((format!("{nm} : St"), format!("updateLanes {st} {n}")));
                    for f in ["v0", "v1", "mul0", "mul1"] {
                        let k = self.chase(format!("self.{f}"));
                        self.env.insert(k, v4vars(&format!("{nm}.{f}")));
                    }
                    return Ok(Val::Unit);
                }
                ("update", Some("self"), [lanes]) => {
                    let st = st_text(self)?;
                    let lanes = match lanes {
                        Val::Ref(k) => self.env.get(&self.chase(k.clone())).cloned().ok_or("dangling")?,
                        o => o.clone(),
                    };
                    let l = v4_text(self, &lanes)?;
                    self.fresh += 1;
                    let nm = format!("s{}", self.fresh);
                    self.lets.push((format!("{nm} : St"), format!("update {st} {l}")));
                    for f in ["v0", "v1", "mul0", "mul1"] {
                        let k = self.chase(format!("self.{f}"));
                        self.env.insert(k, v4vars(&format!("{nm}.{f}")));
                    }
                    return Ok(Val::Unit);
                }
                ("data_to_lanes", None, [d]) => {
                    let items = self.items(d.clone())?;
                    if items.len() != 32 {
                        return Err("data_to_lanes of a slice that is not 32 bytes".into());
                    }
                    let bs: Vec<String> = items.iter().map(|x| self.byte(x)).collect::<R<_>>()?;
                    self.fresh += 1;
                    let nm = format!("v{}", self.fresh);
                    self.lets.push((format!("{nm} : V4"), format!("dataToLanes {}", bs.join(" "))));
                    return Ok(v4vars(&nm));
                }
                _ => return Err(format!("call shape of {name}")),
            }
        }
        let f = self.fns.get(name).ok_or_else(|| format!("call of untranslated function {name}"))?.clone();
        if self.depth > 5 {
            return Err("call depth".into());
        }
        let params: Vec<_> = f.sig.inputs.iter().filter_map(|a| match a {
            syn::FnArg::Typed(t) => match &*t.pat {
                Pat::Ident(i) => Some(i.ident.to_string()),
                _ => None,
            },
            _ => None,
        }).collect();
        if params.len() != args.len() {
            return Err(format!("arity of {name}"));
        }
        let saved = std::mem::take(&mut self.env);
        // the caller's entries stay reachable through references: everything moves under a `^` prefix
        let mut inner: HashMap<String, Val> = HashMap::new();
        for (k, v) in &saved {
            inner.insert(format!("^{k}"), pre(v));
        }
        if let Some(sp) = self_prefix {
            let want = format!("^{sp}.");
            let keys: Vec<String> = inner.keys().filter(|k| k.starts_with(&want)).cloned().collect();
            for k in keys {
                inner.insert(format!("self.{}", &k[want.len()..]), Val::Ref(k.clone()));
            }
        }
        for (p, a) in params.iter().zip(args) {
            inner.insert(p.clone(), pre(&a));
        }
        self.env = inner;
        self.depth += 1;
        let saved_ret = self.ret.take();
        let r = self.block(&f.block);
        let early = self.ret.take();
        self.ret = saved_ret;
        self.depth -= 1;
        // write back caller entries (they may have been mutated through references)
        let inner = std::mem::take(&mut self.env);
        let mut restored = saved;
        // a returned reference to a callee local cannot outlive the call: materialise locals it names
        let r = r.map(|v| early.unwrap_or(v));
        for (k, v) in inner {
            if let Some(orig) = k.strip_prefix('^') {
                restored.insert(orig.to_string(), unpre(&v));
            }
        }
        self.env = restored;
        let r = r?;
        Ok(unpre(&r))
    }
    fn eval(&mut self, e: &Expr) -> R<Val> {
        match e {
            Expr::Lit(l) => match &l.lit {
                Lit::Int(i) => Ok(Val::N(lit_u64(i)?)),
                _ => Err("non-integer literal".into()),
            },
            Expr::Paren(p) => self.eval(&p.expr),
            Expr::Group(g) => self.eval(&g.expr),
            Expr::Path(p) => {
                let id = p.path.get_ident().ok_or("qualified path as value")?.to_string();
                if let Some(v) = self.env.get(&id) {
                    return Ok(v.clone());
                }
                if let Some(c) = self.consts.get(&id) {
                    return Ok(Val::N(*c));
                }
                if id == "None" {
                    return Ok(Val::Opt(None));
                }
                Err(format!("unknown variable {id}"))
            }
            Expr::Range(r) => {
                let mut get = |x: &Option<Box<Expr>>| -> R<Option<usize>> {
                    match x {
                        None => Ok(None),
                        Some(e) => match self.eval(e)? {
                            Val::N(n) => Ok(Some(n as usize)),
                            o => Err(format!("range bound is not a literal: {:?}", o)),
                        },
                    }
                };
                let a = get(&r.start)?;
                let b = get(&r.end)?;
                if matches!(r.limits, syn::RangeLimits::Closed(_)) {
                    return Err("closed range".into());
                }
                Ok(Val::Range(a, b))
            }
            Expr::Index(ix) if matches!(&*ix.index, Expr::Range(_)) => {
                let Val::Range(a, b) = self.eval(&ix.index)? else { return Err("range".into()) };
                let (k, s0, n) = self.sliceable(&ix.expr)?;
                let a = a.unwrap_or(0);
                let b = b.unwrap_or(n);
                if a > b || b > n {
                    return Err("slice range out of bounds (the source would panic)".into());
                }
                Ok(Val::Slice(k, s0 + a, b - a))
            }
            Expr::If(i) => {
                let c = match self.eval(&i.cond)? {
                    Val::Bool(b) => b,
                    o => return Err(format!("condition is not decided by literal lengths: {:?}", o)),
                };
                if c {
                    self.block(&i.then_branch)
                } else if let Some((_, e)) = &i.else_branch {
                    self.eval(e)
                } else {
                    Ok(Val::Unit)
                }
            }
            Expr::Return(r) => {
                let v = match &r.expr {
                    Some(e) => self.eval(e)?,
                    None => Val::Unit,
                };
                // a returned local array is returned by value
                self.ret = Some(v);
                Ok(Val::Unit)
            }
            Expr::Macro(m) => {
                let n = m.mac.path.segments.last().map(|s| s.ident.to_string()).unwrap_or_default();
                if n.starts_with("debug_assert") {
                    Ok(Val::Unit) // release semantics; the panicking profile is HH/PortablePanic.lean's business
                } else {
                    Err(format!("macro {n}!"))
                }
            }
            Expr::Repeat(r) => {
                let x = self.eval(&r.expr)?;
                let Val::N(n) = self.eval(&r.len)? else { return Err("repeat length".into()) };
                Ok(Val::Arr(vec![x; n as usize]))
            }
            Expr::Field(_) | Expr::Index(_) => {
                let (k, idx) = self.place_key(e)?;
                let v = self.env.get(&k).cloned().ok_or(format!("unknown place {k}"))?;
                match (v, idx) {
                    (v, None) => Ok(v),
                    (Val::Arr(a), Some(i)) if i < a.len() => Ok(a[i].clone()),
                    _ => Err("index into non-array".into()),
                }
            }
            Expr::Unary(u) => match u.op {
                UnOp::Deref(_) => {
                    let v = self.eval(&u.expr)?;
                    match v {
                        Val::Ref(k) => self.env.get(&k).cloned().ok_or("dangling".into()),
                        Val::ElemRef(k, i) => match self.env.get(&k) {
                            Some(Val::Arr(a)) if i < a.len() => Ok(a[i].clone()),
                            _ => Err("dangling element".into()),
                        },
                        o => Ok(o),
                    }
                }
                UnOp::Not(_) => {
                    let w = self.eval(&u.expr)?;
                    match w {
                        Val::N(n) => return Ok(Val::N(!n)),
                        Val::Bool(b) => return Ok(Val::Bool(!b)),
                        _ => {}
                    }
                    let w = self.word(&w)?;
                    Ok(self.bind(format!("(~~~{w})")))
                }
                _ => Err("unary".into()),
            },
            Expr::Reference(r) => {
                if let Expr::Index(ix) = &*r.expr {
                    if matches!(&*ix.index, Expr::Range(_)) {
                        return self.eval(&r.expr);
                    }
                }
                if let Expr::Path(p) = &*r.expr {
                    if let Some(id) = p.path.get_ident() {
                        if let Some(v @ (Val::Slice(..) | Val::List(_))) = self.env.get(&id.to_string()) {
                            return Ok(v.clone());
                        }
                    }
                }
                match self.place_key(&r.expr) {
                    Ok((k, Some(i))) => Ok(Val::ElemRef(k, i)),
                    Ok((k, None)) => Ok(Val::Ref(k)),
                    Err(_) => self.eval(&r.expr), // a temporary: `&x.to_le_bytes()`
                }
            }
            Expr::Binary(b) => {
                let l = self.eval(&b.left)?;
                let r = self.eval(&b.right)?;
                self.bin(&b.op, l, r)
            }
            Expr::Array(a) => {
                let mut v = Vec::new();
                for x in &a.elems {
                    v.push(self.eval(x)?);
                }
                Ok(Val::Arr(v))
            }
            Expr::Tuple(t) => {
                let mut v = Vec::new();
                for x in &t.elems {
                    v.push(self.eval(x)?);
                }
                Ok(Val::Tup(v))
            }
            Expr::MethodCall(m) if self.struct_method(m).is_some() => {
                let (prefix, fname) = self.struct_method(m).unwrap();
                let mut args = Vec::new();
                for a in &m.args {
                    args.push(self.eval(a)?);
                }
                self.call_with_self(&fname, Some(&prefix), args)
            }
            Expr::MethodCall(m) if matches!(m.method.to_string().as_str(), "len" | "is_empty" | "iter" | "iter_mut" | "zip" | "chunks_exact" | "clone_from_slice" | "copy_from_slice" | "get" | "get_mut" | "unwrap_or" | "unwrap_or_default" | "as_slice" | "split_at" | "split_at_mut" | "to_le_bytes" | "min") => {
                let name = m.method.to_string();
                match name.as_str() {
                    "len" | "is_empty" => {
                        let (_, _, n) = self.sliceable(&m.receiver)?;
                        Ok(if name == "len" { Val::N(n as u64) } else { Val::Bool(n == 0) })
                    }
                    "as_slice" => {
                        let (k, a, n) = self.sliceable(&m.receiver)?;
                        Ok(Val::Slice(k, a, n))
                    }
                    "min" => {
                        let l = self.eval(&m.receiver)?;
                        let r = self.eval(m.args.first().ok_or("min arg")?)?;
                        match (l, r) {
                            (Val::N(a), Val::N(b)) => Ok(Val::N(a.min(b))),
                            (Val::W32(x), Val::N(c)) => {
                                let k = self.min_choice.ok_or("min of a data-dependent value")?;
                                if k > c {
                                    return Err("assumed minimum exceeds the bound".into());
                                }
                                self.assume.push(format!("min {x}.toNat {c} = {k}"));
                                Ok(Val::N(k))
                            }
                            _ => Err("min".into()),
                        }
                    }
                    "split_at" | "split_at_mut" => {
                        let (k, a, n) = self.sliceable(&m.receiver)?;
                        let Some(Val::N(at)) = m.args.first().map(|x| self.eval(x)).transpose()? else { return Err("split point".into()) };
                        let at = at as usize;
                        if at > n {
                            return Err("split_at out of bounds (the source would panic)".into());
                        }
                        Ok(Val::Tup(vec![Val::Slice(k.clone(), a, at), Val::Slice(k, a + at, n - at)]))
                    }
                    "to_le_bytes" => {
                        // `u64::to_le_bytes` / `u32::to_le_bytes`: byte i = bits 8i..8i+8
                        let v = self.eval(&m.receiver)?;
                        let v = match v {
                            Val::Ref(k) => self.env.get(&self.chase(k)).cloned().ok_or("dangling")?,
                            Val::ElemRef(k, i) => match self.env.get(&k) {
                                Some(Val::Arr(a)) if i < a.len() => a[i].clone(),
                                _ => return Err("dangling element".into()),
                            },
                            o => o,
                        };
                        match v {
                            Val::W32(x) => Ok(Val::Arr((0..4).map(|i| Val::B(format!("(BitVec.extractLsb' {} 8 {x})", 8 * i))).collect())),
                            o => {
                                let w = self.word(&o)?;
                                Ok(Val::Arr((0..8).map(|i| Val::B(format!("(BitVec.extractLsb' {} 8 {w})", 8 * i))).collect()))
                            }
                        }
                    }
                    "iter" => {
                        let v = self.eval(&m.receiver)?;
                        Ok(Val::List(self.items(v)?))
                    }
                    "iter_mut" => {
                        let (k, a, n) = self.sliceable(&m.receiver)?;
                        Ok(Val::List((a..a + n).map(|i| Val::ElemRef(k.clone(), i)).collect()))
                    }
                    "chunks_exact" => {
                        let (k, a, n) = self.sliceable(&m.receiver)?;
                        let Some(Val::N(c)) = m.args.first().map(|x| self.eval(x)).transpose()? else { return Err("chunk size".into()) };
                        let c = c as usize;
                        if c == 0 {
                            return Err("chunk size 0".into());
                        }
                        Ok(Val::List((0..n / c).map(|j| Val::Slice(k.clone(), a + j * c, c)).collect()))
                    }
                    "zip" => {
                        let l = self.eval(&m.receiver)?;
                        let l = self.items(l)?;
                        let r = self.eval(m.args.first().ok_or("zip arg")?)?;
                        let r = self.items(r)?;
                        Ok(Val::List(l.into_iter().zip(r).map(|(a, b)| Val::Tup(vec![a, b])).collect()))
                    }
                    "clone_from_slice" | "copy_from_slice" => {
                        let (k, a, n) = self.sliceable(&m.receiver)?;
                        let src = self.eval(m.args.first().ok_or("copy arg")?)?;
                        let src = self.items(src)?;
                        if src.len() != n {
                            return Err("copy_from_slice length mismatch (the source would panic)".into());
                        }
                        match self.env.get_mut(&k) {
                            Some(Val::Arr(arr)) if a + n <= arr.len() => {
                                for (i, x) in src.into_iter().enumerate() {
                                    arr[a + i] = x;
                                }
                            }
                            _ => return Err("copy into a dangling slice".into()),
                        }
                        Ok(Val::Unit)
                    }
                    "get" | "get_mut" => {
                        let (k, s0, n) = self.sliceable(&m.receiver)?;
                        let Val::Range(a, b) = self.eval(m.args.first().ok_or("get arg")?)? else { return Err("get of a non-range".into()) };
                        let a = a.unwrap_or(0);
                        let b = b.unwrap_or(n);
                        Ok(if a > b || b > n { Val::Opt(None) } else { Val::Opt(Some(Box::new(Val::Slice(k, s0 + a, b - a)))) })
                    }
                    "unwrap_or" => {
                        let r = self.eval(&m.receiver)?;
                        let d = self.eval(m.args.first().ok_or("unwrap_or arg")?)?;
                        match r {
                            Val::Opt(Some(x)) => Ok(*x),
                            Val::Opt(None) => Ok(d),
                            _ => Err("unwrap_or of a non-option".into()),
                        }
                    }
                    "unwrap_or_default" => match self.eval(&m.receiver)? {
                        Val::Opt(Some(x)) => Ok(*x),
                        Val::Opt(None) => Ok(Val::List(vec![])),
                        _ => Err("unwrap_or_default of a non-option".into()),
                    },
                    _ => Err("method".into()),
                }
            }
            Expr::MethodCall(m) => {
                let name = m.method.to_string();
                let recv = self.eval(&m.receiver)?;
                let recv = match recv {
                    Val::Ref(k) => self.env.get(&k).cloned().ok_or("dangling")?,
                    o => o,
                };
                let mut args = Vec::new();
                for a in &m.args {
                    args.push(self.eval(a)?);
                }
                match (name.as_str(), args.as_slice()) {
                    ("wrapping_add", [x]) => {
                        let (a, b) = (self.word(&recv)?, self.word(x)?);
                        Ok(self.bind(format!("({a} + {b})")))
                    }
                    ("wrapping_mul", [x]) => {
                        let (a, b) = (self.word(&recv)?, self.word(x)?);
                        Ok(self.bind(format!("({a} * {b})")))
                    }
                    ("wrapping_sub", [x]) => {
                        let (a, b) = (self.word(&recv)?, self.word(x)?);
                        Ok(self.bind(format!("({a} - {b})")))
                    }
                    ("rotate_left", [Val::N(n)]) => {
                        let a = self.word(&recv)?;
                        Ok(self.bind(format!("(BitVec.rotateLeft {a} {n})")))
                    }
                    _ => Err(format!("method {name}")),
                }
            }
            Expr::Cast(c) => {
                let v = self.eval(&c.expr)?;
                let ty = { let t = &c.ty; quote::quote!(#t).to_string() };
                let _ = &ty;
                match ty.as_str() {
                    "u32" => {
                        if let Val::N(n) = v {
                            return Ok(Val::W32(format!("({}#32)", n & 0xFFFF_FFFF)));
                        }
                        let w = self.word(&v)?;
                        Ok(Val::W32(format!("(BitVec.setWidth 32 {w})")))
                    }
                    "u64" => match v {
                        Val::W32(x) => Ok(self.bind(format!("(BitVec.setWidth 64 {x})"))),
                        Val::B(x) => Ok(self.bind(format!("(BitVec.setWidth 64 {x})"))),
                        o => Ok(o),
                    },
                    "usize" => match v {
                        Val::N(n) => Ok(Val::N(n)),
                        Val::W32(x) => Ok(Val::W32(x)),     // u32 -> usize is value preserving on every supported target
                        _ => Err("cast of a non-literal to usize".into()),
                    },
                    _ => Err(format!("cast to {ty}")),
                }
            }
            Expr::Call(c) => {
                // `u64::from(x)` of a 32-bit half
                if let Expr::Path(p) = &*c.func {
                    let segs: Vec<String> = p.path.segments.iter().map(|s| s.ident.to_string()).collect();
                    if segs == ["u64", "from"] && c.args.len() == 1 {
                        let v = self.eval(&c.args[0])?;
                        return match v {
                            Val::W32(x) => Ok(self.bind(format!("(BitVec.setWidth 64 {x})"))),
                            Val::B(x) => Ok(self.bind(format!("(BitVec.setWidth 64 {x})"))),
                            o => Ok(o),
                        };
                    }
                    if segs.last().map(|s| s == "size_of").unwrap_or(false) && c.args.is_empty() {
                        let ty = match p.path.segments.last().map(|s| &s.arguments) {
                            Some(syn::PathArguments::AngleBracketed(ab)) => ab.args.first().map(|a| quote::quote!(#a).to_string()).unwrap_or_default(),
                            _ => String::new(),
                        };
                        return match ty.as_str() {
                            "u64" | "i64" => Ok(Val::N(8)),
                            "u32" | "i32" => Ok(Val::N(4)),
                            "u8" => Ok(Val::N(1)),
                            _ => Err(format!("size_of::<{ty}>")),
                        };
                    }
                    if segs == ["Some"] && c.args.len() == 1 {
                        let v = self.eval(&c.args[0])?;
                        return Ok(Val::Opt(Some(Box::new(v))));
                    }
                    if segs == ["u32", "from_le_bytes"] && c.args.len() == 1 {
                        let v = self.eval(&c.args[0])?;
                        let Val::Arr(a) = v else { return Err("from_le_bytes of a non-array".into()) };
                        if a.len() != 4 {
                            return Err("from_le_bytes arity".into());
                        }
                        let bs: Vec<String> = a.iter().map(|x| self.byte(x)).collect::<R<_>>()?;
                        return Ok(Val::W32(format!("(HH.le32 [{}])", bs.join(", "))));
                    }
                    if segs == ["u64", "from_le_bytes"] && c.args.len() == 1 {
                        let v = self.eval(&c.args[0])?;
                        let Val::Arr(a) = v else { return Err("from_le_bytes of a non-array".into()) };
                        if a.len() != 8 {
                            return Err("from_le_bytes arity".into());
                        }
                        let bs: Vec<String> = a.iter().map(|x| self.byte(x)).collect::<R<_>>()?;
                        return Ok(self.bind(format!("(HH.le64 [{}])", bs.join(", "))));
                    }
                }
                let fname = match &*c.func {
                    Expr::Path(p) => p.path.segments.last().map(|s| s.ident.to_string()).ok_or("call path")?,
                    _ => return Err("call of non-path".into()),
                };
                let mut args = Vec::new();
                for a in &c.args {
                    args.push(self.eval(a)?);
                }
                self.call_fn(&fname, args)
            }
            Expr::Assign(a) => {
                let v = self.eval(&a.right)?;
                self.store(&a.left, v)?;
                Ok(Val::Unit)
            }
            Expr::Struct(s) => {
                // `PortableHash { v0: [..], v1: [..], mul0, mul1, buffer: .. }`: the four lane arrays
                let mut out = Vec::new();
                for want in ["v0", "v1", "mul0", "mul1"] {
                    let f = s.fields.iter().find(|f| matches!(&f.member, syn::Member::Named(n) if n == want)).ok_or("struct field")?;
                    out.push(self.eval(&f.expr)?);
                }
                Ok(Val::Tup(out))
            }
            Expr::ForLoop(f) => {
                // `for i in A..B { .. }` with literal bounds, or `for (i, x) in arr.iter().enumerate() { .. }`
                if let Expr::Range(r) = &*f.expr {
                    let (Some(a), Some(b)) = (&r.start, &r.end) else { return Err("open range".into()) };
                    let (Val::N(a), Val::N(b)) = (self.eval(a)?, self.eval(b)?) else { return Err("non-literal range".into()) };
                    let var = match &*f.pat {
                        Pat::Ident(i) => i.ident.to_string(),
                        Pat::Wild(_) => "_".to_string(),
                        _ => return Err("loop pattern".into()),
                    };
                    for i in a..b {
                        self.env.insert(var.clone(), Val::N(i));
                        self.block(&f.body)?;
                    }
                    return Ok(Val::Unit);
                }
                if let (Pat::Ident(pi), Expr::MethodCall(im)) = (&*f.pat, &*f.expr) {
                    if im.method == "iter_mut" {
                        let (k, idx) = self.place_key(&im.receiver)?;
                        if idx.is_some() {
                            return Err("iter_mut of an element".into());
                        }
                        let n = match self.env.get(&k) {
                            Some(Val::Arr(a)) => a.len(),
                            _ => return Err("iter_mut over non-array".into()),
                        };
                        for i in 0..n {
                            self.env.insert(pi.ident.to_string(), Val::ElemRef(k.clone(), i));
                            self.block(&f.body)?;
                        }
                        return Ok(Val::Unit);
                    }
                }
                if let (Pat::Tuple(pt), Expr::MethodCall(en)) = (&*f.pat, &*f.expr) {
                    if en.method == "enumerate" {
                        if let Expr::MethodCall(it) = &*en.receiver {
                            if it.method == "iter" {
                                let arr = self.eval(&it.receiver)?;
                                let arr = match arr {
                                    Val::Ref(k) => self.env.get(&k).cloned().ok_or("dangling")?,
                                    o => o,
                                };
                                let Val::Arr(items) = arr else { return Err("enumerate over non-array".into()) };
                                let names: Vec<String> = pt.elems.iter().filter_map(|p| match p {
                                    Pat::Ident(i) => Some(i.ident.to_string()),
                                    _ => None,
                                }).collect();
                                if names.len() != 2 {
                                    return Err("enumerate pattern".into());
                                }
                                for (i, x) in items.into_iter().enumerate() {
                                    self.env.insert(names[0].clone(), Val::N(i as u64));
                                    self.env.insert(names[1].clone(), x);
                                    self.block(&f.body)?;
                                }
                                return Ok(Val::Unit);
                            }
                        }
                    }
                }
                // any iterator whose items are known (literal lengths)
                let it = self.eval(&f.expr)?;
                let items = self.items(it)?;
                for x in items {
                    self.bind_pat(&f.pat, x)?;
                    self.block(&f.body)?;
                    if self.ret.is_some() {
                        break;
                    }
                }
                Ok(Val::Unit)
            }
            Expr::Block(b) => self.block(&b.block),
            _ => Err(format!("unsupported expression kind: {}", quote::quote!(#e).to_string().chars().take(60).collect::<String>())),
        }
    }
    fn compound(&mut self, b: &syn::ExprBinary) -> R<Option<Val>> {
        if matches!(b.op, BinOp::AddAssign(_) | BinOp::SubAssign(_)) {
            let cur = self.eval(&b.left)?;
            let cur = match cur {
                Val::Ref(k) => self.env.get(&k).cloned().ok_or("dangling")?,
                o => o,
            };
            let rhs = self.eval(&b.right)?;
            if let (Val::N(_), Val::N(_)) = (&cur, &rhs) {
                let v = self.bin(&b.op, cur, rhs)?;
                self.store(&b.left, v)?;
                return Ok(Some(Val::Unit));
            }
            return Err("+= / -= on a non-literal (may overflow-check)".into());
        }
        let assign = matches!(b.op, BinOp::BitXorAssign(_) | BinOp::BitOrAssign(_) | BinOp::BitAndAssign(_) | BinOp::ShlAssign(_) | BinOp::ShrAssign(_));
        if !assign {
            return Ok(None);
        }
        let cur = self.eval(&b.left)?;
        let rhs = self.eval(&b.right)?;
        let v = self.bin(&b.op, cur, rhs)?;
        self.store(&b.left, v)?;
        Ok(Some(Val::Unit))
    }
    fn stmt(&mut self, s: &Stmt) -> R<Val> {
        match s {
            Stmt::Local(l) => {
                let init = l.init.as_ref().ok_or("let without init")?;
                if let (Expr::Call(c), Pat::Ident(pi)) = (&*init.expr, match &l.pat { Pat::Type(t) => &*t.pat, p => p }) {
                    if let Expr::Path(p) = &*c.func {
                        let segs: Vec<String> = p.path.segments.iter().map(|s| s.ident.to_string()).collect();
                        if segs == ["HashPacket", "default"] && c.args.is_empty() {
                            // `#[derive(Default)]`: a zeroed buffer and index 0
                            let n = self.consts.get("PACKET_SIZE").copied().ok_or("PACKET_SIZE")? as usize;
                            let name = pi.ident.to_string();
                            self.env.insert(format!("{name}.buf"), Val::Arr(vec![Val::N(0); n]));
                            self.env.insert(format!("{name}.buf_index"), Val::N(0));
                            self.env.insert(name, Val::Unit);
                            return Ok(Val::Unit);
                        }
                    }
                }
                let v = self.eval(&init.expr)?;
                let mut pat = &l.pat;
                if let Pat::Type(t) = pat {
                    pat = &t.pat;
                }
                self.bind_pat(pat, v)?;
                Ok(Val::Unit)
            }
            Stmt::Expr(e, semi) => {
                if let Expr::Binary(b) = e {
                    if let Some(v) = self.compound(b)? {
                        return Ok(v);
                    }
                }
                let v = self.eval(e)?;
                Ok(if semi.is_some() { Val::Unit } else { v })
            }
            Stmt::Macro(m) => {
                let n = m.mac.path.segments.last().map(|s| s.ident.to_string()).unwrap_or_default();
                if n.starts_with("debug_assert") {
                    Ok(Val::Unit)
                } else {
                    Err(format!("macro {n}!"))
                }
            }
            Stmt::Item(Item::Const(c)) => {
                let v = self.eval(&c.expr)?;
                match v {
                    Val::N(n) => {
                        self.consts.insert(c.ident.to_string(), n);
                        Ok(Val::Unit)
                    }
                    _ => Err("local const that is not an integer literal expression".into()),
                }
            }
            _ => Err("item statement".into()),
        }
    }
    fn bind_pat(&mut self, p: &Pat, v: Val) -> R<()> {
        match p {
            Pat::Ident(i) => {
                self.env.insert(i.ident.to_string(), v);
                Ok(())
            }
            Pat::Wild(_) => Ok(()),
            Pat::Tuple(t) => {
                let Val::Tup(vs) = v else { return Err("tuple pattern on non-tuple".into()) };
                if vs.len() != t.elems.len() {
                    return Err("tuple pattern arity".into());
                }
                for (p, x) in t.elems.iter().zip(vs) {
                    self.bind_pat(p, x)?;
                }
                Ok(())
            }
            Pat::Type(t) => self.bind_pat(&t.pat, v),
            Pat::Reference(r) => {
                let v = match v {
                    Val::Ref(k) => self.env.get(&self.chase(k)).cloned().ok_or("dangling")?,
                    Val::ElemRef(k, i) => match self.env.get(&k) {
                        Some(Val::Arr(a)) if i < a.len() => a[i].clone(),
                        _ => return Err("dangling element".into()),
                    },
                    o => o,
                };
                self.bind_pat(&r.pat, v)
            }
            _ => Err("pattern".into()),
        }
    }
    /// `self.f(..)` / `self.buffer.f(..)` where `f` is a translated inherent method
    fn struct_method(&self, m: &syn::ExprMethodCall) -> Option<(String, String)> {
        let name = m.method.to_string();
        match &*m.receiver {
            Expr::Path(p) if p.path.is_ident("self") && self.fns.contains_key(&name) => Some(("self".into(), name)),
            Expr::Path(p) if p.path.get_ident().map(|i| self.env.contains_key(&format!("{i}.buf_index"))).unwrap_or(false) => {
                let key = format!("HashPacket::{name}");
                if self.fns.contains_key(&key) {
                    return Some((p.path.get_ident().unwrap().to_string(), key));
                }
                None
            }
            Expr::Field(f) => {
                if let (Expr::Path(p), syn::Member::Named(id)) = (&*f.base, &f.member) {
                    let key = format!("HashPacket::{name}");
                    if p.path.is_ident("self") && id == "buffer" && self.fns.contains_key(&key) {
                        return Some(("self.buffer".into(), key));
                    }
                }
                None
            }
            _ => None,
        }
    }
    fn block(&mut self, b: &syn::Block) -> R<Val> {
        let mut last = Val::Unit;
        for s in &b.stmts {
            last = self.stmt(s)?;
            if self.ret.is_some() {
                return Ok(Val::Unit);
            }
        }
        Ok(last)
    }
    fn lets_text(&self) -> String {
        let mut o = String::new();
        for (n, e) in &self.lets {
            if n.contains(" : ") {
                let _ = writeln!(o, "  let {n} := {e}");
            } else {
                let _ = writeln!(o, "  let {n} : BitVec 64 := {e}");
            }
        }
        o
    }
}

fn v4vars(prefix: &str) -> Val {
    Val::Arr((0..4).map(|i| Val::W(format!("{prefix}.l{i}"))).collect())
}
fn self_env(ex: &mut Ex) {
    for f in ["v0", "v1", "mul0", "mul1"] {
        ex.env.insert(format!("self.{f}"), v4vars(&format!("s.{f}")));
    }
}
fn v4_text(ex: &Ex, v: &Val) -> R<String> {
    let Val::Arr(a) = v else { return Err("expected [u64; 4]".into()) };
    if a.len() != 4 {
        return Err("array length".into());
    }
    let w: Vec<String> = a.iter().map(|x| ex.word(x)).collect::<R<_>>()?;
    // `⟨x.l0, x.l1, x.l2, x.l3⟩` is `x`
    if let Some(base) = w[0].strip_suffix(".l0") {
        if !base.is_empty() && (1..4).all(|i| w[i] == format!("{base}.l{i}")) {
            return Ok(base.to_string());
        }
    }
    Ok(format!("⟨{}, {}, {}, {}⟩", w[0], w[1], w[2], w[3]))
}
fn st_text(ex: &Ex) -> R<String> {
    let mut parts = Vec::new();
    for f in ["v0", "v1", "mul0", "mul1"] {
        parts.push(v4_text(ex, ex.env.get(&ex.chase(format!("self.{f}"))).ok_or("state field")?)?);
    }
    if let Some(base) = parts[0].strip_suffix(".v0") {
        if !base.is_empty() && parts[1] == format!("{base}.v1") && parts[2] == format!("{base}.mul0") && parts[3] == format!("{base}.mul1") {
            return Ok(base.to_string());
        }
    }
    Ok(format!("⟨{}, {}, {}, {}⟩", parts[0], parts[1], parts[2], parts[3]))
}

/// statements of a finalize function after its last `for` loop
fn tail_after_loops(f: &syn::ImplItemFn) -> syn::Block {
    let mut idx = 0;
    for (i, s) in f.block.stmts.iter().enumerate() {
        if matches!(s, Stmt::Expr(Expr::ForLoop(_), _)) || matches!(s, Stmt::Expr(Expr::If(_), _)) {
            idx = i + 1;
        }
    }
    syn::Block { brace_token: f.block.brace_token, stmts: f.block.stmts[idx..].to_vec() }
}

fn main() {
    let args: Vec<String> = std::env::args().collect();
    let src = std::fs::read_to_string(&args[1]).expect("read portable.rs");
    let file = syn::parse_file(&src).expect("parse");
    let mut fns: HashMap<String, syn::ImplItemFn> = HashMap::new();
    for it in &file.items {
        if let Item::Impl(im) = it {
            if im.trait_.is_none() {
                for ii in &im.items {
                    if let ImplItem::Fn(f) = ii {
                        fns.insert(f.sig.ident.to_string(), f.clone());
                    }
                }
            } else if im.trait_.as_ref().map(|t| t.1.segments.last().map(|s| s.ident == "HighwayHash").unwrap_or(false)).unwrap_or(false) {
                for ii in &im.items {
                    if let ImplItem::Fn(f) = ii {
                        fns.insert(format!("HighwayHash::{}", f.sig.ident), f.clone());
                    }
                }
            }
        }
    }
    let mut consts: HashMap<String, u64> = HashMap::new();
    // src/internal.rs: `HashPacket`'s inherent methods (as `HashPacket::name`) and `unordered_load3`
    if let Some(ip) = args.get(4) {
        if let Ok(isrc) = std::fs::read_to_string(ip) {
            if let Ok(ifile) = syn::parse_file(&isrc) {
                for it in &ifile.items {
                    match it {
                        Item::Impl(im) if im.trait_.is_none() => {
                            let ty = { let t = &im.self_ty; quote::quote!(#t).to_string() };
                            for ii in &im.items {
                                if let ImplItem::Fn(f) = ii {
                                    fns.insert(format!("{ty}::{}", f.sig.ident), f.clone());
                                }
                            }
                        }
                        Item::Const(c) => {
                            if let Expr::Lit(l) = &*c.expr {
                                if let Lit::Int(i) = &l.lit {
                                    if let Ok(n) = lit_u64(i) {
                                        consts.insert(c.ident.to_string(), n);
                                    }
                                }
                            }
                        }
                        Item::Fn(f) => {
                            fns.insert(f.sig.ident.to_string(), syn::ImplItemFn { attrs: vec![], vis: f.vis.clone(), defaultness: None, sig: f.sig.clone(), block: (*f.block).clone() });
                        }
                        _ => {}
                    }
                }
            }
        }
    }
    CONSTS.with(|c| *c.borrow_mut() = consts.clone());
    for it in &file.items {
        if let Item::Const(c) = it {
            // constant expressions over literals and earlier constants (`4 * LANE_SIZE`)
            let v = Ex::new(&fns).eval(&c.expr);
            if let Ok(Val::N(n)) = v {
                consts.insert(c.ident.to_string(), n);
                CONSTS.with(|c| *c.borrow_mut() = consts.clone());
            }
        }
    }
    let mut out = String::new();
    let mut thms = String::new();
    let mut status: Vec<(String, String)> = Vec::new();
    out.push_str("-- GENERATED by /verif/harness/facts (coregen) from src/portable.rs; do not edit.\nimport HH.Portable\nset_option linter.unusedVariables false\nset_option maxRecDepth 8192\nnamespace HH.Gen\n\n");

    // helper closure style: run one translation, append on success
    let mut emit = |name: &str, r: R<(String, String)>| match r {
        Ok((d, t)) => {
            out.push_str(&d);
            out.push('\n');
            thms.push_str(&t);
            thms.push('\n');
            status.push((name.to_string(), "translated".to_string()));
        }
        Err(e) => status.push((name.to_string(), format!("skipped: {e}"))),
    };

    // module_reduction
    emit("module_reduction", (|| {
        let f = fns.get("module_reduction").ok_or("missing")?;
        let mut ex = Ex::new(&fns);
        let names: Vec<String> = f.sig.inputs.iter().filter_map(|a| match a { syn::FnArg::Typed(t) => match &*t.pat { Pat::Ident(i) => Some(i.ident.to_string()), _ => None }, _ => None }).collect();
        if names.len() != 4 { return Err("arity".into()); }
        for (n, v) in names.iter().zip(["a3u", "a2", "a1", "a0"]) { ex.env.insert(n.clone(), Val::W(v.to_string())); }
        let r = ex.block(&f.block)?;
        let Val::Tup(t) = r else { return Err("result shape".into()) };
        let d = format!("def moduleReduction (a3u a2 a1 a0 : BitVec 64) : BitVec 64 × BitVec 64 :=\n{}  ({}, {})\n", ex.lets_text(), ex.word(&t[0])?, ex.word(&t[1])?);
        let t = "theorem moduleReduction_eq (a3u a2 a1 a0 : BitVec 64) : moduleReduction a3u a2 a1 a0 = P.moduleReduction a3u a2 a1 a0 := rfl\n".to_string();
        Ok((d, t))
    })());

    // permute
    emit("permute", (|| {
        let f = fns.get("permute").ok_or("missing")?;
        let mut ex = Ex::new(&fns);
        let p = f.sig.inputs.iter().find_map(|a| match a { syn::FnArg::Typed(t) => match &*t.pat { Pat::Ident(i) => Some(i.ident.to_string()), _ => None }, _ => None }).ok_or("param")?;
        ex.env.insert("#v".into(), v4vars("v"));
        ex.env.insert(p, Val::Ref("#v".into()));
        let r = ex.block(&f.block)?;
        let d = format!("def permute (v : V4) : V4 :=\n{}  {}\n", ex.lets_text(), v4_text(&ex, &r)?);
        let t = "theorem permute_eq (v : V4) : permute v = P.permute v := rfl\n".to_string();
        Ok((d, t))
    })());

    // zipper_merge_and_add on lanes (1, 0)
    emit("zipper_merge_and_add", (|| {
        let mut ex = Ex::new(&fns);
        ex.env.insert("#lane".into(), Val::Arr(vec![Val::W("a".into()), Val::W("b".into()), Val::W("c".into()), Val::W("d".into())]));
        ex.call_fn("zipper_merge_and_add", vec![Val::W("v1".into()), Val::W("v0".into()), Val::Ref("#lane".into()), Val::N(1), Val::N(0)])?;
        let Some(Val::Arr(l)) = ex.env.get("#lane").cloned() else { return Err("lane".into()) };
        let d = format!("def zipperPair (v1 v0 a b : BitVec 64) : BitVec 64 × BitVec 64 :=\n{}  ({}, {})\n", ex.lets_text(), ex.word(&l[0])?, ex.word(&l[1])?);
        let t = "theorem zipperPair_eq (v1 v0 a b : BitVec 64) : zipperPair v1 v0 a b = (a + P.zipLo v1 v0, b + P.zipHi v1 v0) := rfl\n".to_string();
        Ok((d, t))
    })());

    // update
    emit("update", (|| {
        let f = fns.get("update").ok_or("missing")?;
        let mut ex = Ex::new(&fns);
        self_env(&mut ex);
        let p = f.sig.inputs.iter().find_map(|a| match a { syn::FnArg::Typed(t) => match &*t.pat { Pat::Ident(i) => Some(i.ident.to_string()), _ => None }, _ => None }).ok_or("param")?;
        ex.env.insert(p, v4vars("lanes"));
        ex.block(&f.block)?;
        let d = format!("def update (s : St) (lanes : V4) : St :=\n{}  {}\n", ex.lets_text(), st_text(&ex)?);
        let t = "theorem update_eq (s : St) (lanes : V4) : update s lanes = P.update s lanes := rfl\n".to_string();
        Ok((d, t))
    })());

    // update_lanes (length injection + rotate_32_by, symbolic size)
    emit("update_lanes", (|| {
        let f = fns.get("update_lanes").ok_or("missing")?;
        let mut ex = Ex::new(&fns);
        self_env(&mut ex);
        let p = f.sig.inputs.iter().find_map(|a| match a { syn::FnArg::Typed(t) => match &*t.pat { Pat::Ident(i) => Some(i.ident.to_string()), _ => None }, _ => None }).ok_or("param")?;
        ex.env.insert(p, Val::SN("size".into()));
        ex.block(&f.block)?;
        let d = format!("def updateLanes (s : St) (size : Nat) : St :=\n{}  {}\n", ex.lets_text(), st_text(&ex)?);
        let t = "theorem updateLanes_eq (s : St) (size : Nat) : updateLanes s size = P.updateLanes s size := rfl\n".to_string();
        Ok((d, t))
    })());

    // new (key schedule)
    emit("new", (|| {
        let f = fns.get("new").ok_or("missing")?;
        let mut ex = Ex::new(&fns);
        let p = f.sig.inputs.iter().find_map(|a| match a { syn::FnArg::Typed(t) => match &*t.pat { Pat::Ident(i) => Some(i.ident.to_string()), _ => None }, _ => None }).ok_or("param")?;
        ex.env.insert(p, v4vars("key"));
        let r = ex.block(&f.block)?;
        let Val::Tup(t) = r else { return Err("result shape".into()) };
        let parts: Vec<String> = t.iter().map(|v| v4_text(&ex, &match v { Val::Ref(k) => ex.env.get(k).cloned().unwrap_or(Val::Unit), o => o.clone() })).collect::<R<_>>()?;
        let d = format!("def newState (key : V4) : St :=\n{}  ⟨{}, {}, {}, {}⟩\n", ex.lets_text(), parts[0], parts[1], parts[2], parts[3]);
        let t = "theorem newState_eq (key : V4) : newState key = (P.new key).st := rfl\n".to_string();
        Ok((d, t))
    })());

    // finalize outputs (the statements after the permutation rounds)
    for (name, lean, ty, model, shape) in [
        ("finalize64", "out64", "BitVec 64", "P.out64", 1usize),
        ("finalize128", "out128", "BitVec 64 × BitVec 64", "P.out128", 2),
        ("finalize256", "out256", "BitVec 64 × BitVec 64 × BitVec 64 × BitVec 64", "P.out256", 4),
    ] {
        emit(name, (|| {
            let f = fns.get(name).ok_or("missing")?;
            let tail = tail_after_loops(f);
            let mut ex = Ex::new(&fns);
            self_env(&mut ex);
            let r = ex.block(&tail)?;
            let body = match (&r, shape) {
                (Val::W(_), 1) => ex.word(&r)?,
                (Val::Arr(a), n) if a.len() == n => {
                    let w: Vec<String> = a.iter().map(|x| ex.word(x)).collect::<R<_>>()?;
                    format!("({})", w.join(", "))
                }
                _ => return Err("result shape".into()),
            };
            // number of permutation rounds: the literal bound of the `for _i in 0..K` loop
            let k = f.block.stmts.iter().find_map(|s| match s {
                Stmt::Expr(Expr::ForLoop(fl), _) => match &*fl.expr {
                    Expr::Range(r) => match (&r.start, &r.end) {
                        (Some(a), Some(b)) => match (&**a, &**b) {
                            (Expr::Lit(la), Expr::Lit(lb)) => match (&la.lit, &lb.lit) {
                                (Lit::Int(x), Lit::Int(y)) if lit_u64(x).ok() == Some(0) => lit_u64(y).ok(),
                                _ => None,
                            },
                            _ => None,
                        },
                        _ => None,
                    },
                    _ => None,
                },
                _ => None,
            }).ok_or("round loop not found")?;
            let d = format!("def {lean} (s : St) : {ty} :=\n{}  {}\ndef {lean}Rounds : Nat := {k}\n", ex.lets_text(), body);
            let fin = name;
            let t = format!("theorem {lean}_eq (s : St) : {lean} s = {model} s := rfl\n/-- the whole `{fin}`: prologue (shared `finalizeCommon`), the source's round count, the source's output expression -/\ntheorem {fin}_shape (x : P.State) : P.{fin} x = {lean} (P.finalizeCommon {lean}Rounds x) := rfl\n");
            Ok((d, t))
        })());
    }

    // ---- byte level: one instance per buffer length (the lengths are the only thing control flow depends on)
    let bvars = |n: usize| -> Vec<String> { (0..n).map(|i| format!("b{i}")).collect() };
    let binders = |n: usize| -> String { if n == 0 { String::new() } else { format!(" ({} : BitVec 8)", bvars(n).join(" ")) } };
    let blist = |n: usize| -> String { format!("[{}]", bvars(n).join(", ")) };

    // data_to_lanes on a 32-byte packet
    emit("data_to_lanes", (|| {
        let mut ex = Ex::new(&fns);
        ex.env.insert("#d".into(), Val::Arr(bvars(32).into_iter().map(Val::B).collect()));
        let r = ex.call_fn("data_to_lanes", vec![Val::Slice("#d".into(), 0, 32)])?;
        let d = format!("def dataToLanes{} : V4 :=\n{}  {}\n", binders(32), ex.lets_text(), v4_text(&ex, &r)?);
        let t = format!("theorem dataToLanes_eq{} : dataToLanes {} = P.dataToLanes {} := rfl\n", binders(32), bvars(32).join(" "), blist(32));
        Ok((d, t))
    })());

    // remainder(bytes) for every length 0..=32
    emit("remainder", (|| {
        let mut d = String::new();
        let mut t = String::new();
        for n in 0..=32usize {
            let mut ex = Ex::new(&fns);
            ex.env.insert("#bytes".into(), Val::Arr(bvars(n).into_iter().map(Val::B).collect()));
            let r = ex.call_fn("remainder", vec![Val::Slice("#bytes".into(), 0, n)]).map_err(|e| format!("length {n}: {e}"))?;
            let Val::Arr(a) = r else { return Err("result shape".into()) };
            if a.len() != 32 {
                return Err("packet length".into());
            }
            let bs: Vec<String> = a.iter().map(|x| ex.byte(x)).collect::<R<_>>()?;
            let _ = write!(d, "def remainder{n}{} : List (BitVec 8) :=\n  [{}]\n", binders(n), bs.join(", "));
            let _ = write!(t, "theorem remainder{n}_eq{} : remainder{n} {} = P.remainder {} := by\n  simp only [P.remainder, List.length] <;> rfl\n", binders(n), bvars(n).join(" "), blist(n));
        }
        Ok((d, t))
    })());

    // update_remainder for every pending length 1..=31 (buffer bytes symbolic, the stale tail included)
    emit("update_remainder", (|| {
        let f = fns.get("update_remainder").ok_or("missing")?.clone();
        let mut d = String::new();
        let mut t = String::new();
        for n in 1..=31usize {
            let mut ex = Ex::new(&fns);
            ex.opaque = vec!["update_lanes".into(), "update".into(), "data_to_lanes".into()];
            self_env(&mut ex);
            ex.env.insert("self.buffer.buf".into(), Val::Arr(bvars(32).into_iter().map(Val::B).collect()));
            ex.env.insert("self.buffer.buf_index".into(), Val::N(n as u64));
            ex.block(&f.block).map_err(|e| format!("length {n}: {e}"))?;
            let _ = write!(d, "def updateRemainder{n} (s : St){} : St :=\n{}  {}\n", binders(32), ex.lets_text(), st_text(&ex)?);
            let _ = write!(t, "theorem updateRemainder{n}_eq (s : St){} : updateRemainder{n} s {} = P.updateRemainder ⟨s, ⟨{}, {n}⟩⟩ := by\n  show _ = P.update (P.updateLanes s {n}) (P.dataToLanes (P.remainder {}))\n  rw [← remainder{n}_eq, ← update_eq, ← updateLanes_eq]; unfold updateRemainder{n} remainder{n}; rw [dataToLanes_eq]\n", binders(32), bvars(32).join(" "), blist(32), blist(n));
        }
        Ok((d, t))
    })());

    // checkpoint() for every pending length 0..=32: lanes and the 32 buffer bytes symbolic
    emit("checkpoint", (|| {
        let f = fns.get("HighwayHash::checkpoint").ok_or("missing")?.clone();
        let mut d = String::new();
        let mut t = String::new();
        for n in 0..=32usize {
            let mut ex = Ex::new(&fns);
            ex.consts = consts.clone();
            self_env(&mut ex);
            ex.env.insert("self.buffer.buf".into(), Val::Arr(bvars(32).into_iter().map(Val::B).collect()));
            ex.env.insert("self.buffer.buf_index".into(), Val::N(n as u64));
            let r = ex.block(&f.block).map_err(|e| format!("length {n}: {e}"))?;
            let r = ex.ret.take().unwrap_or(r);
            let Val::Arr(a) = r else { return Err("result shape".into()) };
            if a.len() != 164 {
                return Err("checkpoint length".into());
            }
            let bs: Vec<String> = a.iter().map(|x| ex.byte(x)).collect::<R<_>>()?;
            let _ = write!(d, "def checkpoint{n} (s : St){} : List (BitVec 8) :=\n{}  [{}]\n", binders(32), ex.lets_text(), bs.join(", "));
            let _ = write!(t, "theorem checkpoint{n}_eq (s : St){} : checkpoint{n} s {} = P.checkpoint ⟨s, ⟨{}, {n}⟩⟩ := rfl\n", binders(32), bvars(32).join(" "), blist(32));
        }
        Ok((d, t))
    })());

    // from_checkpoint(data) for 164 symbolic bytes: one instance per value of the clamped pending count
    emit("from_checkpoint", (|| {
        let f = fns.get("from_checkpoint").ok_or("missing")?.clone();
        let p = f.sig.inputs.iter().find_map(|a| match a { syn::FnArg::Typed(t) => match &*t.pat { Pat::Ident(i) => Some(i.ident.to_string()), _ => None }, _ => None }).ok_or("param")?;
        let mut d = String::new();
        let mut t = String::new();
        let big = blist(164);
        for k in 0..=31u64 {
            let mut ex = Ex::new(&fns);
            ex.consts = consts.clone();
            ex.min_choice = Some(k);
            ex.env.insert(p.clone(), Val::Arr(bvars(164).into_iter().map(Val::B).collect()));
            let r = ex.block(&f.block).map_err(|e| format!("count {k}: {e}"))?;
            let Val::Tup(lanes) = r else { return Err("result shape".into()) };
            let parts: Vec<String> = lanes.iter().map(|v| v4_text(&ex, &match v { Val::Ref(k) => ex.env.get(k).cloned().unwrap_or(Val::Unit), o => o.clone() })).collect::<R<_>>()?;
            let Some(Val::Arr(buf)) = ex.env.get("buffer.buf").cloned() else { return Err("the restored packet is not the local `buffer`".into()) };
            let Some(Val::N(idx)) = ex.env.get("buffer.buf_index").cloned() else { return Err("restored index".into()) };
            let bs: Vec<String> = buf.iter().map(|x| ex.byte(x)).collect::<R<_>>()?;
            if ex.assume.len() != 1 {
                return Err("expected exactly one data-dependent clamp".into());
            }
            let hyp = ex.assume[0].clone();
            let lhs_min = hyp.rsplit_once(" = ").map(|x| x.0.to_string()).unwrap_or_default();
            let _ = write!(d, "def fromCheckpoint{k}{} : P.State :=\n{}  ⟨⟨{}, {}, {}, {}⟩, ⟨[{}], {idx}⟩⟩\n", binders(164), ex.lets_text(), parts[0], parts[1], parts[2], parts[3], bs.join(", "));
            let _ = write!(t, "theorem fromCheckpoint{k}_eq{} (h : {hyp}) :\n    P.fromCheckpoint {big} = fromCheckpoint{k} {} := by\n  have e : P.fromCheckpoint {big} = ⟨⟨P.v4OfBytes {big}, P.v4OfBytes (List.drop 32 {big}), P.v4OfBytes (List.drop 64 {big}), P.v4OfBytes (List.drop 96 {big})⟩, (Pkt.default.fill (((List.drop 128 {big}).take 32).take ({lhs_min}))).1⟩ := rfl\n  rw [e, h]; rfl\n", binders(164), bvars(164).join(" "));
        }
        Ok((d, t))
    })());

    // unordered_load3 (src/internal.rs) for the lengths its callers pass (0..=3) and a few more
    emit("unordered_load3", (|| {
        if !fns.contains_key("unordered_load3") {
            return Err("missing".into());
        }
        let mut d = String::new();
        let mut t = String::new();
        // (a non-empty multiple of 4 makes the source index `from[usize::MAX]`: it panics, no caller passes one)
        for n in [0usize, 1, 2, 3, 5, 6, 7] {
            let mut ex = Ex::new(&fns);
            ex.release_plus = true;
            ex.env.insert("#from".into(), Val::Arr(bvars(n).into_iter().map(Val::B).collect()));
            let r = ex.call_fn("unordered_load3", vec![Val::Slice("#from".into(), 0, n)]).map_err(|e| format!("length {n}: {e}"))?;
            let _ = write!(d, "def unorderedLoad3_{n}{} : BitVec 64 :=\n{}  {}\n", binders(n), ex.lets_text(), ex.word(&r)?);
            let _ = write!(t, "theorem unorderedLoad3_{n}_eq{} : unorderedLoad3_{n} {} = HH.unorderedLoad3 {} := by\n  simp only [HH.unorderedLoad3, List.length, List.isEmpty] <;> rfl\n", binders(n), bvars(n).join(" "), blist(n));
        }
        Ok((d, t))
    })());

    out.push_str("/-! ### the translated source equals the hand-written model, for all inputs -/\n\n");
    out.push_str(&thms);
    out.push_str("\nend HH.Gen\n");
    std::fs::write(&args[2], out).expect("write lean");
    let js: Vec<String> = status.iter().map(|(n, s)| format!("  {:?}: {:?}", n, s)).collect();
    std::fs::write(&args[3], format!("{{\n{}\n}}\n", js.join(",\n"))).expect("write status");
    for (n, s) in &status {
        println!("coregen {n}: {s}");
    }
}
