import HH.Intrin.X86
import HH.Portable
import Std.Tactic.BVDecide
/-!
# Lane-level lemmas about the modelled x86 intrinsics (used by the SSE/AVX refinement proofs)
-/
namespace HH
namespace X86

@[simp] theorem lo64_mk (h l : BitVec 64) : lo64 (mk h l) = l := by unfold lo64 mk; bv_decide
@[simp] theorem hi64_mk (h l : BitVec 64) : hi64 (mk h l) = h := by unfold hi64 mk; bv_decide
theorem mk_lo_hi (r : BitVec 128) : mk (hi64 r) (lo64 r) = r := by unfold lo64 hi64 mk; bv_decide
theorem ext128 (a b : BitVec 128) (h1 : lo64 a = lo64 b) (h2 : hi64 a = hi64 b) : a = b := by
  rw [← mk_lo_hi a, ← mk_lo_hi b, h1, h2]

@[simp] theorem lo64_xor (a b : BitVec 128) : lo64 (xor_si128 a b) = lo64 a ^^^ lo64 b := by
  unfold lo64 xor_si128; bv_decide
@[simp] theorem hi64_xor (a b : BitVec 128) : hi64 (xor_si128 a b) = hi64 a ^^^ hi64 b := by
  unfold hi64 xor_si128; bv_decide
@[simp] theorem lo64_or (a b : BitVec 128) : lo64 (or_si128 a b) = lo64 a ||| lo64 b := by
  unfold lo64 or_si128; bv_decide
@[simp] theorem hi64_or (a b : BitVec 128) : hi64 (or_si128 a b) = hi64 a ||| hi64 b := by
  unfold hi64 or_si128; bv_decide
@[simp] theorem lo64_add (a b : BitVec 128) : lo64 (add_epi64 a b) = lo64 a + lo64 b := by simp [add_epi64]
@[simp] theorem hi64_add (a b : BitVec 128) : hi64 (add_epi64 a b) = hi64 a + hi64 b := by simp [add_epi64]
@[simp] theorem lo64_set (e1 e0 : BitVec 64) : lo64 (set_epi64x e1 e0) = e0 := by simp [set_epi64x]
@[simp] theorem hi64_set (e1 e0 : BitVec 64) : hi64 (set_epi64x e1 e0) = e1 := by simp [set_epi64x]

/-- `_mm_mul_epu32(a, rotate_by_32(b))` and `_mm_mul_epu32(a, b >> 32)` are both the portable
`(a & 0xffffffff) * (b >> 32)` on each 64-bit lane -/
theorem mul_epu32_rot (a b : BitVec 128) :
    mul_epu32 a (shuffle_epi32 b 177) = mk (P.mul32 (hi64 a) (hi64 b)) (P.mul32 (lo64 a) (lo64 b)) := by
  unfold mul_epu32 shuffle_epi32 P.mul32 lane32 mk32 mk lo64 hi64
  simp
  bv_decide

theorem mul_epu32_srli (a b : BitVec 128) :
    mul_epu32 a (srli_epi64 b 32) = mk (P.mul32 (hi64 a) (hi64 b)) (P.mul32 (lo64 a) (lo64 b)) := by
  unfold mul_epu32 srli_epi64 P.mul32 mk lo64 hi64
  simp
  bv_decide

/-- `pshufb` with the zipper-merge control = the portable mask-and-shift formulas -/
theorem zipper_shuffle (v : BitVec 128) :
    shuffle_epi8 v (set_epi64x 0x070806090D0A040B#64 0x000F010E05020C03#64)
      = mk (P.zipHi (hi64 v) (lo64 v)) (P.zipLo (hi64 v) (lo64 v)) := by
  unfold shuffle_epi8 pshufbByte byteAt set_epi64x mk P.zipHi P.zipLo lo64 hi64
  simp
  bv_decide

/-- `rotate_by_32`: swap the 32-bit halves of each 64-bit lane -/
theorem shuffle_epi32_rot (v : BitVec 128) :
    shuffle_epi32 v 177 = mk ((hi64 v).rotateLeft 32) ((lo64 v).rotateLeft 32) := by
  unfold shuffle_epi32 lane32 mk32 mk lo64 hi64
  simp
  bv_decide

end X86
end HH
