"""Inventory of the Lean theorems each property's check requires (audited with #print axioms on
every run), claimed levels, assumptions.  A theorem listed here that no longer exists or no longer
checks makes the check report `proof-broken`."""

def allowed_extra_axiom(a):
    # bv_decide's axioms; accepted for SIMD bit-twiddling lemmas only and reported in the evidence
    return a in ("Lean.ofReduceBool", "Lean.trustCompiler") or "_native.bv_decide.ax" in a

THEOREMS = {}
LEVEL = {}
EXPLAIN = {}
ASSUME = {}
SPECIAL = {}
