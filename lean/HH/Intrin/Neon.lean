import HH.Basic
/-!
# HH.Intrin.Neon — semantics of the AArch64 NEON intrinsics used by `src/aarch64.rs`

Transcribed from the Arm intrinsics reference / ARM ARM pseudo-code onto `BitVec 128` (q registers)
and `BitVec 64` (d registers).  `vreinterpretq_*` are identities on the bits.  Validated on every
run against stdarch's definitions as interpreted by Miri (aarch64 target), through the NEON
correspondence stream; `vshlq_u32` additionally depends on the harness shim of
`llvm.aarch64.neon.ushl.v4i32` (see DESIGN.md).
-/
namespace HH
namespace Neon

@[inline] def lo64 (r : BitVec 128) : BitVec 64 := r.setWidth 64
@[inline] def hi64 (r : BitVec 128) : BitVec 64 := (r >>> 64).setWidth 64
@[inline] def mk (hi lo : BitVec 64) : BitVec 128 := hi ++ lo
@[inline] def lane32 (r : BitVec 128) (i : Nat) : BitVec 32 := r.extractLsb' (32 * i) 32
@[inline] def mk32 (d c b a : BitVec 32) : BitVec 128 := d ++ c ++ b ++ a
@[inline] def byteAt (r : BitVec 128) (i : Nat) : BitVec 8 := r.extractLsb' (8 * i) 8

/-- `vld1q_u8(ptr)`, `ptr = mem.as_ptr().add(off)` -/
def vld1q_u8 (mem : List (BitVec 8)) (off : Nat) : BitVec 128 := mk (le64 (mem.drop (off + 8))) (le64 (mem.drop off))
/-- `vld1q_u64([e0, e1].as_ptr())` -/
def vld1q_u64 (e0 e1 : BitVec 64) : BitVec 128 := mk e1 e0
/-- `vst1q_u64` into `[u64; 2]` -/
def vst1q_u64 (r : BitVec 128) : BitVec 64 × BitVec 64 := (lo64 r, hi64 r)
def vdupq_n_u64 (x : BitVec 64) : BitVec 128 := mk x x
def vdupq_n_u32 (x : BitVec 32) : BitVec 128 := mk32 x x x x
def vdupq_n_u8 (x : BitVec 8) : BitVec 128 := mk32 (x ++ x ++ x ++ x) (x ++ x ++ x ++ x) (x ++ x ++ x ++ x) (x ++ x ++ x ++ x)
def vaddq_u64 (a b : BitVec 128) : BitVec 128 := mk (hi64 a + hi64 b) (lo64 a + lo64 b)
def vsubq_u64 (a b : BitVec 128) : BitVec 128 := mk (hi64 a - hi64 b) (lo64 a - lo64 b)
def vandq_u64 (a b : BitVec 128) : BitVec 128 := a &&& b
def vorrq_u64 (a b : BitVec 128) : BitVec 128 := a ||| b
def veorq_u64 (a b : BitVec 128) : BitVec 128 := a ^^^ b
/-- `vbicq_u64(a, b) = a & !b` -/
def vbicq_u64 (a b : BitVec 128) : BitVec 128 := a &&& ~~~b
/-- `vmovn_u64`: low 32 bits of each 64-bit lane, as a 64-bit d register -/
def vmovn_u64 (a : BitVec 128) : BitVec 64 := (hi64 a).setWidth 32 ++ (lo64 a).setWidth 32
/-- `vshrn_n_u64(a, n)`: `(lane >> n)` narrowed to 32 bits -/
def vshrn_n_u64 (a : BitVec 128) (n : Nat) : BitVec 64 := (hi64 a >>> n).setWidth 32 ++ (lo64 a >>> n).setWidth 32
/-- `vmull_u32(a, b)`: widening multiply of the two 32-bit lanes of d registers -/
def vmull_u32 (a b : BitVec 64) : BitVec 128 :=
  mk (((a >>> 32).setWidth 32).setWidth 64 * ((b >>> 32).setWidth 32).setWidth 64)
     ((a.setWidth 32).setWidth 64 * (b.setWidth 32).setWidth 64)
/-- `vshrq_n_u64(a, n)`, `1 ≤ n ≤ 64` -/
def vshrq_n_u64 (a : BitVec 128) (n : Nat) : BitVec 128 := mk (hi64 a >>> n) (lo64 a >>> n)
/-- `vrev64q_u32`: reverse the 32-bit elements inside each 64-bit lane -/
def vrev64q_u32 (a : BitVec 128) : BitVec 128 := mk32 (lane32 a 2) (lane32 a 3) (lane32 a 0) (lane32 a 1)
/-- `vsetq_lane_u32(x, v, lane)` -/
def vsetq_lane_u32 (x : BitVec 32) (v : BitVec 128) (lane : Nat) : BitVec 128 :=
  mk32 (if lane = 3 then x else lane32 v 3) (if lane = 2 then x else lane32 v 2)
       (if lane = 1 then x else lane32 v 1) (if lane = 0 then x else lane32 v 0)
/-- one byte of `vqtbl1q_u8`: out-of-range indices give 0 -/
def tblByte (t : BitVec 128) (i : BitVec 8) : BitVec 8 := if i.toNat < 16 then byteAt t i.toNat else 0
/-- `vqtbl1q_u8(t, idx)` -/
def vqtbl1q_u8 (t idx : BitVec 128) : BitVec 128 :=
  tblByte t (byteAt idx 15) ++ tblByte t (byteAt idx 14) ++ tblByte t (byteAt idx 13) ++ tblByte t (byteAt idx 12) ++
  tblByte t (byteAt idx 11) ++ tblByte t (byteAt idx 10) ++ tblByte t (byteAt idx 9) ++ tblByte t (byteAt idx 8) ++
  tblByte t (byteAt idx 7) ++ tblByte t (byteAt idx 6) ++ tblByte t (byteAt idx 5) ++ tblByte t (byteAt idx 4) ++
  tblByte t (byteAt idx 3) ++ tblByte t (byteAt idx 2) ++ tblByte t (byteAt idx 1) ++ tblByte t (byteAt idx 0)
/-- `vextq_u8(a, b, n)`: bytes `n..15` of `a` followed by bytes `0..n-1` of `b` -/
def vextq_u8 (a b : BitVec 128) (n : Nat) : BitVec 128 := (a >>> (8 * n)) ||| (b <<< (8 * (16 - n)))
/-- one lane of `vshlq_u32(a, b)` (USHL): shift by the signed low byte of `b` -/
def ushl32 (a : BitVec 32) (b : BitVec 32) : BitVec 32 :=
  let sh := (b.setWidth 8).toInt
  if sh ≥ 0 then (if sh ≥ 32 then 0 else a <<< sh.toNat)
  else (if -sh ≥ 32 then 0 else a >>> (-sh).toNat)
def vshlq_u32 (a b : BitVec 128) : BitVec 128 :=
  mk32 (ushl32 (lane32 a 3) (lane32 b 3)) (ushl32 (lane32 a 2) (lane32 b 2))
       (ushl32 (lane32 a 1) (lane32 b 1)) (ushl32 (lane32 a 0) (lane32 b 0))

end Neon
end HH
