// C08, static release claim: every public operation of every native hasher type is wrapped in a
// `#[no_panic]` function; the release binary (lto = fat, one codegen unit) links only if the
// optimiser removed every panic path from each wrapper.  A link failure names the wrapper.
use highway::{HighwayHash, HighwayHasher, Key, PortableHash};
#[cfg(target_arch = "x86_64")]
use highway::{AvxHash, SseHash};
use no_panic::no_panic;
use std::hash::Hasher;
use std::io::{Read, Write};

macro_rules! wrappers {
    ($m:ident, $t:ty) => {
        mod $m {
            use super::*;
            #[no_panic]
            pub fn append(h: &mut $t, d: &[u8]) {
                h.append(d)
            }
            #[no_panic]
            pub fn fin64(h: $t) -> u64 {
                h.finalize64()
            }
            #[no_panic]
            pub fn fin128(h: $t) -> [u64; 2] {
                h.finalize128()
            }
            #[no_panic]
            pub fn fin256(h: $t) -> [u64; 4] {
                h.finalize256()
            }
            #[no_panic]
            pub fn hash64(h: $t, d: &[u8]) -> u64 {
                h.hash64(d)
            }
            #[no_panic]
            pub fn hash128(h: $t, d: &[u8]) -> [u64; 2] {
                h.hash128(d)
            }
            #[no_panic]
            pub fn hash256(h: $t, d: &[u8]) -> [u64; 4] {
                h.hash256(d)
            }
            #[no_panic]
            pub fn checkpoint(h: &$t) -> [u8; 164] {
                h.checkpoint()
            }
            #[no_panic]
            pub fn clone(h: &$t) -> $t {
                h.clone()
            }
            #[no_panic]
            pub fn hwrite(h: &mut $t, d: &[u8]) {
                Hasher::write(h, d)
            }
            #[no_panic]
            pub fn finish(h: &$t) -> u64 {
                Hasher::finish(h)
            }
            #[no_panic]
            pub fn iowrite(h: &mut $t, d: &[u8]) -> usize {
                match Write::write(h, d) {
                    Ok(n) => n,
                    Err(_) => usize::MAX,
                }
            }
            #[no_panic]
            pub fn flush(h: &mut $t) -> bool {
                Write::flush(h).is_ok()
            }
        }
    };
}

wrappers!(portable, PortableHash);
wrappers!(auto, HighwayHasher);
#[cfg(target_arch = "x86_64")]
wrappers!(sse, SseHash);
#[cfg(target_arch = "x86_64")]
wrappers!(avx, AvxHash);

#[no_panic]
fn portable_new(k: Key) -> PortableHash {
    PortableHash::new(k)
}
#[no_panic]
fn portable_default() -> PortableHash {
    PortableHash::default()
}
#[no_panic]
fn portable_restore(c: [u8; 164]) -> PortableHash {
    PortableHash::from_checkpoint(c)
}
#[no_panic]
fn auto_new(k: Key) -> HighwayHasher {
    HighwayHasher::new(k)
}
#[no_panic]
fn auto_default() -> HighwayHasher {
    HighwayHasher::default()
}
#[no_panic]
fn auto_restore(c: [u8; 164]) -> HighwayHasher {
    HighwayHasher::from_checkpoint(c)
}
#[cfg(target_arch = "x86_64")]
#[no_panic]
fn sse_new(k: Key) -> Option<SseHash> {
    SseHash::new(k)
}
#[cfg(target_arch = "x86_64")]
#[no_panic]
fn sse_restore(c: [u8; 164]) -> Option<SseHash> {
    SseHash::from_checkpoint(c)
}
#[cfg(target_arch = "x86_64")]
#[no_panic]
fn avx_new(k: Key) -> Option<AvxHash> {
    AvxHash::new(k)
}
#[cfg(target_arch = "x86_64")]
#[no_panic]
fn avx_restore(c: [u8; 164]) -> Option<AvxHash> {
    AvxHash::from_checkpoint(c)
}

macro_rules! exercise {
    ($m:ident, $h:expr, $d:expr, $acc:ident) => {{
        let mut h = $h;
        $m::append(&mut h, $d);
        $m::hwrite(&mut h, $d);
        $acc ^= $m::iowrite(&mut h, $d) as u64;
        $acc ^= $m::flush(&mut h) as u64;
        $acc ^= $m::finish(&h);
        let c = $m::checkpoint(&h);
        $acc ^= c[3] as u64;
        let h2 = $m::clone(&h);
        let h3 = $m::clone(&h);
        let h4 = $m::clone(&h);
        let h5 = $m::clone(&h);
        let h6 = $m::clone(&h);
        $acc ^= $m::fin64(h);
        $acc ^= $m::fin128(h2)[1];
        $acc ^= $m::fin256(h3)[3];
        $acc ^= $m::hash64(h4, $d);
        $acc ^= $m::hash128(h5, $d)[0];
        $acc ^= $m::hash256(h6, $d)[2];
        c
    }};
}

fn main() {
    let mut data = Vec::new();
    std::io::stdin().read_to_end(&mut data).unwrap();
    let k = Key([data.len() as u64, data.first().copied().unwrap_or(0) as u64, 3, 4]);
    let mut acc = 0u64;
    let mut c = exercise!(portable, portable_new(k), &data[..], acc);
    c[160] ^= data.len() as u8; // arbitrary, possibly out-of-range count field
    c[161] ^= data.first().copied().unwrap_or(0);
    exercise!(portable, portable_restore(c), &data[..], acc);
    exercise!(portable, portable_default(), &data[..], acc);
    exercise!(auto, auto_new(k), &data[..], acc);
    exercise!(auto, auto_restore(c), &data[..], acc);
    exercise!(auto, auto_default(), &data[..], acc);
    #[cfg(target_arch = "x86_64")]
    {
        if let Some(h) = sse_new(k) {
            exercise!(sse, h, &data[..], acc);
        }
        if let Some(h) = sse_restore(c) {
            exercise!(sse, h, &data[..], acc);
        }
        if let Some(h) = avx_new(k) {
            exercise!(avx, h, &data[..], acc);
        }
        if let Some(h) = avx_restore(c) {
            exercise!(avx, h, &data[..], acc);
        }
    }
    println!("{acc:016x}");
}
