import HH.Proofs.MachineLemmas
import HH.Props.C15Facts
import HH.Props.C13
/-!
# C15 — hasher instances are isolated: no hidden shared state

The machine has no component besides the handle table, and `step` satisfies the frame and
locality lemmas; hence for any two families of operations over disjoint handle sets and ANY
interleaving of their steps, each family's outputs are exactly those of its isolated run.
(n families follow by taking "all the others" as the second family.)  The absence of process-global
state in the *source* is the regenerated fact `globalFacts = []` (see `HH/Props/C15Facts.lean`).
-/
namespace HH.C15
open C13

/-- interleaving independence at the level of atomic API calls -/
theorem interleave_independent (env : Env) (S : Nat → Prop) (il : List (Bool × Op))
    (hA : ∀ p ∈ il, p.1 = true → p.2.isReset = false ∧ ∀ j ∈ p.2.handles, S j)
    (hB : ∀ p ∈ il, p.1 = false → p.2.isReset = false ∧ ∀ j ∈ p.2.handles, ¬ S j) :
    ∀ (w w' : World), (∀ j, S j → w.get j = w'.get j) →
      runTagged env w il = (run env w' ((il.filter (·.1)).map (·.2))).2 := by
  induction il with
  | nil => intro w w' _; rfl
  | cons p rest ih =>
    intro w w' agree
    obtain ⟨t, op⟩ := p
    have ihA : ∀ p ∈ rest, p.1 = true → p.2.isReset = false ∧ ∀ j ∈ p.2.handles, S j :=
      fun p hp => hA p (List.mem_cons_of_mem _ hp)
    have ihB : ∀ p ∈ rest, p.1 = false → p.2.isReset = false ∧ ∀ j ∈ p.2.handles, ¬ S j :=
      fun p hp => hB p (List.mem_cons_of_mem _ hp)
    cases t with
    | true =>
      have h := hA (true, op) List.mem_cons_self rfl
      have loc := step_local env w w' op h.1 (fun j hj => agree j (h.2 j hj))
      simp only [runTagged, ↓reduceIte, List.filter_cons, List.map_cons, run]
      rw [loc.1]
      congr 1
      apply ih ihA ihB
      intro j hj
      by_cases hm : j ∈ op.handles
      · exact loc.2 j hm
      · rw [step_frame env w op j h.1 hm, step_frame env w' op j h.1 hm]; exact agree j hj
    | false =>
      have h := hB (false, op) List.mem_cons_self rfl
      simp only [runTagged, Bool.false_eq_true, ↓reduceIte, List.filter_cons]
      apply ih ihA ihB
      intro j hj
      have hm : j ∉ op.handles := fun hm => h.2 j hm hj
      rw [step_frame env w op j h.1 hm]; exact agree j hj

/-- non-vacuity: a concrete interleaving of two families (handles < 10 vs ≥ 10) meets the hypotheses -/
example :
    let il : List (Bool × Op) := [(true, .new 0 .auto false ⟨1, 2, 3, 4⟩), (false, .new 10 (.only .portable) false ⟨5, 6, 7, 8⟩),
      (true, .append 0 [1, 2, 3]), (false, .append 10 [9]), (false, .finish 10), (true, .clone 0 1), (true, .fin 0 .w256)]
    (∀ p ∈ il, p.1 = true → p.2.isReset = false ∧ ∀ j ∈ p.2.handles, j < 10) ∧
    (∀ p ∈ il, p.1 = false → p.2.isReset = false ∧ ∀ j ∈ p.2.handles, ¬ j < 10) := by
  simp [Op.isReset, Op.handles]

theorem runTagged_all (env : Env) (ops : List Op) : ∀ w : World,
    runTagged env w (ops.map fun op => (true, op)) = (run env w ops).2 := by
  induction ops with
  | nil => intro w; rfl
  | cons o os ih => intro w; simp only [List.map_cons, runTagged, ↓reduceIte, run, ih]

theorem filter_all_true (ops : List Op) : ((ops.map fun op => (true, op)).filter (·.1)).map (·.2) = ops := by
  induction ops with
  | nil => rfl
  | cons o os ih => simp only [List.map_cons, List.filter_cons, ↓reduceIte, ih]

/-- the model has no state besides the handle table: two runs of one history from worlds that agree
on the handles the history names produce the same outputs, whatever else the worlds contain -/
theorem outputs_depend_on_own_handles (env : Env) (ops : List Op) (S : Nat → Prop)
    (hops : ∀ op ∈ ops, op.isReset = false ∧ ∀ j ∈ op.handles, S j) (w w' : World)
    (agree : ∀ j, S j → w.get j = w'.get j) : (run env w ops).2 = (run env w' ops).2 := by
  have h := interleave_independent env S (ops.map fun op => (true, op))
    (by intro p hp _; obtain ⟨op, ho, rfl⟩ := List.mem_map.1 hp; exact hops op ho)
    (by intro p hp hf; obtain ⟨op, _, rfl⟩ := List.mem_map.1 hp; cases hf)
    w w' agree
  rw [filter_all_true, runTagged_all] at h
  exact h

end HH.C15
