import HH.WasmB
import HH.Proofs.PortableSpec
import Mathlib.Tactic.IntervalCases
/-!
# The Wasm SIMD model refines the portable model (step lemmas, valid for ALL register states)

`lo r` / `hi r` are the halves in the crate's reversed lane convention (`lo` = wasm lane 1).
-/
namespace HH
namespace WasmB
open Wasm

@[simp] theorem lo_new (h l : BitVec 64) : lo (v2new h l) = l := by
  unfold lo v2new u64x2_extract_lane lane64 u64x2; bv_decide
@[simp] theorem hi_new (h l : BitVec 64) : hi (v2new h l) = h := by
  unfold hi v2new u64x2_extract_lane lane64 u64x2; bv_decide
theorem new_hi_lo (r : BitVec 128) : v2new (hi r) (lo r) = r := by
  unfold hi lo v2new u64x2_extract_lane lane64 u64x2; bv_decide
theorem ext128 (a b : BitVec 128) (h1 : lo a = lo b) (h2 : hi a = hi b) : a = b := by
  rw [← new_hi_lo a, ← new_hi_lo b, h1, h2]
@[simp] theorem lo_xor (a b : BitVec 128) : lo (v128_xor a b) = lo a ^^^ lo b := by
  unfold lo v128_xor u64x2_extract_lane lane64; bv_decide
@[simp] theorem hi_xor (a b : BitVec 128) : hi (v128_xor a b) = hi a ^^^ hi b := by
  unfold hi v128_xor u64x2_extract_lane lane64; bv_decide
@[simp] theorem lo_add (a b : BitVec 128) : lo (u64x2_add a b) = lo a + lo b := by
  unfold lo u64x2_add u64x2_extract_lane lane64 u64x2; bv_decide
@[simp] theorem hi_add (a b : BitVec 128) : hi (u64x2_add a b) = hi a + hi b := by
  unfold hi u64x2_add u64x2_extract_lane lane64 u64x2; bv_decide

theorem mul_rot (a b : BitVec 128) :
    mulEpu32 a (rotateBy32 b) = v2new (P.mul32 (hi a) (hi b)) (P.mul32 (lo a) (lo b)) := by
  apply ext128 <;>
  · unfold mulEpu32 rotateBy32 u32x4_shuffle sel32 u64x2_mul v128_and u32x4 P.mul32 lo hi v2new u64x2_extract_lane lane64 lane32 u64x2
    simp
    bv_decide

theorem mul_srli (a b : BitVec 128) :
    mulEpu32 a (srliEpi64 b 32) = v2new (P.mul32 (hi a) (hi b)) (P.mul32 (lo a) (lo b)) := by
  apply ext128 <;>
  · unfold mulEpu32 srliEpi64 u64x2_shr u64x2_mul v128_and u32x4 P.mul32 lo hi v2new u64x2_extract_lane lane64 u64x2
    simp
    bv_decide

theorem rot_lanes (v : BitVec 128) : rotateBy32 v = v2new ((hi v).rotateLeft 32) ((lo v).rotateLeft 32) := by
  apply ext128 <;>
  · unfold rotateBy32 u32x4_shuffle sel32 u32x4 lo hi v2new u64x2_extract_lane lane64 lane32 u64x2
    simp
    bv_decide

theorem zipper_lanes (v : BitVec 128) :
    zipperMerge v = v2new (P.zipHi (hi v) (lo v)) (P.zipLo (hi v) (lo v)) := by
  apply ext128 <;>
  · unfold zipperMerge u8x16_shuffle selByte byteAt P.zipHi P.zipLo lo hi v2new u64x2_extract_lane lane64 u64x2
    simp
    bv_decide

def lanesOfRegs (pH pL : BitVec 128) : V4 := ⟨lo pL, hi pL, lo pH, hi pH⟩

theorem update_refines (r : Regs) (pH pL : BitVec 128) :
    toPortable (update r pH pL) = P.update (toPortable r) (lanesOfRegs pH pL) := by
  simp only [update, toPortable, P.update, lanesOfRegs, zipper_lanes, mul_rot, mul_srli, lo_add, hi_add, lo_xor, hi_xor,
    lo_new, hi_new, V4.add, V4.xor, V4.zipWith, P.zipperAdd]

theorem updPacket_refines (r : Regs) (pkt : List (BitVec 8)) :
    toPortable (updPacket r pkt) = P.updPacket (toPortable r) pkt := by
  simp only [updPacket, update_refines, P.updPacket]
  congr 1
  simp [lanesOfRegs, P.dataToLanes]

theorem permuteAndUpdate_refines (r : Regs) :
    toPortable (permuteAndUpdate r) = P.permuteAndUpdate (toPortable r) := by
  simp only [permuteAndUpdate, update_refines, P.permuteAndUpdate]
  congr 1
  simp [lanesOfRegs, rot_lanes, P.permute, toPortable]

theorem rounds_refines (n : Nat) (r : Regs) : toPortable (rounds n r) = P.rounds n (toPortable r) := by
  induction n generalizing r with
  | zero => rfl
  | succ n ih => simp only [rounds, P.rounds, ih, permuteAndUpdate_refines]

theorem toPortable_fromPortable (p : St) : toPortable (fromPortable p) = p := by
  simp [toPortable, fromPortable]

theorem fromPortable_toPortable (r : Regs) : fromPortable (toPortable r) = r := by
  simp [toPortable, fromPortable, new_hi_lo]

theorem new_refines (k : V4) : toPortable (new k).r = (P.new k).st := by
  simp [new, toPortable, P.new, rot_lanes, init0L, init0H, init1L, init1H, P.init0, P.init1, V4.zipWith, V4.map]
  refine ⟨⟨?_, ?_, ?_, ?_⟩, ⟨?_, ?_, ?_, ?_⟩⟩ <;> exact BitVec.xor_comm _ _

set_option maxRecDepth 100000 in
set_option maxHeartbeats 8000000 in
theorem remainder_refines_fn (n : Nat) (h : n < 32) (f : Fin n → BitVec 8) :
    lanesOfRegs (remainder (List.ofFn f)).1 (remainder (List.ofFn f)).2 = P.dataToLanes (P.remainder (List.ofFn f)) := by
  interval_cases n <;>
  simp [remainder, loadMultipleOfFour, P.remainder, P.dataToLanes, lanesOfRegs, unorderedLoad3, zeros, List.ofFn_succ,
    List.replicate, List.set, List.getD, List.zipWith, slli8, u64x2_shuffle, sel64, le64, le32, i32x4_replace_lane,
    v128_or, v128_and, u32x4, lo, hi, v2new, u64x2_extract_lane, lane64, lane32, u64x2] <;>
  bv_decide

theorem remainder_refines (bytes : List (BitVec 8)) (h : bytes.length < 32) :
    lanesOfRegs (remainder bytes).1 (remainder bytes).2 = P.dataToLanes (P.remainder bytes) := by
  have := remainder_refines_fn bytes.length h (fun i => bytes[i])
  simpa using this

theorem vsize_add (v : BitVec 128) (n : Nat) (h : n < 32) :
    u64x2_add v (u32x4 (BitVec.ofNat 32 n) (BitVec.ofNat 32 n) (BitVec.ofNat 32 n) (BitVec.ofNat 32 n)) =
      v2new (hi v + ((BitVec.ofNat 64 n <<< 32) + BitVec.ofNat 64 n)) (lo v + ((BitVec.ofNat 64 n <<< 32) + BitVec.ofNat 64 n)) := by
  apply ext128
  · simp only [lo_add, lo_new]; congr 1
    interval_cases n <;> decide
  · simp only [hi_add, hi_new]; congr 1
    interval_cases n <;> decide

set_option maxRecDepth 100000 in
theorem rotate32By_lanes (v : BitVec 128) (n : Nat) (h : n < 32) :
    rotate32By v n = v2new (P.rot32Lane n (hi v)) (P.rot32Lane n (lo v)) := by
  apply ext128 <;>
  · unfold rotate32By P.rot32Lane u32x4_shl u32x4_shr v128_or u32x4 lo hi v2new u64x2_extract_lane lane64 lane32 u64x2
    interval_cases n <;> simp <;> bv_decide

theorem updateRemainder_refines (x : State) (hb : x.buffer.buf.length = 32) (hi' : x.buffer.idx < 32) :
    toPortable (updateRemainder x) =
      P.update (P.updateLanes (toPortable x.r) x.buffer.idx) (P.dataToLanes (P.remainder (x.buffer.buf.take x.buffer.idx))) := by
  have hl : x.buffer.asSlice.length < 32 := by simp [Pkt.asSlice]; omega
  simp only [updateRemainder, update_refines, remainder_refines _ hl, Pkt.len]
  congr 1
  simp only [toPortable, P.updateLanes, vsize_add _ _ hi', rotate32By_lanes _ _ hi', lo_new, hi_new, V4.map]

theorem finalizeCommon_refines (n : Nat) (x : State) (hx : x.buffer.Inv) :
    toPortable (finalizeCommon n x) = P.finAbs n (toPortable x.r, x.buffer.asSlice) := by
  obtain ⟨hi', hb⟩ := hx
  have hl : (List.take x.buffer.idx x.buffer.buf).length = x.buffer.idx := by simp; omega
  simp only [finalizeCommon, rounds_refines, P.finAbs, Pkt.asSlice, hl, Pkt.isEmpty]
  by_cases h0 : x.buffer.idx = 0
  · simp [h0]
  · simp [h0, updateRemainder_refines x hb hi']

theorem modularReduction_refines (x init : BitVec 128) :
    (lo (modularReduction x init), hi (modularReduction x init))
      = P.moduleReduction (hi x) (lo x) (hi init) (lo init) := by
  unfold modularReduction P.moduleReduction andNot slli8 u64x2_shuffle sel64 i32x4_replace_lane srliEpi64 u64x2_shr u64x2_add
    v128_xor v128_andnot u32x4 lo hi v2new u64x2_extract_lane lane64 lane32 u64x2
  simp
  constructor <;> bv_decide

theorem finalize64_refines (x : State) (hx : x.buffer.Inv) :
    finalize64 x = P.out64 (P.finAbs 4 (toPortable x.r, x.buffer.asSlice)) := by
  rw [← finalizeCommon_refines 4 x hx]
  have e : ∀ r, u64x2_extract_lane 1 r = lo r := fun _ => rfl
  simp only [finalize64, e, lo_add, P.out64, toPortable]
  ac_rfl

theorem finalize128_refines (x : State) (hx : x.buffer.Inv) :
    finalize128 x = P.out128 (P.finAbs 6 (toPortable x.r, x.buffer.asSlice)) := by
  rw [← finalizeCommon_refines 6 x hx]
  have e : ∀ r, u64x2_extract_lane 1 r = lo r := fun _ => rfl
  have e0 : ∀ r, u64x2_extract_lane 0 r = hi r := fun _ => rfl
  simp only [finalize128, e, e0, lo_add, hi_add, P.out128, toPortable, Prod.mk.injEq]
  constructor <;> ac_rfl

theorem finalize256_refines (x : State) (hx : x.buffer.Inv) :
    finalize256 x = P.out256 (P.finAbs 10 (toPortable x.r, x.buffer.asSlice)) := by
  rw [← finalizeCommon_refines 10 x hx]
  have e : ∀ r, u64x2_extract_lane 1 r = lo r := fun _ => rfl
  have e0 : ∀ r, u64x2_extract_lane 0 r = hi r := fun _ => rfl
  simp only [finalize256, P.out256, toPortable, e, e0]
  have h1 := modularReduction_refines (u64x2_add (finalizeCommon 10 x).v1L (finalizeCommon 10 x).mul1L)
    (u64x2_add (finalizeCommon 10 x).v0L (finalizeCommon 10 x).mul0L)
  have h2 := modularReduction_refines (u64x2_add (finalizeCommon 10 x).v1H (finalizeCommon 10 x).mul1H)
    (u64x2_add (finalizeCommon 10 x).v0H (finalizeCommon 10 x).mul0H)
  simp only [lo_add, hi_add] at h1 h2
  rw [← h1, ← h2]

def abs (x : State) : St × List (BitVec 8) := (toPortable x.r, x.buffer.asSlice)

theorem append_abs (x : State) (d : List (BitVec 8)) (hx : x.buffer.Inv) :
    abs (append x d) = AbsAppend P.updPacket (abs x) d ∧ (append x d).buffer.Inv := by
  have h := appendG_abs updPacket (x.r, x.buffer) d hx
  refine ⟨?_, h.2⟩
  have h1 := h.1
  simp only [absP] at h1
  simp only [abs, append, Pkt.asSlice]
  have hm := AbsAppend_map toPortable updPacket P.updPacket updPacket_refines (x.r, List.take x.buffer.idx x.buffer.buf) d
  rw [← hm, ← h1]

theorem new_abs (k : V4) : abs (new k) = (Spec.reset k, []) ∧ (new k).buffer.Inv := by
  refine ⟨?_, Pkt.default_inv⟩
  have := P.new_abs k
  simp only [absP] at this
  simp only [abs, new_refines, Pkt.asSlice]
  exact this

end WasmB
end HH
