import HH.Proofs.MachineLemmas
/-!
# C13 — observers do not perturb state; clones are independent

Histories are lists of `Op`; `run` interprets them on the machine.  Observers are the operations
that take the hasher by shared reference: `checkpoint`, `Hasher::finish`, `flush`, `Debug`.
-/
namespace HH.C13

/-- the outputs of the ops tagged `true`, in order -/
def runTagged (env : Env) : World → List (Bool × Op) → List Out
  | _, [] => []
  | w, (t, op) :: rest =>
    let r := step env w op
    if t then r.2 :: runTagged env r.1 rest else runTagged env r.1 rest

/-- each observer leaves the whole world untouched -/
theorem observer_noop (env : Env) (w : World) (op : Op) (h : op.isObserver = true) : (step env w op).1 = w :=
  observer_world env w op h

/-- observers inserted at arbitrary positions of any history are removable: the final world and
every non-observer output equal those of the history with the observers deleted -/
theorem observers_removable (env : Env) (ops : List Op) : ∀ w : World,
    (run env w ops).1 = (run env w (ops.filter (fun op => !op.isObserver))).1 ∧
    runTagged env w (ops.map fun op => (!op.isObserver, op)) = (run env w (ops.filter (fun op => !op.isObserver))).2 := by
  induction ops with
  | nil => intro w; exact ⟨rfl, rfl⟩
  | cons op ops ih =>
    intro w
    by_cases ho : op.isObserver = true
    · have hw := observer_world env w op ho
      simp only [run, List.filter_cons, ho, Bool.not_true, Bool.false_eq_true, ↓reduceIte, List.map_cons, runTagged, hw]
      exact ih w
    · have ho' : op.isObserver = false := by simpa using ho
      simp only [run, List.filter_cons, ho', Bool.not_false, ↓reduceIte, List.map_cons, runTagged]
      have := ih (step env w op).1
      exact ⟨this.1, by rw [this.2]⟩

/-- a clone is identical to the original at the moment of cloning -/
theorem clone_identical (env : Env) (w : World) (src dst : Nat) (x : Handle) (h : w.get src = some x) :
    (step env w (.clone src dst)).1.get dst = some x ∧ (step env w (.clone src dst)).1.get src = some x := by
  simp only [step, h, World.get_put, ↓reduceIte]
  constructor
  · trivial
  · split <;> simp [h]

/-- … and completely independent afterwards: no operation on other handles (in particular on the
clone) ever changes the original, and vice versa -/
theorem clone_independent (env : Env) (w : World) (keep : Nat) (ops : List Op)
    (hops : ∀ op ∈ ops, op.isReset = false ∧ keep ∉ op.handles) :
    (run env w ops).1.get keep = w.get keep := by
  induction ops generalizing w with
  | nil => rfl
  | cons op ops ih =>
    simp only [run]
    have h1 := hops op (List.mem_cons_self)
    rw [ih (step env w op).1 (fun o ho => hops o (List.mem_cons_of_mem _ ho))]
    exact step_frame env w op keep h1.1 h1.2

/-- `Hasher::finish` (which clones and finalises) and `checkpoint` return a function of the handle's
current state and are repeatable -/
theorem finish_repeatable (env : Env) (w : World) (h : Nat) :
    (step env (step env w (.finish h)).1 (.finish h)).2 = (step env w (.finish h)).2 := by
  rw [observer_world env w (.finish h) rfl]

/-- non-vacuity of `clone_independent`: a history on the clone (handle 2) never names the original (handle 0) -/
example : ∀ op ∈ ([.append 2 [1, 2], .finish 2, .fin 2 .w64] : List Op), op.isReset = false ∧ 0 ∉ op.handles := by
  simp [Op.isReset, Op.handles]

example : (Op.ckpt 3).isObserver = true ∧ (Op.append 3 []).isObserver = false := ⟨rfl, rfl⟩

end HH.C13
