import HH.Proofs.Obs
/-!
# C14 — checkpoint bytes are a canonical encoding of the logical state
-/
namespace HH.C14

/-- the checkpoint is a function of the abstract state only -/
theorem ckpt_of_abs (h1 h2 : Hasher) (i1 : h1.Inv) (i2 : h2.Inv) (e : h1.abs = h2.abs) :
    h1.checkpoint = h2.checkpoint := by
  rw [Hasher.checkpoint_abs _ i1, Hasher.checkpoint_abs _ i2, e]

/-- two hashers (any back ends) built from the same key that consumed the same stream under any two
chunkings produce identical checkpoints: a function of (key, bytes consumed) only -/
theorem canonical (b1 b2 : Backend) (k : V4) (h1 h2 : Hasher) (e1 : Hasher.new b1 k = some h1)
    (e2 : Hasher.new b2 k = some h2) (c1 c2 : List (List (BitVec 8))) (e : c1.flatten = c2.flatten) :
    (c1.foldl Hasher.append h1).checkpoint = (c2.foldl Hasher.append h2).checkpoint ∧
    (c1.foldl Hasher.append h1).checkpoint = P.encodeAbs (absAppend (Spec.reset k, []) c1.flatten) := by
  have n1 := Hasher.new_abs b1 k h1 e1
  have n2 := Hasher.new_abs b2 k h2 e2
  have a1 := Hasher.foldl_append_abs c1 h1 n1.2
  have a2 := Hasher.foldl_append_abs c2 h2 n2.2
  constructor
  · apply ckpt_of_abs _ _ a1.2 a2.2
    rw [a1.1, a2.1, n1.1, n2.1, e]
  · rw [Hasher.checkpoint_abs _ a1.2, a1.1, n1.1]

/-- restoring a produced checkpoint and checkpointing again returns the same 164 bytes -/
theorem idempotent (h : Hasher) (hi : h.Inv) (b : Backend) (h' : Hasher)
    (hr : Hasher.fromCheckpoint b h.checkpoint = some h') : h'.checkpoint = h.checkpoint := by
  have r := Hasher.restore_abs h hi b h' hr
  exact ckpt_of_abs h' h r.2 hi r.1

/-- the checkpoint contains no input bytes that have already been absorbed: the buffer field is the
pending bytes followed by zeros -/
theorem buffer_field (h : Hasher) (hi : h.Inv) :
    (h.checkpoint.drop 128).take 32 = h.abs.2 ++ zeros (32 - h.abs.2.length) := by
  have hlt := Hasher.abs_pending_lt h hi
  rw [Hasher.checkpoint_abs h hi]
  generalize h.abs = a at hlt ⊢
  obtain ⟨s, pend⟩ := a
  simp only at hlt ⊢
  have e : P.encodeAbs (s, pend) =
      s.v0.toList.flatMap toLE64 ++ (s.v1.toList.flatMap toLE64 ++ (s.mul0.toList.flatMap toLE64 ++
        (s.mul1.toList.flatMap toLE64 ++ ((pend ++ zeros (32 - pend.length)) ++ toLE32 (BitVec.ofNat 32 pend.length))))) := by
    simp only [P.encodeAbs, P.lanes16, List.flatMap_append, List.append_assoc]
  rw [e, P.drop128_v4]
  have hl : (pend ++ zeros (32 - pend.length)).length = 32 := by simp [zeros]; omega
  rw [List.take_append_of_le_length (by omega), List.take_of_length_le (by omega)]

/-- the encoding is faithful: equal checkpoint bytes force equal logical states (the converse of
`ckpt_of_abs`), for hashers on any two back ends -/
theorem injective (h1 h2 : Hasher) (i1 : h1.Inv) (i2 : h2.Inv) (e : h1.checkpoint = h2.checkpoint) :
    h1.abs = h2.abs := by
  rw [Hasher.checkpoint_abs _ i1, Hasher.checkpoint_abs _ i2] at e
  have d1 := P.decode_encode h1.abs (Hasher.abs_pending_lt h1 i1)
  have d2 := P.decode_encode h2.abs (Hasher.abs_pending_lt h2 i2)
  rw [← d1, ← d2, e]

/-- hence the 164 bytes determine every later observation: two hashers (any back ends, any histories)
with equal checkpoints agree on every digest and every later checkpoint after any further chunk list -/
theorem equal_ckpt_equal_future (h1 h2 : Hasher) (i1 : h1.Inv) (i2 : h2.Inv) (e : h1.checkpoint = h2.checkpoint)
    (c1 c2 : List (List (BitVec 8))) (ec : c1.flatten = c2.flatten) (w : Width) :
    (c1.foldl Hasher.append h1).finalize w = (c2.foldl Hasher.append h2).finalize w ∧
    (c1.foldl Hasher.append h1).checkpoint = (c2.foldl Hasher.append h2).checkpoint := by
  have ea := injective h1 h2 i1 i2 e
  have a1 := Hasher.foldl_append_abs c1 h1 i1
  have a2 := Hasher.foldl_append_abs c2 h2 i2
  constructor
  · rw [Hasher.finalize_abs _ w a1.2, Hasher.finalize_abs _ w a2.2, a1.1, a2.1, ea, ec]
  · rw [Hasher.checkpoint_abs _ a1.2, Hasher.checkpoint_abs _ a2.2, a1.1, a2.1, ea, ec]

/-- the trailer (bytes 160..164) is the little-endian pending count, always below 32 -/
theorem count_field (h : Hasher) (hi : h.Inv) :
    h.checkpoint.drop 160 = toLE32 (BitVec.ofNat 32 h.abs.2.length) ∧ h.abs.2.length < 32 := by
  have hlt := Hasher.abs_pending_lt h hi
  refine ⟨?_, hlt⟩
  rw [Hasher.checkpoint_abs h hi]
  generalize h.abs = a at hlt ⊢
  obtain ⟨s, pend⟩ := a
  simp only at hlt ⊢
  have e : P.encodeAbs (s, pend) =
      s.v0.toList.flatMap toLE64 ++ (s.v1.toList.flatMap toLE64 ++ (s.mul0.toList.flatMap toLE64 ++
        (s.mul1.toList.flatMap toLE64 ++ ((pend ++ zeros (32 - pend.length)) ++ toLE32 (BitVec.ofNat 32 pend.length))))) := by
    simp only [P.encodeAbs, P.lanes16, List.flatMap_append, List.append_assoc]
  rw [e]
  show List.drop (128 + 32) _ = _
  rw [← List.drop_drop, P.drop128_v4]
  have hl : (pend ++ zeros (32 - pend.length)).length = 32 := by simp [zeros]; omega
  rw [List.drop_append, List.drop_of_length_le (by omega), hl]
  simp

/-- non-vacuity: a concrete pair of portable hashers with different histories meets the premises -/
example :
    let d : List (BitVec 8) := (List.range 40).map (BitVec.ofNat 8)
    let a := P.append (P.append (P.new ⟨1, 2, 3, 4⟩) (d.take 31)) (d.drop 31)
    let b := P.append (P.new ⟨1, 2, 3, 4⟩) d
    (Hasher.portable a).checkpoint = (Hasher.portable b).checkpoint ∧ a.buffer.buf ≠ b.buffer.buf := by
  decide +kernel

/-- the pinned tree wrote the whole buffer: stale bytes of a longer earlier fill leak -/
def legacyCheckpointBuf (x : P.State) : List (BitVec 8) := x.buffer.buf

theorem legacy_leak :
    let d : List (BitVec 8) := (List.range 40).map (BitVec.ofNat 8)
    let a := P.append (P.append (P.new ⟨1, 2, 3, 4⟩) (d.take 31)) (d.drop 31)
    let b := P.append (P.new ⟨1, 2, 3, 4⟩) d
    a.buffer.asSlice = b.buffer.asSlice ∧ legacyCheckpointBuf a ≠ legacyCheckpointBuf b ∧ P.checkpoint a = P.checkpoint b := by
  decide +kernel

end HH.C14
