import HH.Footprint
import HH.Proofs.SseRefine
import HH.Proofs.AvxRefine
import HH.Proofs.NeonRefine
import HH.Proofs.WasmRefine
/-!
# C09 — memory safety and address independence (access-pattern model)

`expose bytes rest` is a memory region whose first `bytes.length` bytes are the slice the code was
given and whose continuation `rest` is ARBITRARY: unmapped (`none`), or any other bytes.  The
theorems state that every raw-pointer access of the back ends stays inside the slice (no fault for
any `rest`, in particular for `rest = none :: _`, a slice that abuts an inaccessible page) and that
the value read is the value-level model's — which has no access to `rest`, to addresses or to
alignment.  Hence results depend neither on where the data lives nor on neighbouring memory.
The aligned loads of the AVX2 back end additionally need the stated alignment of the hasher's own
buffer / key; the harness measures those layout facts in every build (see DESIGN.md, C09).
-/
namespace HH.C09
open FP

def expose (bytes : List (BitVec 8)) (rest : Mem) : Mem := bytes.map some ++ rest

/-! ### user packets -/

theorem readN_expose (bytes : List (BitVec 8)) (rest : Mem) (off n : Nat) (h : off + n ≤ bytes.length) :
    readN (expose bytes rest) off n = some ((bytes.drop off).take n) := by
  induction n generalizing off with
  | zero => simp [readN, allSome]
  | succ n ih =>
    have hlt : off < bytes.length := by omega
    have ih' := ih (off + 1) (by omega)
    simp only [readN, List.range_succ_eq_map, List.map_cons, List.map_map, Nat.add_zero] at ih' ⊢
    have hg : List.getD (expose bytes rest) off none = some bytes[off] := by
      simp [expose, List.getD_eq_getElem?_getD, List.getElem?_append_left, hlt]
    rw [hg]
    simp only [allSome]
    have : (List.map ((fun i => List.getD (expose bytes rest) (off + i) none) ∘ Nat.succ) (List.range n))
        = List.map (fun i => List.getD (expose bytes rest) (off + 1 + i) none) (List.range n) := by
      apply List.map_congr_left; intro i _; simp [Nat.add_comm, Nat.add_left_comm]
    rw [this, ih']
    simp only [Option.map_some, Option.some.injEq]
    conv => rhs; rw [List.drop_eq_getElem_cons hlt, List.take_succ_cons]

/-- `data_to_lanes` of the SSE / NEON / AVX2 back ends on a 32-byte user packet: both 16-byte
(resp. the 32-byte) unaligned loads stay inside the packet, whatever lies behind it and whatever
the packet's address -/
theorem sse_packet_loads (chunk : List (BitVec 8)) (rest : Mem) (h : chunk.length = 32) :
    sseDataToLanes (expose chunk rest) = some (X86.loadu_si128 chunk 16, X86.loadu_si128 chunk 0) := by
  simp only [sseDataToLanes, loadu128, readN_expose chunk rest 0 16 (by omega), readN_expose chunk rest 16 16 (by omega),
    Option.map_some, bind, Option.bind, pure, X86.loadu_si128, List.drop_zero]
  have e1 : X86.ofBytes16 (List.take 16 chunk) = X86.ofBytes16 chunk := by
    simp only [X86.ofBytes16, List.drop_take]
    rw [P.le64_take _ 16 (by omega), P.le64_take _ 8 (by omega)]
  have e2 : X86.ofBytes16 (List.take 16 (List.drop 16 chunk)) = X86.ofBytes16 (List.drop 16 chunk) := by
    simp only [X86.ofBytes16, List.drop_take]
    rw [P.le64_take _ 16 (by omega), P.le64_take _ 8 (by omega)]
  rw [e1, e2]

theorem avx_packet_loads (chunk : List (BitVec 8)) (rest : Mem) (h : chunk.length = 32) :
    avxDataToLanes (expose chunk rest) = some (X86.loadu_si256 chunk 0) := by
  have := sse_packet_loads chunk rest h
  simp only [sseDataToLanes, bind, Option.bind, pure] at this
  simp only [avxDataToLanes, bind, Option.bind, pure, X86.loadu_si256]
  cases h0 : loadu128 (expose chunk rest) 0 with
  | none => simp [h0] at this
  | some a =>
    cases h1 : loadu128 (expose chunk rest) 16 with
    | none => simp [h0, h1] at this
    | some b =>
      simp only [h0, h1, Option.some.injEq, Prod.mk.injEq] at this
      simp [this.1, this.2]

/-! ### the hasher's own buffer: every pending count 0..31, arbitrary memory behind the slice -/

theorem list_eq_ofFn (buf : List (BitVec 8)) (h : buf.length = 32) :
    buf = List.ofFn (fun i : Fin 32 => buf[i.val]'(by omega)) := by
  apply List.ext_getElem
  · simp [h]
  · intro i h1 h2; rw [List.getElem_ofFn]

set_option maxRecDepth 100000 in
set_option maxHeartbeats 8000000 in
theorem sse_remainder_fn (n : Nat) (h : n < 32) (f : Fin 32 → BitVec 8) (rest : Mem) :
    sseRemainder (expose ((List.ofFn f).take n) rest) n = some (Sse.remainder (List.ofFn f) n) := by
  interval_cases n <;>
  simp [sseRemainder, sseLoadMultipleOfFour, Sse.remainder, Sse.loadMultipleOfFour, expose, loadu128, load64, slice, readN,
    allSome, List.ofFn_succ, List.range_succ, List.getD, X86.loadu_si128, X86.loadl_epi64, X86.ofBytes16, bind, Option.bind, pure,
    le64, le32, X86.set_epi64x, X86.mk]

/-- SSE4.1: all raw loads of `remainder` lie inside `buffer.as_slice()` -/
theorem sse_remainder_in_bounds (buf : List (BitVec 8)) (n : Nat) (hb : buf.length = 32) (h : n < 32) (rest : Mem) :
    sseRemainder (expose (buf.take n) rest) n = some (Sse.remainder buf n) := by
  rw [list_eq_ofFn buf hb]; exact sse_remainder_fn n h _ rest

set_option maxRecDepth 100000 in
set_option maxHeartbeats 8000000 in
theorem avx_remainder_fn (n : Nat) (h : n < 32) (f : Fin 32 → BitVec 8) (rest : Mem) (base : Nat) (hal : base % 16 = 0) :
    avxRemainder base (expose ((List.ofFn f).take n) rest) n = some (Avx.remainder (List.ofFn f) n) := by
  interval_cases n <;>
  simp [avxRemainder, Avx.remainder, expose, load128, hal, loadu128, load32, maskload, maskLane, slice, readN, allSome,
    List.ofFn_succ, List.range_succ, List.getD, X86.loadu_si128, X86.maskload_epi32, X86.maskLane, X86.ofBytes16, bind,
    Option.bind, pure, le64, le32, X86.cmpgt_epi32, X86.cmpgt32, X86.set_epi32, X86.broadcastd_epi32, X86.castsi256_si128,
    X86.cvtsi64_si128, X86.set1_epi32, X86.lane32, X86.mk32, X86.mk]

/-- AVX2: with a 16-byte aligned buffer, the aligned load and the masked loads of `remainder` touch
only bytes of `buffer.as_slice()` (the masked loads only whole 4-byte groups below the count) -/
theorem avx_remainder_in_bounds (buf : List (BitVec 8)) (n : Nat) (hb : buf.length = 32) (h : n < 32) (rest : Mem)
    (base : Nat) (hal : base % 16 = 0) :
    avxRemainder base (expose (buf.take n) rest) n = some (Avx.remainder buf n) := by
  rw [list_eq_ofFn buf hb]; exact avx_remainder_fn n h _ rest base hal

/-- the alignment premise is necessary: a misplaced buffer makes the aligned load fault -/
theorem avx_remainder_misaligned_faults (m : Mem) (n : Nat) (h16 : (n / 16) % 2 = 1) (base : Nat) (hal : base % 16 ≠ 0) :
    avxRemainder base m n = none := by
  simp [avxRemainder, h16, load128, hal, bind, Option.bind]

set_option maxRecDepth 100000 in
set_option maxHeartbeats 8000000 in
theorem neon_remainder_fn (n : Nat) (h : n < 32) (f : Fin 32 → BitVec 8) (rest : Mem) :
    neonRemainder (expose ((List.ofFn f).take n) rest) n = some (NeonB.remainder (List.ofFn f) n) := by
  interval_cases n <;>
  simp [neonRemainder, neonLoadMultipleOfFour, NeonB.remainder, NeonB.loadMultipleOfFour, expose, loadu128, load64, load32, slice,
    readN, allSome, List.ofFn_succ, List.range_succ, List.getD, Neon.vld1q_u8, X86.ofBytes16, X86.mk, Neon.mk, bind, Option.bind,
    pure, le64, le32]

/-- NEON: the unchecked `take::<8>` / `take::<4>` reads and `vld1q_u8` lie inside the slice -/
theorem neon_remainder_in_bounds (buf : List (BitVec 8)) (n : Nat) (hb : buf.length = 32) (h : n < 32) (rest : Mem) :
    neonRemainder (expose (buf.take n) rest) n = some (NeonB.remainder buf n) := by
  rw [list_eq_ofFn buf hb]; exact neon_remainder_fn n h _ rest

set_option maxRecDepth 100000 in
set_option maxHeartbeats 8000000 in
theorem wasm_remainder_fn (n : Nat) (h : n < 32) (f : Fin n → BitVec 8) (rest : Mem) :
    wasmRemainder (expose (List.ofFn f) rest) n = some (WasmB.remainder (List.ofFn f)) := by
  interval_cases n <;>
  simp [wasmRemainder, wasmLoadMultipleOfFour, WasmB.remainder, WasmB.loadMultipleOfFour, expose, load64, slice, readN, allSome,
    List.ofFn_succ, List.range_succ, List.getD, bind, Option.bind, pure, le64, le32]

/-- Wasm: every `le_u64` / slice / index of `remainder` stays inside `buffer.as_slice()` (so none of
them can panic), for every pending count -/
theorem wasm_remainder_in_bounds (bytes : List (BitVec 8)) (h : bytes.length < 32) (rest : Mem) :
    wasmRemainder (expose bytes rest) bytes.length = some (WasmB.remainder bytes) := by
  have := wasm_remainder_fn bytes.length h (fun i => bytes[i]) rest
  simpa using this

/-- the aligned 32-byte key load of `AvxHash::force_new` needs (and `#[repr(align(32))] Key` gives)
a 32-byte aligned key -/
theorem avx_key_load (key : List (BitVec 8)) (rest : Mem) (hk : key.length = 32) (base : Nat) :
    (base % 32 = 0 → avxLoadKey base (expose key rest) = some (X86.loadu_si256 key 0)) ∧
    (base % 32 ≠ 0 → avxLoadKey base (expose key rest) = none) := by
  constructor
  · intro h; simp [avxLoadKey, h, avx_packet_loads key rest hk]
  · intro h; simp [avxLoadKey, h]

/-- non-vacuity: the model does exhibit faults — a 16-byte load over a 15-byte slice that abuts an
unmapped byte -/
theorem fault_witness : loadu128 (expose (List.replicate 15 0) [none]) 0 = none := by decide

end HH.C09
