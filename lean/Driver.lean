import HH.Hex
import HH.Machine
/-!
# Driver — the model behind the line protocol

One operation per input line, one canonical result per output line.  The Rust harness
(`/verif/harness/drive`) executes the same lines on the real crate; `bin/check` diffs the streams.
-/
open HH

structure Handle where
  auto : Bool
  h : Hasher

abbrev World := Array (Option Handle)

def parseSel? : String → Option Sel
  | "portable" => some (.only .portable)
  | "sse" => some (.only .sse)
  | "avx" => some (.only .avx)
  | "neon" => some (.only .neon)
  | "wasm" => some (.only .wasm)
  | "auto" => some .auto
  | _ => none

def parseKey? (a b c d : String) : Option V4 := do
  pure ⟨← parseU64? a, ← parseU64? b, ← parseU64? c, ← parseU64? d⟩

def hex128 (x : BitVec 64 × BitVec 64) : String := u64Hex x.1 ++ u64Hex x.2
def hex256 (x : BitVec 64 × BitVec 64 × BitVec 64 × BitVec 64) : String :=
  u64Hex x.1 ++ u64Hex x.2.1 ++ u64Hex x.2.2.1 ++ u64Hex x.2.2.2

structure Env where
  /-- back end chosen by `HighwayHasher::new` / `from_checkpoint` in the configuration under test -/
  autoBackend : Backend := .portable

def resolve (env : Env) : Sel → Backend
  | .only b => b
  | .auto => env.autoBackend

def tagOf : Backend → Nat
  | .portable => 0 | .avx => 1 | .sse => 2 | .neon => 3 | .wasm => 4

def put (w : World) (i : Nat) (v : Option Handle) : World :=
  if i < w.size then w.set! i v else w

def get (w : World) (i : Nat) : Option Handle :=
  if h : i < w.size then w[i] else none

def finW (h : Hasher) : String → Option String
  | "64" => some (u64Hex h.finalize64)
  | "128" => some (hex128 h.finalize128)
  | "256" => some (hex256 h.finalize256)
  | _ => none

def step (env : Env) (w : World) (line : String) : World × String :=
  match line.trimAscii.toString.splitOn " " with
  | ["new", hs, sel, a, b, c, d] =>
    match hs.toNat?, parseSel? sel, parseKey? a b c d with
    | some i, some s, some k =>
      match Hasher.new (resolve env s) k with
      | some h => (put w i (some ⟨s == .auto, h⟩), "ok")
      | none => (put w i none, "none")
    | _, _, _ => (w, "bad-op")
  | ["default", hs, sel] =>
    match hs.toNat?, parseSel? sel with
    | some i, some s =>
      match Hasher.default (resolve env s) with
      | some h => (put w i (some ⟨s == .auto, h⟩), "ok")
      | none => (put w i none, "none")
    | _, _ => (w, "bad-op")
  | ["restore", hs, sel, hex] =>
    match hs.toNat?, parseSel? sel, parseBytes? hex with
    | some i, some s, some c =>
      if c.length ≠ 164 then (w, "bad-op") else
      match Hasher.fromCheckpoint (resolve env s) c with
      | some h => (put w i (some ⟨s == .auto, h⟩), "ok")
      | none => (put w i none, "none")
    | _, _, _ => (w, "bad-op")
  | ["restoreh", hs, sel, src] =>
    match hs.toNat?, parseSel? sel, src.toNat? with
    | some i, some s, some j =>
      match get w j with
      | some x =>
        match Hasher.fromCheckpoint (resolve env s) x.h.checkpoint with
        | some h => (put w i (some ⟨s == .auto, h⟩), "ok")
        | none => (put w i none, "none")
      | none => (w, "nohandle")
    | _, _, _ => (w, "bad-op")
  | [op, hs, hex] =>
    match hs.toNat? with
    | none => (w, "bad-op")
    | some i =>
      if op == "clone" then
        match hex.toNat? with
        | some j => (match get w i with
            | some x => (put w j (some x), "ok")
            | none => (w, "nohandle"))
        | none => (w, "bad-op")
      else if op == "fin" then
        match get w i with
        | some x => (match finW x.h hex with
            | some r => (put w i none, r)
            | none => (w, "bad-op"))
        | none => (w, "nohandle")
      else
      match get w i, parseBytes? hex with
      | some x, some d =>
        if op == "append" || op == "hwrite" then (put w i (some { x with h := x.h.append d }), "ok")
        else if op == "iowrite" then (put w i (some { x with h := x.h.append d }), s!"n={d.length}")
        else (w, "bad-op")
      | none, some _ => (w, "nohandle")
      | _, none => (w, "bad-op")
  | [op, hs] =>
    match hs.toNat? with
    | none => (w, "bad-op")
    | some i =>
      match get w i with
      | none => (w, "nohandle")
      | some x =>
        if op == "ckpt" then (w, bytesHex x.h.checkpoint)
        else if op == "finish" then (w, u64Hex x.h.finalize64)
        else if op == "flush" then (w, "ok")
        else if op == "drop" then (put w i none, "ok")
        else if op == "debug" then
          (w, if x.auto then s!"tag={tagOf x.h.backend}" else s!"backend={tagOf x.h.backend}")
        else (w, "bad-op")
  | ["hash", sel, wd, a, b, c, d, hex] =>
    match parseSel? sel, parseKey? a b c d, parseBytes? hex with
    | some s, some k, some data =>
      match Hasher.new (resolve env s) k with
      | some h => (match finW (h.append data) wd with
          | some r => (w, r)
          | none => (w, "bad-op"))
      | none => (w, "none")
    | _, _, _ => (w, "bad-op")
  | ["spec", wd, a, b, c, d, hex] =>
    match parseKey? a b c d, parseBytes? hex with
    | some k, some data =>
      if wd == "64" then (w, u64Hex (Spec.hash64 k data))
      else if wd == "128" then (w, hex128 (Spec.hash128 k data))
      else if wd == "256" then (w, hex256 (Spec.hash256 k data))
      else (w, "bad-op")
    | _, _ => (w, "bad-op")
  | [""] => (w, "")
  | _ => (w, "bad-op")

partial def loop (env : Env) (h : IO.FS.Stream) (out : IO.FS.Stream) (w : World) : IO Unit := do
  let line ← h.getLine
  if line.isEmpty then return ()
  if line.startsWith "#" then
    out.putStrLn line.trimAscii.toString
    loop env h out w
  else
    let (w', o) := step env w line
    out.putStrLn o
    loop env h out w'

def parseBackendName : String → Backend
  | "sse" => .sse | "avx" => .avx | "neon" => .neon | "wasm" => .wasm | _ => .portable

def main (args : List String) : IO Unit := do
  let env : Env := match args with
    | [a] => { autoBackend := parseBackendName a }
    | _ => {}
  let stdin ← IO.getStdin
  let stdout ← IO.getStdout
  loop env stdin stdout (Array.replicate 64 none)
