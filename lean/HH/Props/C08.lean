import HH.PortablePanic
import HH.Proofs.Obs
import Mathlib.Tactic.IntervalCases
import HH.Props.C09
/-!
# C08 — no safe API call sequence can panic, in any build profile (portable path, model level)

`PP.*` are the portable-path functions with every panic point of the Rust source written out
(`HH/PortablePanic.lean`).  Under the packet invariant — established by every constructor,
including restore from arbitrary 164 bytes, and preserved by every operation — each of them
returns `.ok` in BOTH profiles, and the value is exactly the pure model's.
-/
namespace HH.C08
open PP

@[simp] theorem dbg_true (p : Profile) (msg : String) : dbg p true msg = .ok () := by
  unfold dbg chk; split <;> rfl

theorem dbg_of (p : Profile) (c : Bool) (msg : String) (h : c = true) : dbg p c msg = .ok () := by
  subst h; simp

theorem dbg_ok (p : Profile) (P : Prop) [Decidable P] (msg : String) (h : P) : dbg p (decide P) msg = .ok () := by
  simp [h]

theorem sliceTo_ok {α} (l : List α) (n : Nat) (h : n ≤ l.length) : sliceTo l n = .ok (l.take n) := by
  simp [sliceTo, h]; rfl
theorem sliceFrom_ok {α} (l : List α) (n : Nat) (h : n ≤ l.length) : sliceFrom l n = .ok (l.drop n) := by
  simp [sliceFrom, h]; rfl
theorem copy_ok {α} (d s : List α) (h : d.length = s.length) : copyFromSlice d s = .ok s := by
  simp [copyFromSlice, h]; rfl
theorem splitAt_ok {α} (l : List α) (n : Nat) (h : n ≤ l.length) : splitAt l n = .ok (l.take n, l.drop n) := by
  simp [splitAt, h]; rfl
theorem add64_ok (p : Profile) (a b : Nat) (h : a + b < 2 ^ p.usizeBits) : add64 p a b = .ok (a + b) := by
  simp only [add64, dbg_ok p _ _ h]
  simp only [bind, Except.bind, pure, Except.pure, Nat.mod_eq_of_lt h]
theorem sub64_ok (p : Profile) (a b : Nat) (h : b ≤ a) (ha : a < 2 ^ p.usizeBits) : sub64 p a b = .ok (a - b) := by
  simp only [sub64, dbg_ok p _ _ h]
  have : (2 ^ p.usizeBits + a - b) % 2 ^ p.usizeBits = a - b := by
    have : 2 ^ p.usizeBits + a - b = 2 ^ p.usizeBits + (a - b) := by omega
    rw [this, Nat.add_mod_left]; exact Nat.mod_eq_of_lt (by omega)
  simp only [bind, Except.bind, pure, Except.pure, this]

theorem subU64_ok (p : Profile) (a b : Nat) (h : b ≤ a) (ha : a < 2 ^ 64) : subU64 p a b = .ok (a - b) := by
  simp only [subU64, dbg_ok p _ _ h]
  have : (2 ^ 64 + a - b) % 2 ^ 64 = a - b := by
    have : 2 ^ 64 + a - b = 2 ^ 64 + (a - b) := by omega
    rw [this, Nat.add_mod_left]; exact Nat.mod_eq_of_lt (by omega)
  simp only [bind, Except.bind, pure, Except.pure, this]

/-- `usize` has at least 16 bits on every Rust target -/
def WideEnough (p : Profile) : Prop := 65536 ≤ 2 ^ p.usizeBits

theorem add64_small (p : Profile) (hW : WideEnough p) (a b : Nat) (h : a + b < 65536) : add64 p a b = .ok (a + b) :=
  add64_ok p a b (by unfold WideEnough at hW; omega)
theorem sub64_small (p : Profile) (hW : WideEnough p) (a b : Nat) (h : b ≤ a) (ha : a < 65536) : sub64 p a b = .ok (a - b) :=
  sub64_ok p a b h (by unfold WideEnough at hW; omega)

theorem asSlice_ok (p : Profile) (k : Pkt) (h : k.idx ≤ k.buf.length) : asSlice p k = .ok k.asSlice := by
  simp only [asSlice, dbg_ok p _ _ h]
  rfl

theorem setTo_ok (p : Profile) (k : Pkt) (data : List (BitVec 8)) (hb : k.buf.length = 32) (hd : data.length < 32) :
    setTo p k data = .ok (k.setTo data) := by
  simp only [setTo, dbg_ok p _ _ hd]
  by_cases he : data = []
  · subst he; simp [Pkt.setTo, bind, Except.bind, pure, Except.pure]
  · have : data.isEmpty = false := by simpa using he
    simp only [this, Bool.false_eq_true, ↓reduceIte, sliceTo_ok k.buf data.length (by omega)]
    simp only [bind, Except.bind]
    rw [copy_ok _ _ (by simp; omega)]
    rfl

theorem fill_ok (p : Profile) (hW : WideEnough p) (k : Pkt) (data : List (BitVec 8)) (hk : k.Inv) :
    fill p k data = .ok (k.fill data) := by
  obtain ⟨hi, hb⟩ := hk
  have hdl : (List.drop k.idx k.buf).length = 32 - k.idx := by simp [hb]
  simp only [fill, Pkt.fill, hdl, hb]
  by_cases hg : 32 - k.idx > data.length
  · simp only [hg, ↓reduceIte, bind, Except.bind]
    rw [sliceTo_ok _ _ (by omega)]
    simp only []
    rw [copy_ok _ _ (by simp; omega)]
    simp only []
    rw [add64_small p hW _ _ (by omega)]
    simp only [pure, Except.pure, List.drop_drop]
  · simp only [hg, ↓reduceIte, bind, Except.bind]
    rw [splitAt_ok _ _ (by omega)]
    simp only []
    rw [copy_ok _ _ (by simp; omega)]
    simp only [pure, Except.pure]
    have : List.drop (k.idx + (32 - k.idx)) k.buf = [] := List.drop_of_length_le (by omega)
    rw [this, List.append_nil]

/-- `append` never panics and computes the pure model's result -/
theorem append_ok (p : Profile) (hW : WideEnough p) (x : P.State) (data : List (BitVec 8)) (hx : x.buffer.Inv) :
    PP.append p x data = .ok (P.append x data) := by
  have hb := hx.2
  simp only [PP.append, P.append, appendG]
  by_cases h0 : x.buffer.isEmpty = true
  · simp only [h0, ↓reduceIte, bind, Except.bind]
    have hr := absorb_rem_lt P.updPacket data.length x.st data (Nat.le_refl _)
    rw [setTo_ok p _ _ hb hr]
    rfl
  · have h0' : x.buffer.isEmpty = false := by simpa using h0
    simp only [h0', Bool.false_eq_true, ↓reduceIte, bind, Except.bind]
    rw [fill_ok p hW _ _ hx]
    simp only []
    -- case split on what `fill` returned
    cases hf : x.buffer.fill data with
    | mk k' o =>
      cases o with
      | none => simp [pure, Except.pure]
      | some tail =>
        simp only [Pkt.inner]
        have hr := absorb_rem_lt P.updPacket tail.length (P.updPacket x.st k'.buf) tail (Nat.le_refl _)
        have hk' : k'.buf.length = 32 := by
          have := hf
          simp only [Pkt.fill] at this
          split at this
          · simp at this
          · simp only [Prod.mk.injEq, Option.some.injEq] at this
            rw [← this.1]; simp [hb]; have := hx.1; omega
        rw [setTo_ok p _ _ hk' hr]
        rfl

/-- the shared `append` skeleton never panics for ANY state type and packet update (hence for the SSE4.1, AVX2,
NEON and Wasm instantiations, whose updates are panic-free intrinsic code), and computes `appendG` -/
theorem appendG_ok {S : Type} (p : Profile) (hW : WideEnough p) (upd : S → List (BitVec 8) → S) (x : S × Pkt)
    (data : List (BitVec 8)) (hx : x.2.Inv) :
    PP.appendG p upd x data = .ok (appendG upd x data) := by
  have hb := hx.2
  simp only [PP.appendG, appendG]
  by_cases h0 : x.2.isEmpty = true
  · simp only [h0, ↓reduceIte, bind, Except.bind]
    have hr := absorb_rem_lt upd data.length x.1 data (Nat.le_refl _)
    rw [setTo_ok p _ _ hb hr]
    rfl
  · have h0' : x.2.isEmpty = false := by simpa using h0
    simp only [h0', Bool.false_eq_true, ↓reduceIte, bind, Except.bind]
    rw [fill_ok p hW _ _ hx]
    simp only []
    cases hf : x.2.fill data with
    | mk k' o =>
      cases o with
      | none => simp [pure, Except.pure]
      | some tail =>
        simp only [Pkt.inner]
        have hr := absorb_rem_lt upd tail.length (upd x.1 k'.buf) tail (Nat.le_refl _)
        have hk' : k'.buf.length = 32 := by
          have := hf
          simp only [Pkt.fill] at this
          split at this
          · simp at this
          · simp only [Prod.mk.injEq, Option.some.injEq] at this
            rw [← this.1]; simp [hb]; have := hx.1; omega
        rw [setTo_ok p _ _ hk' hr]
        rfl

/-- instances: `append` of the four SIMD back ends (their models ARE `appendG` at their own `updPacket`) -/
theorem sse_append_ok (p : Profile) (hW : WideEnough p) (x : Sse.State) (d : List (BitVec 8)) (hx : x.buffer.Inv) :
    PP.appendG p Sse.updPacket (x.r, x.buffer) d = .ok ((Sse.append x d).r, (Sse.append x d).buffer) :=
  appendG_ok p hW _ _ d hx
theorem avx_append_ok (p : Profile) (hW : WideEnough p) (x : Avx.State) (d : List (BitVec 8)) (hx : x.buffer.Inv) :
    PP.appendG p Avx.updPacket (x.r, x.buffer) d = .ok ((Avx.append x d).r, (Avx.append x d).buffer) :=
  appendG_ok p hW _ _ d hx
theorem neon_append_ok (p : Profile) (hW : WideEnough p) (x : NeonB.State) (d : List (BitVec 8)) (hx : x.buffer.Inv) :
    PP.appendG p NeonB.updPacket (x.r, x.buffer) d = .ok ((NeonB.append x d).r, (NeonB.append x d).buffer) :=
  appendG_ok p hW _ _ d hx
theorem wasm_append_ok (p : Profile) (hW : WideEnough p) (x : WasmB.State) (d : List (BitVec 8)) (hx : x.buffer.Inv) :
    PP.appendG p WasmB.updPacket (x.r, x.buffer) d = .ok ((WasmB.append x d).r, (WasmB.append x d).buffer) :=
  appendG_ok p hW _ _ d hx

/-! ### finalisation -/

theorem rotHalf_ok (p : Profile) (count : Nat) (h : BitVec 32) (h1 : 1 ≤ count) (h2 : count < 32) :
    rotHalf p count h = .ok ((h <<< (count % 32)) ||| (h >>> (((2 ^ 64 + 32 - count) % 2 ^ 64) % 32))) := by
  simp only [rotHalf, dbg_ok p _ _ h2, bind, Except.bind]
  rw [subU64_ok p 32 count (by omega) (by omega)]
  simp only []
  rw [dbg_ok p _ _ (show 32 - count < 32 by omega)]
  simp only [pure, Except.pure]
  have : (2 ^ 64 + 32 - count) % 2 ^ 64 = 32 - count := by
    have : 2 ^ 64 + 32 - count = 2 ^ 64 + (32 - count) := by omega
    rw [this, Nat.add_mod_left]; exact Nat.mod_eq_of_lt (by omega)
  rw [this]

theorem rot32Lane_ok (p : Profile) (count : Nat) (lane : BitVec 64) (h1 : 1 ≤ count) (h2 : count < 32) :
    PP.rot32Lane p count lane = .ok (P.rot32Lane count lane) := by
  simp only [PP.rot32Lane, rotHalf_ok p count _ h1 h2, bind, Except.bind, pure, Except.pure, P.rot32Lane]

theorem updateLanes_ok (p : Profile) (s : St) (size : Nat) (h1 : 1 ≤ size) (h2 : size < 32) :
    PP.updateLanes p s size = .ok (P.updateLanes s size) := by
  have hov : ((BitVec.ofNat 64 size <<< 32).toNat + (BitVec.ofNat 64 size).toNat) < 2 ^ 64 := by
    interval_cases size <;> decide
  simp only [PP.updateLanes, dbg_ok p _ _ hov, bind, Except.bind, mapV4, rot32Lane_ok p size _ h1 h2, pure, Except.pure,
    P.updateLanes, V4.map]

set_option maxRecDepth 100000 in
set_option maxHeartbeats 8000000 in
theorem remainder_ok_fn (p : Profile) (hW : WideEnough p) (n : Nat) (h : n < 32) (f : Fin n → BitVec 8) :
    PP.remainder p (List.ofFn f) = .ok (P.remainder (List.ofFn f)) := by
  interval_cases n <;>
    simp [PP.remainder, P.remainder, sliceFrom, sliceTo, copyFromSlice, add64_small p hW, sub64_small p hW, index, zeros, bind,
      Except.bind, pure, Except.pure, List.ofFn_succ, List.replicate, List.set, List.getD, List.zipWith]

theorem remainder_ok (p : Profile) (hW : WideEnough p) (bytes : List (BitVec 8)) (h : bytes.length < 32) :
    PP.remainder p bytes = .ok (P.remainder bytes) := by
  have := remainder_ok_fn p hW bytes.length h (fun i => bytes[i])
  simpa using this

theorem finalizeCommon_ok (p : Profile) (hW : WideEnough p) (n : Nat) (x : P.State) (hx : x.buffer.Inv) :
    PP.finalizeCommon p n x = .ok (P.finalizeCommon n x) := by
  obtain ⟨hi, hb⟩ := hx
  simp only [PP.finalizeCommon, P.finalizeCommon]
  by_cases h0 : x.buffer.idx = 0
  · simp [Pkt.isEmpty, h0, bind, Except.bind, pure, Except.pure]
  · have hne : x.buffer.isEmpty = false := by simp [Pkt.isEmpty, h0]
    simp only [hne, Bool.not_false, ↓reduceIte, PP.updateRemainder, P.updateRemainder, Pkt.len, bind, Except.bind]
    rw [updateLanes_ok p _ _ (by omega) hi]
    simp only []
    rw [asSlice_ok p _ (by omega)]
    simp only []
    rw [remainder_ok p hW _ (by simp [Pkt.asSlice]; omega)]
    rfl

theorem finalize64_ok (p : Profile) (hW : WideEnough p) (x : P.State) (hx : x.buffer.Inv) : PP.finalize64 p x = .ok (P.finalize64 x) := by
  simp only [PP.finalize64, finalizeCommon_ok p hW _ x hx, bind, Except.bind, pure, Except.pure, P.finalize64]
theorem finalize128_ok (p : Profile) (hW : WideEnough p) (x : P.State) (hx : x.buffer.Inv) : PP.finalize128 p x = .ok (P.finalize128 x) := by
  simp only [PP.finalize128, finalizeCommon_ok p hW _ x hx, bind, Except.bind, pure, Except.pure, P.finalize128]
theorem finalize256_ok (p : Profile) (hW : WideEnough p) (x : P.State) (hx : x.buffer.Inv) : PP.finalize256 p x = .ok (P.finalize256 x) := by
  simp only [PP.finalize256, finalizeCommon_ok p hW _ x hx, bind, Except.bind, pure, Except.pure, P.finalize256]

/-! ### checkpoint / restore -/

theorem checkpoint_ok (p : Profile) (x : P.State) (hx : x.buffer.Inv) : PP.checkpoint p x = .ok (P.checkpoint x) := by
  obtain ⟨hi, hb⟩ := hx
  have hl : x.buffer.asSlice.length = x.buffer.idx := by simp [Pkt.asSlice]; omega
  simp only [PP.checkpoint, bind, Except.bind]
  rw [asSlice_ok p _ (by omega)]
  simp only []
  rw [sliceTo_ok _ _ (by simp [zeros, hl]; omega)]
  simp only []
  rw [copy_ok _ _ (by simp [zeros, hl]; omega)]
  simp only []
  rw [copy_ok _ _ (by simp [zeros, toLE32])]
  simp only [pure, Except.pure, P.checkpoint, Pkt.len]

/-- restore from ANY 164-byte array: no panic point fires, in either profile -/
theorem fromCheckpoint_ok (p : Profile) (hW : WideEnough p) (c : List (BitVec 8)) (hc : c.length = 164) :
    PP.fromCheckpoint p c = .ok (P.fromCheckpoint c) := by
  simp only [PP.fromCheckpoint, chk, hc, decide_true, ↓reduceIte, bind, Except.bind, pure, Except.pure]
  rw [sliceTo_ok _ _ (by simp [hc])]
  simp only []
  rw [fill_ok p hW _ _ Pkt.default_inv]
  simp only [P.fromCheckpoint]

/-! ### histories -/

/-- a sequence of `append` calls in the panicking semantics -/
def appendAll (p : Profile) : P.State → List (List (BitVec 8)) → PP.R P.State
  | x, [] => .ok x
  | x, d :: ds => match PP.append p x d with
    | .ok x' => appendAll p x' ds
    | .error e => .error e

/-- no history of safe calls on a hasher that satisfies the invariant panics, with or without
overflow checks / debug assertions, on every pointer width ≥ 16 bits: any number of appends of any
lengths, then any finalisation and checkpoint; and the results are those of the width-free pure
model (so they do not depend on the pointer width: the model half of C17) -/
theorem history_ok (p : Profile) (hW : WideEnough p) (chunks : List (List (BitVec 8))) :
    ∀ (x : P.State), x.buffer.Inv →
      appendAll p x chunks = .ok (chunks.foldl P.append x) ∧
      PP.finalize64 p (chunks.foldl P.append x) = .ok (P.finalize64 (chunks.foldl P.append x)) ∧
      PP.finalize128 p (chunks.foldl P.append x) = .ok (P.finalize128 (chunks.foldl P.append x)) ∧
      PP.finalize256 p (chunks.foldl P.append x) = .ok (P.finalize256 (chunks.foldl P.append x)) ∧
      PP.checkpoint p (chunks.foldl P.append x) = .ok (P.checkpoint (chunks.foldl P.append x)) := by
  induction chunks with
  | nil =>
    intro x hx
    exact ⟨rfl, finalize64_ok p hW x hx, finalize128_ok p hW x hx, finalize256_ok p hW x hx, checkpoint_ok p x hx⟩
  | cons d ds ih =>
    intro x hx
    have ha := append_ok p hW x d hx
    have hinv : (P.append x d).buffer.Inv := (appendG_abs P.updPacket (x.st, x.buffer) d hx).2
    have := ih (P.append x d) hinv
    simp only [appendAll, ha, List.foldl_cons]
    exact this

/-- every way of obtaining a portable hasher establishes the invariant — including restore from
arbitrary bytes — so `history_ok` applies to every reachable hasher -/
theorem constructors_inv (k : V4) (c : List (BitVec 8)) (hc : c.length = 164) :
    (P.new k).buffer.Inv ∧ P.default.buffer.Inv ∧ (P.fromCheckpoint c).buffer.Inv :=
  ⟨P.new_inv k, P.new_inv _, (P.fromCheckpoint_abs c hc).2⟩

/-! ### SIMD back ends: the slices and indices of `remainder` (the only data-dependent slicing they
do besides the shared `append` skeleton) are in range for every pending count — with the region
exposing exactly `buffer.as_slice()` and NOTHING behind it (`rest = []`), an out-of-range slice or
index, i.e. a panic, would make the footprint model return `none` -/

theorem sse_remainder_no_oob (buf : List (BitVec 8)) (n : Nat) (hb : buf.length = 32) (h : n < 32) :
    (FP.sseRemainder (C09.expose (buf.take n) []) n).isSome = true := by
  rw [C09.sse_remainder_in_bounds buf n hb h []]; rfl
theorem avx_remainder_no_oob (buf : List (BitVec 8)) (n : Nat) (hb : buf.length = 32) (h : n < 32) :
    (FP.avxRemainder 0 (C09.expose (buf.take n) []) n).isSome = true := by
  rw [C09.avx_remainder_in_bounds buf n hb h [] 0 rfl]; rfl
theorem neon_remainder_no_oob (buf : List (BitVec 8)) (n : Nat) (hb : buf.length = 32) (h : n < 32) :
    (FP.neonRemainder (C09.expose (buf.take n) []) n).isSome = true := by
  rw [C09.neon_remainder_in_bounds buf n hb h []]; rfl
theorem wasm_remainder_no_oob (bytes : List (BitVec 8)) (h : bytes.length < 32) :
    (FP.wasmRemainder (C09.expose bytes []) bytes.length).isSome = true := by
  rw [C09.wasm_remainder_in_bounds bytes h []]; rfl

/-- the defect of the pinned tree, in the panicking semantics: a count field of 32 restores
`idx = 32`, and `finalize64` then panics in the debug profile (shift overflow), while release
silently computes a back-end dependent value -/
theorem profiles_wide_enough : WideEnough Profile.debug ∧ WideEnough Profile.release ∧ WideEnough ⟨true, 32⟩ ∧ WideEnough ⟨true, 16⟩ := by
  unfold WideEnough Profile.debug Profile.release; decide

/-- non-vacuity of `history_ok`: its hypotheses are met by the debug and release profiles and by every
constructed hasher (here: restored from the all-ones array) -/
example : WideEnough Profile.debug ∧ (P.fromCheckpoint (List.replicate 164 0xff#8)).buffer.Inv :=
  ⟨profiles_wide_enough.1, (constructors_inv ⟨0, 0, 0, 0⟩ (List.replicate 164 0xff#8) List.length_replicate).2.2⟩

theorem legacy_debug_panic :
    let x : P.State := ⟨(P.new ⟨1, 2, 3, 4⟩).st, ⟨zeros 32, 32⟩⟩
    PP.finalize64 .debug x = .error "attempt to shift left with overflow" ∧
    (PP.finalize64 .release x).isOk = true := by
  decide +kernel

end HH.C08
