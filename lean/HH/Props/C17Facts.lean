import HH.Props.FactsLib
/-!
# C17 (source half) — byte order / word size neutrality of the portable path, over the regenerated
fact table
-/
namespace HH.C17
open HH.Facts HH.FactsLib


/-- every byte ⇄ integer conversion on the portable path is explicitly little-endian -/
def allowedConv : List String := ["to_le_bytes", "from_le_bytes", "u64::from_le_bytes", "u32::from_le_bytes", "u64::to_le_bytes", "u32::to_le_bytes"]
theorem only_le_conversions :
    (facts.all fun f => !(inP f && f.kind == "conv") || allowedConv.contains f.detail) = true := by decide +kernel

/-- no native-endian / pointer-width-sensitive construct: no `cfg(target_endian|target_pointer_width)`,
no `usize::MAX/BITS`, `size_of::<usize>`, `isize`, no raw-pointer construct -/
theorem no_target_sensitive :
    (facts.all fun f => !(inP f && (f.kind == "target_cfg" || f.kind == "usize_sens" || (f.kind == "ptr" && !f.test)))) = true := by
  decide +kernel

/-- pointer-width-sensitive integer casts in non-test code of the portable path.  Widening a `usize`
(a `len()`) to `u64`/`u128` is the same on every target and is not restricted.  What can differ between
32- and 64-bit targets is a cast *to* `usize`/`isize` (truncates a wider source on 32-bit) and a narrowing
cast of a length; those are exactly: the buffered length (≤ 32) narrowed to `u32` for the checkpoint count,
and the `u32` checkpoint count widened to `usize` (clamped to 31 right away); casts between fixed-width
integers are not restricted -/
def allowedSizeCasts : List String := ["self.buffer.len() as u32", "len as usize"]
def endsWith (s suf : String) : Bool := isPrefix suf.toList.reverse s.toList.reverse
def wideningCast (d : String) : Bool := endsWith d " as u64" || endsWith d " as u128"
theorem casts_inventory :
    (facts.all fun f => !(inP f && f.kind == "cast" && !f.test &&
        (has f.detail "usize" || has f.detail "isize" || has f.detail "len()"))
      || wideningCast f.detail || allowedSizeCasts.contains f.detail) = true := by
  decide +kernel

example : wideningCast "bytes.len() as u64" = true ∧ wideningCast "size as usize" = false := by decide +kernel

theorem conv_nonvacuous : (facts.filter fun f => inP f && f.kind == "conv").length ≥ 4 := by decide +kernel

end HH.C17
