import HH.Sse
import HH.Avx
import HH.Neon
import HH.WasmB
/-!
# HH.Footprint — memory-reading variants of the raw-pointer loads (model for C09)

A memory region is a `List (Option (BitVec 8))` starting at the pointer the code holds:
`some b` = readable byte, `none` = a byte the code must not touch (beyond the slice / beyond the
object: unmapped, or simply someone else's).  Every raw-pointer access of the back ends is
re-expressed over such regions; a load that touches a `none` byte — or an *aligned* load whose
address is not aligned — returns `none` ("fault").  `HH/Props/C09.lean` proves that on regions
that expose exactly the slice (`buffer.as_slice()`, or the 32-byte user packet) and arbitrary
`rest` behind it, no access faults and the value is the one of the value-level model, for every
pending count / every neighbour contents.
-/
namespace HH
namespace FP

abbrev Mem := List (Option (BitVec 8))

/-- all entries readable -/
def allSome : List (Option (BitVec 8)) → Option (List (BitVec 8))
  | [] => some []
  | none :: _ => none
  | some b :: rest => (allSome rest).map (b :: ·)

/-- read `n` bytes at offset `off`; `none` if any of them is not readable -/
def readN (m : Mem) (off n : Nat) : Option (List (BitVec 8)) :=
  allSome ((List.range n).map fun i => (m.getD (off + i) none))

/-- a slice `&bytes[a..b]` handed to safe code: the bytes must be readable -/
def slice (m : Mem) (off len : Nat) : Option (List (BitVec 8)) := readN m off len

/-- unaligned 16-byte load (`_mm_loadu_si128`, `vld1q_u8`) -/
def loadu128 (m : Mem) (off : Nat) : Option (BitVec 128) := (readN m off 16).map X86.ofBytes16
/-- aligned 16-byte load (`_mm_load_si128`): `base` is the address of `m[0]` -/
def load128 (base : Nat) (m : Mem) (off : Nat) : Option (BitVec 128) :=
  if (base + off) % 16 = 0 then loadu128 m off else none
/-- 8-byte load into the low half (`_mm_loadl_epi64`, `take::<8>` + `from_le_bytes`) -/
def load64 (m : Mem) (off : Nat) : Option (BitVec 64) := (readN m off 8).map le64
def load32 (m : Mem) (off : Nat) : Option (BitVec 32) := (readN m off 4).map le32
/-- one lane of `_mm_maskload_epi32`: memory is touched only when the mask's sign bit is set -/
def maskLane (m : Mem) (off : Nat) (mask : BitVec 32) : Option (BitVec 32) :=
  if mask.getLsbD 31 then load32 m off else some 0
def maskload (m : Mem) (off : Nat) (mask : BitVec 128) : Option (BitVec 128) := do
  let l0 ← maskLane m off (X86.lane32 mask 0)
  let l1 ← maskLane m (off + 4) (X86.lane32 mask 1)
  let l2 ← maskLane m (off + 8) (X86.lane32 mask 2)
  let l3 ← maskLane m (off + 12) (X86.lane32 mask 3)
  pure (X86.mk32 l3 l2 l1 l0)

/-! ### user packets: `data_to_lanes(chunk)` of every back end reads exactly the 32-byte chunk -/

def sseDataToLanes (m : Mem) : Option (BitVec 128 × BitVec 128) := do
  let l ← loadu128 m 0
  let h ← loadu128 m 16
  pure (h, l)
def avxDataToLanes (m : Mem) : Option X86.R256 := do
  let l ← loadu128 m 0            -- `_mm256_loadu_si256`: 32 bytes, unaligned
  let h ← loadu128 m 16
  pure ⟨l, h⟩

/-! ### SSE remainder over the hasher's own buffer; `m` exposes `buffer.as_slice()` -/

def sseLoadMultipleOfFour (m : Mem) (off len : Nat) : Option (BitVec 128) := do
  let mask4 := X86.cvtsi64_si128 0xFFFFFFFF#64
  let (mask4, dataOff, dataLen, ret) ←
    (if len ≥ 8 then do
      let lo ← load64 m off                    -- `_mm_loadl_epi64(bytes.as_ptr())`
      pure (X86.slli_si128 mask4 8, off + 8, len - 8, X86.mk 0 lo)
    else pure (mask4, off, len, X86.set_epi64x 0 0) : Option _)
  if dataLen ≥ 4 then
    let d ← slice m dataOff 4                  -- `data.get(..4)`
    pure (X86.or_si128 ret (X86.and_si128 (X86.set1_epi32 (le32 d)) mask4))
  else pure ret

def sseRemainder (m : Mem) (n : Nat) : Option (BitVec 128 × BitVec 128) := do
  let sizeMod4 := n % 4
  if (n / 16) % 2 = 1 then
    let packetL ← loadu128 m 0                 -- `_mm_loadu_si128(bytes.as_ptr())`
    let packett ← sseLoadMultipleOfFour m 16 (n - 16)
    let rem ← slice m ((n - sizeMod4) + sizeMod4 - 4) 4
    pure (X86.insert_epi32 packett (le32 rem) 3, packetL)
  else
    let rem ← slice m (n - sizeMod4) sizeMod4
    let packetL ← sseLoadMultipleOfFour m 0 n
    pure (X86.cvtsi64_si128 (unorderedLoad3 rem), packetL)

/-! ### AVX2 remainder: one ALIGNED 16-byte load and masked loads; `base` = address of the buffer -/

def avxRemainder (base : Nat) (m : Mem) (n : Nat) : Option X86.R256 := do
  let size256 := X86.broadcastd_epi32 (X86.cvtsi64_si128 (BitVec.ofNat 64 n))
  let sizeMod4 := n % 4
  let size := X86.castsi256_si128 size256
  if (n / 16) % 2 = 1 then
    let packetL ← load128 base m 0             -- `_mm_load_si128(bytes.as_ptr())`
    let intMask := X86.cmpgt_epi32 size (X86.set_epi32 31 27 23 19)
    let intLanes ← maskload m 16 intMask
    let rem ← slice m ((n - sizeMod4) + sizeMod4 - 4) 4
    let packetH := X86.insert_epi32 intLanes (le32 rem) 3
    pure (X86.inserti128_si256 (X86.castsi128_si256 packetL) packetH 1)
  else
    let intMask := X86.cmpgt_epi32 size (X86.set_epi32 15 11 7 3)
    let packetL ← maskload m 0 intMask
    let rem ← slice m (n - sizeMod4) sizeMod4
    let packetH := X86.cvtsi64_si128 (unorderedLoad3 rem)
    pure (X86.inserti128_si256 (X86.castsi128_si256 packetL) packetH 1)

/-! ### NEON remainder: `take::<N>` raw reads -/

def neonLoadMultipleOfFour (m : Mem) (off len size : Nat) : Option (BitVec 128) := do
  let mask4 := NeonB.v2new 0 0xFFFFFFFF#64
  let (mask4, dataOff, ret) ←
    (if len ≥ 8 then do
      let lo ← load64 m off                    -- `take::<8>(bytes)`
      pure (NeonB.slli8 mask4, off + 8, NeonB.v2new 0 lo)
    else pure (mask4, off, NeonB.v2new 0 0) : Option _)
  if (size / 4) % 2 = 1 then
    let last4 ← load32 m dataOff               -- `take::<4>(data)`
    pure (Neon.vorrq_u64 ret (Neon.vandq_u64 (Neon.vdupq_n_u32 last4) mask4))
  else pure ret

def neonRemainder (m : Mem) (n : Nat) : Option (BitVec 128 × BitVec 128) := do
  let sizeMod4 := n % 4
  if (n / 16) % 2 = 1 then
    let packetL ← loadu128 m 0                 -- `vld1q_u8(bytes.as_ptr())`
    let packett ← neonLoadMultipleOfFour m 16 (n - 16) n
    let rem ← slice m ((n - sizeMod4) + sizeMod4 - 4) 4
    pure (Neon.vsetq_lane_u32 (le32 rem) packett 3, packetL)
  else
    let rem ← slice m (n - sizeMod4) sizeMod4
    let packetL ← neonLoadMultipleOfFour m 0 n n
    pure (NeonB.v2new 0 (unorderedLoad3 rem), packetL)

/-! ### Wasm remainder: safe slices and indexing only (`le_u64(x)` indexes `x[0..8]`) — an access
outside the slice is a PANIC here rather than a fault; same region model -/

def wasmLoadMultipleOfFour (m : Mem) (off len : Nat) : Option (BitVec 128) := do
  let mask4 := WasmB.v2new 0 0xFFFFFFFF#64
  let (mask4, dataOff, dataLen, ret) ←
    (if len ≥ 8 then do
      let lo ← load64 m off                    -- `le_u64(bytes)`
      pure (WasmB.slli8 mask4, off + 8, len - 8, WasmB.v2new 0 lo)
    else pure (mask4, off, len, WasmB.v2new 0 0) : Option _)
  if dataLen ≥ 4 then
    let d ← slice m dataOff 4                  -- `data.get(..4)`
    let last4 := le32 d
    pure (Wasm.v128_or ret (Wasm.v128_and (Wasm.u32x4 last4 last4 last4 last4) mask4))
  else pure ret

def wasmRemainder (m : Mem) (n : Nat) : Option (BitVec 128 × BitVec 128) := do
  let sizeMod4 := n % 4
  if n > 32 then pure (WasmB.v2new 0 0, WasmB.v2new 0 0)
  else if n ≥ 16 then
    let ll ← load64 m 0                        -- `le_u64(bytes)`
    let lh ← load64 m 8                        -- `le_u64(&bytes[8..])`
    let packett ← wasmLoadMultipleOfFour m 16 (n - 16)
    let rem ← slice m ((n - sizeMod4) + sizeMod4 - 4) 4
    pure (Wasm.i32x4_replace_lane 1 packett (le32 rem), WasmB.v2new lh ll)
  else
    let rem ← slice m (n - sizeMod4) sizeMod4
    let packetL ← wasmLoadMultipleOfFour m 0 n
    pure (WasmB.v2new 0 (unorderedLoad3 rem), packetL)

/-! ### keys: `AvxHash::force_new` reads the key with an ALIGNED 32-byte load -/

/-- `_mm256_load_si256(key.0.as_ptr())`: faults unless the key is 32-byte aligned -/
def avxLoadKey (base : Nat) (m : Mem) : Option X86.R256 :=
  if base % 32 = 0 then avxDataToLanes m else none

end FP
end HH
