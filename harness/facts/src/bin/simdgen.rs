//! simdgen: like coregen, for the straight-line intrinsic code of the x86 back ends.  `src/x86/sse.rs` and
//! `src/x86/avx.rs` are interpreted symbolically together with their wrapper types (`V2x64U` in v2x64u.rs,
//! `V4x64U` in v4x64u.rs): the newtype is erased, operators are resolved through the wrapper's own trait impls
//! (`impl AddAssign for V2x64U` -> inherent `add_assign` -> `_mm_add_epi64`), methods through its inherent impl, and
//! every `_mm*` intrinsic call becomes an application of the modelled intrinsic of HH/Intrin/X86.lean.  Output:
//! `Gen.Sse.*` / `Gen.Avx.*` definitions + theorems `translation = hand-written model` (by rfl).  Functions
//! that do not fit the subset are skipped (status JSON); never an alarm.
//!
//! usage: simdgen <repo>/src/x86 <out.lean> <status.json>
use std::collections::HashMap;
use std::fmt::Write as _;
use syn::{BinOp, Expr, ImplItem, Item, Lit, Pat, Stmt, UnOp};

#[derive(Clone, Debug)]
enum Val {
    W(String),     // a 64-bit word: Lean term of type BitVec 64 (a variable or let-bound name)
    N(u64),        // a usize / integer literal used as index or shift count
    Arr(Vec<Val>), // [u64; 4]
    Tup(Vec<Val>),
    Ref(String),   // &mut / & of an environment entry (aliasing)
    ElemRef(String, usize), // `for x in arr.iter_mut()`: a reference to one element
    W32(String),   // a 32-bit word: Lean term of type BitVec 32
    SN(String),    // a u64 parameter used as a count / size: Lean variable of type Nat (its word is `BitVec.ofNat 64 n`)
    SE(String),    // a u64 value computed from such a parameter: Lean term of type Nat (already reduced mod 2^64)
    PtrMut(String, usize), // `arr.as_mut_ptr()` (+ `.add(n)` in units of the stored vector): the environment entry a store intrinsic writes
    Ptr(Vec<Val>), // `[..].as_ptr()`: the pointed-to array (argument of a load intrinsic)
    Unit,
}

struct Ex<'a> {
    env: HashMap<String, Val>,
    lets: Vec<(String, String)>,
    fresh: usize,
    fns: &'a HashMap<String, syn::ImplItemFn>,      // methods of the hasher type
    wrap: &'a HashMap<String, syn::ImplItemFn>,     // inherent methods of the wrapper type
    traits: &'a HashMap<String, syn::ImplItemFn>,   // trait methods implemented for the wrapper type
    wrapper: &'a str,                               // "V2x64U" / "V4x64U"
    regty: &'a str,                                 // Lean type of a register
    avx: bool,
    depth: usize,
    free: HashMap<String, syn::ImplItemFn>,         // free functions of the file (`_mm_slli_si128_8` of aarch64.rs)
    untyped_lets: bool,
    in_wrapper: bool,                               // executing a method of the wrapper type (`Self` = the wrapper)
}

type R<T> = Result<T, String>;

fn lit_u64(l: &syn::LitInt) -> R<u64> {
    l.base10_parse::<u64>().map_err(|e| format!("literal: {e}"))
}

impl<'a> Ex<'a> {
    fn new(fns: &'a HashMap<String, syn::ImplItemFn>, wrap: &'a HashMap<String, syn::ImplItemFn>, traits: &'a HashMap<String, syn::ImplItemFn>,
           wrapper: &'a str, avx: bool) -> Self {
        Ex { env: HashMap::new(), lets: Vec::new(), fresh: 0, fns, wrap, traits, wrapper, regty: if avx { "X86.R256" } else { "BitVec 128" }, avx, depth: 0, free: HashMap::new(), untyped_lets: false, in_wrapper: false }
    }
    fn bind(&mut self, e: String) -> Val {
        self.fresh += 1;
        let n = format!("t{}", self.fresh);
        self.lets.push((n.clone(), e));
        Val::W(n)
    }
    fn word(&self, v: &Val) -> R<String> {
        match v {
            Val::W(s) => Ok(s.clone()),
            Val::N(n) => Ok(format!("({:#x}#64)", n)),
            Val::SN(n) => Ok(format!("(BitVec.ofNat 64 {n})")),
            Val::Ref(k) => self.word(self.env.get(k).ok_or("dangling ref")?),
            Val::ElemRef(k, i) => match self.env.get(k) {
                Some(Val::Arr(a)) if *i < a.len() => self.word(&a[*i]),
                _ => Err("dangling element ref".into()),
            },
            other => Err(format!("expected a word, got {:?}", other)),
        }
    }
    fn place_key(&mut self, e: &Expr) -> R<(String, Option<usize>)> {
        // returns (env key, element index)
        match e {
            Expr::Index(ix) => {
                let (k, none) = self.place_key(&ix.expr)?;
                if none.is_some() {
                    return Err("nested index".into());
                }
                let i = match self.eval(&ix.index)? {
                    Val::N(n) => n as usize,
                    o => return Err(format!("index is not a literal: {:?}", o)),
                };
                Ok((k, Some(i)))
            }
            Expr::Field(f) => {
                let name = match &f.member {
                    syn::Member::Named(id) => id.to_string(),
                    // `.0` of the wrapper newtype: the register itself
                    syn::Member::Unnamed(_) => return self.place_key(&f.base),
                };
                let base = match &*f.base {
                    Expr::Path(p) if p.path.is_ident("self") => "self".to_string(),
                    _ => return Err("field of non-self".into()),
                };
                let mut k = format!("{base}.{name}");
                // inside an inlined method of the hasher the fields alias the caller's
                let mut guard = 0;
                while let Some(Val::Ref(k2)) = self.env.get(&k) {
                    k = k2.clone();
                    guard += 1;
                    if guard > 16 {
                        return Err("reference cycle".into());
                    }
                }
                Ok((k, None))
            }
            Expr::Path(p) => {
                let id = p.path.get_ident().ok_or("path place")?.to_string();
                match self.env.get(&id) {
                    Some(Val::Ref(k)) => {
                        let mut k = k.clone();
                        let mut guard = 0;
                        while let Some(Val::Ref(k2)) = self.env.get(&k) {
                            k = k2.clone();
                            guard += 1;
                            if guard > 16 {
                                return Err("reference cycle".into());
                            }
                        }
                        Ok((k, None))
                    }
                    Some(Val::ElemRef(k, i)) => Ok((k.clone(), Some(*i))),
                    Some(_) => Ok((id, None)),
                    None => Err(format!("unknown variable {id}")),
                }
            }
            Expr::Unary(u) if matches!(u.op, UnOp::Deref(_)) => self.place_key(&u.expr),
            Expr::Paren(p) => self.place_key(&p.expr),
            Expr::Reference(r) => self.place_key(&r.expr),
            _ => Err("unsupported place".into()),
        }
    }
    fn store(&mut self, place: &Expr, v: Val) -> R<()> {
        let (k, idx) = self.place_key(place)?;
        match idx {
            None => {
                self.env.insert(k, v);
            }
            Some(i) => match self.env.get_mut(&k) {
                Some(Val::Arr(a)) if i < a.len() => a[i] = v,
                _ => return Err(format!("store into non-array {k}")),
            },
        }
        Ok(())
    }
    fn bin(&mut self, op: &BinOp, l: Val, r: Val) -> R<Val> {
        // integer arithmetic on literals (indices)
        if let (Val::N(a), Val::N(b)) = (&l, &r) {
            return Ok(Val::N(match op {
                BinOp::Add(_) | BinOp::AddAssign(_) => a + b,
                BinOp::Sub(_) | BinOp::SubAssign(_) => a.checked_sub(*b).ok_or("underflow")?,
                BinOp::Mul(_) => a * b,
                BinOp::Shl(_) => a << b,
                BinOp::Shr(_) => a >> b,
                BinOp::BitAnd(_) => a & b,
                BinOp::BitOr(_) => a | b,
                BinOp::BitXor(_) => a ^ b,
                _ => return Err("literal op".into()),
            }));
        }
        // 32-bit halves and symbolic counts (release semantics: shift counts are masked to the width, `-` on u64 wraps)
        match (&l, &r, op) {
            (Val::N(a), Val::SN(c), BinOp::Sub(_)) => return Ok(Val::SE(format!("((2^64 + {a} - {c}) % 2^64)"))),
            (Val::W32(x), Val::SN(c), BinOp::Shl(_)) => return Ok(Val::W32(format!("({x} <<< ({c} % 32))"))),
            (Val::W32(x), Val::SN(c), BinOp::Shr(_)) => return Ok(Val::W32(format!("({x} >>> ({c} % 32))"))),
            (Val::W32(x), Val::SE(c), BinOp::Shl(_)) => return Ok(Val::W32(format!("({x} <<< ({c} % 32))"))),
            (Val::W32(x), Val::SE(c), BinOp::Shr(_)) => return Ok(Val::W32(format!("({x} >>> ({c} % 32))"))),
            (Val::W32(x), Val::W32(y), BinOp::BitOr(_)) => return Ok(Val::W32(format!("({x} ||| {y})"))),
            (Val::W32(x), Val::W32(y), BinOp::BitAnd(_)) => return Ok(Val::W32(format!("({x} &&& {y})"))),
            (Val::W32(x), Val::W32(y), BinOp::BitXor(_)) => return Ok(Val::W32(format!("({x} ^^^ {y})"))),
            (Val::W32(_), _, _) | (_, Val::W32(_), _) => return Err("unsupported 32-bit operation".into()),
            (Val::SN(c), Val::N(k), BinOp::Shl(_)) if *k < 64 => return Ok(self.bind(format!("((BitVec.ofNat 64 {c}) <<< {k})"))),
            // plain `+` on u64 where one side derives from the size parameter: release semantics (wrapping); the
            // overflow check of the debug profile is the business of HH/PortablePanic.lean
            (_, Val::SN(_), BinOp::Add(_)) | (Val::SN(_), _, BinOp::Add(_)) => {
                let (a, b) = (self.word(&l)?, self.word(&r)?);
                return Ok(self.bind(format!("({a} + {b})")));
            }
            _ => {}
        }
        let lw = self.word(&l)?;
        let e = match op {
            BinOp::BitAnd(_) | BinOp::BitAndAssign(_) => format!("({lw} &&& {})", self.word(&r)?),
            BinOp::BitOr(_) | BinOp::BitOrAssign(_) => format!("({lw} ||| {})", self.word(&r)?),
            BinOp::BitXor(_) | BinOp::BitXorAssign(_) => format!("({lw} ^^^ {})", self.word(&r)?),
            BinOp::Shl(_) | BinOp::ShlAssign(_) => match r {
                Val::N(n) if n < 64 => format!("({lw} <<< {n})"),
                _ => return Err("shift by a non-literal".into()),
            },
            BinOp::Shr(_) | BinOp::ShrAssign(_) => match r {
                Val::N(n) if n < 64 => format!("({lw} >>> {n})"),
                _ => return Err("shift by a non-literal".into()),
            },
            _ => return Err("unsupported binary operator (plain + - * may overflow-check: only wrapping_* are translated)".into()),
        };
        Ok(self.bind(e))
    }
    fn call_fn(&mut self, name: &str, args: Vec<Val>) -> R<Val> {
        let f = self.fns.get(name).ok_or_else(|| format!("call of untranslated function {name}"))?.clone();
        self.call_item(&f, None, args)
    }
    fn call_wrap(&mut self, f: &syn::ImplItemFn, selfv: Option<Val>, args: Vec<Val>) -> R<Val> {
        let saved = self.in_wrapper;
        self.in_wrapper = true;
        let r = self.call_item(f, selfv, args);
        self.in_wrapper = saved;
        r
    }
    fn wasm_intrinsic(&mut self, name: &str, consts: &[u64], args: Vec<Val>) -> R<Val> {
        let args: Vec<Val> = args.into_iter().map(|a| self.deref_val(a)).collect::<R<_>>()?;
        let reg = |v: &Val| -> R<String> { match v { Val::W(s) => Ok(s.clone()), o => Err(format!("register argument of {name}: {:?}", o)) } };
        let q = |v: &Val| -> R<String> { match v { Val::W(s) => Ok(s.clone()), Val::N(n) => Ok(format!("({:#x}#64)", n)), o => Err(format!("u64 argument of {name}: {:?}", o)) } };
        let d = |v: &Val| -> R<String> { match v { Val::W(s) => Ok(s.clone()), Val::N(n) => Ok(format!("({:#x}#32)", n & 0xFFFF_FFFF)), o => Err(format!("u32 argument of {name}: {:?}", o)) } };
        let imm = |v: &Val| -> R<String> { match v { Val::N(n) => Ok(format!("{n}")), o => Err(format!("immediate argument of {name}: {:?}", o)) } };
        let cs = consts.iter().map(|c| c.to_string()).collect::<Vec<_>>();
        let e = match (name, consts.len(), args.as_slice()) {
            ("u64x2", 0, [a, b]) => format!("(Wasm.u64x2 {} {})", q(a)?, q(b)?),
            ("u32x4" | "i32x4", 0, [a, b, c, e]) => format!("(Wasm.u32x4 {} {} {} {})", d(a)?, d(b)?, d(c)?, d(e)?),
            ("v128_and" | "v128_or" | "v128_xor" | "v128_andnot" | "u64x2_add" | "u64x2_sub" | "u64x2_mul", 0, [a, b]) => format!("(Wasm.{name} {} {})", reg(a)?, reg(b)?),
            ("u64x2_shr" | "u64x2_shl" | "u32x4_shr" | "u32x4_shl", 0, [a, n]) => format!("(Wasm.{name} {} {})", reg(a)?, imm(n)?),
            ("u64x2_extract_lane", 1, [a]) => format!("(Wasm.u64x2_extract_lane {} {})", cs[0], reg(a)?),
            ("i32x4_replace_lane", 1, [v, x]) => format!("(Wasm.i32x4_replace_lane {} {} {})", cs[0], reg(v)?, d(x)?),
            ("u8x16_shuffle", 16, [a, b]) => format!("(Wasm.u8x16_shuffle [{}] {} {})", cs.join(", "), reg(a)?, reg(b)?),
            ("u32x4_shuffle", 4, [a, b]) => format!("(Wasm.u32x4_shuffle {} {} {})", cs.join(" "), reg(a)?, reg(b)?),
            ("u64x2_shuffle", 2, [a, b]) => format!("(Wasm.u64x2_shuffle {} {} {})", cs.join(" "), reg(a)?, reg(b)?),
            _ => return Err(format!("wasm32::{name} is outside the translated subset")),
        };
        Ok(self.bind(e))
    }
    /// inline a function: `selfv` is the receiver (a value, or a `Ref` to the caller's place for `&mut self`)
    fn call_item(&mut self, f: &syn::ImplItemFn, selfv: Option<Val>, args: Vec<Val>) -> R<Val> {
        if self.depth > 8 {
            return Err("call depth".into());
        }
        let name = f.sig.ident.to_string();
        let saved = std::mem::take(&mut self.env);
        let mut inner: HashMap<String, Val> = HashMap::new();
        for (k, v) in &saved {
            inner.insert(format!("^{k}"), v.clone());
        }
        let lift = |a: Val| match a {
            Val::Ref(k) => Val::Ref(format!("^{k}")),
            Val::ElemRef(k, i) => Val::ElemRef(format!("^{k}"), i),
            o => o,
        };
        let mut it = args.into_iter();
        let mut bad = None;
        for inp in f.sig.inputs.iter() {
            match inp {
                syn::FnArg::Receiver(_) => match &selfv {
                    Some(v) => {
                        inner.insert("self".into(), lift(v.clone()));
                    }
                    None => {
                        // a method of the hasher called on the hasher itself: its fields are the caller's `self.*`
                        let keys: Vec<String> = inner.keys().filter(|k| k.starts_with("^self.")).cloned().collect();
                        for k in keys {
                            let v = inner.get(&k).cloned().unwrap();
                            inner.insert(k[1..].to_string(), Val::Ref(k.clone()));
                            let _ = v;
                        }
                    }
                },
                syn::FnArg::Typed(t) => {
                    let Some(a) = it.next() else { bad = Some(format!("arity of {name}")); break };
                    match &*t.pat {
                        Pat::Ident(i) => {
                            inner.insert(i.ident.to_string(), lift(a));
                        }
                        Pat::Tuple(pt) => {
                            let Val::Tup(vs) = a else { bad = Some("tuple parameter".into()); break };
                            for (p, x) in pt.elems.iter().zip(vs) {
                                if let Pat::Ident(i) = p {
                                    inner.insert(i.ident.to_string(), lift(x));
                                }
                            }
                        }
                        _ => {
                            bad = Some("parameter pattern".into());
                            break;
                        }
                    }
                }
            }
        }
        if let Some(e) = bad {
            self.env = saved;
            return Err(e);
        }
        self.env = inner;
        self.depth += 1;
        let r = self.block(&f.block);
        self.depth -= 1;
        let inner = std::mem::take(&mut self.env);
        let mut restored = saved;
        for (k, v) in inner {
            if let Some(orig) = k.strip_prefix('^') {
                restored.insert(orig.to_string(), v);
            }
        }
        self.env = restored;
        let r = r?;
        // a returned reference/alias is resolved to its value
        Ok(match r {
            Val::Ref(k) => self.env.get(k.trim_start_matches('^')).cloned().ok_or("dangling result")?,
            o => o,
        })
    }
    fn deref_val(&self, v: Val) -> R<Val> {
        match v {
            Val::Ref(k) => self.env.get(&k).cloned().ok_or_else(|| format!("dangling ref {k}")),
            Val::ElemRef(k, i) => match self.env.get(&k) {
                Some(Val::Arr(a)) if i < a.len() => Ok(a[i].clone()),
                _ => Err("dangling element".into()),
            },
            o => Ok(o),
        }
    }
    /// operator on registers, through the wrapper's trait impl
    fn reg_op(&mut self, method: &str, lhs_place: Option<&Expr>, l: Val, r: Val) -> R<Val> {
        let f = self.traits.get(method).ok_or_else(|| format!("wrapper has no `{method}`"))?.clone();
        let selfv = match lhs_place {
            Some(pl) => {
                let (k, idx) = self.place_key(pl)?;
                match idx {
                    None => Val::Ref(k),
                    Some(i) => Val::ElemRef(k, i),
                }
            }
            None => l,
        };
        let r = self.deref_val(r)?;
        self.call_wrap(&f, Some(selfv), vec![r])
    }
    fn intrinsic(&mut self, name: &str, args: Vec<Val>) -> R<Val> {
        // (Lean name, argument kinds): R register, Q 64-bit word, D 32-bit word, I immediate (Nat)
        let table: &[(&str, &str, &str)] = &[
            ("_mm_add_epi64", "X86.add_epi64", "RR"), ("_mm_mul_epu32", "X86.mul_epu32", "RR"), ("_mm_xor_si128", "X86.xor_si128", "RR"),
            ("_mm_or_si128", "X86.or_si128", "RR"), ("_mm_and_si128", "X86.and_si128", "RR"), ("_mm_andnot_si128", "X86.andnot_si128", "RR"),
            ("_mm_sub_epi64", "X86.sub_epi64", "RR"), ("_mm_srli_epi64", "X86.srli_epi64", "RI"), ("_mm_slli_epi64", "X86.slli_epi64", "RI"),
            ("_mm_slli_si128", "X86.slli_si128", "RI"), ("_mm_shuffle_epi32", "X86.shuffle_epi32", "RI"), ("_mm_shuffle_epi8", "X86.shuffle_epi8", "RR"),
            ("_mm_set_epi64x", "X86.set_epi64x", "QQ"), ("_mm_insert_epi32", "X86.insert_epi32", "RDI"), ("_mm_unpacklo_epi64", "X86.unpacklo_epi64", "RR"),
            ("_mm256_add_epi64", "X86.add256_epi64", "RR"), ("_mm256_mul_epu32", "X86.mul256_epu32", "RR"), ("_mm256_xor_si256", "X86.xor256", "RR"),
            ("_mm256_or_si256", "X86.or256", "RR"), ("_mm256_and_si256", "X86.and256", "RR"), ("_mm256_andnot_si256", "X86.andnot256", "RR"),
            ("_mm256_sub_epi64", "X86.sub256_epi64", "RR"), ("_mm256_srli_epi64", "X86.srli256_epi64", "RI"), ("_mm256_slli_epi64", "X86.slli256_epi64", "RI"),
            ("_mm256_slli_si256", "X86.slli256_si256", "RI"), ("_mm256_shuffle_epi32", "X86.shuffle256_epi32", "RI"), ("_mm256_shuffle_epi8", "X86.shuffle256_epi8", "RR"),
            ("_mm256_set_epi64x", "X86.set256_epi64x", "QQQQ"), ("_mm256_permutevar8x32_epi32", "X86.permutevar8x32_epi32", "RR"),
            ("_mm256_cmpeq_epi64", "X86.cmpeq256_epi64", "RR"), ("_mm256_unpacklo_epi64", "X86.unpacklo256_epi64", "RR"),
        ];
        let neon: &[(&str, &str, &str)] = &[
            ("vaddq_u64", "Neon.vaddq_u64", "RR"), ("vsubq_u64", "Neon.vsubq_u64", "RR"), ("vandq_u64", "Neon.vandq_u64", "RR"),
            ("vorrq_u64", "Neon.vorrq_u64", "RR"), ("veorq_u64", "Neon.veorq_u64", "RR"), ("vbicq_u64", "Neon.vbicq_u64", "RR"),
            ("vmull_u32", "Neon.vmull_u32", "RR"), ("vmovn_u64", "Neon.vmovn_u64", "R"), ("vshrn_n_u64", "Neon.vshrn_n_u64", "RI"),
            ("vshrq_n_u64", "Neon.vshrq_n_u64", "RI"), ("vrev64q_u32", "Neon.vrev64q_u32", "R"), ("vqtbl1q_u8", "Neon.vqtbl1q_u8", "RR"),
            ("vld1q_u8", "Neon.vld1q_u8", "p"), ("vld1q_u64", "Neon.vld1q_u64", "q"), ("vdupq_n_u32", "Neon.vdupq_n_u32", "D"),
            ("vdupq_n_u8", "Neon.vdupq_n_u8", "B"), ("vdupq_n_u64", "Neon.vdupq_n_u64", "Q"), ("vsetq_lane_u32", "Neon.vsetq_lane_u32", "DRI"),
            ("vextq_u8", "Neon.vextq_u8", "RRI"), ("vshlq_u32", "Neon.vshlq_u32", "RR"),
        ];
        if matches!(name, "_mm_storel_epi64" | "_mm_storeu_si128" | "_mm256_storeu_si256") && args.len() == 2 {
            // stores through a pointer to a local u64 / [u64; N]: element i of the destination becomes lane i of the register
            let v = self.deref_val(args[1].clone())?;
            let w = self.word(&v)?;
            let Val::PtrMut(k, off) = &args[0] else { return Err(format!("{name} destination")) };
            let (lanes, f): (Vec<String>, usize) = match name {
                "_mm_storel_epi64" => (vec![format!("(X86.storel_epi64 {w})")], 1),
                "_mm_storeu_si128" => (vec![format!("(X86.storeu_si128 {w}).1"), format!("(X86.storeu_si128 {w}).2")], 2),
                _ => (vec![format!("(X86.storeu_si256 {w}).1"), format!("(X86.storeu_si256 {w}).2.1"), format!("(X86.storeu_si256 {w}).2.2.1"), format!("(X86.storeu_si256 {w}).2.2.2")], 4),
            };
            match self.env.get_mut(k) {
                Some(Val::Arr(a)) if a.len() >= off * f + f => {
                    for (i, l) in lanes.into_iter().enumerate() {
                        a[off * f + i] = Val::W(l);
                    }
                }
                Some(slot @ Val::N(_)) if name == "_mm_storel_epi64" && *off == 0 => *slot = Val::W(lanes[0].clone()),
                _ => return Err(format!("{name} destination is not a local of the right size")),
            }
            return Ok(Val::Unit);
        }
        if name == "vst1q_u64" && args.len() == 2 {
            // store of the two 64-bit lanes through a pointer to a local `[u64; 2]`
            let v = self.deref_val(args[1].clone())?;
            let w = self.word(&v)?;
            let Val::PtrMut(k, 0) = &args[0] else { return Err("vst1q_u64 destination".into()) };
            match self.env.get_mut(k) {
                Some(Val::Arr(a)) if a.len() == 2 => {
                    a[0] = Val::W(format!("(Neon.vst1q_u64 {w}).1"));
                    a[1] = Val::W(format!("(Neon.vst1q_u64 {w}).2"));
                }
                _ => return Err("vst1q_u64 destination is not a local [u64; 2]".into()),
            }
            return Ok(Val::Unit);
        }
        if name.starts_with("vreinterpretq_") && args.len() == 1 {
            return self.deref_val(args.into_iter().next().unwrap());   // a cast between views of the same 128 bits
        }
        let table: Vec<(&str, &str, &str)> = table.iter().chain(neon.iter()).cloned().collect();
        if name == "_mm_setzero_si128" && args.is_empty() {
            return Ok(Val::W("(0 : BitVec 128)".into()));
        }
        if name == "_mm256_setzero_si256" && args.is_empty() {
            return Ok(Val::W("X86.setzero256".into()));
        }
        let (_, lean, kinds) = table.iter().find(|(n, _, _)| *n == name).ok_or_else(|| format!("intrinsic {name} is outside the translated subset"))?;
        if kinds.len() != args.len() {
            return Err(format!("arity of {name}"));
        }
        let mut parts = Vec::new();
        for (k, a) in kinds.chars().zip(args) {
            let a = self.deref_val(a)?;
            parts.push(match (k, &a) {
                ('R', Val::W(s)) => s.clone(),
                ('Q', Val::W(s)) => s.clone(),
                ('Q', Val::N(n)) => format!("({:#x}#64)", n),
                ('D', Val::N(n)) => format!("({:#x}#32)", n & 0xFFFF_FFFF),
                ('I', Val::N(n)) => format!("{n}"),
                ('D', Val::W(s)) => s.clone(),
                ('B', Val::N(n)) if *n < 256 => format!("({:#x}#8)", n),
                ('p', Val::Ptr(items)) => {
                    let bs: Vec<String> = items.iter().map(|x| match x { Val::N(n) if *n < 256 => Ok(format!("{n}")), o => Err(format!("table byte {:?}", o)) }).collect::<R<_>>()?;
                    format!("[{}] 0", bs.join(", "))
                }
                ('q', Val::Ptr(items)) if items.len() == 2 => {
                    let ws: Vec<String> = items.iter().map(|x| self.word(x)).collect::<R<_>>()?;
                    format!("{} {}", ws[0], ws[1])
                }
                _ => return Err(format!("argument of {name}: {:?}", a)),
            });
        }
        Ok(self.bind(format!("({} {})", lean, parts.join(" "))))
    }
    fn eval(&mut self, e: &Expr) -> R<Val> {
        match e {
            Expr::Lit(l) => match &l.lit {
                Lit::Int(i) => Ok(Val::N(lit_u64(i)?)),
                _ => Err("non-integer literal".into()),
            },
            Expr::Paren(p) => self.eval(&p.expr),
            Expr::Group(g) => self.eval(&g.expr),
            Expr::Path(p) => {
                let id = p.path.get_ident().ok_or("qualified path as value")?.to_string();
                self.env.get(&id).cloned().ok_or(format!("unknown variable {id}"))
            }
            Expr::Field(f) if matches!(f.member, syn::Member::Unnamed(_)) && !matches!(&*f.base, Expr::Path(_) | Expr::Field(_) | Expr::Unary(_) | Expr::Paren(_)) => {
                let v = self.eval(&f.base)?;
                self.deref_val(v)
            }
            Expr::Index(ix) if matches!(&*ix.expr, Expr::MethodCall(_) | Expr::Call(_)) => {
                let base = self.eval(&ix.expr)?;
                let Val::N(i) = self.eval(&ix.index)? else { return Err("index".into()) };
                match base {
                    Val::Arr(a) if (i as usize) < a.len() => Ok(a[i as usize].clone()),
                    _ => Err("index into a temporary that is not an array".into()),
                }
            }
            Expr::Field(_) | Expr::Index(_) => {
                let (k, idx) = self.place_key(e)?;
                let v = self.env.get(&k).cloned().ok_or(format!("unknown place {k}"))?;
                match (v, idx) {
                    (v, None) => self.deref_val(v),
                    (Val::Arr(a), Some(i)) if i < a.len() => Ok(a[i].clone()),
                    _ => Err("index into non-array".into()),
                }
            }
            Expr::Unsafe(u) => self.block(&u.block),
            Expr::Macro(m) => {
                // `_mm_shuffle!(z, y, x, w)` = (z << 6) | (y << 4) | (x << 2) | w   (src/x86/macros.rs, = _MM_SHUFFLE)
                if m.mac.path.segments.last().map(|s| s.ident == "_mm_shuffle").unwrap_or(false) {
                    let toks = m.mac.tokens.to_string();
                    let v: Vec<u64> = toks.split(',').filter_map(|t| t.trim().parse().ok()).collect();
                    if v.len() == 4 && v.iter().all(|x| *x < 4) {
                        return Ok(Val::N((v[0] << 6) | (v[1] << 4) | (v[2] << 2) | v[3]));
                    }
                }
                if m.mac.path.segments.last().map(|s| s.ident == "addr_of_mut").unwrap_or(false) {
                    let e: Expr = syn::parse2(m.mac.tokens.clone()).map_err(|e| format!("addr_of_mut!: {e}"))?;
                    let (k, idx) = self.place_key(&e)?;
                    if idx.is_some() {
                        return Err("addr_of_mut! of an element".into());
                    }
                    return Ok(Val::PtrMut(k, 0));
                }
                Err("macro".into())
            }
            Expr::Unary(u) => match u.op {
                UnOp::Deref(_) => {
                    let v = self.eval(&u.expr)?;
                    match v {
                        Val::Ref(k) => self.env.get(&k).cloned().ok_or("dangling".into()),
                        Val::ElemRef(k, i) => match self.env.get(&k) {
                            Some(Val::Arr(a)) if i < a.len() => Ok(a[i].clone()),
                            _ => Err("dangling element".into()),
                        },
                        o => Ok(o),
                    }
                }
                UnOp::Not(_) => {
                    let w = self.eval(&u.expr)?;
                    let w = self.word(&w)?;
                    Ok(self.bind(format!("(~~~{w})")))
                }
                _ => Err("unary".into()),
            },
            Expr::Reference(r) => match self.place_key(&r.expr) {
                Ok((k, None)) => Ok(Val::Ref(k)),
                Ok((k, Some(i))) => Ok(Val::ElemRef(k, i)),
                Err(_) => self.eval(&r.expr),      // a temporary: `&V2x64U::new(..)`
            },
            Expr::Binary(b) => {
                let l = self.eval(&b.left)?;
                let l = self.deref_val(l)?;
                let r = self.eval(&b.right)?;
                let r = self.deref_val(r)?;
                if let (Val::W(_), Val::W(_)) = (&l, &r) {
                    let m = match b.op {
                        BinOp::Add(_) => "add",
                        BinOp::BitXor(_) => "bitxor",
                        BinOp::BitOr(_) => "bitor",
                        BinOp::BitAnd(_) => "bitand",
                        BinOp::Sub(_) => "sub",
                        _ => return Err("register operator".into()),
                    };
                    return self.reg_op(m, None, l, r);
                }
                self.bin(&b.op, l, r)
            }
            Expr::Repeat(r) => {
                let x = self.eval(&r.expr)?;
                let Val::N(n) = self.eval(&r.len)? else { return Err("repeat length".into()) };
                Ok(Val::Arr(vec![x; n as usize]))
            }
            Expr::Array(a) => {
                let mut v = Vec::new();
                for x in &a.elems {
                    v.push(self.eval(x)?);
                }
                Ok(Val::Arr(v))
            }
            Expr::Tuple(t) => {
                let mut v = Vec::new();
                for x in &t.elems {
                    v.push(self.eval(x)?);
                }
                Ok(Val::Tup(v))
            }
            Expr::MethodCall(m) => {
                let name = m.method.to_string();
                let mut args = Vec::new();
                for a in &m.args {
                    args.push(self.eval(a)?);
                }
                if name == "as_mut_ptr" && args.is_empty() {
                    let (k, idx) = self.place_key(&m.receiver)?;
                    if idx.is_some() {
                        return Err("as_mut_ptr of an element".into());
                    }
                    return Ok(Val::PtrMut(k, 0));
                }
                if name == "cast" && args.is_empty() {
                    let v = self.eval(&m.receiver)?;
                    if matches!(v, Val::PtrMut(..)) {
                        return Ok(v);
                    }
                    return Err("cast of a non-pointer".into());
                }
                if name == "add" && args.len() == 1 {
                    if let (Val::PtrMut(k, o), Val::N(n)) = (self.eval(&m.receiver)?, &args[0]) {
                        return Ok(Val::PtrMut(k, o + *n as usize));
                    }
                    return Err("pointer arithmetic".into());
                }
                if name == "as_ptr" && args.is_empty() {
                    let v = self.eval(&m.receiver)?;
                    let v = self.deref_val(v)?;
                    let Val::Arr(items) = v else { return Err("as_ptr of a non-array".into()) };
                    let items: Vec<Val> = items.into_iter().map(|x| self.deref_val(x)).collect::<R<_>>()?;
                    return Ok(Val::Ptr(items));
                }
                // a method of the hasher called on `self`
                if matches!(&*m.receiver, Expr::Path(p) if p.path.is_ident("self")) && !self.env.contains_key("self") {
                    let f = self.fns.get(&name).ok_or_else(|| format!("hasher method {name}"))?.clone();
                    return self.call_item(&f, None, args);
                }
                let f = self.wrap.get(&name).ok_or_else(|| format!("method {name}"))?.clone();
                let by_mut = f.sig.inputs.iter().any(|a| matches!(a, syn::FnArg::Receiver(r) if r.mutability.is_some()));
                let recv = if by_mut {
                    match self.place_key(&m.receiver)? {
                        (k, None) => Val::Ref(k),
                        (k, Some(i)) => Val::ElemRef(k, i),
                    }
                } else {
                    let v = self.eval(&m.receiver)?;
                    self.deref_val(v)?
                };
                self.call_wrap(&f, Some(recv), args)
            }
            Expr::Cast(c) => {
                // `hi as i64`, `0x8000_0000_u32 as i32`: the bit pattern is what the intrinsic receives
                let v = self.eval(&c.expr)?;
                self.deref_val(v)
            }
            Expr::Call(c) => {
                let segs: Vec<String> = match &*c.func {
                    Expr::Path(p) => p.path.segments.iter().map(|s| s.ident.to_string()).collect(),
                    _ => return Err("call of non-path".into()),
                };
                let mut args = Vec::new();
                for a in &c.args {
                    args.push(self.eval(a)?);
                }
                let last = segs.last().cloned().unwrap_or_default();
                if segs.len() == 2 && segs[0] == "wasm32" {
                    let mut consts = Vec::new();
                    if let Expr::Path(p) = &*c.func {
                        if let Some(syn::PathArguments::AngleBracketed(ab)) = p.path.segments.last().map(|s| &s.arguments) {
                            for ga in &ab.args {
                                match ga {
                                    syn::GenericArgument::Const(Expr::Lit(l)) => match &l.lit {
                                        Lit::Int(i) => consts.push(lit_u64(i)?),
                                        _ => return Err("const generic".into()),
                                    },
                                    _ => return Err("generic argument".into()),
                                }
                            }
                        }
                    }
                    return self.wasm_intrinsic(&last, &consts, args);
                }
                if segs.len() == 2 && segs[0] == "Self" && self.in_wrapper {
                    if let Some(f) = self.wrap.get(&last).cloned() {
                        return self.call_wrap(&f, None, args);
                    }
                }
                if segs.len() == 1 && segs[0] == self.wrapper && args.len() == 1 {
                    return self.deref_val(args.remove(0));                     // newtype constructor
                }
                if segs.len() == 1 {
                    if let Some(f) = self.free.get(&last).cloned() {
                        return self.call_item(&f, None, args);
                    }
                }
                if last.starts_with("_mm") || (segs.len() == 1 && last.starts_with('v') && last.contains('_') && !self.fns.contains_key(&last)) {
                    return self.intrinsic(&last, args);
                }
                if segs.len() == 2 && segs[0] == self.wrapper {
                    if last == "from" && args.len() == 1 {
                        return self.deref_val(args.remove(0));
                    }
                    if let Some(f) = self.wrap.get(&last).cloned() {
                        return self.call_wrap(&f, None, args);
                    }
                    if let Some(f) = self.traits.get(&last).cloned() {
                        return self.call_wrap(&f, None, args);
                    }
                    return Err(format!("wrapper function {last}"));
                }
                self.call_fn(&last, args)
            }
            Expr::Assign(a) => {
                let v = self.eval(&a.right)?;
                self.store(&a.left, v)?;
                Ok(Val::Unit)
            }
            Expr::Struct(s) => {
                // `PortableHash { v0: [..], v1: [..], mul0, mul1, buffer: .. }`: the four lane arrays
                let mut out = Vec::new();
                for want in ["v0", "v1", "mul0", "mul1"] {
                    let f = s.fields.iter().find(|f| matches!(&f.member, syn::Member::Named(n) if n == want)).ok_or("struct field")?;
                    out.push(self.eval(&f.expr)?);
                }
                Ok(Val::Tup(out))
            }
            Expr::ForLoop(f) => {
                // `for i in A..B { .. }` with literal bounds, or `for (i, x) in arr.iter().enumerate() { .. }`
                if let Expr::Range(r) = &*f.expr {
                    let (Some(a), Some(b)) = (&r.start, &r.end) else { return Err("open range".into()) };
                    let (Val::N(a), Val::N(b)) = (self.eval(a)?, self.eval(b)?) else { return Err("non-literal range".into()) };
                    let var = match &*f.pat {
                        Pat::Ident(i) => i.ident.to_string(),
                        Pat::Wild(_) => "_".to_string(),
                        _ => return Err("loop pattern".into()),
                    };
                    for i in a..b {
                        self.env.insert(var.clone(), Val::N(i));
                        self.block(&f.body)?;
                    }
                    return Ok(Val::Unit);
                }
                if let (Pat::Ident(pi), Expr::MethodCall(im)) = (&*f.pat, &*f.expr) {
                    if im.method == "iter_mut" {
                        let (k, idx) = self.place_key(&im.receiver)?;
                        if idx.is_some() {
                            return Err("iter_mut of an element".into());
                        }
                        let n = match self.env.get(&k) {
                            Some(Val::Arr(a)) => a.len(),
                            _ => return Err("iter_mut over non-array".into()),
                        };
                        for i in 0..n {
                            self.env.insert(pi.ident.to_string(), Val::ElemRef(k.clone(), i));
                            self.block(&f.body)?;
                        }
                        return Ok(Val::Unit);
                    }
                }
                if let (Pat::Tuple(pt), Expr::MethodCall(en)) = (&*f.pat, &*f.expr) {
                    if en.method == "enumerate" {
                        if let Expr::MethodCall(it) = &*en.receiver {
                            if it.method == "iter" {
                                let arr = self.eval(&it.receiver)?;
                                let arr = match arr {
                                    Val::Ref(k) => self.env.get(&k).cloned().ok_or("dangling")?,
                                    o => o,
                                };
                                let Val::Arr(items) = arr else { return Err("enumerate over non-array".into()) };
                                let names: Vec<String> = pt.elems.iter().filter_map(|p| match p {
                                    Pat::Ident(i) => Some(i.ident.to_string()),
                                    _ => None,
                                }).collect();
                                if names.len() != 2 {
                                    return Err("enumerate pattern".into());
                                }
                                for (i, x) in items.into_iter().enumerate() {
                                    self.env.insert(names[0].clone(), Val::N(i as u64));
                                    self.env.insert(names[1].clone(), x);
                                    self.block(&f.body)?;
                                }
                                return Ok(Val::Unit);
                            }
                        }
                    }
                }
                Err("unsupported loop".into())
            }
            Expr::Block(b) => self.block(&b.block),
            _ => Err(format!("unsupported expression kind: {}", quote::quote!(#e).to_string().chars().take(60).collect::<String>())),
        }
    }
    fn compound(&mut self, b: &syn::ExprBinary) -> R<Option<Val>> {
        let m = match b.op {
            BinOp::AddAssign(_) => "add_assign",
            BinOp::SubAssign(_) => "sub_assign",
            BinOp::BitXorAssign(_) => "bitxor_assign",
            BinOp::BitOrAssign(_) => "bitor_assign",
            BinOp::BitAndAssign(_) => "bitand_assign",
            _ => return Ok(None),
        };
        let rhs = self.eval(&b.right)?;
        self.reg_op(m, Some(&b.left), Val::Unit, rhs)?;
        Ok(Some(Val::Unit))
    }
    fn stmt(&mut self, s: &Stmt) -> R<Val> {
        match s {
            Stmt::Local(l) => {
                let init = l.init.as_ref().ok_or("let without init")?;
                let v = self.eval(&init.expr)?;
                let mut pat = &l.pat;
                if let Pat::Type(t) = pat {
                    pat = &t.pat;
                }
                match pat {
                    Pat::Ident(i) => {
                        self.env.insert(i.ident.to_string(), v);
                    }
                    Pat::Tuple(t) => {
                        let Val::Tup(vs) = v else { return Err("tuple pattern on non-tuple".into()) };
                        for (p, x) in t.elems.iter().zip(vs) {
                            if let Pat::Ident(i) = p {
                                self.env.insert(i.ident.to_string(), x);
                            } else {
                                return Err("nested pattern".into());
                            }
                        }
                    }
                    _ => return Err("let pattern".into()),
                }
                Ok(Val::Unit)
            }
            Stmt::Expr(e, semi) => {
                if let Expr::Binary(b) = e {
                    if let Some(v) = self.compound(b)? {
                        return Ok(v);
                    }
                }
                let v = self.eval(e)?;
                Ok(if semi.is_some() { Val::Unit } else { v })
            }
            _ => Err("item/macro statement".into()),
        }
    }
    fn block(&mut self, b: &syn::Block) -> R<Val> {
        let mut last = Val::Unit;
        for s in &b.stmts {
            last = self.stmt(s)?;
        }
        Ok(last)
    }
    fn lets_text(&self) -> String {
        let mut o = String::new();
        for (n, e) in &self.lets {
            if self.untyped_lets {
                let _ = writeln!(o, "  let {n} := {e}");
            } else {
                let _ = writeln!(o, "  let {n} : {} := {e}", self.regty);
            }
        }
        o
    }
}

fn collect_free(path: &str) -> HashMap<String, syn::ImplItemFn> {
    let src = std::fs::read_to_string(path).unwrap_or_default();
    let mut m = HashMap::new();
    if let Ok(file) = syn::parse_file(&src) {
        for it in &file.items {
            if let Item::Fn(f) = it {
                m.insert(f.sig.ident.to_string(), syn::ImplItemFn { attrs: vec![], vis: f.vis.clone(), defaultness: None, sig: f.sig.clone(), block: (*f.block).clone() });
            }
        }
    }
    m
}

fn collect(path: &str, ty: &str) -> (HashMap<String, syn::ImplItemFn>, HashMap<String, syn::ImplItemFn>) {
    // (inherent methods of `ty`, trait methods implemented for `ty`)
    let src = std::fs::read_to_string(path).unwrap_or_default();
    let mut inh = HashMap::new();
    let mut tr = HashMap::new();
    if let Ok(file) = syn::parse_file(&src) {
        for it in &file.items {
            if let Item::Impl(im) = it {
                let t = &im.self_ty;
                if quote::quote!(#t).to_string() != ty {
                    continue;
                }
                for ii in &im.items {
                    if let ImplItem::Fn(f) = ii {
                        if im.trait_.is_none() {
                            inh.insert(f.sig.ident.to_string(), f.clone());
                        } else {
                            tr.insert(f.sig.ident.to_string(), f.clone());
                        }
                    }
                }
            }
        }
    }
    (inh, tr)
}

const SSE_FIELDS: [&str; 8] = ["v0L", "v0H", "v1L", "v1H", "mul0L", "mul0H", "mul1L", "mul1H"];
const AVX_FIELDS: [&str; 4] = ["v0", "v1", "mul0", "mul1"];

fn regs_text(ex: &Ex, fields: &[&str]) -> R<String> {
    let mut parts = Vec::new();
    for f in fields {
        let v = ex.env.get(&format!("self.{f}")).cloned().ok_or("state field")?;
        parts.push(ex.word(&v)?);
    }
    Ok(format!("⟨{}⟩", parts.join(", ")))
}

fn params(f: &syn::ImplItemFn) -> Vec<String> {
    let mut v = Vec::new();
    for a in &f.sig.inputs {
        if let syn::FnArg::Typed(t) = a {
            match &*t.pat {
                Pat::Ident(i) => v.push(i.ident.to_string()),
                Pat::Tuple(pt) => {
                    for p in &pt.elems {
                        if let Pat::Ident(i) = p {
                            v.push(i.ident.to_string());
                        }
                    }
                }
                _ => {}
            }
        }
    }
    v
}

fn main() {
    let args: Vec<String> = std::env::args().collect();
    let dir = &args[1];
    let mut out = String::new();
    let mut thms = String::new();
    let mut status: Vec<(String, String)> = Vec::new();
    // which back ends: "x86" (default; sse.rs + avx.rs with their wrapper files), "neon" (aarch64.rs), "wasm" (wasm.rs)
    let which = args.get(4).cloned().unwrap_or_else(|| "x86".to_string());
    let (srcs, imports) = match which.as_str() {
        "neon" => ("src/aarch64.rs", "import HH.Neon\n"),
        "wasm" => ("src/wasm.rs", "import HH.WasmB\n"),
        _ => ("src/x86/{sse,avx,v2x64u,v4x64u}.rs", "import HH.Sse\nimport HH.Avx\n"),
    };
    let _ = write!(out, "-- GENERATED by /verif/harness/facts (simdgen) from {srcs}; do not edit.\n{imports}namespace HH.Gen\n\n");
    for (file, hasher, wrapfile, wrapper, avx, ns, model, fields) in [
        ("sse.rs", "SseHash", "v2x64u.rs", "V2x64U", false, "Sse", "Sse", &SSE_FIELDS[..]),
        ("avx.rs", "AvxHash", "v4x64u.rs", "V4x64U", true, "Avx", "Avx", &AVX_FIELDS[..]),
        ("../aarch64.rs", "NeonHash", "../aarch64.rs", "V2x64U", false, "NeonG", "NeonB", &SSE_FIELDS[..]),
        ("../wasm.rs", "WasmHash", "../wasm.rs", "V2x64U", false, "WasmG", "WasmB", &SSE_FIELDS[..]),
    ] {
        let mine = match ns { "NeonG" => "neon", "WasmG" => "wasm", _ => "x86" };
        if mine != which {
            continue;
        }
        let (fns, _) = collect(&format!("{dir}/{file}"), hasher);
        let (wrap, traits) = collect(&format!("{dir}/{wrapfile}"), wrapper);
        let untyped = ns == "NeonG" || ns == "WasmG";
        let free: HashMap<String, syn::ImplItemFn> = if untyped { collect_free(&format!("{dir}/{file}")) } else { HashMap::new() };
        let regty = if avx { "X86.R256" } else { "BitVec 128" };
        let open = match ns { "NeonG" => "Neon", "WasmG" => "Wasm", _ => "X86" };
        let _ = write!(out, "namespace {ns}\nopen {open}\n\n");
        let _ = write!(thms, "namespace {ns}\nopen {open}\n\n");
        let mut emit = |name: &str, r: R<(String, String)>| match r {
            Ok((d, t)) => {
                out.push_str(&d);
                out.push('\n');
                thms.push_str(&t);
                thms.push('\n');
                status.push((format!("{hasher}::{name}"), "translated".to_string()));
            }
            Err(e) => status.push((format!("{hasher}::{name}"), format!("skipped: {e}"))),
        };
        // zipper_merge(v)
        emit("zipper_merge", (|| {
            let f = fns.get("zipper_merge").ok_or("missing")?;
            let mut ex = Ex::new(&fns, &wrap, &traits, wrapper, avx);
            ex.free = free.clone();
            ex.untyped_lets = untyped;
            let ps = params(f);
            if ps.len() != 1 { return Err("arity".into()); }
            ex.env.insert(ps[0].clone(), Val::W("v".into()));
            let r = ex.block(&f.block)?;
            let d = format!("def zipperMerge (v : {regty}) : {regty} :=\n{}  {}\n", ex.lets_text(), ex.word(&r)?);
            let t = format!("theorem zipperMerge_eq (v : {regty}) : zipperMerge v = HH.{model}.zipperMerge v := rfl\n");
            Ok((d, t))
        })());
        // update
        emit("update", (|| {
            let f = fns.get("update").ok_or("missing")?;
            let mut ex = Ex::new(&fns, &wrap, &traits, wrapper, avx);
            ex.free = free.clone();
            ex.untyped_lets = untyped;
            for fl in fields { ex.env.insert(format!("self.{fl}"), Val::W(format!("s.{fl}"))); }
            let ps = params(f);
            let (sig, call) = if avx {
                if ps.len() != 1 { return Err("arity".into()); }
                ex.env.insert(ps[0].clone(), Val::W("packet".into()));
                ("(s : HH.Avx.Regs) (packet : X86.R256) : HH.Avx.Regs".to_string(), "HH.Avx.update s packet".to_string())
            } else {
                if ps.len() != 2 { return Err("arity".into()); }
                ex.env.insert(ps[0].clone(), Val::W("packetH".into()));
                ex.env.insert(ps[1].clone(), Val::W("packetL".into()));
                (format!("(s : HH.{model}.Regs) (packetH packetL : BitVec 128) : HH.{model}.Regs"), format!("HH.{model}.update s packetH packetL"))
            };
            ex.block(&f.block)?;
            let d = format!("def update {sig} :=\n{}  {}\n", ex.lets_text(), regs_text(&ex, fields)?);
            let vars = if avx { "s packet" } else { "s packetH packetL" };
            let binder = sig.rsplit_once(" : ").map(|x| x.0.to_string()).unwrap_or_default();
            let t = format!("theorem update_eq {binder} : update {vars} = {call} := rfl\n");
            Ok((d, t))
        })());
        // permute_and_update
        emit("permute_and_update", (|| {
            let f = fns.get("permute_and_update").ok_or("missing")?;
            let mut ex = Ex::new(&fns, &wrap, &traits, wrapper, avx);
            ex.free = free.clone();
            ex.untyped_lets = untyped;
            for fl in fields { ex.env.insert(format!("self.{fl}"), Val::W(format!("s.{fl}"))); }
            ex.block(&f.block)?;
            let d = format!("def permuteAndUpdate (s : HH.{model}.Regs) : HH.{model}.Regs :=\n{}  {}\n", ex.lets_text(), regs_text(&ex, fields)?);
            let t = format!("theorem permuteAndUpdate_eq (s : HH.{model}.Regs) : permuteAndUpdate s = HH.{model}.permuteAndUpdate s := rfl\n");
            Ok((d, t))
        })());
        // modular_reduction(x, init)
        emit("modular_reduction", (|| {
            let f = fns.get("modular_reduction").ok_or("missing")?;
            let mut ex = Ex::new(&fns, &wrap, &traits, wrapper, avx);
            ex.free = free.clone();
            ex.untyped_lets = untyped;
            let ps = params(f);
            if ps.len() != 2 { return Err("arity".into()); }
            ex.env.insert(ps[0].clone(), Val::W("x".into()));
            ex.env.insert(ps[1].clone(), Val::W("init".into()));
            let r = ex.block(&f.block)?;
            let d = format!("def modularReduction (x init : {regty}) : {regty} :=\n{}  {}\n", ex.lets_text(), ex.word(&r)?);
            let t = format!("theorem modularReduction_eq (x init : {regty}) : modularReduction x init = HH.{model}.modularReduction x init := rfl\n");
            Ok((d, t))
        })());
        {
            for (fname, lean, ty, k) in [("finalize64", "out64", "BitVec 64", 4), ("finalize128", "out128", "BitVec 64 × BitVec 64", 6), ("finalize256", "out256", "BitVec 64 × BitVec 64 × BitVec 64 × BitVec 64", 10)] {
                emit(fname, (|| {
                    let f = fns.get(fname).ok_or("missing")?;
                    // the statements after the remainder test and the round loop
                    let mut idx = 0;
                    for (i, s) in f.block.stmts.iter().enumerate() {
                        // the prologue may also have been hoisted into a helper method called for its effect
                        let helper = matches!(s, Stmt::Expr(Expr::MethodCall(m), Some(_)) if matches!(&*m.receiver, Expr::Path(p) if p.path.is_ident("self")));
                        if matches!(s, Stmt::Expr(Expr::ForLoop(_), _)) || matches!(s, Stmt::Expr(Expr::If(_), _)) || helper {
                            idx = i + 1;
                        }
                    }
                    let tail = syn::Block { brace_token: f.block.brace_token, stmts: f.block.stmts[idx..].to_vec() };
                    let mut ex = Ex::new(&fns, &wrap, &traits, wrapper, avx);
                    ex.free = free.clone();
                    ex.untyped_lets = untyped;
                    for fl in fields { ex.env.insert(format!("self.{fl}"), Val::W(format!("s.{fl}"))); }
                    let r = ex.block(&tail)?;
                    let r = ex.deref_val(r)?;
                    let body = match &r {
                        Val::W(w) => w.clone(),
                        Val::Arr(a) => {
                            let ws: Vec<String> = a.iter().map(|x| { let x = ex.deref_val(x.clone())?; ex.word(&x) }).collect::<R<_>>()?;
                            format!("({})", ws.join(", "))
                        }
                        o => return Err(format!("result shape {:?}", o)),
                    };
                    let d = format!("def {lean} (s : HH.{model}.Regs) : {ty} :=\n{}  {body}\n", ex.lets_text());
                    let t = format!("/-- `{fname}` is the shared prologue (tied to the source by HH/Generated/Skeleton.lean) followed by the source's output expression -/\ntheorem {fname}_shape (x : HH.{model}.State) : HH.{model}.{fname} x = {lean} (HH.{model}.finalizeCommon {k} x) := rfl\n");
                    Ok((d, t))
                })());
            }
        }
        if avx {
            emit("permute", (|| {
                let f = fns.get("permute").ok_or("missing")?;
                let mut ex = Ex::new(&fns, &wrap, &traits, wrapper, avx);
            ex.free = free.clone();
            ex.untyped_lets = untyped;
                let ps = params(f);
                if ps.len() != 1 { return Err("arity".into()); }
                ex.env.insert(ps[0].clone(), Val::W("v".into()));
                let r = ex.block(&f.block)?;
                let d = format!("def permute (v : {regty}) : {regty} :=\n{}  {}\n", ex.lets_text(), ex.word(&r)?);
                let t = format!("theorem permute_eq (v : {regty}) : permute v = HH.Avx.permute v := rfl\n");
                Ok((d, t))
            })());
        }
        let _ = write!(out, "end {ns}\n\n");
        let _ = write!(thms, "end {ns}\n\n");
    }
    out.push_str("/-! ### the translated source equals the hand-written model, for all inputs -/\n\n");
    out.push_str(&thms);
    out.push_str("\nend HH.Gen\n");
    std::fs::write(&args[2], out).expect("write lean");
    let js: Vec<String> = status.iter().map(|(n, s)| format!("  {:?}: {:?}", n, s)).collect();
    std::fs::write(&args[3], format!("{{\n{}\n}}\n", js.join(",\n"))).expect("write status");
    for (n, s) in &status {
        println!("simdgen {n}: {s}");
    }
}
