import HH.Proofs.HasherAbs
/-!
# Observational equivalence from equal abstract states
-/
namespace HH
namespace Hasher

theorem foldl_append_abs (chunks : List (List (BitVec 8))) :
    ∀ (h : Hasher), h.Inv →
      (chunks.foldl Hasher.append h).abs = absAppend h.abs chunks.flatten ∧ (chunks.foldl Hasher.append h).Inv := by
  induction chunks with
  | nil =>
    intro h hi
    refine ⟨?_, hi⟩
    simp only [List.foldl_nil, List.flatten_nil, absAppend]
    rw [AbsAppend_nil _ _ (abs_pending_lt h hi)]
  | cons c cs ih =>
    intro h hi
    have h1 := append_abs h c hi
    have h2 := ih (h.append c) h1.2
    refine ⟨?_, h2.2⟩
    simp only [List.foldl_cons, List.flatten_cons]
    rw [h2.1, h1.1]
    exact AbsAppend_assoc _ _ _ _

/-- two hashers (of any back ends) in the same abstract state are indistinguishable by any
sequence of appends followed by any finalisation or checkpoint -/
theorem obs_eq (h1 h2 : Hasher) (i1 : h1.Inv) (i2 : h2.Inv) (e : h1.abs = h2.abs)
    (chunks : List (List (BitVec 8))) :
    (∀ w, (chunks.foldl Hasher.append h1).finalize w = (chunks.foldl Hasher.append h2).finalize w) ∧
    (chunks.foldl Hasher.append h1).checkpoint = (chunks.foldl Hasher.append h2).checkpoint ∧
    (chunks.foldl Hasher.append h1).finalize64 = (chunks.foldl Hasher.append h2).finalize64 := by
  have a1 := foldl_append_abs chunks h1 i1
  have a2 := foldl_append_abs chunks h2 i2
  refine ⟨?_, ?_, ?_⟩
  · intro w; rw [finalize_abs _ w a1.2, finalize_abs _ w a2.2, a1.1, a2.1, e]
  · rw [checkpoint_abs _ a1.2, checkpoint_abs _ a2.2, a1.1, a2.1, e]
  · rw [finalize64_abs _ a1.2, finalize64_abs _ a2.2, a1.1, a2.1, e]

/-- checkpoint then restore (on any back end) preserves the abstract state -/
theorem restore_abs (h : Hasher) (hi : h.Inv) (b : Backend) (h' : Hasher)
    (hr : fromCheckpoint b h.checkpoint = some h') : h'.abs = h.abs ∧ h'.Inv := by
  have hlt := abs_pending_lt h hi
  have hc : h.checkpoint.length = 164 := by
    rw [checkpoint_abs h hi]; exact P.encode_length _ (by omega)
  have := fromCheckpoint_abs b h.checkpoint hc h' hr
  refine ⟨?_, this.2⟩
  rw [this.1, checkpoint_abs h hi, P.decode_encode _ hlt]

end Hasher
end HH
