import HH.Avx
import HH.Proofs.X86Lemmas
import Std.Tactic.BVDecide
import HH.Proofs.PortableSpec
import Mathlib.Tactic.IntervalCases
/-!
# The AVX2 model refines the portable model (step lemmas, valid for ALL register states)
-/
namespace HH
namespace Avx
open X86

theorem shufImm_eq : shufImm = 177 := rfl

theorem r256ToV4_map2_add (a b : R256) : r256ToV4 (add256_epi64 a b) = V4.add (r256ToV4 a) (r256ToV4 b) := by
  simp [r256ToV4, add256_epi64, R256.map2, V4.add, V4.zipWith]

theorem r256ToV4_xor (a b : R256) : r256ToV4 (xor256 a b) = V4.xor (r256ToV4 a) (r256ToV4 b) := by
  simp [r256ToV4, xor256, R256.map2, V4.xor, V4.zipWith]

theorem r256ToV4_mul (a b : R256) :
    r256ToV4 (mulLow32 a (shrBy32 b)) = V4.zipWith P.mul32 (r256ToV4 a) (r256ToV4 b) := by
  simp [r256ToV4, mulLow32, shrBy32, mul256_epu32, srli256_epi64, R256.map2, R256.map, mul_epu32_srli, V4.zipWith]

theorem zipperMerge_eq (v : R256) :
    zipperMerge v =
      ⟨mk (P.zipHi (hi64 v.lo) (lo64 v.lo)) (P.zipLo (hi64 v.lo) (lo64 v.lo)),
       mk (P.zipHi (hi64 v.hi) (lo64 v.hi)) (P.zipLo (hi64 v.hi) (lo64 v.hi))⟩ := by
  have h : set256_epi64x 0x070806090D0A040B#64 0x000F010E05020C03#64 0x070806090D0A040B#64 0x000F010E05020C03#64
      = ⟨set_epi64x 0x070806090D0A040B#64 0x000F010E05020C03#64, set_epi64x 0x070806090D0A040B#64 0x000F010E05020C03#64⟩ := rfl
  simp only [zipperMerge, shuffle256_epi8, R256.map2, h, zipper_shuffle]

theorem update_refines (r : Regs) (packet : R256) :
    toPortable (update r packet) = P.update (toPortable r) (r256ToV4 packet) := by
  simp only [update, toPortable, P.update, zipperMerge_eq, P.zipperAdd, r256ToV4, add256_epi64, xor256, mulLow32, shrBy32,
    mul256_epu32, srli256_epi64, R256.map2, R256.map, mul_epu32_srli, V4.add, V4.xor, V4.zipWith, lo64_add, hi64_add,
    lo64_xor, hi64_xor, lo64_mk, hi64_mk]

theorem loadu_lanes (pkt : List (BitVec 8)) : r256ToV4 (loadu_si256 pkt 0) = P.dataToLanes pkt := by
  simp [r256ToV4, loadu_si256, loadu_si128, ofBytes16, P.dataToLanes]

theorem updPacket_refines (r : Regs) (pkt : List (BitVec 8)) :
    toPortable (updPacket r pkt) = P.updPacket (toPortable r) pkt := by
  simp only [updPacket, update_refines, loadu_lanes, P.updPacket]

theorem permute_lanes (v : R256) : r256ToV4 (permute v) = P.permute (r256ToV4 v) := by
  unfold permute permutevar8x32_epi32 set256_epi64x R256.lane32 r256ToV4 P.permute lane32 mk32 mk lo64 hi64
  simp
  refine ⟨?_, ?_, ?_, ?_⟩ <;> bv_decide

theorem permuteAndUpdate_refines (r : Regs) :
    toPortable (permuteAndUpdate r) = P.permuteAndUpdate (toPortable r) := by
  simp only [permuteAndUpdate, update_refines, P.permuteAndUpdate, permute_lanes]
  rfl

theorem rounds_refines (n : Nat) (r : Regs) : toPortable (rounds n r) = P.rounds n (toPortable r) := by
  induction n generalizing r with
  | zero => rfl
  | succ n ih => simp only [rounds, P.rounds, ih, permuteAndUpdate_refines]

theorem r256_roundtrip (v : V4) : r256ToV4 (v4ToR256 v) = v := by
  simp [r256ToV4, v4ToR256, set256_epi64x]

theorem v4_roundtrip (r : R256) : v4ToR256 (r256ToV4 r) = r := by
  simp [r256ToV4, v4ToR256, set256_epi64x, mk_lo_hi]

theorem toPortable_fromPortable (p : St) : toPortable (fromPortable p) = p := by
  simp [toPortable, fromPortable, r256_roundtrip]

theorem fromPortable_toPortable (r : Regs) : fromPortable (toPortable r) = r := by
  simp [toPortable, fromPortable, v4_roundtrip]

theorem new_refines (k : V4) : toPortable (new k).r = (P.new k).st := by
  simp [new, toPortable, P.new, rotateBy32, shufImm_eq, shuffle256_epi32, R256.map, shuffle_epi32_rot, mul0Init, mul1Init,
    P.init0, P.init1, V4.zipWith, V4.map, r256ToV4, set256_epi64x, xor256, R256.map2]
  refine ⟨⟨?_, ?_, ?_, ?_⟩, ⟨?_, ?_, ?_, ?_⟩⟩ <;> exact BitVec.xor_comm _ _

/-! ### remainder: every pending count 0..31, all byte values -/

set_option maxRecDepth 100000 in
set_option maxHeartbeats 8000000 in
theorem remainder_refines_fn (n : Nat) (h : n < 32) (f : Fin 32 → BitVec 8) :
    r256ToV4 (remainder (List.ofFn f) n) = P.dataToLanes (P.remainder ((List.ofFn f).take n)) := by
  interval_cases n <;>
  simp [remainder, P.remainder, P.dataToLanes, r256ToV4, unorderedLoad3, zeros, List.ofFn_succ,
    List.replicate, List.set, List.getD, List.zipWith, loadu_si128, ofBytes16, le64, le32, maskload_epi32, maskLane,
    cmpgt_epi32, cmpgt32, set_epi32, broadcastd_epi32, castsi256_si128, castsi128_si256, inserti128_si256,
    insert_epi32, cvtsi64_si128, set1_epi32, lane32, mk32, mk, lo64, hi64] <;>
  bv_decide

theorem list_eq_ofFn (buf : List (BitVec 8)) (h : buf.length = 32) :
    buf = List.ofFn (fun i : Fin 32 => buf[i.val]'(by omega)) := by
  apply List.ext_getElem
  · simp [h]
  · intro i h1 h2; rw [List.getElem_ofFn]

theorem remainder_refines (buf : List (BitVec 8)) (n : Nat) (hb : buf.length = 32) (h : n < 32) :
    r256ToV4 (remainder buf n) = P.dataToLanes (P.remainder (buf.take n)) := by
  rw [list_eq_ofFn buf hb]
  exact remainder_refines_fn n h _

end Avx
end HH

namespace HH
namespace Avx
open X86

/-! ### length injection and rotation (variable per-lane shifts) -/

theorem size256_eq (n : Nat) :
    broadcastd_epi32 (cvtsi64_si128 (BitVec.ofNat 64 n)) =
      ⟨set1_epi32 (lane32 (cvtsi64_si128 (BitVec.ofNat 64 n)) 0), set1_epi32 (lane32 (cvtsi64_si128 (BitVec.ofNat 64 n)) 0)⟩ := rfl

theorem vsize_add (v : BitVec 128) (n : Nat) (h : n < 32) :
    add_epi64 v (set1_epi32 (lane32 (cvtsi64_si128 (BitVec.ofNat 64 n)) 0)) =
      mk (hi64 v + ((BitVec.ofNat 64 n <<< 32) + BitVec.ofNat 64 n)) (lo64 v + ((BitVec.ofNat 64 n <<< 32) + BitVec.ofNat 64 n)) := by
  apply ext128
  · simp only [lo64_add, lo64_mk]; congr 1
    interval_cases n <;> decide
  · simp only [hi64_add, hi64_mk]; congr 1
    interval_cases n <;> decide

set_option maxRecDepth 100000 in
theorem rotate_lanes (v : BitVec 128) (n : Nat) (h : n < 32) :
    or_si128 (sllv_epi32 v (set1_epi32 (lane32 (cvtsi64_si128 (BitVec.ofNat 64 n)) 0)))
             (srlv_epi32 v (sub_epi32 (set1_epi32 (lane32 (cvtsi32_si128 32) 0)) (set1_epi32 (lane32 (cvtsi64_si128 (BitVec.ofNat 64 n)) 0))))
      = mk (P.rot32Lane n (hi64 v)) (P.rot32Lane n (lo64 v)) := by
  unfold P.rot32Lane sllv_epi32 srlv_epi32 sllv32 srlv32 sub_epi32 set1_epi32 cvtsi64_si128 cvtsi32_si128 or_si128 lane32 mk32 mk lo64 hi64
  interval_cases n <;> simp <;> bv_decide

theorem updateRemainder_refines (x : State) (hb : x.buffer.buf.length = 32) (hi : x.buffer.idx < 32) :
    toPortable (updateRemainder x) =
      P.update (P.updateLanes (toPortable x.r) x.buffer.idx) (P.dataToLanes (P.remainder (x.buffer.buf.take x.buffer.idx))) := by
  simp only [updateRemainder, update_refines, remainder_refines _ _ hb hi, Pkt.len]
  congr 1
  simp only [toPortable, P.updateLanes, size256_eq, broadcastd_epi32, add256_epi64, sllv256_epi32, srlv256_epi32, sub256_epi32,
    or256, R256.map2, vsize_add _ _ hi, rotate_lanes _ _ hi, r256ToV4, lo64_mk, hi64_mk, V4.map]

/-! ### finalisation -/

theorem finalizeCommon_refines (n : Nat) (x : State) (hx : x.buffer.Inv) :
    toPortable (finalizeCommon n x) = P.finAbs n (toPortable x.r, x.buffer.asSlice) := by
  obtain ⟨hi, hb⟩ := hx
  have hl : (List.take x.buffer.idx x.buffer.buf).length = x.buffer.idx := by simp; omega
  simp only [finalizeCommon, rounds_refines, P.finAbs, Pkt.asSlice, hl, Pkt.isEmpty]
  by_cases h0 : x.buffer.idx = 0
  · simp [h0]
  · simp [h0, updateRemainder_refines x hb hi]

theorem modularReduction_refines (x init : R256) :
    r256ToV4 (modularReduction x init) =
      ⟨(P.moduleReduction (hi64 x.lo) (lo64 x.lo) (hi64 init.lo) (lo64 init.lo)).1,
       (P.moduleReduction (hi64 x.lo) (lo64 x.lo) (hi64 init.lo) (lo64 init.lo)).2,
       (P.moduleReduction (hi64 x.hi) (lo64 x.hi) (hi64 init.hi) (lo64 init.hi)).1,
       (P.moduleReduction (hi64 x.hi) (lo64 x.hi) (hi64 init.hi) (lo64 init.hi)).2⟩ := by
  unfold modularReduction P.moduleReduction andNot andnot256 xor256 add256_epi64 srli256_epi64 slli256_epi64 slli256_si256
    cmpeq256_epi64 unpacklo256_epi64 setzero256 R256.map2 R256.map r256ToV4
    srli_epi64 slli_epi64 slli_si128 add_epi64 xor_si128 andnot_si128 cmpeq_epi64 cmpeq64 unpacklo_epi64 mk lo64 hi64
  simp
  refine ⟨?_, ?_, ?_, ?_⟩ <;> bv_decide

theorem finalize64_refines (x : State) (hx : x.buffer.Inv) :
    finalize64 x = P.out64 (P.finAbs 4 (toPortable x.r, x.buffer.asSlice)) := by
  rw [← finalizeCommon_refines 4 x hx]
  simp only [finalize64, storel_epi64, castsi256_si128, add256_epi64, R256.map2, lo64_add, P.out64, toPortable, r256ToV4]
  ac_rfl

theorem finalize128_refines (x : State) (hx : x.buffer.Inv) :
    finalize128 x = P.out128 (P.finAbs 6 (toPortable x.r, x.buffer.asSlice)) := by
  rw [← finalizeCommon_refines 6 x hx]
  simp only [finalize128, storeu_si128, castsi256_si128, extracti128_si256, add256_epi64, R256.map2, lo64_add, hi64_add,
    P.out128, toPortable, r256ToV4, Prod.mk.injEq]
  constructor <;> simp <;> ac_rfl

theorem finalize256_refines (x : State) (hx : x.buffer.Inv) :
    finalize256 x = P.out256 (P.finAbs 10 (toPortable x.r, x.buffer.asSlice)) := by
  rw [← finalizeCommon_refines 10 x hx]
  have h := modularReduction_refines (add256_epi64 (finalizeCommon 10 x).v1 (finalizeCommon 10 x).mul1)
    (add256_epi64 (finalizeCommon 10 x).v0 (finalizeCommon 10 x).mul0)
  simp only [r256ToV4, V4.mk.injEq, add256_epi64, R256.map2, lo64_add, hi64_add] at h
  obtain ⟨h1, h2, h3, h4⟩ := h
  simp only [finalize256, storeu_si256, h1, h2, h3, h4, P.out256, toPortable, r256ToV4, add256_epi64, R256.map2, lo64_add, hi64_add]

/-! ### append on abstract states -/

/-- abstraction of an AVX hasher: portable-order lanes + pending bytes -/
def abs (x : State) : St × List (BitVec 8) := (toPortable x.r, x.buffer.asSlice)

theorem append_abs (x : State) (d : List (BitVec 8)) (hx : x.buffer.Inv) :
    abs (append x d) = AbsAppend P.updPacket (abs x) d ∧ (append x d).buffer.Inv := by
  have h := appendG_abs updPacket (x.r, x.buffer) d hx
  refine ⟨?_, h.2⟩
  have h1 := h.1
  simp only [absP] at h1
  simp only [abs, append, Pkt.asSlice]
  have hm := AbsAppend_map toPortable updPacket P.updPacket updPacket_refines (x.r, List.take x.buffer.idx x.buffer.buf) d
  rw [← hm, ← h1]

theorem new_abs (k : V4) : abs (new k) = (Spec.reset k, []) ∧ (new k).buffer.Inv := by
  refine ⟨?_, Pkt.default_inv⟩
  have := P.new_abs k
  simp only [absP] at this
  simp only [abs, new_refines, Pkt.asSlice]
  exact this

end Avx
end HH
