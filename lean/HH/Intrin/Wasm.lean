import HH.Basic
/-!
# HH.Intrin.Wasm — semantics of the `core::arch::wasm32` simd128 intrinsics used by `src/wasm.rs`

From the WebAssembly SIMD specification.  A `v128` is a `BitVec 128`; lane 0 is the least
significant.  Shift counts are taken modulo the lane width.  Validated on every run against
stdarch's definitions as interpreted by Miri (wasm32 + simd128).
-/
namespace HH
namespace Wasm

@[inline] def lane64 (r : BitVec 128) (i : Nat) : BitVec 64 := r.extractLsb' (64 * i) 64
@[inline] def lane32 (r : BitVec 128) (i : Nat) : BitVec 32 := r.extractLsb' (32 * i) 32
@[inline] def byteAt (r : BitVec 128) (i : Nat) : BitVec 8 := r.extractLsb' (8 * i) 8
/-- `u64x2(a0, a1)`: lane 0 = `a0` -/
@[inline] def u64x2 (a0 a1 : BitVec 64) : BitVec 128 := a1 ++ a0
/-- `u32x4(a0, a1, a2, a3)` / `i32x4(..)` -/
@[inline] def u32x4 (a0 a1 a2 a3 : BitVec 32) : BitVec 128 := a3 ++ a2 ++ a1 ++ a0
def u64x2_extract_lane (i : Nat) (r : BitVec 128) : BitVec 64 := lane64 r i
def u64x2_add (a b : BitVec 128) : BitVec 128 := u64x2 (lane64 a 0 + lane64 b 0) (lane64 a 1 + lane64 b 1)
def u64x2_sub (a b : BitVec 128) : BitVec 128 := u64x2 (lane64 a 0 - lane64 b 0) (lane64 a 1 - lane64 b 1)
def u64x2_mul (a b : BitVec 128) : BitVec 128 := u64x2 (lane64 a 0 * lane64 b 0) (lane64 a 1 * lane64 b 1)
def v128_and (a b : BitVec 128) : BitVec 128 := a &&& b
def v128_or (a b : BitVec 128) : BitVec 128 := a ||| b
def v128_xor (a b : BitVec 128) : BitVec 128 := a ^^^ b
/-- `v128_andnot(a, b) = a & !b` -/
def v128_andnot (a b : BitVec 128) : BitVec 128 := a &&& ~~~b
/-- `u64x2_shr(a, amt)`: count modulo 64 -/
def u64x2_shr (a : BitVec 128) (amt : Nat) : BitVec 128 := u64x2 (lane64 a 0 >>> (amt % 64)) (lane64 a 1 >>> (amt % 64))
def u64x2_shl (a : BitVec 128) (amt : Nat) : BitVec 128 := u64x2 (lane64 a 0 <<< (amt % 64)) (lane64 a 1 <<< (amt % 64))
/-- `u32x4_shr(a, amt)` / `u32x4_shl`: count modulo 32 -/
def u32x4_shr (a : BitVec 128) (amt : Nat) : BitVec 128 :=
  u32x4 (lane32 a 0 >>> (amt % 32)) (lane32 a 1 >>> (amt % 32)) (lane32 a 2 >>> (amt % 32)) (lane32 a 3 >>> (amt % 32))
def u32x4_shl (a : BitVec 128) (amt : Nat) : BitVec 128 :=
  u32x4 (lane32 a 0 <<< (amt % 32)) (lane32 a 1 <<< (amt % 32)) (lane32 a 2 <<< (amt % 32)) (lane32 a 3 <<< (amt % 32))
/-- `i32x4_replace_lane::<N>(v, x)` -/
def i32x4_replace_lane (n : Nat) (v : BitVec 128) (x : BitVec 32) : BitVec 128 :=
  u32x4 (if n = 0 then x else lane32 v 0) (if n = 1 then x else lane32 v 1)
        (if n = 2 then x else lane32 v 2) (if n = 3 then x else lane32 v 3)
/-- byte `i` of the 32-byte concatenation `a ++ b` used by the shuffles -/
def selByte (a b : BitVec 128) (i : Nat) : BitVec 8 := if i < 16 then byteAt a i else byteAt b (i - 16)
/-- `u8x16_shuffle::<I0, …, I15>(a, b)` -/
def u8x16_shuffle (idx : List Nat) (a b : BitVec 128) : BitVec 128 :=
  selByte a b (idx.getD 15 0) ++ selByte a b (idx.getD 14 0) ++ selByte a b (idx.getD 13 0) ++ selByte a b (idx.getD 12 0) ++
  selByte a b (idx.getD 11 0) ++ selByte a b (idx.getD 10 0) ++ selByte a b (idx.getD 9 0) ++ selByte a b (idx.getD 8 0) ++
  selByte a b (idx.getD 7 0) ++ selByte a b (idx.getD 6 0) ++ selByte a b (idx.getD 5 0) ++ selByte a b (idx.getD 4 0) ++
  selByte a b (idx.getD 3 0) ++ selByte a b (idx.getD 2 0) ++ selByte a b (idx.getD 1 0) ++ selByte a b (idx.getD 0 0)
/-- `u8x16_swizzle(a, s)` (`i8x16.swizzle`): lane `i` is `a[s[i]]` when `s[i] < 16`, else 0 (not used by the pinned
crate; modelled so that the conformance stream and rewrites that use it can be evaluated) -/
def u8x16_swizzle (a s : BitVec 128) : BitVec 128 :=
  let b (i : Nat) : BitVec 8 := let j := (byteAt s i).toNat; if j < 16 then byteAt a j else 0
  b 15 ++ b 14 ++ b 13 ++ b 12 ++ b 11 ++ b 10 ++ b 9 ++ b 8 ++ b 7 ++ b 6 ++ b 5 ++ b 4 ++ b 3 ++ b 2 ++ b 1 ++ b 0
def sel32 (a b : BitVec 128) (i : Nat) : BitVec 32 := if i < 4 then lane32 a i else lane32 b (i - 4)
/-- `u32x4_shuffle::<I0, I1, I2, I3>(a, b)` -/
def u32x4_shuffle (i0 i1 i2 i3 : Nat) (a b : BitVec 128) : BitVec 128 := u32x4 (sel32 a b i0) (sel32 a b i1) (sel32 a b i2) (sel32 a b i3)
def sel64 (a b : BitVec 128) (i : Nat) : BitVec 64 := if i < 2 then lane64 a i else lane64 b (i - 2)
/-- `u64x2_shuffle::<I0, I1>(a, b)` -/
def u64x2_shuffle (i0 i1 : Nat) (a b : BitVec 128) : BitVec 128 := u64x2 (sel64 a b i0) (sel64 a b i1)

end Wasm
end HH
