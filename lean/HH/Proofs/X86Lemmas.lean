import HH.Intrin.X86
import HH.Portable
import Mathlib.Tactic.IntervalCases
/-!
# Lane-level lemmas about the modelled x86 intrinsics (used by the SSE/AVX refinement proofs)

All proofs are bit-by-bit in the kernel (`ext` + `getElem` lemmas + `interval_cases`): no SAT solver,
no axioms beyond `propext`, `Classical.choice`, `Quot.sound`.
-/
namespace HH

/-- closed bit-vector identities (shuffles, extractions, shifts by literals): compare bit `i` of both sides
for each of the `w` positions -/
macro "bv_bits" : tactic => `(tactic| (
  ext i hi
  simp only [BitVec.getElem_append, BitVec.getElem_extractLsb', BitVec.getLsbD_extractLsb', BitVec.getElem_rotateLeft,
    BitVec.getElem_setWidth, BitVec.getLsbD_ushiftRight, BitVec.getLsbD_append, BitVec.getLsbD_rotateLeft, BitVec.getLsbD_setWidth,
    BitVec.getElem_or, BitVec.getElem_and, BitVec.getElem_xor, BitVec.getElem_ushiftRight, BitVec.getElem_shiftLeft,
    BitVec.getLsbD_or, BitVec.getLsbD_and, BitVec.getLsbD_xor, BitVec.getLsbD_shiftLeft, BitVec.getLsbD_ofNat,
    BitVec.getElem_not, BitVec.getLsbD_not, BitVec.getElem_zero, BitVec.getLsbD_zero]
  interval_cases i <;> simp [Nat.testBit, Nat.shiftRight_eq_div_pow]))

/-- like `bv_bits`, staying in `getLsbD` form (works through appends whose width indices were written as
sums): used for the lane-structure lemmas -/
macro "bv_lsb" : tactic => `(tactic| (
  apply BitVec.eq_of_getLsbD_eq
  intro i hi
  simp only [BitVec.getLsbD_extractLsb', BitVec.getLsbD_ushiftRight, BitVec.getLsbD_append, BitVec.getLsbD_rotateLeft, BitVec.getLsbD_setWidth,
    BitVec.getLsbD_or, BitVec.getLsbD_and, BitVec.getLsbD_xor, BitVec.getLsbD_shiftLeft, BitVec.getLsbD_ofNat,
    BitVec.getLsbD_not, BitVec.getLsbD_zero]
  interval_cases i <;> (simp [Nat.testBit, Nat.shiftRight_eq_div_pow] <;> try grind)))

namespace X86

@[simp] theorem lo64_mk (h l : BitVec 64) : lo64 (mk h l) = l := by
  unfold lo64 mk; exact BitVec.setWidth_append_eq_right
@[simp] theorem hi64_mk (h l : BitVec 64) : hi64 (mk h l) = h := by
  unfold hi64 mk
  ext i hi
  simp only [BitVec.getElem_setWidth, BitVec.getLsbD_ushiftRight, BitVec.getLsbD_append]
  have : ¬ (64 + i < 64) := by omega
  simp [this, BitVec.getLsbD_eq_getElem hi]
theorem mk_lo_hi (r : BitVec 128) : mk (hi64 r) (lo64 r) = r := by
  unfold lo64 hi64 mk
  ext i hi
  simp only [BitVec.getElem_append, BitVec.getElem_setWidth, BitVec.getLsbD_ushiftRight]
  by_cases h : i < 64
  · simp [h, BitVec.getLsbD_eq_getElem hi]
  · have : 64 + (i - 64) = i := by omega
    simp [h, this, BitVec.getLsbD_eq_getElem hi]
theorem ext128 (a b : BitVec 128) (h1 : lo64 a = lo64 b) (h2 : hi64 a = hi64 b) : a = b := by
  rw [← mk_lo_hi a, ← mk_lo_hi b, h1, h2]

@[simp] theorem lo64_xor (a b : BitVec 128) : lo64 (xor_si128 a b) = lo64 a ^^^ lo64 b := by
  unfold lo64 xor_si128; ext i hi; simp
@[simp] theorem hi64_xor (a b : BitVec 128) : hi64 (xor_si128 a b) = hi64 a ^^^ hi64 b := by
  unfold hi64 xor_si128; ext i hi; simp
@[simp] theorem lo64_or (a b : BitVec 128) : lo64 (or_si128 a b) = lo64 a ||| lo64 b := by
  unfold lo64 or_si128; ext i hi; simp
@[simp] theorem hi64_or (a b : BitVec 128) : hi64 (or_si128 a b) = hi64 a ||| hi64 b := by
  unfold hi64 or_si128; ext i hi; simp
@[simp] theorem lo64_add (a b : BitVec 128) : lo64 (add_epi64 a b) = lo64 a + lo64 b := by simp [add_epi64]
@[simp] theorem hi64_add (a b : BitVec 128) : hi64 (add_epi64 a b) = hi64 a + hi64 b := by simp [add_epi64]
@[simp] theorem lo64_set (e1 e0 : BitVec 64) : lo64 (set_epi64x e1 e0) = e0 := by simp [set_epi64x]
@[simp] theorem hi64_set (e1 e0 : BitVec 64) : hi64 (set_epi64x e1 e0) = e1 := by simp [set_epi64x]

/-- the low 32 bits of a lane, zero-extended = mask -/
theorem low32_eq_mask (a : BitVec 64) : (a.setWidth 32).setWidth 64 = a &&& 0xffffffff#64 := by bv_bits

set_option maxRecDepth 20000 in
/-- `rotate_by_32`: swap the 32-bit halves of each 64-bit lane -/
theorem shuffle_epi32_rot (v : BitVec 128) :
    shuffle_epi32 v 177 = mk ((hi64 v).rotateLeft 32) ((lo64 v).rotateLeft 32) := by
  unfold shuffle_epi32 lane32 mk32 mk lo64 hi64
  bv_bits

theorem rot32_low (b : BitVec 64) : (b.rotateLeft 32) &&& 0xffffffff#64 = b >>> 32 := by bv_bits
theorem shr32_low (b : BitVec 64) : (b >>> 32) &&& 0xffffffff#64 = b >>> 32 := by bv_bits

/-- `_mm_mul_epu32(a, rotate_by_32(b))` and `_mm_mul_epu32(a, b >> 32)` are both the portable
`(a & 0xffffffff) * (b >> 32)` on each 64-bit lane -/
theorem mul_epu32_rot (a b : BitVec 128) :
    mul_epu32 a (shuffle_epi32 b 177) = mk (P.mul32 (hi64 a) (hi64 b)) (P.mul32 (lo64 a) (lo64 b)) := by
  rw [shuffle_epi32_rot]
  simp only [mul_epu32, P.mul32, lo64_mk, hi64_mk, low32_eq_mask, rot32_low]

theorem mul_epu32_srli (a b : BitVec 128) :
    mul_epu32 a (srli_epi64 b 32) = mk (P.mul32 (hi64 a) (hi64 b)) (P.mul32 (lo64 a) (lo64 b)) := by
  have : srli_epi64 b 32 = mk (hi64 b >>> 32) (lo64 b >>> 32) := by simp [srli_epi64]
  rw [this]
  simp only [mul_epu32, P.mul32, lo64_mk, hi64_mk, low32_eq_mask, shr32_low]

set_option maxRecDepth 100000 in
set_option maxHeartbeats 2000000 in
/-- `pshufb` with the zipper-merge control = the portable mask-and-shift formulas -/
theorem zipper_shuffle (v : BitVec 128) :
    shuffle_epi8 v (set_epi64x 0x070806090D0A040B#64 0x000F010E05020C03#64)
      = mk (P.zipHi (hi64 v) (lo64 v)) (P.zipLo (hi64 v) (lo64 v)) := by
  simp only [shuffle_epi8, pshufbByte, byteAt, set_epi64x, mk, BitVec.reduceAppend, BitVec.reduceExtractLsb', BitVec.reduceGetLsb,
    BitVec.reduceToNat, Nat.reduceMod, Nat.reduceMul, Bool.false_eq_true, ↓reduceIte]
  unfold P.zipHi P.zipLo lo64 hi64
  bv_bits

/-! ### 32-bit lane structure -/

theorem lane32_0 (v : BitVec 128) : lane32 v 0 = (lo64 v).setWidth 32 := by unfold lane32 lo64; bv_lsb
theorem lane32_1 (v : BitVec 128) : lane32 v 1 = ((lo64 v) >>> 32).setWidth 32 := by unfold lane32 lo64; bv_lsb
theorem lane32_2 (v : BitVec 128) : lane32 v 2 = (hi64 v).setWidth 32 := by unfold lane32 hi64; bv_lsb
theorem lane32_3 (v : BitVec 128) : lane32 v 3 = ((hi64 v) >>> 32).setWidth 32 := by unfold lane32 hi64; bv_lsb

/-- two 32-bit halves as one 64-bit lane -/
def join32 (b a : BitVec 32) : BitVec 64 := a.setWidth 64 ||| (b.setWidth 64 <<< 32)

theorem lo64_mk32 (d c b a : BitVec 32) : lo64 (mk32 d c b a) = join32 b a := by unfold lo64 mk32 join32; bv_lsb
theorem hi64_mk32 (d c b a : BitVec 32) : hi64 (mk32 d c b a) = join32 d c := by unfold hi64 mk32 join32; bv_lsb
theorem mk32_eq_mk (d c b a : BitVec 32) : mk32 d c b a = mk (join32 d c) (join32 b a) := by
  apply ext128 <;> simp only [lo64_mk32, hi64_mk32, lo64_mk, hi64_mk]

set_option maxRecDepth 20000 in
theorem mk32_lanes (v : BitVec 128) : mk32 (lane32 v 3) (lane32 v 2) (lane32 v 1) (lane32 v 0) = v := by
  unfold mk32 lane32; bv_lsb

theorem or_mk32 (d c b a d' c' b' a' : BitVec 32) :
    or_si128 (mk32 d c b a) (mk32 d' c' b' a') = mk32 (d ||| d') (c ||| c') (b ||| b') (a ||| a') := by
  apply ext128 <;> simp only [lo64_or, hi64_or, lo64_mk32, hi64_mk32, join32] <;> bv_lsb

/-- rotate a 32-bit half left by `n` (0 < n < 32) -/
def rot32 (n : Nat) (l : BitVec 32) : BitVec 32 := (l <<< n) ||| (l >>> (32 - n))

theorem rot32Lane_join (n : Nat) (h0 : n ≠ 0) (h : n < 32) (x : BitVec 64) :
    P.rot32Lane n x = join32 (rot32 n ((x >>> 32).setWidth 32)) (rot32 n (x.setWidth 32)) := by
  have hcl : n % 32 = n := Nat.mod_eq_of_lt h
  have hcr : ((2 ^ 64 + 32 - n) % 2 ^ 64) % 32 = 32 - n := by omega
  simp only [P.rot32Lane, hcl, hcr, join32, rot32]

theorem rot32Lane_zero (x : BitVec 64) : P.rot32Lane 0 x = x := by
  unfold P.rot32Lane
  simp only [Nat.zero_mod, Nat.sub_zero, Nat.add_mod_left, Nat.reduceMod, BitVec.shiftLeft_zero, BitVec.ushiftRight_zero, BitVec.or_self]
  bv_lsb

/-! ### shifts, and-not, doubling -/

theorem lo64_srli (a : BitVec 128) (k : Nat) (h : ¬ k > 63) : lo64 (srli_epi64 a k) = lo64 a >>> k := by simp only [srli_epi64, h, ↓reduceIte, lo64_mk]
theorem hi64_srli (a : BitVec 128) (k : Nat) (h : ¬ k > 63) : hi64 (srli_epi64 a k) = hi64 a >>> k := by simp only [srli_epi64, h, ↓reduceIte, hi64_mk]
theorem lo64_slli8 (a : BitVec 128) : lo64 (slli_si128 a 8) = 0 := by
  have : ¬ (8 : Nat) > 15 := by decide
  simp only [slli_si128, this, ↓reduceIte, lo64]; bv_lsb
theorem hi64_slli8 (a : BitVec 128) : hi64 (slli_si128 a 8) = lo64 a := by
  have : ¬ (8 : Nat) > 15 := by decide
  simp only [slli_si128, this, ↓reduceIte, lo64, hi64]; bv_lsb
theorem lo64_andnot (a b : BitVec 128) : lo64 (andnot_si128 a b) = ~~~(lo64 a) &&& lo64 b := by
  unfold lo64 andnot_si128; bv_lsb
theorem hi64_andnot (a b : BitVec 128) : hi64 (andnot_si128 a b) = ~~~(hi64 a) &&& hi64 b := by
  unfold hi64 andnot_si128; bv_lsb
theorem add_self_shl (a : BitVec 64) : a + a = a <<< 1 := by
  apply BitVec.eq_of_toNat_eq
  simp only [BitVec.toNat_add, BitVec.toNat_shiftLeft, Nat.shiftLeft_eq]
  omega
theorem shl1_shl1 (a : BitVec 64) : (a <<< 1) <<< 1 = a <<< 2 := by bv_lsb
theorem signBit_lo : lo64 (insert_epi32 (0 : BitVec 128) 0x80000000#32 3) = 0 := by decide
theorem signBit_hi : hi64 (insert_epi32 (0 : BitVec 128) 0x80000000#32 3) = 0x8000000000000000#64 := by decide
/-- four rotated 32-bit lanes = the portable per-64-bit-lane rotation -/
theorem rot_mk32 (v : BitVec 128) (n : Nat) (h0 : n ≠ 0) (h : n < 32) :
    mk32 (rot32 n (lane32 v 3)) (rot32 n (lane32 v 2)) (rot32 n (lane32 v 1)) (rot32 n (lane32 v 0))
      = mk (P.rot32Lane n (hi64 v)) (P.rot32Lane n (lo64 v)) := by
  simp only [mk32_eq_mk, rot32Lane_join n h0 h, lane32_0, lane32_1, lane32_2, lane32_3]

theorem lane32_mk32 (d c b a : BitVec 32) :
    lane32 (mk32 d c b a) 0 = a ∧ lane32 (mk32 d c b a) 1 = b ∧ lane32 (mk32 d c b a) 2 = c ∧ lane32 (mk32 d c b a) 3 = d := by
  refine ⟨?_, ?_, ?_, ?_⟩ <;> (unfold lane32 mk32; bv_lsb)

theorem lo64_cmpeq_self (x : BitVec 128) : lo64 (cmpeq_epi64 x x) = 0xFFFFFFFFFFFFFFFF#64 := by simp [cmpeq_epi64, cmpeq64]
theorem hi64_cmpeq_self (x : BitVec 128) : hi64 (cmpeq_epi64 x x) = 0xFFFFFFFFFFFFFFFF#64 := by simp [cmpeq_epi64, cmpeq64]
theorem lo64_slli (a : BitVec 128) (k : Nat) (h : ¬ k > 63) : lo64 (slli_epi64 a k) = lo64 a <<< k := by simp only [slli_epi64, h, ↓reduceIte, lo64_mk]
theorem hi64_slli (a : BitVec 128) (k : Nat) (h : ¬ k > 63) : hi64 (slli_epi64 a k) = hi64 a <<< k := by simp only [slli_epi64, h, ↓reduceIte, hi64_mk]
theorem lo64_unpacklo (a b : BitVec 128) : lo64 (unpacklo_epi64 a b) = lo64 a := by simp only [unpacklo_epi64, lo64_mk]
theorem hi64_unpacklo (a b : BitVec 128) : hi64 (unpacklo_epi64 a b) = lo64 b := by simp only [unpacklo_epi64, hi64_mk]
theorem lo64_zero : lo64 (0 : BitVec 128) = 0 := by decide
theorem hi64_zero : hi64 (0 : BitVec 128) = 0 := by decide
theorem lane32_set1 (x : BitVec 32) (k : Nat) (hk : k < 4) : lane32 (set1_epi32 x) k = x := by
  have := mk32_lanes (set1_epi32 x)
  interval_cases k <;> (unfold set1_epi32 lane32 mk32; bv_lsb)

/-! ### byte lists ⇄ 32-bit lanes (for the remainder packing lemmas) -/

theorem le64_join (l : List (BitVec 8)) : le64 l = join32 (le32 (l.drop 4)) (le32 l) := by
  simp only [le64, le32, join32, List.getD_eq_getElem?_getD, List.getElem?_drop]
  bv_lsb

theorem and_mk32 (d c b a d' c' b' a' : BitVec 32) :
    and_si128 (mk32 d c b a) (mk32 d' c' b' a') = mk32 (d &&& d') (c &&& c') (b &&& b') (a &&& a') := by
  unfold and_si128 mk32; bv_lsb

theorem mk_as_mk32 (h l : BitVec 64) : mk h l = mk32 ((h >>> 32).setWidth 32) (h.setWidth 32) ((l >>> 32).setWidth 32) (l.setWidth 32) := by
  unfold mk mk32; bv_lsb

theorem join32_lo (b a : BitVec 32) : (join32 b a).setWidth 32 = a := by unfold join32; bv_lsb
theorem join32_hi (b a : BitVec 32) : ((join32 b a) >>> 32).setWidth 32 = b := by unfold join32; bv_lsb

theorem le32_cons4 (a b c d : BitVec 8) (r : List (BitVec 8)) : le32 (a :: b :: c :: d :: r) = le32 [a, b, c, d] := rfl
theorem le32_zero4 : le32 [0#8, 0#8, 0#8, 0#8] = 0#32 := by decide
theorem and_ones32 (x : BitVec 32) : x &&& 4294967295#32 = x := by bv_lsb
theorem join32_zero : join32 0#32 0#32 = 0#64 := by decide
/-- `unordered_load3` of 1, 2, 3 bytes (the additions are carry-free) as the 64-bit lane of the padded packet -/
theorem load3_3 (a b c : BitVec 8) :
    a.setWidth 64 + (b.setWidth 64 <<< 8) + (c.setWidth 64 <<< 16) = join32 0#32 (le32 [a, b, c, 0#8]) := by
  rw [BitVec.add_eq_or_of_and_eq_zero, BitVec.add_eq_or_of_and_eq_zero]
  · simp only [le32, join32, List.getD_cons_zero, List.getD_cons_succ]; bv_lsb
  · bv_lsb
  · rw [BitVec.add_eq_or_of_and_eq_zero]
    · bv_lsb
    · bv_lsb
theorem load3_1 (a : BitVec 8) :
    a.setWidth 64 + (a.setWidth 64 <<< 8) + (a.setWidth 64 <<< 16) = join32 0#32 (le32 [a, a, a, 0#8]) := load3_3 a a a
theorem load3_2 (a b : BitVec 8) :
    a.setWidth 64 + (b.setWidth 64 <<< 8) + (b.setWidth 64 <<< 16) = join32 0#32 (le32 [a, b, b, 0#8]) := load3_3 a b b
theorem insert3 (d c b a x : BitVec 32) : insert_epi32 (mk32 d c b a) x 3 = mk32 x c b a := by
  have h := lane32_mk32 d c b a
  simp only [insert_epi32, Nat.reduceMod, h.1, h.2.1, h.2.2.1, ↓reduceIte, OfNat.ofNat_ne_zero, OfNat.ofNat_ne_one, Nat.reduceEqDiff]
theorem set1_mk32 (x : BitVec 32) : set1_epi32 x = mk32 x x x x := rfl
theorem ofBytes16_mk32 (l : List (BitVec 8)) :
    ofBytes16 l = mk32 (le32 (l.drop 12)) (le32 (l.drop 8)) (le32 (l.drop 4)) (le32 l) := by
  simp only [ofBytes16, le64_join, mk32_eq_mk, List.drop_drop]
theorem zero_mk32 : set_epi64x 0#64 0#64 = mk32 0 0 0 0 := by decide
theorem mask_lo : cvtsi64_si128 4294967295#64 = mk32 0 0 0 0xFFFFFFFF#32 := by decide
theorem mask_hi : slli_si128 (mk32 0 0 0 0xFFFFFFFF#32) 8 = mk32 0 0xFFFFFFFF#32 0 0 := by decide
theorem loadl_mk32 (mem : List (BitVec 8)) (off : Nat) : loadl_epi64 mem off = mk32 0 0 (le32 ((mem.drop off).drop 4)) (le32 (mem.drop off)) := by
  simp only [loadl_epi64, le64_join, mk_as_mk32, join32_lo, join32_hi]
  congr 1
end X86
end HH
