import HH.Proofs.MachineLemmas
import HH.Props.C05
import HH.Props.C02
import HH.Props.C01
/-!
# C12 — std `Hasher` / `io::Write` / `BuildHasher` adapters are faithful

In the model the adapters are what `src/macros.rs` and `src/hash.rs` say they are: `write` is
`append`, `finish` is `finalize64` of a clone, `io::Write::write` is `append` returning the full
length, `flush` does nothing, `build_hasher` is `HighwayHasher::new(self.key)`.  The theorems are
therefore short corollaries of C05/C13; what makes them say something about the code is the
correspondence stream, which drives the real trait implementations.
-/
namespace HH.C12

/-- `Hasher::finish` after any sequence of writes is the 64-bit hash of exactly the bytes written so
far (for a hasher of any back end built from a key) -/
theorem finish_is_hash_of_written (b : Backend) (k : V4) (h : Hasher) (hh : Hasher.new b k = some h)
    (writes : List (List (BitVec 8))) :
    (writes.foldl Hasher.append h).finalize64 = P.hash64 k writes.flatten := by
  have hb := Hasher.new_abs b k h hh
  have hp := Hasher.new_abs .portable k (Hasher.portable (P.new k)) rfl
  have o := Hasher.obs_eq h _ hb.2 hp.2 (hb.1.trans hp.1.symm) writes
  rw [o.2.2]
  have s := C05.streaming (Hasher.portable (P.new k)) hp.2 writes .w64
  simp only [Hasher.finalize, Digest.d64.injEq] at s
  rw [s]; rfl

/-- … which is the HighwayHash specification's 64-bit digest of those bytes (composition with C01) -/
theorem finish_is_spec (b : Backend) (k : V4) (h : Hasher) (hh : Hasher.new b k = some h)
    (writes : List (List (BitVec 8))) :
    (writes.foldl Hasher.append h).finalize64 = Spec.hash64 k writes.flatten := by
  rw [finish_is_hash_of_written b k h hh writes]
  exact C01.hash64_eq_spec k writes.flatten

/-- `finish` does not change the hasher: it can be called repeatedly and between writes -/
theorem finish_pure (env : Env) (w : World) (h : Nat) : (step env w (.finish h)).1 = w :=
  observer_world env w (.finish h) rfl

/-- `io::Write::write` consumes the whole buffer, reports its full length, never fails -/
theorem write_consumes_all (env : Env) (w : World) (h : Nat) (d : List (BitVec 8)) (x : Handle)
    (hx : w.get h = some x) :
    (step env w (.ioWrite h d)).2 = .n d.length ∧
    (step env w (.ioWrite h d)).1.get h = some { x with h := x.h.append d } := by
  simp [step, hx, World.get_put]

/-- `flush` succeeds and does nothing -/
theorem flush_noop (env : Env) (w : World) (h : Nat) (x : Handle) (hx : w.get h = some x) :
    step env w (.flush h) = (w, .ok) := by
  simp [step, hx]

/-- `build_hasher` hands out hashers that depend on nothing but the builder's key (and the build
configuration): independent of the world, of the builder instance, of earlier hashers -/
theorem build_hasher_depends_on_key_only (env : Env) (w1 w2 : World) (h : Nat) (k : V4) :
    (step env w1 (.new h .auto false k)).1.get h = (step env w2 (.new h .auto false k)).1.get h ∧
    (step env w1 (.new h .auto false k)).2 = (step env w2 (.new h .auto false k)).2 := by
  have := step_local env w1 w2 (.new h .auto false k) rfl
  simp only [step]
  split <;> simp [World.get_put, World.get_del]

/-- hence equal values (equal byte streams fed by their `Hash` impl) hash equally across builder
instances: the result is the portable 64-bit hash of (key, bytes) -/
theorem hash_one_value (c : Cfg) (cpu : Cpu) (k : V4) (h : Hasher) (hh : Hasher.new (selectNew c cpu) k = some h)
    (stream : List (List (BitVec 8))) :
    (stream.foldl Hasher.append h).finalize64 = P.hash64 k stream.flatten :=
  finish_is_hash_of_written _ k h hh stream

/-- `BuildHasher::hash_one(value)` as a machine operation: in EVERY configuration (whatever back end
the ladder selects) and whatever else is alive, the output is the portable 64-bit hash of exactly the
bytes the value's `Hash` impl feeds through `Hasher::write` — however they are split into calls — and
the world is unchanged -/
theorem hash_one_op (env : Env) (w : World) (k : V4) (ws : List (List (BitVec 8))) :
    step env w (.hashOne k ws) = (w, .digest (.d64 (P.hash64 k ws.flatten))) := by
  obtain ⟨h, hh⟩ : ∃ h, Hasher.new (selectNew env.cfg env.cpu) k = some h := by
    cases selectNew env.cfg env.cpu <;> exact ⟨_, rfl⟩
  have hv := hash_one_value env.cfg env.cpu k h hh ws
  simp only [step, construct, resolve, Bool.false_eq_true, ↓reduceIte, hh, Option.map_some, mkHandle, hv]

/-- the provided methods (`write_u8 … write_usize`, `write_str`, `write_vectored` loops, `write_fmt`)
are sequences of `write` calls: their effect on any hasher (any back end, fresh or restored) is that of
ONE append of the concatenated bytes, and they always succeed -/
theorem provided_writes_op (env : Env) (w : World) (h : Nat) (x : Handle) (hx : w.get h = some x) (hi : x.h.Inv)
    (ws : List (List (BitVec 8))) :
    (step env w (.writes h ws)).2 = .ok ∧
    ∃ y, (step env w (.writes h ws)).1.get h = some y ∧ y.auto = x.auto ∧ y.h.Inv ∧
      y.h.abs = (x.h.append ws.flatten).abs := by
  have a := Hasher.foldl_append_abs ws x.h hi
  have b := Hasher.append_abs x.h ws.flatten hi
  simp only [step, hx, World.get_put, ↓reduceIte, true_and]
  exact ⟨_, rfl, rfl, a.2, by rw [a.1, b.1]⟩

/-- hashing a value of a modelled shape through `hash_one`: a function of (key, value, target
endianness / pointer width) only — never of the build configuration, CPU, or other hashers -/
theorem hash_one_of_value (env : Env) (w : World) (t : StdT.Target) (k : V4) (v : StdT.Val) :
    (step env w (.hashOne k (StdT.writes t v))).2 = .digest (.d64 (P.hash64 k (StdT.stream t v))) := by
  rw [hash_one_op]; rfl

/-- non-vacuity: a `u32` and a `&str` on a little-endian 64-bit target feed the bytes std documents -/
example : StdT.stream ⟨false, 8⟩ (.pair (.int .w32 0xdeadbeef) (.str [0x68, 0x69])) = [0xef, 0xbe, 0xad, 0xde, 0x68, 0x69, 0xff] := by
  decide
example : StdT.stream ⟨true, 4⟩ (.bytes [1, 2]) = [0, 0, 0, 2, 1, 2] := by decide

end HH.C12
