import HH.Portable
import HH.Proofs.Buffer
import Mathlib.Tactic.IntervalCases
/-!
# The 164-byte checkpoint codec on abstract states (helper lemmas for C06, C11, C14)
-/
namespace HH
namespace P

/-- `checkpoint` as a function of the abstract state (lanes, pending bytes) -/
def encodeAbs (a : St × List (BitVec 8)) : List (BitVec 8) :=
  (lanes16 a.1).flatMap toLE64 ++ (a.2 ++ zeros (32 - a.2.length)) ++ toLE32 (BitVec.ofNat 32 a.2.length)

/-- `from_checkpoint` as a function into abstract states -/
def decodeAbs (c : List (BitVec 8)) : St × List (BitVec 8) :=
  (⟨v4OfBytes c, v4OfBytes (c.drop 32), v4OfBytes (c.drop 64), v4OfBytes (c.drop 96)⟩,
   ((c.drop 128).take 32).take (min (le32 (c.drop 160)).toNat 31))

theorem checkpoint_abs (x : State) (h : x.buffer.idx ≤ x.buffer.buf.length) :
    checkpoint x = encodeAbs (absP (x.st, x.buffer)) := by
  have hl : (List.take x.buffer.idx x.buffer.buf).length = x.buffer.idx := by simp; omega
  simp only [checkpoint, encodeAbs, absP, Pkt.asSlice, Pkt.len, hl]

theorem fill_default (D : List (BitVec 8)) (h : D.length < 32) :
    Pkt.default.fill D = (⟨D ++ zeros (32 - D.length), D.length⟩, none) := by
  have hgt : 32 - 0 > D.length := by omega
  simp only [Pkt.fill, Pkt.default, zeros, List.length_replicate, hgt, ↓reduceIte, List.take_zero, List.nil_append,
    Nat.zero_add, List.drop_replicate]

theorem fromCheckpoint_abs (c : List (BitVec 8)) (hc : c.length = 164) :
    absP ((fromCheckpoint c).st, (fromCheckpoint c).buffer) = decodeAbs c ∧ (fromCheckpoint c).buffer.Inv := by
  have hlen : (List.take (min (le32 (List.drop 160 c)).toNat 31) (List.take 32 (List.drop 128 c))).length
      = min (le32 (List.drop 160 c)).toNat 31 := by
    simp only [List.length_take, List.length_drop, hc]; omega
  have hlt : (List.take (min (le32 (List.drop 160 c)).toNat 31) (List.take 32 (List.drop 128 c))).length < 32 := by
    rw [hlen]; omega
  constructor
  · simp only [fromCheckpoint, decodeAbs, absP, fill_default _ hlt, Prod.mk.injEq, true_and]
    exact List.take_left' rfl
  · simp only [fromCheckpoint, fill_default _ hlt, Pkt.Inv]
    refine ⟨hlt, ?_⟩
    simp only [List.length_append, zeros, List.length_replicate]
    omega

set_option maxRecDepth 8000 in
theorem le64_toLE64 (x : BitVec 64) (rest : List (BitVec 8)) : le64 (toLE64 x ++ rest) = x := by
  simp only [le64, toLE64, List.cons_append, List.getD_cons_zero, List.getD_cons_succ]
  ext i hi
  simp only [BitVec.getElem_append, BitVec.getElem_extractLsb', BitVec.getLsbD_extractLsb', BitVec.getLsbD_append]
  interval_cases i <;> simp

theorem le32_toLE32 (x : BitVec 32) (rest : List (BitVec 8)) : le32 (toLE32 x ++ rest) = x := by
  simp only [le32, toLE32, List.cons_append, List.getD_cons_zero, List.getD_cons_succ]
  ext i hi
  simp only [BitVec.getElem_append, BitVec.getElem_extractLsb', BitVec.getLsbD_extractLsb', BitVec.getLsbD_append]
  interval_cases i <;> simp

theorem toLE64_length (x : BitVec 64) : (toLE64 x).length = 8 := rfl

theorem v4_roundtrip (v : V4) (rest : List (BitVec 8)) :
    v4OfBytes (v.toList.flatMap toLE64 ++ rest) = v := by
  simp only [v4OfBytes, dataToLanes, V4.toList, List.flatMap_cons, List.flatMap_nil, List.append_nil, List.append_assoc]
  have d8 : ∀ (x : BitVec 64) (r : List (BitVec 8)), List.drop 8 (toLE64 x ++ r) = r := by
    intro x r; simp [toLE64]
  have d16 : ∀ (x y : BitVec 64) (r : List (BitVec 8)), List.drop 16 (toLE64 x ++ (toLE64 y ++ r)) = r := by
    intro x y r; simp [toLE64]
  have d24 : ∀ (x y z : BitVec 64) (r : List (BitVec 8)), List.drop 24 (toLE64 x ++ (toLE64 y ++ (toLE64 z ++ r))) = r := by
    intro x y z r; simp [toLE64]
  rw [d8, d16, d24]
  simp only [le64_toLE64]

theorem v4_bytes_length (v : V4) : (v.toList.flatMap toLE64).length = 32 := by
  simp [V4.toList, toLE64]

theorem drop_v4 (v : V4) (rest : List (BitVec 8)) : List.drop 32 (v.toList.flatMap toLE64 ++ rest) = rest := by
  rw [List.drop_append_of_le_length (Nat.le_of_eq (by rw [v4_bytes_length]))]
  rw [List.drop_of_length_le (Nat.le_of_eq (by rw [v4_bytes_length]))]
  rfl

theorem drop_v4_add (v : V4) (rest : List (BitVec 8)) (n : Nat) :
    List.drop (32 + n) (v.toList.flatMap toLE64 ++ rest) = List.drop n rest := by
  rw [List.drop_append, v4_bytes_length, List.drop_of_length_le (by rw [v4_bytes_length]; omega)]
  simp

theorem drop64_v4 (a b : V4) (r : List (BitVec 8)) :
    List.drop 64 (a.toList.flatMap toLE64 ++ (b.toList.flatMap toLE64 ++ r)) = r := by
  show List.drop (32 + 32) _ = _
  rw [drop_v4_add, drop_v4]

theorem drop96_v4 (a b c : V4) (r : List (BitVec 8)) :
    List.drop 96 (a.toList.flatMap toLE64 ++ (b.toList.flatMap toLE64 ++ (c.toList.flatMap toLE64 ++ r))) = r := by
  show List.drop (32 + 64) _ = _
  rw [drop_v4_add, drop64_v4]

theorem drop128_v4 (a b c d : V4) (r : List (BitVec 8)) :
    List.drop 128 (a.toList.flatMap toLE64 ++ (b.toList.flatMap toLE64 ++ (c.toList.flatMap toLE64 ++
      (d.toList.flatMap toLE64 ++ r)))) = r := by
  show List.drop (32 + 96) _ = _
  rw [drop_v4_add, drop96_v4]

/-- decode ∘ encode = id on abstract states with fewer than 32 pending bytes -/
theorem decode_encode (a : St × List (BitVec 8)) (h : a.2.length < 32) : decodeAbs (encodeAbs a) = a := by
  obtain ⟨s, pend⟩ := a
  simp only at h
  have e : encodeAbs (s, pend) =
      s.v0.toList.flatMap toLE64 ++ (s.v1.toList.flatMap toLE64 ++ (s.mul0.toList.flatMap toLE64 ++
        (s.mul1.toList.flatMap toLE64 ++ ((pend ++ zeros (32 - pend.length)) ++ toLE32 (BitVec.ofNat 32 pend.length))))) := by
    simp only [encodeAbs, lanes16, List.flatMap_append, List.append_assoc]
  have d160 : List.drop 160 (encodeAbs (s, pend)) = toLE32 (BitVec.ofNat 32 pend.length) := by
    rw [e]
    show List.drop (128 + 32) _ = _
    rw [← List.drop_drop, drop128_v4]
    have hl : (pend ++ zeros (32 - pend.length)).length = 32 := by simp [zeros]; omega
    rw [List.drop_append, List.drop_of_length_le (by omega), hl]
    simp
  simp only [decodeAbs, d160]
  rw [e, v4_roundtrip, drop_v4, v4_roundtrip, drop64_v4, v4_roundtrip, drop96_v4, v4_roundtrip, drop128_v4]
  have hn : (le32 (toLE32 (BitVec.ofNat 32 pend.length))).toNat = pend.length := by
    have := le32_toLE32 (BitVec.ofNat 32 pend.length) []
    rw [List.append_nil] at this
    rw [this]
    simp; omega
  rw [hn]
  have hm : min pend.length 31 = pend.length := by omega
  rw [hm]
  congr 1
  rw [List.take_append_of_le_length (by simp [zeros]; omega)]
  rw [List.take_take]
  have : min pend.length 32 = pend.length := by omega
  rw [this, List.take_append_of_le_length (Nat.le_refl _), List.take_length]

/-- every decoded state has fewer than 32 pending bytes — for ALL 164-byte arrays -/
theorem decode_pending_lt (c : List (BitVec 8)) : (decodeAbs c).2.length < 32 := by
  simp only [decodeAbs, List.length_take]; omega

theorem encode_length (a : St × List (BitVec 8)) (h : a.2.length ≤ 32) : (encodeAbs a).length = 164 := by
  simp [encodeAbs, lanes16, V4.toList, toLE64, toLE32, zeros]; omega

end P
end HH
