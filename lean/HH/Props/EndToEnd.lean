import HH.Props.C01
import HH.Props.C05
import HH.Props.Irrelevance
/-!
# End to end: the machine computes the HighwayHash specification

For every environment (target class, std, compile-time and detected features), every key, every
sequence of chunks fed through `append` to a `HighwayHasher` or `PortableHash` obtained from `new`,
the final `finalizeN` output of the machine is the specification's digest of the concatenation.
This single statement composes C01 (portable = spec), C02/C10 (whatever back end is selected),
C05 (chunking) on the interpreter of API histories that the correspondence check runs against the
real crate.
-/
namespace HH.EndToEnd

def specDigest (w : Width) (k : V4) (d : List (BitVec 8)) : Digest :=
  match w with
  | .w64 => .d64 (Spec.hash64 k d)
  | .w128 => .d128 (Spec.hash128 k d)
  | .w256 => .d256 (Spec.hash256 k d)

theorem digestAbs_spec (w : Width) (k : V4) (d : List (BitVec 8)) :
    digestAbs w (absAppend (Spec.reset k, []) d) = specDigest w k d := by
  -- through the portable hasher
  have hp := Hasher.new_abs .portable k (Hasher.portable (P.new k)) rfl
  have ha := Hasher.append_abs (Hasher.portable (P.new k)) d hp.2
  have hf := Hasher.finalize_abs ((Hasher.portable (P.new k)).append d) w ha.2
  rw [ha.1, hp.1] at hf
  rw [← hf]
  cases w
  · simp only [Hasher.finalize, Hasher.finalize64, Hasher.append, specDigest, Digest.d64.injEq]
    exact C01.hash64_eq_spec k d
  · simp only [Hasher.finalize, Hasher.finalize128, Hasher.append, specDigest, Digest.d128.injEq]
    exact C01.hash128_eq_spec k d
  · simp only [Hasher.finalize, Hasher.finalize256, Hasher.append, specDigest, Digest.d256.injEq]
    exact C01.hash256_eq_spec k d

/-- running a list of appends on handle `h` -/
theorem run_appends (env : Env) (h : Nat) (chunks : List (List (BitVec 8))) :
    ∀ (w : World) (x : Handle), w.get h = some x → x.h.Inv →
      ∃ y, (run env w (chunks.map (Op.append h))).1.get h = some y ∧ y.h.Inv ∧ y.h.abs = absAppend x.h.abs chunks.flatten := by
  induction chunks with
  | nil =>
    intro w x hx hi
    refine ⟨x, hx, hi, ?_⟩
    simp only [List.flatten_nil, absAppend]
    rw [AbsAppend_nil _ _ (Hasher.abs_pending_lt x.h hi)]
  | cons c cs ih =>
    intro w x hx hi
    have a := Hasher.append_abs x.h c hi
    have hstep : (step env w (.append h c)).1.get h = some { x with h := x.h.append c } := by
      simp [step, hx, World.get_put]
    obtain ⟨y, hy, hyi, hya⟩ := ih (step env w (.append h c)).1 { x with h := x.h.append c } hstep a.2
    refine ⟨y, ?_, hyi, ?_⟩
    · simpa [run] using hy
    · rw [hya]
      simp only [List.flatten_cons, absAppend] at *
      rw [a.1]; exact AbsAppend_assoc _ _ _ _

theorem run_append_outputs (env : Env) (w : World) (ops1 ops2 : List Op) :
    (run env w (ops1 ++ ops2)).2 = (run env w ops1).2 ++ (run env (run env w ops1).1 ops2).2 ∧
    (run env w (ops1 ++ ops2)).1 = (run env (run env w ops1).1 ops2).1 := by
  induction ops1 generalizing w with
  | nil => simp [run]
  | cons o os ih =>
    have := ih (step env w o).1
    simp only [List.cons_append, run]
    exact ⟨by rw [this.1], this.2⟩

/-- headline -/
theorem machine_computes_spec (env : Env) (sel : Sel) (hs : Irrelevance.selOk sel) (k : V4)
    (chunks : List (List (BitVec 8))) (w : Width) :
    (run env [] ([Op.new 0 sel false k] ++ chunks.map (Op.append 0) ++ [Op.fin 0 w])).2.getLast?
      = some (Out.digest (specDigest w k chunks.flatten)) := by
  obtain ⟨x, hx, _, b, hb⟩ := Irrelevance.construct_ok env sel hs false false (Hasher.new · k) (Irrelevance.new_total k)
  have hn := Hasher.new_abs b k x.h hb
  have hw1 : (run env [] [Op.new 0 sel false k]).1.get 0 = some x := by
    simp [run, step, hx, World.get_put]
  obtain ⟨y, hy, hyi, hya⟩ := run_appends env 0 chunks _ x hw1 hn.2
  have e1 := run_append_outputs env [] ([Op.new 0 sel false k] ++ chunks.map (Op.append 0)) [Op.fin 0 w]
  have e2 := run_append_outputs env [] [Op.new 0 sel false k] (chunks.map (Op.append 0))
  rw [e1.1]
  have hworld : (run env [] ([Op.new 0 sel false k] ++ chunks.map (Op.append 0))).1.get 0 = some y := by
    rw [e2.2]; exact hy
  simp only [run, step, hworld, List.getLast?_append, List.getLast?_singleton, Option.some_or]
  rw [Hasher.finalize_abs _ w hyi, hya, hn.1, digestAbs_spec]

/-- non-vacuity -/
example : Irrelevance.selOk .auto := trivial

end HH.EndToEnd
