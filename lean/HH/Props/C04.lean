import HH.Proofs.Obs
import HH.Props.C02
import HH.Props.C06
import HH.Props.C14
/-!
# C04 — the Wasm SIMD back end equals portable for every key, input and width, and its checkpoints
are interchangeable with every other back end's

`WasmB.*` is the model of `src/wasm.rs`, tied to the working-tree source by running that source
under Miri's wasm32 (+simd128) interpreter on every check.
-/
namespace HH.C04

theorem wasm_hash64 (k : V4) (d : List (BitVec 8)) : WasmB.finalize64 (WasmB.append (WasmB.new k) d) = P.hash64 k d := by
  have := C02.backend_eq_portable .wasm k (Hasher.wasm (WasmB.new k)) rfl [d] .w64
  simpa [Hasher.finalize, Hasher.append, Hasher.finalize64, P.hash64] using this
theorem wasm_hash128 (k : V4) (d : List (BitVec 8)) : WasmB.finalize128 (WasmB.append (WasmB.new k) d) = P.hash128 k d := by
  have := C02.backend_eq_portable .wasm k (Hasher.wasm (WasmB.new k)) rfl [d] .w128
  simpa [Hasher.finalize, Hasher.append, Hasher.finalize128, P.hash128] using this
theorem wasm_hash256 (k : V4) (d : List (BitVec 8)) : WasmB.finalize256 (WasmB.append (WasmB.new k) d) = P.hash256 k d := by
  have := C02.backend_eq_portable .wasm k (Hasher.wasm (WasmB.new k)) rfl [d] .w256
  simpa [Hasher.finalize, Hasher.append, Hasher.finalize256, P.hash256] using this

/-- any chunking -/
theorem wasm_streamed (k : V4) (chunks : List (List (BitVec 8))) (w : Width) :
    (chunks.foldl Hasher.append (Hasher.wasm (WasmB.new k))).finalize w
      = (chunks.foldl Hasher.append (Hasher.portable (P.new k))).finalize w :=
  C02.backend_eq_portable .wasm k _ rfl chunks w

/-- checkpoints are interchangeable at every cut position: Wasm bytes equal the bytes any other
back end produces for the same stream, Wasm restores any back end's checkpoint (and vice versa)
into the same abstract state -/
theorem wasm_checkpoint_bytes (b : Backend) (k : V4) (h : Hasher) (hh : Hasher.new b k = some h)
    (c1 c2 : List (List (BitVec 8))) (e : c1.flatten = c2.flatten) :
    (c1.foldl Hasher.append (Hasher.wasm (WasmB.new k))).checkpoint = (c2.foldl Hasher.append h).checkpoint :=
  (C14.canonical .wasm b k _ h rfl hh c1 c2 e).1

theorem wasm_restores_any (h : Hasher) (hi : h.Inv) (suffix : List (List (BitVec 8))) (w : Width) :
    (suffix.foldl Hasher.append (Hasher.wasm (WasmB.fromCheckpoint h.checkpoint))).finalize w
      = (suffix.foldl Hasher.append h).finalize w :=
  (C06.hop_transparent h hi .wasm _ rfl suffix).1 w

theorem any_restores_wasm (x : WasmB.State) (hi : x.buffer.Inv) (b : Backend) (h' : Hasher)
    (hr : Hasher.fromCheckpoint b (WasmB.checkpoint x) = some h') (suffix : List (List (BitVec 8))) (w : Width) :
    (suffix.foldl Hasher.append h').finalize w = (suffix.foldl Hasher.append (Hasher.wasm x)).finalize w :=
  (C06.hop_transparent (Hasher.wasm x) hi b h' hr suffix).1 w

theorem wasm_eq_spec64 (k : V4) (d : List (BitVec 8)) : WasmB.finalize64 (WasmB.append (WasmB.new k) d) = Spec.hash64 k d := by
  rw [wasm_hash64, C01.hash64_eq_spec]

end HH.C04
