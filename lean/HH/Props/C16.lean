import HH.Generated.SourceFacts
/-!
# C16 — the portable path contains no unsafe code in any configuration

The property quantifies over program text and cfg combinations, so the object of the theorems is
`HH.Facts.facts`, regenerated from `/repo/src` by the `syn` translator on every run (all cfg
branches, macro bodies as token trees).  The theorems are decided by the kernel on the *current*
fact table; they are cfg-independent because the translator does not evaluate cfg.
-/
namespace HH.C16
open HH.Facts

/-- the files of the portable path: the portable hasher, buffering, key, traits, the std adapter
macros, the collection builder type, the crate root -/
def portableFiles : List String := ["lib.rs", "portable.rs", "internal.rs", "key.rs", "traits.rs", "macros.rs", "hash.rs"]

/-- files whose code `PortableHash` executes -/
def coreFiles : List String := ["portable.rs", "internal.rs", "key.rs", "traits.rs", "macros.rs"]

def inP (f : Fact) : Bool := portableFiles.contains f.file

/-- no `unsafe` token (block, fn, impl, trait, extern, inside macro bodies) in any portable file -/
theorem no_unsafe : (facts.all fun f => !(inP f && f.kind == "unsafe")) = true := by decide +kernel

theorem no_unsafe' (f : Fact) (hf : f ∈ facts) (hp : inP f = true) : f.kind ≠ "unsafe" := by
  have := List.all_eq_true.mp no_unsafe f hf
  intro hk; simp [hp, hk] at this

/-- the only lint attributes in portable files are these three; in particular nothing re-allows
`unsafe_code` (a new lint attribute must be judged: the check then inspects it) -/
def allowedLints : List String := ["inner allow(non_snake_case)", "inner warn(missing_docs)", "inner deny(unsafe_code)"]
theorem no_lint_override :
    (facts.all fun f => !(inP f && f.kind == "lint") || allowedLints.contains f.detail) = true := by decide +kernel

/-- the crate root denies `unsafe_code` for every module that does not opt out -/
theorem lib_denies_unsafe :
    (facts.any fun f => f.file == "lib.rs" && f.kind == "lint" && f.detail == "inner deny(unsafe_code)" && f.cfg == "") = true := by
  decide +kernel

/-- no attribute that needs `unsafe` semantics and no foreign block in portable files -/
theorem no_unsafe_attr_or_extern :
    (facts.all fun f => !(inP f && (f.kind == "unsafe_attr" || f.kind == "extern_block" || f.kind == "ptr"))) = true := by
  decide +kernel

/-- module closure: what the portable hasher's files import stays inside the portable path -/
def allowedUses : List String :=
  ["crate::internal::HashPacket", "crate::internal::PACKET_SIZE", "crate::key::Key", "crate::traits::HighwayHash",
   "core::ops::Index", "super::*"]
theorem module_closure :
    (facts.all fun f => !(coreFiles.contains f.file && f.kind == "use") || allowedUses.contains f.detail) = true := by
  decide +kernel

/-- macros invoked by the portable hasher's files: the crate's own two (defined in macros.rs, which
contains no unsafe token by `no_unsafe`) and core assertion/formatting macros -/
def allowedMacros : List String := ["impl_write", "impl_hasher", "debug_assert", "assert_eq", "assert", "vec"]
theorem macro_closure :
    (facts.all fun f => !(coreFiles.contains f.file && f.kind == "macro") || allowedMacros.contains f.detail) = true := by
  decide +kernel

/-- no `#[path]` redirection: the modules of the crate root are the files they name -/
def allowedMods : List String := ["macros", "builder", "hash", "internal", "key", "portable", "traits", "aarch64", "wasm", "x86"]
theorem no_path_redirect :
    (facts.all fun f => !(f.file == "lib.rs" && f.kind == "mod") || allowedMods.contains f.detail) = true := by
  decide +kernel

/-- non-vacuity: the table is not empty and does contain unsafe facts elsewhere -/
theorem table_nontrivial : (facts.any fun f => f.kind == "unsafe" && f.file == "builder.rs") = true ∧ facts.length > 500 := by
  decide +kernel

end HH.C16
