import HH.Props.C17Facts
import HH.Props.C08
/-!
# C17 — portable results and checkpoints are byte-order and word-size neutral

Source half: `HH/Props/C17Facts.lean` (only explicitly little-endian conversions, no
target-sensitive construct, in the regenerated fact table).  Model half (this file): the portable
model has no notion of endianness at all — bytes enter and leave only through `le64`/`le32`/
`toLE64`/`toLE32` — and the panicking model, whose `usize` arithmetic is parameterised by the pointer
width, returns the same width-free values for EVERY width ≥ 16 bits, with or without overflow checks.
The tie for the "no endianness in the model" claim is the execution of the real code on big-endian
and 32-bit targets under Miri against this one model.
-/
namespace HH.C17
open PP C08

/-- results do not depend on the pointer width or on the presence of overflow checks -/
theorem width_independent (p q : Profile) (hp : WideEnough p) (hq : WideEnough q) (chunks : List (List (BitVec 8)))
    (x : P.State) (hx : x.buffer.Inv) :
    appendAll p x chunks = appendAll q x chunks ∧
    PP.finalize64 p (chunks.foldl P.append x) = PP.finalize64 q (chunks.foldl P.append x) ∧
    PP.finalize128 p (chunks.foldl P.append x) = PP.finalize128 q (chunks.foldl P.append x) ∧
    PP.finalize256 p (chunks.foldl P.append x) = PP.finalize256 q (chunks.foldl P.append x) ∧
    PP.checkpoint p (chunks.foldl P.append x) = PP.checkpoint q (chunks.foldl P.append x) := by
  have a := history_ok p hp chunks x hx
  have b := history_ok q hq chunks x hx
  exact ⟨a.1.trans b.1.symm, a.2.1.trans b.2.1.symm, a.2.2.1.trans b.2.2.1.symm, a.2.2.2.1.trans b.2.2.2.1.symm,
    a.2.2.2.2.trans b.2.2.2.2.symm⟩

/-- restore from arbitrary bytes likewise -/
theorem restore_width_independent (p q : Profile) (hp : WideEnough p) (hq : WideEnough q) (c : List (BitVec 8))
    (hc : c.length = 164) : PP.fromCheckpoint p c = PP.fromCheckpoint q c := by
  rw [fromCheckpoint_ok p hp c hc, fromCheckpoint_ok q hq c hc]

/-- the 32-bit and 64-bit targets are instances -/
example : WideEnough ⟨true, 32⟩ ∧ WideEnough ⟨false, 64⟩ := by unfold WideEnough; decide

end HH.C17
