//! ladgen: translate the back-end selection of `src/builder.rs` into Lean.
//!   * the ladders of `HighwayHasher::new` / `HighwayHasher::from_checkpoint`: `#[cfg(..)]` blocks and statements,
//!     `cfg!(target_feature = ..)`, `is_x86_feature_detected!(..)`, early `return`s and tail expressions become a
//!     decision function `Cfg → Cpu → Option Backend` (`none` = control falls off the end);
//!   * the union `HighwayChoices` (member, cfg, element type), the struct literals the ladders build (tag, member,
//!     constructed hasher type) and the arms of every `match self.tag` dispatch (cfg, tag, member) become tables.
//! Output: HH/Generated/Ladder.lean with theorems: the translated ladders equal the model's `selectNew` /
//! `selectRestore` for every configuration and CPU; every ladder arm builds the member's own type under the model's
//! tag; every dispatch arm reads the member the model's tag names; every dispatch site has an enabled arm for the tag
//! the ladder selects, and that arm's member exists in that configuration.
//! A construct outside the patterns makes the item "skipped" (status JSON): advisory, never an alarm.
//!
//! usage: ladgen <repo>/src/builder.rs <out.lean> <status.json>
use proc_macro2::{TokenStream, TokenTree};
use std::fmt::Write as _;
use syn::{Attribute, Expr, ImplItem, Item, Meta, Stmt};

type R<T> = Result<T, String>;

fn backend_of(name: &str) -> R<&'static str> {
    Ok(match name {
        "portable" | "PortableHash" => "Backend.portable",
        "avx" | "AvxHash" => "Backend.avx",
        "sse" | "SseHash" => "Backend.sse",
        "neon" | "NeonHash" => "Backend.neon",
        "wasm" | "WasmHash" => "Backend.wasm",
        o => return Err(format!("unknown back end name {o}")),
    })
}

fn str_lit(e: &Expr) -> Option<String> {
    if let Expr::Lit(l) = e {
        if let syn::Lit::Str(s) = &l.lit {
            return Some(s.value());
        }
    }
    None
}

/// a cfg predicate as a Lean Bool term over `c : Cfg`
fn cfg_pred(m: &Meta) -> R<String> {
    match m {
        Meta::NameValue(nv) => {
            let k = nv.path.get_ident().map(|i| i.to_string()).unwrap_or_default();
            let v = str_lit(&nv.value).ok_or("cfg value")?;
            match (k.as_str(), v.as_str()) {
                ("target_arch", "x86_64") => Ok("(c.arch == Arch.x86_64)".into()),
                ("target_arch", "aarch64") => Ok("(c.arch == Arch.aarch64)".into()),
                ("feature", "std") => Ok("c.std".into()),
                ("target_feature", "avx2") => Ok("c.tfAvx2".into()),
                ("target_feature", "sse4.1") => Ok("c.tfSse41".into()),
                _ => Err(format!("cfg key {k} = {v:?} is outside the modelled configuration space")),
            }
        }
        Meta::List(l) => {
            let op = l.path.get_ident().map(|i| i.to_string()).unwrap_or_default();
            let inner: Vec<Meta> = l.parse_args_with(syn::punctuated::Punctuated::<Meta, syn::Token![,]>::parse_terminated).map_err(|e| format!("cfg list: {e}"))?.into_iter().collect();
            // the model's target class `wasmSimd` is exactly all(target_family = "wasm", target_feature = "simd128")
            if op == "all" && inner.len() == 2 {
                let kv = |m: &Meta| -> Option<(String, String)> {
                    if let Meta::NameValue(nv) = m {
                        Some((nv.path.get_ident()?.to_string(), str_lit(&nv.value)?))
                    } else {
                        None
                    }
                };
                let a: Vec<_> = inner.iter().filter_map(kv).collect();
                if a.len() == 2 && a.contains(&("target_family".into(), "wasm".into())) && a.contains(&("target_feature".into(), "simd128".into())) {
                    return Ok("(c.arch == Arch.wasmSimd)".into());
                }
            }
            let parts: Vec<String> = inner.iter().map(cfg_pred).collect::<R<_>>()?;
            match op.as_str() {
                "all" => Ok(if parts.is_empty() { "true".into() } else { format!("({})", parts.join(" && ")) }),
                "any" => Ok(if parts.is_empty() { "false".into() } else { format!("({})", parts.join(" || ")) }),
                "not" if parts.len() == 1 => Ok(format!("!{}", parts[0])),
                _ => Err(format!("cfg operator {op}")),
            }
        }
        Meta::Path(p) => Err(format!("cfg flag {}", p.get_ident().map(|i| i.to_string()).unwrap_or_default())),
    }
}

/// conjunction of the `#[cfg(..)]` attributes (None when there is none)
fn cfg_of(attrs: &[Attribute]) -> R<Option<String>> {
    let mut ps = Vec::new();
    for a in attrs {
        if a.path().is_ident("cfg") {
            let m: Meta = a.parse_args().map_err(|e| format!("cfg attribute: {e}"))?;
            ps.push(cfg_pred(&m)?);
        }
    }
    Ok(match ps.len() {
        0 => None,
        1 => Some(ps.remove(0)),
        _ => Some(format!("({})", ps.join(" && "))),
    })
}

fn cond(e: &Expr) -> R<String> {
    match e {
        Expr::Paren(p) => cond(&p.expr),
        Expr::Macro(m) => {
            let name = m.mac.path.segments.last().map(|s| s.ident.to_string()).unwrap_or_default();
            match name.as_str() {
                "cfg" => {
                    let meta: Meta = syn::parse2(m.mac.tokens.clone()).map_err(|e| format!("cfg!: {e}"))?;
                    cfg_pred(&meta)
                }
                "is_x86_feature_detected" => {
                    let l: syn::LitStr = syn::parse2(m.mac.tokens.clone()).map_err(|e| format!("feature name: {e}"))?;
                    match l.value().as_str() {
                        "avx2" => Ok("cpu.avx2".into()),
                        "sse4.1" => Ok("cpu.sse41".into()),
                        o => Err(format!("detected feature {o}")),
                    }
                }
                o => Err(format!("condition macro {o}!")),
            }
        }
        _ => Err(format!("condition: {}", quote::quote!(#e).to_string().chars().take(50).collect::<String>())),
    }
}

fn idents(ts: TokenStream, out: &mut Vec<String>) {
    for t in ts {
        match t {
            TokenTree::Ident(i) => out.push(i.to_string()),
            TokenTree::Group(g) => idents(g.stream(), out),
            _ => {}
        }
    }
}

struct Lad {
    fname: String,
    vars: Vec<(String, String)>,               // local variable -> hasher type constructed into it
    arms: Vec<(u64, String, String)>,          // (tag, member, constructed type)
    lets: Vec<String>,
    fresh: usize,
}

impl Lad {
    /// the `HighwayHasher { tag: N, inner: HighwayChoices { member } }` literal
    fn value(&mut self, e: &Expr) -> R<String> {
        let Expr::Struct(s) = e else { return Err(format!("result expression: {}", quote::quote!(#e).to_string().chars().take(50).collect::<String>())) };
        let mut tag = None;
        let mut member = None;
        for f in &s.fields {
            let syn::Member::Named(n) = &f.member else { continue };
            if n == "tag" {
                if let Expr::Lit(l) = &f.expr {
                    if let syn::Lit::Int(i) = &l.lit {
                        tag = i.base10_parse::<u64>().ok();
                    }
                }
            } else if n == "inner" {
                let Expr::Struct(inner) = &f.expr else { return Err("inner is not a HighwayChoices literal".into()) };
                if inner.fields.len() != 1 {
                    return Err("HighwayChoices literal".into());
                }
                let fld = &inner.fields[0];
                let syn::Member::Named(m) = &fld.member else { return Err("union member".into()) };
                let var = match &fld.expr {
                    Expr::Path(p) => p.path.get_ident().map(|i| i.to_string()).ok_or("union initialiser")?,
                    _ => return Err("union initialiser".into()),
                };
                let ty = self.vars.iter().rev().find(|v| v.0 == var).map(|v| v.1.clone()).ok_or("union initialiser is not a local built by a back-end constructor")?;
                member = Some((m.to_string(), ty));
            }
        }
        let tag = tag.ok_or("tag is not a literal")?;
        let (m, ty) = member.ok_or("no inner member")?;
        self.arms.push((tag, m.clone(), ty));
        let b = backend_of(&m)?;
        // the value the ladder yields is the back end whose union member is initialised; that its tag is the literal
        // written next to it is theorem `ctor_arms_ok`
        Ok(format!("some {b}"))
    }
    fn cont(&mut self, k: String) -> String {
        // share a continuation that is used in both branches
        if k.len() < 24 {
            return k;
        }
        self.fresh += 1;
        let n = format!("k{}", self.fresh);
        self.lets.push(format!("  let {n} : Option Backend := {k}"));
        n
    }
    fn stmts(&mut self, ss: &[Stmt], k: String) -> R<String> {
        let Some((first, rest)) = ss.split_first() else { return Ok(k) };
        match first {
            Stmt::Local(l) => {
                if let (syn::Pat::Ident(pi), Some(init)) = (&l.pat, &l.init) {
                    let mut ids = Vec::new();
                    let e = &init.expr;
                    idents(quote::quote!(#e), &mut ids);
                    if let Some(ty) = ids.iter().find(|i| i.ends_with("Hash") && backend_of(i).is_ok()) {
                        self.vars.push((pi.ident.to_string(), ty.clone()));
                    }
                }
                self.stmts(rest, k)
            }
            Stmt::Expr(e, semi) => {
                let (attrs, inner): (&[Attribute], &Expr) = match e {
                    Expr::Block(b) => (&b.attrs, e),
                    Expr::If(i) => (&i.attrs, e),
                    Expr::Return(r) => (&r.attrs, e),
                    Expr::Struct(s) => (&s.attrs, e),
                    _ => return Err(format!("statement: {}", quote::quote!(#e).to_string().chars().take(50).collect::<String>())),
                };
                let guard = cfg_of(attrs)?;
                // what follows this statement
                let after = self.stmts(rest, k)?;
                let after = self.cont(after);
                let body = match inner {
                    Expr::Block(b) => self.stmts(&b.block.stmts, after.clone())?,
                    Expr::If(i) => self.if_chain(i, after.clone())?,
                    Expr::Return(r) => self.value(r.expr.as_deref().ok_or("bare return")?)?,
                    Expr::Struct(_) if semi.is_none() => self.value(inner)?,
                    _ => return Err("statement".into()),
                };
                Ok(match guard {
                    None => body,
                    Some(p) => format!("(if {p} then {body} else {after})"),
                })
            }
            _ => Err("item / macro statement in a ladder".into()),
        }
    }
    fn if_chain(&mut self, i: &syn::ExprIf, k: String) -> R<String> {
        let c = cond(&i.cond)?;
        let then = self.stmts(&i.then_branch.stmts, k.clone())?;
        let els = match &i.else_branch {
            None => k,
            Some((_, e)) => match &**e {
                Expr::Block(b) => self.stmts(&b.block.stmts, k)?,
                Expr::If(i2) => self.if_chain(i2, k)?,
                _ => return Err("else branch".into()),
            },
        };
        Ok(format!("(if {c} then {then} else {els})"))
    }
}

fn main() {
    let args: Vec<String> = std::env::args().collect();
    let src = std::fs::read_to_string(&args[1]).expect("read builder.rs");
    let file = syn::parse_file(&src).expect("parse");
    let mut out = String::new();
    let mut thms = String::new();
    let mut status: Vec<(String, String)> = Vec::new();
    out.push_str("-- GENERATED by /verif/harness/facts (ladgen) from src/builder.rs; do not edit.\nimport HH.Dispatch\nnamespace HH.Gen.Ladder\nopen HH\n\n");

    // ---- the union
    let mut union_ok = false;
    for it in &file.items {
        if let Item::Union(u) = it {
            if u.ident == "HighwayChoices" {
                let r: R<String> = (|| {
                    let mut rows = Vec::new();
                    for f in &u.fields.named {
                        let p = cfg_of(&f.attrs)?.unwrap_or_else(|| "true".into());
                        let name = f.ident.as_ref().ok_or("field")?.to_string();
                        let mut ids = Vec::new();
                        let ty = &f.ty;
                        idents(quote::quote!(#ty), &mut ids);
                        let ty = ids.iter().find(|i| i.ends_with("Hash")).ok_or("member type")?;
                        rows.push(format!("({}, (fun c => {p}), {})", backend_of(&name)?, backend_of(ty)?));
                    }
                    Ok(format!("/-- `union HighwayChoices`: (member, the configurations in which it exists, the hasher type it holds) -/\ndef unionMembers : List (Backend × (Cfg → Bool) × Backend) :=\n  [{}]\n", rows.join(",\n   ")))
                })();
                match r {
                    Ok(d) => {
                        out.push_str(&d);
                        out.push('\n');
                        union_ok = true;
                        status.push(("HighwayChoices".into(), "translated".into()));
                    }
                    Err(e) => status.push(("HighwayChoices".into(), format!("skipped: {e}"))),
                }
            }
        }
    }

    // ---- ladders and dispatch sites
    let mut ctor_rows: Vec<String> = Vec::new();
    let mut disp_rows: Vec<String> = Vec::new();
    let mut sites: Vec<String> = Vec::new();
    let mut ladders_ok = Vec::new();
    for it in &file.items {
        let Item::Impl(im) = it else { continue };
        let t = &im.self_ty;
        if quote::quote!(#t).to_string() != "HighwayHasher" {
            continue;
        }
        let tr = im.trait_.as_ref().map(|t| t.1.segments.last().map(|s| s.ident.to_string()).unwrap_or_default());
        for ii in &im.items {
            let ImplItem::Fn(f) = ii else { continue };
            let name = f.sig.ident.to_string();
            let qual = match &tr {
                Some(t) => format!("{t}::{name}"),
                None => name.clone(),
            };
            if tr.is_none() && (name == "new" || name == "from_checkpoint") {
                let lean = if name == "new" { "selectNew" } else { "selectRestore" };
                let mut lad = Lad { fname: name.clone(), vars: Vec::new(), arms: Vec::new(), lets: Vec::new(), fresh: 0 };
                let _ = &lad.fname;
                match lad.stmts(&f.block.stmts, "none".into()) {
                    Ok(body) => {
                        let _ = write!(out, "/-- the ladder of `HighwayHasher::{name}` -/\ndef {lean} (c : Cfg) (cpu : Cpu) : Option Backend :=\n{}{}  {body}\n\n", lad.lets.join("\n"), if lad.lets.is_empty() { "" } else { "\n" });
                        for (tag, m, ty) in &lad.arms {
                            match (backend_of(m), backend_of(ty)) {
                                (Ok(bm), Ok(bt)) => ctor_rows.push(format!("({:?}, {tag}, {bm}, {bt})", name)),
                                _ => {}
                            }
                        }
                        ladders_ok.push(lean);
                        status.push((format!("HighwayHasher::{name}"), "translated".into()));
                    }
                    Err(e) => status.push((format!("HighwayHasher::{name}"), format!("skipped: {e}"))),
                }
                continue;
            }
            // dispatch: a `match self.tag { .. }` / `match tag { .. }` anywhere in the body
            struct V<'a> {
                found: Vec<&'a syn::ExprMatch>,
            }
            impl<'a> syn::visit::Visit<'a> for V<'a> {
                fn visit_expr_match(&mut self, m: &'a syn::ExprMatch) {
                    let e = &m.expr;
                    let s = quote::quote!(#e).to_string().replace(' ', "");
                    if s == "self.tag" || s == "tag" {
                        self.found.push(m);
                    }
                    syn::visit::visit_expr_match(self, m);
                }
            }
            let mut v = V { found: Vec::new() };
            syn::visit::Visit::visit_impl_item_fn(&mut v, f);
            for m in v.found {
                let site = sites.len();
                let r: R<Vec<String>> = (|| {
                    let mut rows = Vec::new();
                    for arm in &m.arms {
                        let tag = match &arm.pat {
                            syn::Pat::Lit(l) => match &l.lit {
                                syn::Lit::Int(i) => i.base10_parse::<u64>().map_err(|e| e.to_string())?,
                                _ => return Err("arm pattern".into()),
                            },
                            syn::Pat::Wild(_) => continue,
                            _ => return Err("arm pattern".into()),
                        };
                        let p = cfg_of(&arm.attrs)?.unwrap_or_else(|| "true".into());
                        let mut ids = Vec::new();
                        let b = &arm.body;
                        idents(quote::quote!(#b), &mut ids);
                        // `self.inner.<member>`: every such access of the arm must name the same member
                        let mut member: Option<&String> = None;
                        for j in 0..ids.len().saturating_sub(2) {
                            if ids[j] == "self" && ids[j + 1] == "inner" {
                                match member {
                                    None => member = Some(&ids[j + 2]),
                                    Some(m) if m == &ids[j + 2] => {}
                                    Some(_) => return Err("arm reads two different union members".into()),
                                }
                            }
                        }
                        let member = member.ok_or("arm does not read self.inner")?;
                        rows.push(format!("({site}, (fun c => {p}), {tag}, {})", backend_of(member)?));
                    }
                    Ok(rows)
                })();
                match r {
                    Ok(rows) => {
                        disp_rows.extend(rows);
                        sites.push(qual.clone());
                        status.push((format!("dispatch in {qual}"), "translated".into()));
                    }
                    Err(e) => status.push((format!("dispatch in {qual}"), format!("skipped: {e}"))),
                }
            }
        }
    }
    let _ = write!(out, "/-- the struct literals the ladders build: (function, tag, union member initialised, hasher type constructed) -/\ndef ctorArms : List (String × Nat × Backend × Backend) :=\n  [{}]\n\n", ctor_rows.join(",\n   "));
    let _ = write!(out, "/-- dispatch sites (`match self.tag`), in source order: {} -/\ndef dispatchSites : Nat := {}\n/-- their arms: (site, the configurations in which the arm exists, tag, union member read) -/\ndef dispatchArms : List (Nat × (Cfg → Bool) × Nat × Backend) :=\n  [{}]\n\n", sites.join(", "), sites.len(), disp_rows.join(",\n   "));

    let split = "  obtain ⟨arch, std, s, a⟩ := c\n  obtain ⟨cs, ca⟩ := cpu\n  cases arch <;> cases std <;> cases s <;> cases a <;> cases cs <;> cases ca <;> decide\n";
    for l in &ladders_ok {
        let _ = write!(thms, "/-- the ladder translated from the source is the model's, for every configuration and CPU -/\ntheorem {l}_eq (c : Cfg) (cpu : Cpu) : {l} c cpu = some (HH.{l} c cpu) := by\n{split}\n");
    }
    let _ = write!(thms, "/-- every ladder arm initialises the union member with that member's own hasher type and writes the model's tag for it -/\ntheorem ctor_arms_ok : (ctorArms.all fun a => a.2.2.1 == a.2.2.2 && a.2.2.1.tag == a.2.1) = true := by decide\n\n");
    let _ = write!(thms, "/-- every dispatch arm `t => .. self.inner.m ..` reads the member whose model tag is `t` -/\ntheorem dispatch_arms_ok : (dispatchArms.all fun a => a.2.2.2.tag == a.2.2.1) = true := by decide\n\n");
    if union_ok {
        let _ = write!(thms, "/-- each union member holds the hasher type of its name -/\ntheorem union_typed : (unionMembers.all fun m => m.1 == m.2.2) = true := by decide\n\n");
        let _ = write!(thms, "/-- an arm that exists in a configuration reads a union member that exists in that configuration -/\ntheorem dispatch_member_exists (c : Cfg) : (dispatchArms.all fun a => !a.2.1 c || unionMembers.any fun m => m.1 == a.2.2.2 && m.2.1 c) = true := by\n  obtain ⟨arch, std, s, a⟩ := c\n  cases arch <;> cases std <;> cases s <;> cases a <;> decide\n\n");
    }
    if ladders_ok.contains(&"selectNew") {
        let _ = write!(thms, "/-- tag validity, from the source: at every dispatch site there is an arm, existing in the configuration, for the tag of the\nback end the ladder selects - so the `unreachable_unchecked` arm is never taken for a hasher built by `new` -/\ntheorem dispatch_total_new (c : Cfg) (cpu : Cpu) :\n    ((List.range dispatchSites).all fun i => dispatchArms.any fun a => a.1 == i && a.2.1 c && a.2.2.1 == (HH.selectNew c cpu).tag) = true := by\n{split}\n");
    }
    if ladders_ok.contains(&"selectRestore") {
        let _ = write!(thms, "theorem dispatch_total_restore (c : Cfg) (cpu : Cpu) :\n    ((List.range dispatchSites).all fun i => dispatchArms.any fun a => a.1 == i && a.2.1 c && a.2.2.1 == (HH.selectRestore c cpu).tag) = true := by\n{split}\n");
    }
    // ---- the collection builder (src/hash.rs): `build_hasher` must forward the stored key to the ladder of `new`, the
    // struct must hold nothing but the key (a cached tag or hasher would be a second source of the selection)
    {
        let hpath = std::path::Path::new(&args[1]).with_file_name("hash.rs");
        let r: R<()> = (|| {
            let hsrc = std::fs::read_to_string(&hpath).map_err(|e| format!("hash.rs: {e}"))?;
            let hfile = syn::parse_file(&hsrc).map_err(|e| format!("hash.rs: {e}"))?;
            let mut fields_ok = false;
            let mut fwd_ok = false;
            let mut ctor_ok = false;
            for it in &hfile.items {
                match it {
                    Item::Struct(st) if st.ident == "HighwayBuildHasher" => {
                        let names: Vec<String> = st.fields.iter().filter_map(|f| f.ident.as_ref().map(|i| i.to_string())).collect();
                        fields_ok = names == ["key"];
                    }
                    Item::Impl(im) => {
                        let t = &im.self_ty;
                        if quote::quote!(#t).to_string() != "HighwayBuildHasher" {
                            continue;
                        }
                        for ii in &im.items {
                            let ImplItem::Fn(f) = ii else { continue };
                            let body = { let b = &f.block; quote::quote!(#b).to_string().replace(' ', "") };
                            if f.sig.ident == "build_hasher" {
                                fwd_ok = body == "{HighwayHasher::new(self.key)}";
                            }
                            if f.sig.ident == "new" && im.trait_.is_none() {
                                ctor_ok = body == "{HighwayBuildHasher{key}}" || body == "{Self{key}}";
                            }
                        }
                    }
                    _ => {}
                }
            }
            if !fields_ok {
                return Err("HighwayBuildHasher holds more than the key".into());
            }
            if !fwd_ok {
                return Err("build_hasher is not `HighwayHasher::new(self.key)`".into());
            }
            if !ctor_ok {
                return Err("HighwayBuildHasher::new does not just store the key".into());
            }
            Ok(())
        })();
        status.push(("HighwayBuildHasher::build_hasher".into(), match r { Ok(()) => "translated".into(), Err(e) => format!("skipped: {e}") }));
    }
    out.push_str("/-! ### theorems -/\n\n");
    out.push_str(&thms);
    out.push_str("end HH.Gen.Ladder\n");
    std::fs::write(&args[2], out).expect("write lean");
    let js: Vec<String> = status.iter().map(|(n, s)| format!("  {:?}: {:?}", n, s)).collect();
    std::fs::write(&args[3], format!("{{\n{}\n}}\n", js.join(",\n"))).expect("write status");
    for (n, s) in &status {
        println!("ladgen {n}: {s}");
    }
}
