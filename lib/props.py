"""Per-property definitions: Lean theorems that must check, which runner configurations are used,
how cases are generated.  See DESIGN.md section 4."""
import random
import gen
from gen import B, rkey, rbytes, kstr, split_chunks
from hh import hexbytes, QUICK_CONFIGS, MATRIX_CONFIGS, all_configs

X86 = ["portable", "sse", "avx", "auto"]


def sels_for(info):
    s = ["portable", "auto"]
    if info.get("arch") == "x86_64":
        if info.get("cpu_sse41") == "1":
            s.insert(1, "sse")
        if info.get("cpu_avx2") == "1":
            s.insert(2, "avx")
    return s


# beyond the small grid: lengths around every power of two up to 8 KiB (block-wise fast paths, unrolled loops,
# prefetch thresholds a maintainer might add) - few cases, so cheap even through the Lean model
BIG_LENS = [159, 160, 161, 191, 192, 193, 255, 256, 257, 511, 512, 513, 1000, 1023, 1024, 1025, 2047, 2048, 2049, 4095, 4096, 4097, 8191, 8192, 8193]
LENS_Q = list(range(0, 70)) + [95, 96, 97, 127, 128, 129, 130]
LENS_T = list(range(0, 131)) + [159, 160, 161, 255, 256, 257, 1000, 1023, 1024, 1025, 4096]


# ---- C01 ---------------------------------------------------------------------------------------
def gen_c01(r, tier, info):
    cases = []
    lens = LENS_Q if tier == "quick" else LENS_T
    reps = 1 if tier == "quick" else 6
    for n in lens:
        for w in (64, 128, 256):
            for _ in range(reps):
                key = gen.key_for(r, n)
                data = rbytes(r, n)
                b = B(f"c01-{n}-{w}", [f"len%32={n % 32}", f"pk={min(n // 32, 4)}", f"w{w}"])
                i = b.op(f"hash portable {w} {kstr(key)} {hexbytes(data)}")
                b.spec = (i, f"spec {w} {kstr(key)} {hexbytes(data)}")
                # purity: repeat, and interleave with another handle
                if r.random() < 0.3:
                    b.op(f"new 5 portable {kstr(rkey(r))}")
                    b.op(f"append 5 {hexbytes(rbytes(r, 40))}")
                    j = b.op(f"hash portable {w} {kstr(key)} {hexbytes(data)}")
                    b.eq(i, j, "hash is not a pure function of (key, bytes, width)")
                cases.append(b)
    for n in BIG_LENS + [r.randrange(131, 20000) for _ in range(3 if tier == "quick" else 40)]:
        w = r.choice((64, 128, 256))
        key = rkey(r)
        data = rbytes(r, n)
        b = B(f"c01-big-{n}-{w}", [f"len%32={n % 32}", "pk=big", f"w{w}"])
        i = b.op(f"hash portable {w} {kstr(key)} {hexbytes(data)}")
        b.spec = (i, f"spec {w} {kstr(key)} {hexbytes(data)}")
        cases.append(b)
    # streamed through append + checkpoint exposure of internal state
    for _ in range(60 if tier == "quick" else 600):
        n = r.choice(lens + BIG_LENS[:12])
        data = rbytes(r, n)
        cases.append(gen.streamed(r, "portable", split_chunks(r, data), r.choice((64, 128, 256)), rkey(r)))
    return cases


# ---- C02 ---------------------------------------------------------------------------------------
def gen_c02(r, tier, info):
    cases = []
    sels = [s for s in sels_for(info) if s != "portable"]
    lens = (list(range(0, 66)) + [95, 96, 97, 128, 129] + BIG_LENS + [r.randrange(131, 20000) for _ in range(2)]) if tier == "quick" \
        else LENS_T + BIG_LENS + [r.randrange(131, 40000) for _ in range(20)]
    reps = 1 if tier == "quick" else 3
    for n in lens:
        for _ in range(reps):
            key = gen.key_for(r, n)
            data = rbytes(r, n)
            w = r.choice((64, 128, 256)) if tier == "quick" else None
            for w_ in ((w,) if w else (64, 128, 256)):
                b = B(f"c02-{n}", [f"len%32={n % 32}", f"w{w_}"])
                p = b.op(f"hash portable {w_} {kstr(key)} {hexbytes(data)}")
                for s in sels:
                    i = b.op(f"fhash {s} {w_} {kstr(key)} {hexbytes(data)}")
                    b.eq(i, p, f"{s} result differs from portable")
                    b.tags.append(s)
                    if info.get("std") == "1" and s in ("sse", "avx"):
                        j = b.op(f"hash {s} {w_} {kstr(key)} {hexbytes(data)}")
                        b.eq(j, p, f"{s} (safe constructor) result differs from portable")
                cases.append(b)
    # conformance of the trusted intrinsic semantics with the real instructions
    if info.get("arch") == "x86_64" and info.get("cpu_avx2") == "1":
        for _ in range(2 if tier == "quick" else 20):
            cases.append(gen.intrin_cases(r, reps=16 if tier == "quick" else 32))
    # streamed on each backend, states compared through checkpoints
    for _ in range(40 if tier == "quick" else 400):
        data = rbytes(r, r.choice(lens))
        key = rkey(r)
        parts = split_chunks(r, data)
        b = B("c02-stream", [])
        cks = []
        w = r.choice((64, 128, 256))
        fins = []
        for hi, s in enumerate(["portable"] + sels):
            b.op(f"fnew {hi} {s} {kstr(key)}")
            for p in parts:
                b.op(f"append {hi} {hexbytes(p)}")
            cks.append(b.op(f"ckpt {hi}"))
            fins.append(b.op(f"fin {hi} {w}"))
        for a, c in zip(cks, cks[1:]):
            b.eq(a, c, "back ends disagree on internal state (checkpoint) after the same stream")
        for a, c in zip(fins, fins[1:]):
            b.eq(a, c, "back ends disagree on the result after the same stream")
        cases.append(b)
    return cases


# ---- C05 ---------------------------------------------------------------------------------------
def gen_c05(r, tier, info):
    cases = []
    sels = sels_for(info)
    std = info.get("std") == "1"
    fills = range(0, 32)
    if tier == "quick":
        for s in sels:
            lens = r.sample(gen.CHUNK_LENS, 10) + [0, 1, 32, 64]
            cases += gen.grid(r, s, fills, lens, force=True, std=std)
    else:
        for s in sels:
            cases += gen.grid(r, s, fills, gen.CHUNK_LENS, force=True, std=std)
            cases += gen.grid(r, s, fills, r.sample(gen.CHUNK_LENS, 12), force=True, entry="mix", std=std)
    for _ in range(150 if tier == "quick" else 3000):
        s = r.choice(sels)
        data = rbytes(r, r.choice((0, 1, 5, 17, 23, 31, 32, 33, 63, 64, 65, 100, 129, 200, 200, 256, 300, 511, 512, 1024, 1500, 4097)))
        parts = split_chunks(r, data, r.randrange(0, 9))
        cases.append(gen.streamed(r, s, parts, r.choice((64, 128, 256)), gen.key_for(r, len(data)), entry="mix", force=True, std=std))
    # many tiny appends into one packet
    for _ in range(20 if tier == "quick" else 300):
        s = r.choice(sels)
        data = rbytes(r, r.randrange(0, 70))
        tiny_key = gen.key_for(r, len(data))
        parts = [data[i:i + 1] for i in range(len(data))]
        for _ in range(r.randrange(0, 4)):
            parts.insert(r.randrange(len(parts) + 1), b"")
        cases.append(gen.streamed(r, s, parts, r.choice((64, 128, 256)), tiny_key, force=True, std=std))
    return cases


# ---- C06 ---------------------------------------------------------------------------------------
def gen_c06(r, tier, info):
    cases = []
    sels = sels_for(info)
    maxlen = 70 if tier == "quick" else 130
    for n in ([0, 1, 31, 32, 33, 64, 70] if tier == "quick" else range(0, maxlen + 1, 1)):
        data_len = n
        for cut in (range(0, n + 1) if (tier != "quick" or n <= 33) else r.sample(range(0, n + 1), 12)):
            data = rbytes(r, data_len)
            cases.append(gen.ckpt_hops(r, sels, data, [cut], r.choice((64, 128, 256)), rkey(r), force=True))
    for _ in range(150 if tier == "quick" else 4000):
        n = r.randrange(0, maxlen + 60)
        hops = r.randrange(2, 4)
        cuts = sorted(r.randrange(0, n + 1) for _ in range(hops))
        cases.append(gen.ckpt_hops(r, sels, rbytes(r, n), cuts, r.choice((64, 128, 256)), rkey(r), force=True))
    return cases


# ---- C07 ---------------------------------------------------------------------------------------
def gen_c07(r, tier, info):
    sels = sels_for(info)
    std = info.get("std") == "1"
    return [gen.default_case(r, sels, std=std) for _ in range(40 if tier == "quick" else 600)]


# ---- C11 ---------------------------------------------------------------------------------------
def gen_c11(r, tier, info):
    sels = sels_for(info)
    cases = [gen.malformed(r, sels, count=c, force=True) for c in gen.COUNTS]
    cases += [gen.malformed(r, sels, force=True) for _ in range(60 if tier == "quick" else 2500)]
    return cases


# ---- C12 ---------------------------------------------------------------------------------------
def gen_c12(r, tier, info):
    sels = sels_for(info)
    std = info.get("std") == "1"
    n = 150 if tier == "quick" else 3000
    return [gen.adapters(r, sels, force=True, std=std) for _ in range(n)] + [gen.builders(r) for _ in range(n // 3)] + \
        [gen.provided(r, sels, info, force=True, std=std) for _ in range(n // 2)] + [gen.shared_builders(r, info) for _ in range(n // 6)]


# ---- C13 ---------------------------------------------------------------------------------------
def gen_c13(r, tier, info):
    sels = sels_for(info)
    return [gen.observers(r, sels, force=True) for _ in range(150 if tier == "quick" else 3000)]


# ---- C14 ---------------------------------------------------------------------------------------
def gen_c14(r, tier, info):
    sels = sels_for(info)
    cases = []
    for n in (range(0, 100) if tier == "quick" else list(range(0, 200)) * 6):
        cases.append(gen.ckpt_canon(r, sels, rbytes(r, n), rkey(r), force=True))
    return cases


# ---- C15 ---------------------------------------------------------------------------------------
def gen_c15(r, tier, info):
    sels = sels_for(info)
    n = 100 if tier == "quick" else 2500
    return [gen.interleave(r, sels, nh=r.randrange(2, 7), force=True) for _ in range(n)] + [gen.builders(r) for _ in range(n // 2)] + \
        [gen.shared_builders(r, info) for _ in range(n // 4)]


# ---- C10 ---------------------------------------------------------------------------------------
def gen_c10(r, tier, info):
    """tags after every way of obtaining a HighwayHasher + results equal portable + Option-ness"""
    cases = []
    for _ in range(12 if tier == "quick" else 150):
        key = rkey(r)
        data = rbytes(r, r.choice((0, 5, 31, 32, 33, 40, 41, 64, 100)))
        w = r.choice((64, 128, 256))
        b = B("c10", [])
        b.op(f"new 0 auto {kstr(key)}")
        t0 = b.op("debug 0")
        b.op("default 1 auto")
        t1 = b.op("debug 1")
        b.op(f"append 0 {hexbytes(data[:len(data) // 2])}")
        b.op("restoreh 2 auto 0")
        t2 = b.op("debug 2")
        b.op("clone 0 3")
        t3 = b.op("debug 3")
        # the collection BuildHasher routes: a keyed builder, the Default builder, a builder shared by the whole process
        b.op(f"bh 10 {kstr(key)}")
        t4 = b.op("debug 10")
        b.op("bhd 11")
        t5 = b.op("debug 11")
        b.op("shbh 12 1")
        t6 = b.op("debug 12")
        b.op("clonefrom 0 11")
        t7 = b.op("debug 11")
        for t in (t1, t2, t3, t4, t5, t6, t7):
            b.eq(t0, t, "HighwayHasher obtained in different ways selected different back ends")
        b.op(f"append 2 {hexbytes(data[len(data) // 2:])}")
        b.op(f"append 3 {hexbytes(data[len(data) // 2:])}")
        # "the same results as portable" includes the persisted state: checkpoint bytes after a two-chunk history
        b.op(f"new 8 portable {kstr(key)}")
        b.op(f"append 8 {hexbytes(data[:len(data) // 2])}")
        b.op(f"append 8 {hexbytes(data[len(data) // 2:])}")
        c2 = b.op("ckpt 2")
        c3 = b.op("ckpt 3")
        c8 = b.op("ckpt 8")
        b.eq(c2, c8, "checkpoint of a restored HighwayHasher differs from portable's for the same stream")
        b.eq(c3, c8, "checkpoint of a cloned HighwayHasher differs from portable's for the same stream")
        x2 = b.op(f"fin 2 {w}")
        x3 = b.op(f"fin 3 {w}")
        p = b.op(f"hash portable {w} {kstr(key)} {hexbytes(data)}")
        b.eq(x2, p, "restored HighwayHasher result differs from portable")
        b.eq(x3, p, "cloned HighwayHasher result differs from portable")
        # Option-ness of the explicit SIMD constructors (safe ones)
        b.op(f"new 4 sse {kstr(key)}")
        b.op(f"new 5 avx {kstr(key)}")
        b.op("restoreh 6 sse 0")
        b.op("restoreh 7 avx 0")
        b.tagidx = (t0, t1, t2, t3, t4, t5, t6, t7)
        cases.append(b)
    return cases


# ---- C08 ---------------------------------------------------------------------------------------
def gen_c08(r, tier, info):
    """histories of safe calls of every kind, on every back end, incl. restore from arbitrary bytes with
    every count class; the oracle is that no op ever outputs `panic` (catch_unwind per op)"""
    sels = sels_for(info)
    std = info.get("std") == "1"
    cases = [gen.malformed(r, sels, count=c, force=True) for c in gen.COUNTS]
    n = 40 if tier == "quick" else 600
    for _ in range(n):
        cases.append(gen.malformed(r, sels, force=True))
        cases.append(gen.observers(r, sels, force=True))
        cases.append(gen.adapters(r, sels, force=True, std=std))
        cases.append(gen.default_case(r, sels, std=std))
        cases.append(gen.interleave(r, sels, nh=3, force=True))
        s = r.choice(sels)
        cases += gen.grid(r, s, [r.randrange(32)], r.sample(gen.CHUNK_LENS, 3), force=True, entry="mix", std=std)
    # sub-packet streams with length-tailored carry keys: overflow-checked re-implementations of the length injection
    for n in range(1, 32):
        key = gen.carry_key(r, n)
        data = rbytes(r, n)
        b = B("c08-carry-key", [f"fill={n}"])
        for hi, s in enumerate(sels):
            b.op(f"fnew {hi} {s} {kstr(key)}")
            b.op(f"append {hi} {hexbytes(data)}")
            if s not in gen.NO_TRAITS:
                b.op(f"finish {hi}")
            b.op(f"clone {hi} {hi + 8}")
            b.op(f"clone {hi} {hi + 16}")
            b.op(f"fin {hi} 64")
            b.op(f"fin {hi + 8} 128")
            b.op(f"fin {hi + 16} 256")
        cases.append(b)
    # extreme: all 32 fills x finalize at every width right after restore of an edge-lane checkpoint
    for f in range(32):
        lanes = gen.edge_lanes(r)
        c = lanes + rbytes(r, 32) + f.to_bytes(4, "little")
        b = B("c08-restore-fin", [f"fill={f}"])
        for hi, s in enumerate(sels):
            b.op(f"frestore {hi} {s} {hexbytes(c)}")
            b.op(f"clone {hi} {hi + 8}")
            b.op(f"clone {hi} {hi + 16}")
            b.op(f"fin {hi} 64")
            b.op(f"fin {hi + 8} 128")
            b.op(f"fin {hi + 16} 256")
        cases.append(b)
    return cases


def post_c10(bs, cases, reals, info):
    """the RELATION of the property on the observed tags: the tag every constructor reports must be a
    back end the configuration permits (evaluated by the Lean `Permitted`), portable when no SIMD
    back end is permitted, and the safe SIMD constructors return Some iff std && detected."""
    import hh, os
    fails = []
    tags = set()
    for k, b in enumerate(bs):
        ti = getattr(b, "tagidx", None)
        if not ti or reals[k] is None:
            continue
        for t in ti:
            o = reals[k][t] if t < len(reals[k]) else ""
            if not o.startswith("tag="):
                fails.append((k, f"HighwayHasher Debug output has no tag: {o[:60]}"))
            else:
                tags.add(o[4:])
        std = info.get("std") == "1"
        want_sse = "ok" if (std and info.get("cpu_sse41") == "1") else "none"
        want_avx = "ok" if (std and info.get("cpu_avx2") == "1") else "none"
        for idx_from_end, want, nm in ((4, want_sse, "SseHash::new"), (3, want_avx, "AvxHash::new"),
                                       (2, want_sse, "SseHash::from_checkpoint"), (1, want_avx, "AvxHash::from_checkpoint")):
            got = reals[k][len(cases[k].ops) - idx_from_end]
            if got != want:
                fails.append((k, f"{nm} returned {got} but std={info.get('std')} detected sse41={info.get('cpu_sse41')} avx2={info.get('cpu_avx2')}"))
    if tags:
        q = hh.Case([f"permitted {t}" for t in sorted(tags)] + ["nosimd"])
        outs, _ = hh.run_model([q], os.path.join(hh.BUILD, "work", "C10"), "permq", info["_line"], shards=1)
        o = outs[0] or []
        for t, ans in zip(sorted(tags), o):
            if ans != "yes":
                fails.append((0, f"HighwayHasher selected back end tag {t}, which the configuration `{info['_line']}` does not permit"))
        if o and o[-1] == "yes" and tags != {"0"}:
            fails.append((0, f"no SIMD back end is permitted in `{info['_line']}` but tag(s) {sorted(tags)} were selected"))
    return fails


PROPS = {
    "C01": dict(gen=gen_c01, quick=["dev-std-base", "rel-std-base"],
                thorough=["dev-std-base", "rel-std-base", "rel-nostd-base", "rel-std-native"], spec_oracle=True),
    "C02": dict(gen=gen_c02, quick=MATRIX_CONFIGS, thorough=all_configs(), cpus=["none", "sse41"]),
    "C05": dict(gen=gen_c05, quick=MATRIX_CONFIGS, thorough=all_configs()),
    "C06": dict(gen=gen_c06, quick=MATRIX_CONFIGS, thorough=all_configs()),
    "C07": dict(gen=gen_c07, quick=MATRIX_CONFIGS, thorough=all_configs()),
    "C08": dict(gen=gen_c08, quick=MATRIX_CONFIGS, thorough=all_configs()),
    "C10": dict(gen=gen_c10, quick=MATRIX_CONFIGS, thorough=all_configs(), cpus=["none", "sse41", "avx2"], post=post_c10),
    "C11": dict(gen=gen_c11, quick=MATRIX_CONFIGS, thorough=all_configs()),
    "C12": dict(gen=gen_c12, quick=MATRIX_CONFIGS, thorough=all_configs()),
    "C13": dict(gen=gen_c13, quick=MATRIX_CONFIGS, thorough=all_configs()),
    "C14": dict(gen=gen_c14, quick=MATRIX_CONFIGS, thorough=all_configs()),
    "C15": dict(gen=gen_c15, quick=MATRIX_CONFIGS, thorough=all_configs()),
}
