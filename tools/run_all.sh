#!/bin/sh
# run every claimed check (quick or thorough) and print one status line per property
TIER=${1:-quick}
cd /verif
for p in $(python3 -c "import json;print(' '.join(c['property_id'] for c in json.load(open('MANIFEST.json'))['checks']))"); do
  out=$(bin/check $p $TIER 2>&1); rc=$?
  echo "$p rc=$rc $(echo "$out" | grep -E 'VIOLATION|KNOWN|ok ' | head -2 | tr '\n' ' ')"
done
