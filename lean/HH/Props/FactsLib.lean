import HH.Generated.SourceFacts
/-! Shared definitions for the theorems over the regenerated source-fact table (no theorems here, so
that a broken theorem of one property never takes another property's file down with it). -/
namespace HH.FactsLib
open HH.Facts

/-- the files of the portable path: the portable hasher, buffering, key, traits, the std adapter
macros, the collection builder type, the crate root -/
def portableFiles : List String := ["lib.rs", "portable.rs", "internal.rs", "key.rs", "traits.rs", "macros.rs", "hash.rs"]

/-- files whose code `PortableHash` executes -/
def coreFiles : List String := ["portable.rs", "internal.rs", "key.rs", "traits.rs", "macros.rs"]

def inP (f : Fact) : Bool := portableFiles.contains f.file

/-! string tests on character lists (structurally recursive, so the kernel can evaluate them) -/
def isPrefix : List Char → List Char → Bool
  | [], _ => true
  | _ :: _, [] => false
  | a :: as, b :: bs => a == b && isPrefix as bs
def infixOf (pat : List Char) : List Char → Bool
  | [] => pat.isEmpty
  | c :: cs => isPrefix pat (c :: cs) || infixOf pat cs
/-- `pat` occurs in `s` -/
def has (s pat : String) : Bool := infixOf pat.toList s.toList
/-- `s` starts with `pat` -/
def startsWith (s pat : String) : Bool := isPrefix pat.toList s.toList


/-! ### the module graph of the crate, computed from the fact table

`crate_path` facts are the references into the crate's own module tree (use items, expression, type and
macro-body paths, `super::` in top-level files); `mod` facts are module declarations.  The *portable
closure* is the set of source files reachable from the files `PortableHash` is written in. -/

/-- split a path at `::` -/
def splitCC : List Char → List Char → List (List Char)
  | [], acc => [acc.reverse]
  | ':' :: ':' :: rest, acc => acc.reverse :: splitCC rest []
  | c :: rest, acc => splitCC rest (c :: acc)

def segsOf (s : String) : List String := (splitCC s.toList []).map String.ofList

/-- file(s) of the top-level module `m`: `m.rs`, or everything under `m/` -/
def moduleFiles (m : String) : List String :=
  files.filter fun f => f == m ++ ".rs" || startsWith f (m ++ "/")

/-- the module a root-level name is re-exported from (`pub use crate::m::Name` in lib.rs), if any -/
def reexportModule (name : String) : Option String :=
  (facts.find? fun f => f.file == "lib.rs" && f.kind == "crate_path" && !f.test &&
      (segsOf f.detail).getLast? == some name && (segsOf f.detail).length ≥ 3).bind fun f => (segsOf f.detail)[1]?

/-- files a `crate::…` path may lead into: the module named by the second segment, or the module the
root-level name is re-exported from; a name defined in lib.rs itself leads to lib.rs -/
def pathTargets (p : String) : List String :=
  match segsOf p with
  | _ :: m :: _ =>
    if !(moduleFiles m).isEmpty then moduleFiles m
    else match reexportModule m with
      | some m' => moduleFiles m'
      | none => ["lib.rs"]
  | _ => []

/-- file stem for submodule lookup: `portable.rs ↦ portable`, `x86/mod.rs ↦ x86` -/
def stemOf (file : String) : String :=
  let cs := file.toList
  let noExt := cs.take (cs.length - 3)
  let r := noExt.reverse
  String.ofList (if isPrefix "dom/".toList r then (r.drop 4).reverse else noExt)

/-- files referenced (by path or by a non-inline `mod` declaration) from non-test code of `file` -/
def refsOf (file : String) : List String :=
  (facts.filter fun f => f.file == file && !f.test).flatMap fun f =>
    if f.kind == "crate_path" then pathTargets f.detail
    else if f.kind == "mod" && !has f.detail " inline" && file != "lib.rs" then
      moduleFiles (stemOf file ++ "/" ++ (segsOf f.detail).headD "" |>.toList |> (fun cs => String.ofList (cs.takeWhile (· != ' '))))
    else []

def closeStep (cur : List String) : List String :=
  (cur ++ cur.flatMap refsOf).eraseDups

/-- the files `PortableHash` executes: reachable from its own files in at most `files.length` steps -/
def portableClosure : List String :=
  (List.range files.length).foldl (fun acc _ => closeStep acc) coreFiles

end HH.FactsLib
