"""Inventory of the Lean theorems each property's check requires (audited with #print axioms on
every run), claimed levels, assumptions.  A theorem listed here that no longer exists or no longer
checks makes the check report `proof-broken`."""


def allowed_extra_axiom(a):
    # none: since the third session every theorem is on propext / Classical.choice / Quot.sound only (bv_decide and its
    # Lean.ofReduceBool / Lean.trustCompiler / _native.bv_decide.ax_* axioms are no longer accepted anywhere)
    return False


MODEL_TRUST = [
    "hand-written Lean model of the Rust source, tied to /repo's working tree by the correspondence check of this run (op streams executed on the real crate and on the model, outputs diffed)",
    "Rust semantics of slices/wrapping arithmetic/chunks_exact as transcribed in the model",
]
SIMD_TRUST = ["semantics of the x86 intrinsics in HH/Intrin/X86.lean (Intel pseudo-code), validated against the real instructions through the SSE/AVX correspondence streams and the intrinsic conformance stream"]

THEOREMS = {
    "C01": dict(module="HH.Props.EndToEnd", trusted=MODEL_TRUST + ["HH/Spec.lean: hand transcription of the HighwayHash algorithm, validated in the kernel against the 195 published vectors + 5 README/test vectors"],
                theorems=[
        ("HH.C01.hash64_eq_spec", "∀ key data, P.hash64 key data = Spec.hash64 key data"),
        ("HH.C01.hash128_eq_spec", "∀ key data, P.hash128 key data = Spec.hash128 key data"),
        ("HH.C01.hash256_eq_spec", "∀ key data, P.hash256 key data = Spec.hash256 key data"),
        ("HH.C01.spec_vectors64", "Spec.hash64 reproduces the 65 published 64-bit vectors (decide +kernel)"),
        ("HH.C01.spec_vectors128", "Spec.hash128 reproduces the 65 published 128-bit vectors"),
        ("HH.C01.spec_vectors256", "Spec.hash256 reproduces the 65 published 256-bit vectors"),
        ("HH.C01.spec_vectors_misc", "README vectors, two >=0x80 vectors, zero-key empty input"),
        ("HH.C01.portable_vectors64", "the portable model reproduces the published 64-bit vectors"),
        ("HH.EndToEnd.machine_computes_spec", "∀ env, key, chunk list, width: the machine history new; appends; finalizeN on a HighwayHasher/PortableHash outputs the Spec digest of the concatenation"),
    ]),
    "C02": dict(module="HH.Props.C02", trusted=MODEL_TRUST + SIMD_TRUST, theorems=[
        ("HH.C02.backend_eq_portable", "∀ backend key chunks width: result of any back end built from a key = portable result"),
        ("HH.C02.sse_hash64", "∀ k d, Sse.finalize64 (Sse.append (Sse.new k) d) = P.hash64 k d"),
        ("HH.C02.sse_hash128", "same, 128 bit"), ("HH.C02.sse_hash256", "same, 256 bit"),
        ("HH.C02.avx_hash64", "∀ k d, Avx.finalize64 (Avx.append (Avx.new k) d) = P.hash64 k d"),
        ("HH.C02.avx_hash128", "same, 128 bit"), ("HH.C02.avx_hash256", "same, 256 bit"),
        ("HH.C02.auto_eq_portable", "∀ Cfg Cpu: the back end chosen by the selection ladder gives the portable result"),
        ("HH.C02.sse_eq_spec64", "SSE = HighwayHash spec (64 bit)"), ("HH.C02.avx_eq_spec256", "AVX = HighwayHash spec (256 bit)"),
        ("HH.C02.config_irrelevant", "∀ two environments (arch, std, target features, detected features), ∀ histories over HighwayHasher/PortableHash handles: identical outputs (tags excepted)"),
    ]),
    "C03": dict(module="HH.Props.C03", trusted=MODEL_TRUST + ["semantics of the NEON intrinsics in HH/Intrin/Neon.lean (Arm pseudo-code), validated against stdarch as interpreted by Miri; vshlq_u32 additionally through the runner's USHL shim", "Miri (aarch64-unknown-linux-gnu) as interpreter of the real src/aarch64.rs: not silicon"], theorems=[
        ("HH.C03.neon_hash64", "∀ k d, Neon finalize64 (append (new k) d) = P.hash64 k d"), ("HH.C03.neon_hash128", "same, 128"), ("HH.C03.neon_hash256", "same, 256"),
        ("HH.C03.neon_streamed", "any chunking on NEON = portable"),
        ("HH.C03.neon_checkpoint_bytes", "NEON checkpoint bytes = any back end's bytes for the same stream"),
        ("HH.C03.neon_restores_any", "NEON restores any back end's checkpoint transparently"),
        ("HH.C03.any_restores_neon", "any back end restores a NEON checkpoint transparently"),
        ("HH.C03.neon_eq_spec64", "NEON = HighwayHash spec"),
    ]),
    "C04": dict(module="HH.Props.C04", trusted=MODEL_TRUST + ["semantics of the wasm simd128 intrinsics in HH/Intrin/Wasm.lean (WebAssembly SIMD spec), validated against stdarch as interpreted by Miri", "Miri (wasm32-unknown-unknown +simd128) as interpreter of the real src/wasm.rs: not a wasm engine"], theorems=[
        ("HH.C04.wasm_hash64", "∀ k d, Wasm finalize64 (append (new k) d) = P.hash64 k d"), ("HH.C04.wasm_hash128", "same, 128"), ("HH.C04.wasm_hash256", "same, 256"),
        ("HH.C04.wasm_streamed", "any chunking on Wasm = portable"),
        ("HH.C04.wasm_checkpoint_bytes", "Wasm checkpoint bytes = any back end's bytes for the same stream"),
        ("HH.C04.wasm_restores_any", "Wasm restores any back end's checkpoint transparently"),
        ("HH.C04.any_restores_wasm", "any back end restores a Wasm checkpoint transparently"),
        ("HH.C04.wasm_eq_spec64", "Wasm = HighwayHash spec"),
    ]),
    "C05": dict(module="HH.Props.C05", trusted=MODEL_TRUST + SIMD_TRUST, theorems=[
        ("HH.C05.streaming", "∀ hasher (any back end, packet invariant) chunks width: foldl append then finalize = append (flatten) then finalize"),
        ("HH.C05.streaming2", "two chunkings of the same data give the same result"),
        ("HH.C05.streaming_new", "instance for hashers built from a key"),
        ("HH.C05.split_anywhere", "one cut at any position n (0, inside a packet, on a boundary, beyond the end) = one append"),
        ("HH.C05.empty_chunks_irrelevant", "deleting all empty chunks from any history changes no result"),
        ("HH.C05.bytewise", "byte-at-a-time feeding = one append"),
        ("HH.C05.empty_append", "an empty append changes no observable"),
        ("HH.C05.entry_points_agree", "append / Hasher::write / io::Write::write are the same state transformer of the machine"),
    ]),
    "C06": dict(module="HH.Props.C06", trusted=MODEL_TRUST + SIMD_TRUST, theorems=[
        ("HH.C06.hop_transparent", "checkpoint + restore on any back end: every later finalize/checkpoint equals the original's"),
        ("HH.C06.journey_abs", "any number of hops over any back ends at any cut points preserves the abstract state"),
        ("HH.C06.journey_transparent", "after any journey every later result equals the uninterrupted hasher's"),
        ("HH.C06.journey_checkpoint", "after any journey, later checkpoints and finish equal the uninterrupted ones byte for byte"),
        ("HH.C06.straight_abs", "the uninterrupted hasher's state is the abstract append of all leg data"),
        ("HH.C06.journey_is_spec", "∀ back end, key, journey (cuts, back end per hop), suffix, width: digest = HighwayHash SPEC digest of all bytes"),
    ]),
    "C07": dict(module="HH.Props.C07", trusted=MODEL_TRUST + SIMD_TRUST, theorems=[
        ("HH.C07.default_eq_new", "∀ back end, default = new zeroKey"),
        ("HH.C07.default_hash", "every default hasher is observationally the zero-key portable hasher"),
        ("HH.C07.default_is_spec", "∀ back end, chunk list, width: default hasher fed the chunks = HighwayHash spec digest under the zero key; its checkpoint = encode(zero key, bytes)"),
        ("HH.C07.default_hash64_spec", "default portable hasher computes Spec.hash64 zeroKey"),
        ("HH.C07.legacy_default_ne", "kernel-checked witness of the fixed defect (derived Default: hash 0)"),
    ]),
    "C11": dict(module="HH.Props.C11", trusted=MODEL_TRUST + SIMD_TRUST, theorems=[
        ("HH.C11.restored_inv", "∀ c ∈ u8^164, ∀ back end: restored hasher satisfies idx<32 and has abstract state decodeAbs c"),
        ("HH.C11.backend_independent", "∀ c, any two back ends: all later finalize/checkpoint/finish results equal"),
        ("HH.C11.restored_laws", "empty append is identity, streaming invariance, own checkpoints restore transparently"),
        ("HH.C11.decoded_count_lt", "pending count < 32 for every count field"),
        ("HH.C11.decode_split", "decode of lanes++buf++count reads the lanes from the first 128 bytes and the first min(count,31) buffer bytes, nothing else"),
        ("HH.C11.stale_bytes_ignored", "arrays with equal lanes, equal clamped count and equal first-count buffer bytes decode to the same logical state"),
        ("HH.C11.restore_ignores_stale", "...and, restored on any two back ends, agree on every later digest/checkpoint/finish after any history"),
        ("HH.C11.recheckpoint_normal_form", "∀ c ∈ u8^164, every back end: checkpoint(restore c) = encode(decode c), 164 bytes"),
        ("HH.C11.restore_never_panics", "∀ c ∈ u8^164, checks on/off, every usize width >= 16 bits (incl. 32-bit): restore, later appends and finalize fire no panic point"),
        ("HH.C11.legacy_count32_breaks", "kernel-checked witness of the fixed defect (count=32)"),
    ]),
    "C14": dict(module="HH.Props.C14", trusted=MODEL_TRUST + SIMD_TRUST, theorems=[
        ("HH.C14.ckpt_of_abs", "checkpoint is a function of the abstract state"),
        ("HH.C14.canonical", "same key + same stream, any chunkings, any back ends: identical 164 bytes = encode(key, bytes)"),
        ("HH.C14.idempotent", "from_checkpoint(c).checkpoint() = c for produced c"),
        ("HH.C14.buffer_field", "bytes 128..160 = pending bytes followed by zeros (no absorbed input)"),
        ("HH.C14.count_field", "bytes 160..164 = LE32 of the pending count, which is < 32"),
        ("HH.C14.injective", "equal checkpoint bytes ⇒ equal logical state (the encoding is faithful), any two back ends"),
        ("HH.C14.equal_ckpt_equal_future", "equal checkpoints ⇒ equal digests (all widths) and equal later checkpoints after any chunk lists with the same concatenation"),
        ("HH.C14.legacy_leak", "kernel-checked witness of the fixed defect (stale bytes in the buffer)"),
    ]),
    "C08": dict(module="HH.Props.C08", trusted=MODEL_TRUST + ["HH/PortablePanic.lean: the panic points of src/internal.rs and src/portable.rs (slice/index/split_at/copy_from_slice checks; debug_assert and overflow checks in the debug profile) as transcribed", "no-panic crate + rustc/LLVM/lld for the link-time claim", "catch_unwind per op in the runner"], theorems=[
        ("HH.C08.append_ok", "∀ profile, invariant state, data: PP.append = ok (P.append) — no panic point fires"),
        ("HH.C08.finalize64_ok", "finalize64 never panics and equals the pure model"), ("HH.C08.finalize128_ok", "same, 128"), ("HH.C08.finalize256_ok", "same, 256"),
        ("HH.C08.remainder_ok", "remainder: every slice/index in range for every length 0..31"),
        ("HH.C08.checkpoint_ok", "checkpoint never panics"),
        ("HH.C08.fromCheckpoint_ok", "restore from ANY 164-byte array never panics, both profiles"),
        ("HH.C08.history_ok", "∀ profile, ∀ chunk lists: appends then any finalize/checkpoint all return ok (induction)"),
        ("HH.C08.constructors_inv", "new/default/from_checkpoint(arbitrary) establish the invariant"),
        ("HH.C08.profiles_wide_enough", "the theorems apply to checks on/off and to 16-, 32-, 64-bit usize (all quantified over Profile with usize >= 16 bits)"),
        ("HH.C08.appendG_ok", "∀ state type, packet update, profile, invariant buffer, data: the append skeleton all five back ends duplicate fires no panic point and computes appendG"),
        ("HH.C08.sse_append_ok", "instance: SseHash::append"), ("HH.C08.avx_append_ok", "instance: AvxHash::append"),
        ("HH.C08.neon_append_ok", "instance: NeonHash::append"), ("HH.C08.wasm_append_ok", "instance: WasmHash::append"),
        ("HH.C08.sse_remainder_no_oob", "SSE remainder: every slice/index in range for every pending count (footprint model over exactly the slice)"),
        ("HH.C08.avx_remainder_no_oob", "AVX2 remainder likewise"), ("HH.C08.neon_remainder_no_oob", "NEON remainder likewise"),
        ("HH.C08.wasm_remainder_no_oob", "Wasm remainder (le_u64 indexing, slices) likewise"),
        ("HH.C08.legacy_debug_panic", "kernel-checked witness of the fixed defect: idx=32 panics in debug (shift overflow)"),
    ]),
    "C09": dict(module="HH.Props.C09", trusted=MODEL_TRUST + SIMD_TRUST + ["HH/Footprint.lean: the raw-pointer accesses of the back ends re-expressed over regions with unreadable bytes (validated by guard pages + Miri)", "mmap/mprotect guard pages, Miri's UB detection", "struct layout: measured in every build and checked against the alignment premises"], theorems=[
        ("HH.C09.sse_packet_loads", "SSE/NEON data_to_lanes: both 16-byte loads stay inside the 32-byte packet, ∀ memory behind it"),
        ("HH.C09.avx_packet_loads", "AVX2 data_to_lanes: the 32-byte unaligned load stays inside the packet"),
        ("HH.C09.sse_remainder_in_bounds", "SSE remainder: ∀ pending count 0..31, ∀ memory behind buffer.as_slice(): no access outside the slice, value = value model"),
        ("HH.C09.avx_remainder_in_bounds", "AVX2 remainder: aligned load + masked loads touch only the slice, given a 16-byte aligned buffer"),
        ("HH.C09.avx_remainder_misaligned_faults", "the alignment premise is necessary (misaligned buffer => the aligned load faults)"),
        ("HH.C09.neon_remainder_in_bounds", "NEON remainder: unchecked take::<8>/take::<4>/vld1q_u8 stay inside the slice"),
        ("HH.C09.wasm_remainder_in_bounds", "Wasm remainder: le_u64 / slices / indices stay inside the slice"),
        ("HH.C09.avx_key_load", "AvxHash::force_new's aligned 32-byte key load: fine iff the key is 32-byte aligned"),
        ("HH.C09.fault_witness", "the model exhibits faults (16-byte load over a 15-byte slice abutting an unmapped byte)"),
    ]),
    "C10": dict(module="HH.Props.C10", trusted=MODEL_TRUST + ["HH/Dispatch.lean: transcription of the two cfg!/is_x86_feature_detected ladders of src/builder.rs; tied by the tags observed in every build configuration x CPU mask"], theorems=[
        ("HH.C10.select_permitted", "∀ Cfg Cpu (128 rows), Permitted cfg cpu (selectNew cfg cpu)"),
        ("HH.C10.restore_eq_new", "∀ Cfg Cpu, the from_checkpoint ladder selects what the new ladder selects"),
        ("HH.C10.portable_when_no_simd", "no SIMD back end permitted → portable selected"),
        ("HH.C10.simd_only_if_enabled", "a SIMD back end is selected only if compile-time enabled or (std ∧ detected)"),
        ("HH.C10.select_tag_valid", "the tag always names an existing union member (unreachable_unchecked never reached)"),
        ("HH.C10.ctor_some_iff", "SseHash::new / AvxHash::new return Some iff std ∧ detected"),
        ("HH.C10.step_autoOK", "every API call preserves: each HighwayHasher carries the selected back end"),
        ("HH.C10.reachable_auto_permitted", "∀ histories from the empty world: every HighwayHasher (new/default/restore/clone) has the selected, permitted back end"),
    ]),
    "C12": dict(module="HH.Props.C12", trusted=MODEL_TRUST + SIMD_TRUST, theorems=[
        ("HH.C12.finish_is_hash_of_written", "∀ back end key writes: finish() after the writes = 64-bit hash of the concatenation"),
        ("HH.C12.finish_is_spec", "finish after any writes on any back end = Spec.hash64 key (concatenation)"),
        ("HH.C12.finish_pure", "finish leaves the world unchanged (repeatable, interleavable)"),
        ("HH.C12.write_consumes_all", "io::Write::write appends the whole buffer and reports its full length"),
        ("HH.C12.flush_noop", "flush = Ok(()) and no state change"),
        ("HH.C12.build_hasher_depends_on_key_only", "hashers handed out by a builder depend on the key (and configuration) only"),
        ("HH.C12.hash_one_value", "hash of a value = portable 64-bit hash of (key, bytes its Hash impl feeds), in every configuration"),
        ("HH.C12.hash_one_op", "∀ env world key writes: BuildHasher::hash_one outputs P.hash64 key (concatenation of the write calls) and leaves the world unchanged"),
        ("HH.C12.provided_writes_op", "provided methods (Hasher::write_u8..write_usize/write_str, write_vectored loops, write_fmt) = one append of the concatenated bytes, on any hasher with the packet invariant"),
        ("HH.C12.hash_one_of_value", "∀ target (endianness, pointer width), value shape: hash_one(value) = P.hash64 key (StdTraits.stream target value)"),
    ]),
    "C13": dict(module="HH.Props.C13", trusted=MODEL_TRUST, theorems=[
        ("HH.C13.observer_noop", "checkpoint/finish/flush/Debug leave the whole world unchanged"),
        ("HH.C13.observers_removable", "∀ histories: deleting the observer calls changes no other output and not the final world"),
        ("HH.C13.clone_identical", "a clone equals the original at the moment of cloning"),
        ("HH.C13.clone_independent", "operations not naming a handle never change it (frame property over any history)"),
        ("HH.C13.finish_repeatable", "finish twice gives the same value"),
    ]),
    "C15": dict(module="HH.Props.C15", trusted=MODEL_TRUST, theorems=[
        ("HH.C15.interleave_independent", "∀ interleavings of two op families over disjoint handle sets: a family's outputs = its isolated run's outputs"),
        ("HH.C15.outputs_depend_on_own_handles", "outputs of a history depend only on the handles it names"),
        ("HH.C15.no_global_state", "regenerated source facts: no `static mut`, thread_local!/lazy_static!, Cell/Atomic/Mutex/Once/Lazy type, no extern block anywhere in src/ outside tests (immutable static tables allowed)"),
    ]),
    "C16": dict(module="HH.Props.C16", trusted=["syn-based source-facts translator /verif/harness/facts (facts, not judgement; re-run on /repo/src in this run)", "rustc's forbid(unsafe_code) lint for the supporting compile check"], theorems=[
        ("HH.C16.no_unsafe", "no `unsafe` token (incl. macro bodies) in lib/portable/internal/key/traits/macros/hash.rs, any cfg branch"),
        ("HH.C16.no_lint_override", "no lint attribute in those files mentions unsafe_code except to deny/forbid it"),
        ("HH.C16.lib_denies_unsafe", "lib.rs carries an unconditional #![deny(unsafe_code)]"),
        ("HH.C16.no_unsafe_attr_or_extern", "no unsafe attribute, foreign block or raw-pointer construct in those files"),
        ("HH.C16.module_closure", "every file reachable from PortableHash's files in the crate's module graph (use items, crate::/super:: paths incl. calls and macro bodies, root re-exports resolved, submodule declarations; all cfg branches, tests excluded) is free of unsafe tokens/attributes/foreign blocks/raw pointers/lint re-allows"),
        ("HH.C16.macro_closure", "macros they invoke are the crate's own two + core assertion macros"),
        ("HH.C16.no_path_redirect", "no #[path] redirection of the crate root's modules"),
        ("HH.C16.table_nontrivial", "the regenerated table is non-empty and sees the unsafe code of builder.rs"),
    ]),
    "C17": dict(module="HH.Props.C17", trusted=["source-facts translator", "Miri as interpreter of the big-endian / 32-bit targets"] + MODEL_TRUST, theorems=[
        ("HH.C17.only_le_conversions", "every byte<->integer conversion on the portable path is from_le_bytes / to_le_bytes"),
        ("HH.C17.no_target_sensitive", "no cfg(target_endian|target_pointer_width), usize::MAX/BITS, size_of::<usize>, isize, raw pointers"),
        ("HH.C17.conv_nonvacuous", "the table does contain the conversions of the checkpoint codec"),
        ("HH.C17.width_independent", "∀ pointer widths >= 16 bits, checks on/off: appends, finalize64/128/256, checkpoint give the same (width-free) values"),
        ("HH.C17.restore_width_independent", "restore from arbitrary bytes likewise"),
    ]),
    "C18": dict(module="HH.Props.C18Facts", trusted=["source-facts translator", "counting #[global_allocator] in the native runner"], theorems=[
        ("HH.C18.no_alloc_names", "no allocation-capable name outside #[cfg(test)] anywhere in src/"),
        ("HH.C18.no_extern_crate", "no extern crate (no alloc crate)"),
        ("HH.C18.std_paths", "every path into std (any cfg branch, tests excluded) names a core re-export module or one of io::{Write, Result, IoSlice, IoSliceMut, ErrorKind}: nothing that can allocate (env, fs, vec, string, collections, io::Error::new/other, ...)"),
    ]),
}

LEVEL = {k: "proof" for k in THEOREMS}
LEVEL.update({"C16": "translation_validation", "C17": "translation_validation", "C18": "other"})
EXPLAIN = {"C18": "A functional model has no heap, so the deciding evidence is (a) the kernel-checked theorems over the regenerated source facts (no allocation-capable name outside #[cfg(test)], no alloc crate, std used only for io::Write), (b) the allocation observable of the correspondence: a counting #[global_allocator] around every real operation (construction, appends 0 B..MiB, write, finish, clone, checkpoint, restore, Debug into a stack sink, finalize; std and no_std; all native back ends) must report 0, and (c) the no_std rlib references no allocator symbol."}
ASSUME = {
    k: ["the Lean model corresponds to the code: established for this run by the differential correspondence stream (see coverage.traces_validated_against_impl / model_disagreements)",
        "rustc/LLVM compile the crate according to Rust semantics"] for k in ["C01", "C02", "C03", "C04", "C05", "C09", "C06", "C07", "C08", "C10", "C11", "C12", "C13", "C14", "C15"]
}
SPECIAL = {}
PRE = {}
