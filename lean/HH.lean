-- Root of the `HH` library: model files (core-only imports).
import HH.Basic
import HH.Packet
import HH.Portable
import HH.Spec
import HH.Hex
import HH.Intrin.X86
import HH.Sse
import HH.Avx
import HH.Intrin.Neon
import HH.Neon
import HH.Intrin.Wasm
import HH.WasmB
import HH.PortablePanic
import HH.Dispatch
import HH.Machine
import HH.IntrinEval
