import HH.Generated.SourceFacts
/-!
# C18 (source half) — no allocation-capable construct in library code; C15 (source half) — no
process-global state
-/
namespace HH.C18
open HH.Facts

/-- no allocation-capable name (alloc::, Vec, Box, String, Rc, Arc, vec!, format!, to_vec, to_owned,
to_string, collect, …) outside `#[cfg(test)]` items, in any file -/
theorem no_alloc_names : (facts.all fun f => !(f.kind == "alloc" && !f.test)) = true := by decide +kernel

/-- no `extern crate` (in particular no `extern crate alloc`) -/
theorem no_extern_crate : (facts.all fun f => !(f.kind == "extern_crate")) = true := by decide +kernel

/-- the only paths into `std` are the io::Write adapter of macros.rs -/
def allowedStdPaths : List String := ["::std::io::Write", "::std::io::Result"]
theorem std_paths : (facts.all fun f => !(f.kind == "std_path" && !f.test) || allowedStdPaths.contains f.detail) = true := by
  decide +kernel

/-- items gated on `feature = "std"` live only in these files (io::Write impls, run-time detection) -/
def stdGateFiles : List String := ["lib.rs", "macros.rs", "builder.rs", "x86/sse.rs", "x86/avx.rs"]
theorem std_gates : (facts.all fun f => !(f.kind == "std_gate") || stdGateFiles.contains f.file) = true := by decide +kernel

end HH.C18

