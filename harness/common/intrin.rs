// Conformance of the modelled x86 intrinsic semantics (HH/Intrin/X86.lean) against the real
// instructions: `intrin <name> <imm> <operands as 32-hex-digit u128...>` -> result as u128 hex
// (256-bit values are two u128: low lane first).  x86_64 only; requires AVX2 on the host.
#![allow(dead_code)]
#[cfg(target_arch = "x86_64")]
pub mod x86 {
    use core::arch::x86_64::*;

    fn to(v: u128) -> __m128i {
        unsafe { core::mem::transmute(v) }
    }
    fn from(v: __m128i) -> u128 {
        unsafe { core::mem::transmute(v) }
    }
    #[target_feature(enable = "avx2")]
    unsafe fn to256(lo: u128, hi: u128) -> __m256i {
        _mm256_set_m128i(to(hi), to(lo))
    }
    #[target_feature(enable = "avx2")]
    unsafe fn from256(v: __m256i) -> (u128, u128) {
        (from(_mm256_castsi256_si128(v)), from(_mm256_extracti128_si256(v, 1)))
    }

    /// returns None for an unknown name/immediate; results: (lo, Some(hi)) for 256-bit
    #[target_feature(enable = "avx2")]
    pub unsafe fn run(name: &[u8], imm: usize, a: &[u128]) -> Option<(u128, Option<u128>)> {
        let g = |i: usize| a.get(i).copied().unwrap_or(0);
        let one = |v: __m128i| Some((from(v), None));
        let two = |v: __m256i| {
            let (l, h) = from256(v);
            Some((l, Some(h)))
        };
        match name {
            b"add_epi64" => one(_mm_add_epi64(to(g(0)), to(g(1)))),
            b"sub_epi64" => one(_mm_sub_epi64(to(g(0)), to(g(1)))),
            b"sub_epi32" => one(_mm_sub_epi32(to(g(0)), to(g(1)))),
            b"mul_epu32" => one(_mm_mul_epu32(to(g(0)), to(g(1)))),
            b"andnot_si128" => one(_mm_andnot_si128(to(g(0)), to(g(1)))),
            b"shuffle_epi8" => one(_mm_shuffle_epi8(to(g(0)), to(g(1)))),
            b"shuffle_epi32" if imm == 177 => one(_mm_shuffle_epi32(to(g(0)), 177)),
            b"shuffle_epi32" if imm == 27 => one(_mm_shuffle_epi32(to(g(0)), 27)),
            b"srli_epi64" => match imm {
                1 => one(_mm_srli_epi64(to(g(0)), 1)),
                32 => one(_mm_srli_epi64(to(g(0)), 32)),
                62 => one(_mm_srli_epi64(to(g(0)), 62)),
                63 => one(_mm_srli_epi64(to(g(0)), 63)),
                64 => one(_mm_srli_epi64(to(g(0)), 64)),
                _ => None,
            },
            b"slli_epi64" => match imm {
                1 => one(_mm_slli_epi64(to(g(0)), 1)),
                63 => one(_mm_slli_epi64(to(g(0)), 63)),
                64 => one(_mm_slli_epi64(to(g(0)), 64)),
                _ => None,
            },
            b"slli_si128" => match imm {
                0 => one(_mm_slli_si128(to(g(0)), 0)),
                8 => one(_mm_slli_si128(to(g(0)), 8)),
                15 => one(_mm_slli_si128(to(g(0)), 15)),
                16 => one(_mm_slli_si128(to(g(0)), 16)),
                _ => None,
            },
            b"insert_epi32" => match imm {
                0 => one(_mm_insert_epi32(to(g(0)), g(1) as u32 as i32, 0)),
                1 => one(_mm_insert_epi32(to(g(0)), g(1) as u32 as i32, 1)),
                2 => one(_mm_insert_epi32(to(g(0)), g(1) as u32 as i32, 2)),
                3 => one(_mm_insert_epi32(to(g(0)), g(1) as u32 as i32, 3)),
                _ => None,
            },
            b"sll_epi32" => one(_mm_sll_epi32(to(g(0)), to(g(1)))),
            b"srl_epi32" => one(_mm_srl_epi32(to(g(0)), to(g(1)))),
            b"sllv_epi32" => one(_mm_sllv_epi32(to(g(0)), to(g(1)))),
            b"srlv_epi32" => one(_mm_srlv_epi32(to(g(0)), to(g(1)))),
            b"cmpgt_epi32" => one(_mm_cmpgt_epi32(to(g(0)), to(g(1)))),
            b"cmpeq_epi64" => one(_mm_cmpeq_epi64(to(g(0)), to(g(1)))),
            b"unpacklo_epi64" => one(_mm_unpacklo_epi64(to(g(0)), to(g(1)))),
            b"cvtsi64_si128" => one(_mm_cvtsi64_si128(g(0) as u64 as i64)),
            b"cvtsi32_si128" => one(_mm_cvtsi32_si128(g(0) as u32 as i32)),
            b"set1_epi32" => one(_mm_set1_epi32(g(0) as u32 as i32)),
            b"maskload_epi32" => {
                // operand 0: the 16 bytes of memory, operand 1: the mask
                let mem: [u8; 16] = g(0).to_le_bytes();
                one(_mm_maskload_epi32(mem.as_ptr().cast::<i32>(), to(g(1))))
            }
            b"loadl_epi64" => {
                let mem: [u8; 16] = g(0).to_le_bytes();
                one(_mm_loadl_epi64(mem.as_ptr().cast::<__m128i>()))
            }
            b"broadcastd_epi32" => two(_mm256_broadcastd_epi32(to(g(0)))),
            b"permutevar8x32_epi32" => two(_mm256_permutevar8x32_epi32(to256(g(0), g(1)), to256(g(2), g(3)))),
            b"slli256_si256" if imm == 8 => two(_mm256_slli_si256(to256(g(0), g(1)), 8)),
            b"shuffle256_epi8" => two(_mm256_shuffle_epi8(to256(g(0), g(1)), to256(g(2), g(3)))),
            b"inserti128_si256" if imm == 1 => two(_mm256_inserti128_si256(to256(g(0), g(1)), to(g(2)), 1)),
            b"inserti128_si256" if imm == 0 => two(_mm256_inserti128_si256(to256(g(0), g(1)), to(g(2)), 0)),
            _ => None,
        }
    }
}

// Conformance of the modelled wasm32 simd128 intrinsics (HH/Intrin/Wasm.lean): `intrin w<name> <imm> <operands>` on the
// wasm runners (Miri, and a real engine through harness/nodewasm).  A v128 is the little-endian image of the u128.
#[cfg(all(target_family = "wasm", target_feature = "simd128"))]
pub mod wasm {
    use core::arch::wasm32::*;

    fn to(v: u128) -> v128 {
        unsafe { core::mem::transmute(v) }
    }
    fn from(v: v128) -> u128 {
        unsafe { core::mem::transmute(v) }
    }

    pub fn run(name: &[u8], imm: usize, a: &[u128]) -> Option<u128> {
        let g = |i: usize| a.get(i).copied().unwrap_or(0);
        let r = match name {
            b"wadd" => u64x2_add(to(g(0)), to(g(1))),
            b"wsub" => u64x2_sub(to(g(0)), to(g(1))),
            b"wmul" => u64x2_mul(to(g(0)), to(g(1))),
            b"wand" => v128_and(to(g(0)), to(g(1))),
            b"wor" => v128_or(to(g(0)), to(g(1))),
            b"wxor" => v128_xor(to(g(0)), to(g(1))),
            b"wandnot" => v128_andnot(to(g(0)), to(g(1))),
            b"wshr64" => u64x2_shr(to(g(0)), imm as u32),
            b"wshl64" => u64x2_shl(to(g(0)), imm as u32),
            b"wshr32" => u32x4_shr(to(g(0)), imm as u32),
            b"wshl32" => u32x4_shl(to(g(0)), imm as u32),
            b"wrepl" => match imm {
                0 => i32x4_replace_lane::<0>(to(g(0)), g(1) as u32 as i32),
                1 => i32x4_replace_lane::<1>(to(g(0)), g(1) as u32 as i32),
                2 => i32x4_replace_lane::<2>(to(g(0)), g(1) as u32 as i32),
                3 => i32x4_replace_lane::<3>(to(g(0)), g(1) as u32 as i32),
                _ => return None,
            },
            b"wzip" => u8x16_shuffle::<3, 12, 2, 5, 1, 14, 0, 15, 11, 4, 10, 13, 6, 9, 7, 8>(to(g(0)), to(g(1))),
            b"wrot" => u32x4_shuffle::<1, 0, 3, 2>(to(g(0)), to(g(1))),
            b"wsh12" => u64x2_shuffle::<1, 2>(to(g(0)), to(g(1))),
            b"wext" => match imm {
                0 => return Some(u64x2_extract_lane::<0>(to(g(0))) as u128),
                1 => return Some(u64x2_extract_lane::<1>(to(g(0))) as u128),
                _ => return None,
            },
            #[cfg(hh_nodewasm)]
            b"wswz" => u8x16_swizzle(to(g(0)), to(g(1))),
            b"wmk64" => u64x2(g(0) as u64, g(1) as u64),
            b"wmk32" => u32x4(g(0) as u32, g(1) as u32, g(2) as u32, g(3) as u32),
            _ => return None,
        };
        Some(from(r))
    }
}

// Conformance of the modelled NEON intrinsics (HH/Intrin/Neon.lean) on the aarch64 Miri runner: `intrin n<name> <imm> <ops>`.
#[cfg(target_arch = "aarch64")]
pub mod neon {
    use core::arch::aarch64::*;

    fn to(v: u128) -> uint64x2_t {
        unsafe { core::mem::transmute(v) }
    }
    fn from(v: uint64x2_t) -> u128 {
        unsafe { core::mem::transmute(v) }
    }
    fn d(v: u128) -> uint32x2_t {
        unsafe { core::mem::transmute(v as u64) }
    }
    fn fromd(v: uint32x2_t) -> u128 {
        let x: u64 = unsafe { core::mem::transmute(v) };
        x as u128
    }

    pub unsafe fn run(name: &[u8], imm: usize, a: &[u128]) -> Option<u128> {
        let g = |i: usize| a.get(i).copied().unwrap_or(0);
        Some(match name {
            b"nadd" => from(vaddq_u64(to(g(0)), to(g(1)))),
            b"nsub" => from(vsubq_u64(to(g(0)), to(g(1)))),
            b"nand" => from(vandq_u64(to(g(0)), to(g(1)))),
            b"norr" => from(vorrq_u64(to(g(0)), to(g(1)))),
            b"neor" => from(veorq_u64(to(g(0)), to(g(1)))),
            b"nbic" => from(vbicq_u64(to(g(0)), to(g(1)))),
            b"nmovn" => fromd(vmovn_u64(to(g(0)))),
            b"nshrn" => fromd(match imm {
                1 => vshrn_n_u64::<1>(to(g(0))),
                16 => vshrn_n_u64::<16>(to(g(0))),
                31 => vshrn_n_u64::<31>(to(g(0))),
                32 => vshrn_n_u64::<32>(to(g(0))),
                _ => return None,
            }),
            b"nmull" => from(vmull_u32(d(g(0)), d(g(1)))),
            b"nshrq" => from(match imm {
                1 => vshrq_n_u64::<1>(to(g(0))),
                32 => vshrq_n_u64::<32>(to(g(0))),
                62 => vshrq_n_u64::<62>(to(g(0))),
                63 => vshrq_n_u64::<63>(to(g(0))),
                64 => vshrq_n_u64::<64>(to(g(0))),
                _ => return None,
            }),
            b"nrev" => from(vreinterpretq_u64_u32(vrev64q_u32(vreinterpretq_u32_u64(to(g(0)))))),
            b"nsetl" => {
                let v = vreinterpretq_u32_u64(to(g(1)));
                let x = g(0) as u32;
                from(vreinterpretq_u64_u32(match imm {
                    0 => vsetq_lane_u32::<0>(x, v),
                    1 => vsetq_lane_u32::<1>(x, v),
                    2 => vsetq_lane_u32::<2>(x, v),
                    3 => vsetq_lane_u32::<3>(x, v),
                    _ => return None,
                }))
            }
            b"ntbl" => from(vreinterpretq_u64_u8(vqtbl1q_u8(vreinterpretq_u8_u64(to(g(0))), vreinterpretq_u8_u64(to(g(1)))))),
            b"next" => {
                let (x, y) = (vreinterpretq_u8_u64(to(g(0))), vreinterpretq_u8_u64(to(g(1))));
                from(vreinterpretq_u64_u8(match imm {
                    0 => vextq_u8::<0>(x, y),
                    1 => vextq_u8::<1>(x, y),
                    8 => vextq_u8::<8>(x, y),
                    15 => vextq_u8::<15>(x, y),
                    _ => return None,
                }))
            }
            b"nshl" => from(vreinterpretq_u64_u32(vshlq_u32(vreinterpretq_u32_u64(to(g(0))), vreinterpretq_s32_u64(to(g(1)))))),
            b"ndup64" => from(vdupq_n_u64(g(0) as u64)),
            b"ndup32" => from(vreinterpretq_u64_u32(vdupq_n_u32(g(0) as u32))),
            b"ndup8" => from(vreinterpretq_u64_u8(vdupq_n_u8(g(0) as u8))),
            b"nld64" => {
                let arr = [g(0) as u64, g(1) as u64];
                from(vld1q_u64(arr.as_ptr()))
            }
            b"nld8" => {
                let mem: [u8; 16] = g(0).to_le_bytes();
                from(vreinterpretq_u64_u8(vld1q_u8(mem.as_ptr())))
            }
            _ => return None,
        })
    }
}
