"""Coverage-guided search stage (libFuzzer target /verif/harness/fuzzh, built against the working tree).

It decides nothing by itself: the theorems decide the property for the model, the correspondence ties the
model to the code.  This stage (a) looks for a concrete history on which the REAL crate violates the
property's own oracle (every observation vs the portable one-shot hash/checkpoint of the handle's logical
state), so that a broken proof/correspondence can be reported with a failing input, and (b) turns the
coverage-increasing histories libFuzzer finds into ordinary correspondence cases (real runner vs Lean
model), which reaches code regions the fixed generators never enter (new fast paths, thresholds).
An unavailable nightly toolchain / cargo-fuzz is recorded as "not executed", never an alarm.
"""
import glob, os, re, shutil, tarfile, time
import hh
from hh import log

FUZZ_PIDS = {"C02", "C05", "C06", "C07", "C08", "C09", "C11", "C12", "C13", "C14"}
_BUILT = {}


def build():
    if "bin" in _BUILT:
        return _BUILT["bin"], _BUILT.get("log", "")
    hh.ensure_repo_link()
    cdir = os.path.join(hh.ROOT, "harness", "fuzzh")
    tdir = os.path.join(hh.BUILD, "t-fuzz")
    rc, out, err = hh.sh(["cargo", "+nightly", "fuzz", "build", "--fuzz-dir", ".", "hist"], cwd=cdir,
                         env={"CARGO_TARGET_DIR": tdir, "CARGO_NET_OFFLINE": "true"}, timeout=1800)
    binp = os.path.join(tdir, "x86_64-unknown-linux-gnu", "release", "hist")
    _BUILT["log"] = out + err
    _BUILT["bin"] = binp if rc == 0 and os.path.exists(binp) else None
    return _BUILT["bin"], _BUILT["log"]


class _Raw:
    """adapter: a decoded fuzz history as a generator case"""

    def __init__(self, ops, name):
        self.ops, self.name = ops, name
        self.tags = ["fuzz-corpus"]

    def case(self):
        c = hh.Case(self.ops, None, self.tags, self.name)
        c.cons = []
        return c


def dump_ops(binp, files, workdir):
    """decode fuzz inputs into op histories with the target's own decoder (HH_DUMP mode)"""
    outp = os.path.join(workdir, "fuzz-dump.ops")
    if os.path.exists(outp):
        os.unlink(outp)
    hs = []
    for i in range(0, len(files), 200):
        hh.sh([binp] + files[i:i + 200], env={"HH_DUMP": outp}, timeout=600)
    if not os.path.exists(outp):
        return hs
    cur = None
    for line in open(outp):
        line = line.rstrip("\n")
        if line.startswith("# case"):
            cur = []
            hs.append(cur)
        elif cur is not None and line:
            cur.append(line)
    return hs


def classify(stderr):
    m = re.search(r"PROPERTY-VIOLATION: (.*)", stderr)
    if m:
        msg = m.group(1).strip()
        tags = set(re.findall(r"C\d\d", msg.split(" ")[0]))
        return tags, msg
    if "AddressSanitizer" in stderr:
        m = re.search(r"ERROR: AddressSanitizer: ([^\n]*)", stderr)
        return {"C09"}, "memory error in the real crate (AddressSanitizer): " + (m.group(1) if m else "")[:200]
    m = re.search(r"panicked at ([^\n]*)\n([^\n]*)", stderr)
    if m:
        return {"C08"}, f"a safe API call panicked: {m.group(1)[:120]} {m.group(2)[:160]}"
    return set(), "fuzz target died: " + stderr[-300:]


def stage(res, pid, tier, seed, workdir, secs=None, stats=None):
    if pid not in FUZZ_PIDS:
        return
    import check as check_mod
    t0 = time.time()
    binp, blog = build()
    if binp is None:
        res.notes.append("coverage-guided search stage not executed: cargo +nightly fuzz build failed (" + blog[-200:].replace("\n", " ") + ")")
        return
    secs = secs or (10 if tier == "quick" else 90)
    corp = os.path.join(workdir, "fuzz-corpus")
    art = os.path.join(workdir, "fuzz-art")
    shutil.rmtree(corp, ignore_errors=True)
    shutil.rmtree(art, ignore_errors=True)
    os.makedirs(art)
    seed_tar = os.path.join(hh.ROOT, "corpus-fuzz.tar.gz")
    if os.path.exists(seed_tar):
        with tarfile.open(seed_tar) as tf:
            tf.extractall(workdir)
        shutil.move(os.path.join(workdir, "corpus-fuzz"), corp)
    else:
        os.makedirs(corp)
    seed_files = set(os.listdir(corp))
    jobs = 8 if tier == "quick" else hh.NPROC
    rc, out, err = hh.sh([binp, corp, "-max_len=4096", f"-max_total_time={secs}", f"-fork={jobs}", f"-seed={seed + 1}",
                          f"-artifact_prefix={art}/", "-print_final_stats=1"], timeout=secs + 300)
    execs = sum(int(x) for x in re.findall(r"#(\d+): cov:", err)[-1:]) if "cov:" in err else 0
    crashes = sorted(glob.glob(os.path.join(art, "crash-*")) + glob.glob(os.path.join(art, "oom-*")) + glob.glob(os.path.join(art, "timeout-*")))
    st = dict(config="fuzz(dev-like, ASan, x86_64 host)", seconds=secs, jobs=jobs, seed_corpus=len(seed_files), executions=execs,
              corpus_after=len(os.listdir(corp)), crashes=len(crashes), oracle_fail=0, corr_fail=0, cases=0, ops=0, crashed=0)
    binr, _ = hh.build_runner("dev-std-base")
    info = hh.runner_info(binr) if binr else None
    for cpath in crashes[:2]:
        rc2, o2, e2 = hh.sh([binp, cpath], timeout=120)
        tags, msg = classify(e2)
        hs = dump_ops(binp, [cpath], workdir)
        ops = hs[0] if hs else []
        real = model = None
        if binr and ops:
            c = hh.Case(ops)
            reals, _ = hh.run_real(binr, [c], workdir, f"{pid}.fuzzcrash")
            models, _ = hh.run_model([c], workdir, f"{pid}.fuzzcrash", info["_line"], shards=1)
            real, model = reals[0], models[0]
        rep = dict(kind="impl-violates-property", config="fuzz target (real crate, dev-like profile + ASan, x86_64 host)", message=msg,
                   found_by="coverage-guided search (libFuzzer) over API histories; oracle = portable one-shot of the logical state",
                   ops=ops, actual=real, model=model, fuzz_input=os.path.basename(cpath), reproduce=f"{binp} <input>")
        # keep the raw input next to the replay so that it can be re-run
        if pid in tags or (not tags and pid in ("C08", "C09")):
            p = res.replay(rep)
            if p:
                shutil.copy(cpath, p + ".fuzzinput")
            res.n_oracle_fail += 1
            st["oracle_fail"] += 1
        else:
            d = hh.first_diff(real, model) if real is not None and model is not None else None
            res.corr_pending.append(dict(kind="correspondence-broken", stream=f"fuzz:{pid}", config="fuzz", message=f"history found by the search violates {sorted(tags)}: {msg}",
                                         first_diff_op=(ops[d] if d is not None and d < len(ops) else None), ops=ops[:60], actual=real, model=model))
            res.n_corr_fail += 1
            st["corr_fail"] += 1
    # (b) coverage-increasing histories become correspondence cases
    if binr and info:
        new = [f for f in os.listdir(corp) if f not in seed_files]
        import random
        r = random.Random(seed)
        old = sorted(seed_files)
        r.shuffle(old)
        pick = [os.path.join(corp, f) for f in (new[:150] + old[:(60 if tier == "quick" else 600)])]
        hs = dump_ops(binp, pick, workdir)
        bs = [_Raw(ops, f"fuzz-{i}") for i, ops in enumerate(hs) if ops]
        if bs:
            def fuzzcorpus_gen(r_, t_, i_):
                return bs
            s2 = check_mod.run_config(res, pid, tier, seed, "dev-std-base", binr, info, workdir, gen_override=fuzzcorpus_gen, label=f"{pid}-fuzzcorpus")
            st["cases"], st["ops"], st["corr_fail"] = s2["cases"], s2["ops"], st["corr_fail"] + s2["corr_fail"]
            st["new_coverage_inputs"] = len(new)
    st["wall_s"] = round(time.time() - t0, 1)
    if stats is not None:
        stats.append(st)
    return st
