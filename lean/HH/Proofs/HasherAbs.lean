import HH.Machine
import HH.Proofs.Codec
import HH.Proofs.SseRefine
import HH.Proofs.AvxRefine
import HH.Proofs.NeonRefine
import HH.Proofs.WasmRefine
/-!
# Every back end refines one abstract machine

`Hasher.abs h = (lanes in portable order, pending bytes)`.  Under the packet invariant
(`idx < 32`, 32-byte buffer) — which every constructor establishes (including restore from
ARBITRARY 164 bytes) and every operation preserves — append / finalize / checkpoint / restore of
every back end are the abstract operations `AbsAppend`, `digestAbs`, `encodeAbs`, `decodeAbs`.
All history-level properties are proved once on this abstract machine.
-/
namespace HH

/-- the three digests as a function of the abstract state -/
def digestAbs (w : Width) (a : St × List (BitVec 8)) : Digest :=
  match w with
  | .w64 => .d64 (P.out64 (P.finAbs 4 a))
  | .w128 => .d128 (P.out128 (P.finAbs 6 a))
  | .w256 => .d256 (P.out256 (P.finAbs 10 a))

/-- abstract append -/
def absAppend (a : St × List (BitVec 8)) (d : List (BitVec 8)) : St × List (BitVec 8) := AbsAppend P.updPacket a d

namespace Hasher

def abs : Hasher → St × List (BitVec 8)
  | portable s => absP (s.st, s.buffer)
  | sse s => Sse.abs s
  | avx s => Avx.abs s
  | neon s => NeonB.abs s
  | wasm s => WasmB.abs s

def Inv : Hasher → Prop
  | portable s => s.buffer.Inv
  | sse s => s.buffer.Inv
  | avx s => s.buffer.Inv
  | neon s => s.buffer.Inv
  | wasm s => s.buffer.Inv

theorem abs_pending_lt (h : Hasher) (hi : h.Inv) : h.abs.2.length < 32 := by
  cases h <;> simp only [abs, absP, Sse.abs, Avx.abs, NeonB.abs, WasmB.abs, Pkt.asSlice, Inv, Pkt.Inv] at * <;>
    (simp only [List.length_take]; omega)

theorem append_abs (h : Hasher) (d : List (BitVec 8)) (hi : h.Inv) :
    (h.append d).abs = absAppend h.abs d ∧ (h.append d).Inv := by
  cases h with
  | portable s => exact appendG_abs P.updPacket (s.st, s.buffer) d hi
  | sse s => exact Sse.append_abs s d hi
  | avx s => exact Avx.append_abs s d hi
  | neon s => exact NeonB.append_abs s d hi
  | wasm s => exact WasmB.append_abs s d hi

theorem finalize_abs (h : Hasher) (w : Width) (hi : h.Inv) : h.finalize w = digestAbs w h.abs := by
  cases h with
  | portable s =>
    have hle : s.buffer.idx ≤ s.buffer.buf.length := by have := hi; unfold Inv Pkt.Inv at this; omega
    cases w <;>
      simp only [finalize, finalize64, finalize128, finalize256, digestAbs, abs, P.finalize64_eq, P.finalize128_eq,
        P.finalize256_eq, P.finalizeCommon_abs _ s hle]
  | sse s =>
    cases w <;>
      simp only [finalize, finalize64, finalize128, finalize256, digestAbs, abs, Sse.abs,
        Sse.finalize64_refines s hi, Sse.finalize128_refines s hi, Sse.finalize256_refines s hi]
  | avx s =>
    cases w <;>
      simp only [finalize, finalize64, finalize128, finalize256, digestAbs, abs, Avx.abs,
        Avx.finalize64_refines s hi, Avx.finalize128_refines s hi, Avx.finalize256_refines s hi]
  | neon s =>
    cases w <;>
      simp only [finalize, finalize64, finalize128, finalize256, digestAbs, abs, NeonB.abs,
        NeonB.finalize64_refines s hi, NeonB.finalize128_refines s hi, NeonB.finalize256_refines s hi]
  | wasm s =>
    cases w <;>
      simp only [finalize, finalize64, finalize128, finalize256, digestAbs, abs, WasmB.abs,
        WasmB.finalize64_refines s hi, WasmB.finalize128_refines s hi, WasmB.finalize256_refines s hi]

theorem finalize64_abs (h : Hasher) (hi : h.Inv) : h.finalize64 = P.out64 (P.finAbs 4 h.abs) := by
  have := finalize_abs h .w64 hi
  simpa [finalize, digestAbs] using this

theorem checkpoint_abs (h : Hasher) (hi : h.Inv) : h.checkpoint = P.encodeAbs h.abs := by
  cases h with
  | portable s =>
    have hle : s.buffer.idx ≤ s.buffer.buf.length := by have := hi; unfold Inv Pkt.Inv at this; omega
    exact P.checkpoint_abs s hle
  | sse s =>
    have hle : s.buffer.idx ≤ s.buffer.buf.length := by have := hi; unfold Inv Pkt.Inv at this; omega
    simp only [checkpoint, Sse.checkpoint, abs, Sse.abs]
    rw [P.checkpoint_abs _ hle]; rfl
  | avx s =>
    have hle : s.buffer.idx ≤ s.buffer.buf.length := by have := hi; unfold Inv Pkt.Inv at this; omega
    simp only [checkpoint, Avx.checkpoint, abs, Avx.abs]
    rw [P.checkpoint_abs _ hle]; rfl
  | neon s =>
    have hle : s.buffer.idx ≤ s.buffer.buf.length := by have := hi; unfold Inv Pkt.Inv at this; omega
    simp only [checkpoint, NeonB.checkpoint, abs, NeonB.abs]
    rw [P.checkpoint_abs _ hle]; rfl
  | wasm s =>
    have hle : s.buffer.idx ≤ s.buffer.buf.length := by have := hi; unfold Inv Pkt.Inv at this; omega
    simp only [checkpoint, WasmB.checkpoint, abs, WasmB.abs]
    rw [P.checkpoint_abs _ hle]; rfl

/-- restore from ANY 164-byte array: on every back end the restored hasher satisfies the invariant
and has the same abstract state `decodeAbs c` -/
theorem fromCheckpoint_abs (b : Backend) (c : List (BitVec 8)) (hc : c.length = 164) (h : Hasher)
    (hh : fromCheckpoint b c = some h) : h.abs = P.decodeAbs c ∧ h.Inv := by
  have hp := P.fromCheckpoint_abs c hc
  cases b <;> simp only [fromCheckpoint, Option.some.injEq, reduceCtorEq] at hh
  · subst hh; exact hp
  · subst hh
    refine ⟨?_, hp.2⟩
    simp only [abs, Sse.abs, Sse.fromCheckpoint, Sse.toPortable_fromPortable]
    exact hp.1
  · subst hh
    refine ⟨?_, hp.2⟩
    simp only [abs, Avx.abs, Avx.fromCheckpoint, Avx.toPortable_fromPortable]
    exact hp.1
  · subst hh
    refine ⟨?_, hp.2⟩
    simp only [abs, NeonB.abs, NeonB.fromCheckpoint, NeonB.toPortable_fromPortable]
    exact hp.1
  · subst hh
    refine ⟨?_, hp.2⟩
    simp only [abs, WasmB.abs, WasmB.fromCheckpoint, WasmB.toPortable_fromPortable]
    exact hp.1

theorem new_abs (b : Backend) (k : V4) (h : Hasher) (hh : new b k = some h) :
    h.abs = (Spec.reset k, []) ∧ h.Inv := by
  cases b <;> simp only [new, Option.some.injEq, reduceCtorEq] at hh
  · subst hh; exact ⟨P.new_abs k, P.new_inv k⟩
  · subst hh; exact Sse.new_abs k
  · subst hh; exact Avx.new_abs k
  · subst hh; exact NeonB.new_abs k
  · subst hh; exact WasmB.new_abs k

theorem default_abs (b : Backend) (h : Hasher) (hh : default b = some h) :
    h.abs = (Spec.reset V4.zero, []) ∧ h.Inv := by
  cases b <;> simp only [default, Option.some.injEq, reduceCtorEq] at hh
  · subst hh; exact ⟨P.new_abs _, P.new_inv _⟩
  · subst hh; exact Sse.new_abs _
  · subst hh; exact Avx.new_abs _
  · subst hh; exact NeonB.new_abs _
  · subst hh; exact WasmB.new_abs _

end Hasher
end HH
