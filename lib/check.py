"""bin/check <ID> <quick|thorough> [--replay FILE] — the generic check pipeline (DESIGN.md 4a)."""
import json, os, sys, time, random, collections, traceback
import hh
from hh import log
import props as P
import theorems as T
import special  # registers PRE/SPECIAL hooks
import fuzzstage
import covstage


def fail_line(pid, path, nofail=False):
    print(f"VIOLATION property={pid} replay={path}" + (" no-failing-input-found" if nofail else ""), flush=True)


class Result:
    def __init__(self, pid, tier, seed):
        self.pid, self.tier, self.seed = pid, tier, seed
        self.t0 = time.time()
        self.cov = {}
        self.assumptions = []
        self.violations = []      # (replay_path, nofail)
        self.notes = []
        self.nrep = 0
        self.known = 0

    def replay(self, obj, nofail=False):
        obj = dict(obj, property=self.pid, tier=self.tier, seed=self.seed)
        # genuine defects that were recorded rather than repaired (none at present) are reported as
        # KNOWN-FINDING lines and do not fail the check; matching is by the exact failing input
        # (`ops`) or, for source-level findings, the exact span list - a different violation of the
        # same property is still reported
        for kf in hh.known_findings().get("open", []):
            if kf.get("property") == self.pid and not nofail and (
                    (kf.get("ops") is not None and kf.get("ops") == obj.get("ops")) or
                    (kf.get("spans") is not None and kf.get("spans") == obj.get("spans"))):
                print(f"KNOWN-FINDING: property={self.pid} {kf.get('what', '')}", flush=True)
                self.known += 1
                return None
        p = hh.write_replay(self.pid, self.seed, self.nrep, obj)
        self.nrep += 1
        self.violations.append((p, nofail))
        return p


# --------------------------------------------------------------------------------------------
# stage: Lean proofs
# --------------------------------------------------------------------------------------------

def stage_lean(res, pid, thorough):
    """build the property's theorem module + the driver; audit axioms; returns True if all
    obligations are discharged"""
    spec = T.THEOREMS.get(pid, {})
    module = spec.get("module")
    thms = spec.get("theorems", [])
    targets = ["driver"] + ([module] if module else [])
    ok, blog = hh.lake_build(targets)
    cov = res.cov
    cov["checker_cmd"] = f"cd /verif/lean && lake build {' '.join(targets)} && lake env lean <audit: #print axioms of each theorem>" + \
        (f" && lake env leanchecker {module}" if thorough and module else "")
    cov["obligations"] = len(thms)
    cov["theorems"] = [t for t, _ in thms]
    cov["theorem_statements"] = {t: d for t, d in thms}
    if not ok:
        cov["discharged"] = 0
        res.proof_broken = [("lake build failed", blog[-3000:])]
        return False
    broken = []
    forb = hh.grep_forbidden()
    if forb:
        broken.append(("forbidden construct in Lean sources", "\n".join(forb[:20])))
    axioms_used = set()
    discharged = 0
    if module and thms:
        ax, text = hh.audit_axioms(module, [t for t, _ in thms])
        per = {}
        for t, _ in thms:
            a = ax.get(t)
            if a is None:
                broken.append((f"theorem {t} does not exist or does not check", text[-1500:]))
                continue
            bad = [x for x in a if x not in hh.STD_AXIOMS and not T.allowed_extra_axiom(x)]
            if "sorryAx" in a or bad:
                broken.append((f"theorem {t} depends on non-permitted axioms {sorted(a)}", ""))
                continue
            per[t] = summarize_axioms(a)
            axioms_used |= a
            discharged += 1
        cov["axioms_per_theorem"] = per
    cov["discharged"] = discharged
    tb = ["Lean 4.33.0 kernel", "axioms: " + ", ".join(summarize_axioms(axioms_used)) if axioms_used else "no axioms"]
    tb.append("no native_decide / bv_decide / Lean.ofReduceBool: the audit rejects every axiom other than propext, Classical.choice, Quot.sound")
    cov["trusted_base"] = tb + spec.get("trusted", [])
    if thorough and module and not broken:
        ok2, l2 = hh.leanchecker(module)
        cov["leanchecker"] = "ok" if ok2 else "FAILED"
        if not ok2:
            broken.append((f"leanchecker rejected {module}", l2[-1500:]))
    res.proof_broken = broken
    return not broken


def summarize_axioms(axs):
    """collapse the per-call bv_decide axioms into `lemma (n bv_decide calls)`"""
    import collections
    plain = sorted(a for a in axs if "_native.bv_decide.ax" not in a)
    cnt = collections.Counter(a.split("._native.bv_decide.ax")[0] for a in axs if "_native.bv_decide.ax" in a)
    return plain + [f"bv_decide@{k} x{v}" for k, v in sorted(cnt.items())]


# --------------------------------------------------------------------------------------------
# stage: correspondence + oracles on one configuration
# --------------------------------------------------------------------------------------------

def spec_oracle(bs, reals, workdir, tag, cfgline):
    """C01: real portable result vs the Lean *Spec* evaluated by the driver"""
    specs = []
    for k, b in enumerate(bs):
        sp = getattr(b, "spec", None)
        if sp:
            specs.append((k, sp[0], sp[1]))
    if not specs:
        return []
    cases = [hh.Case([s[2]]) for s in specs]
    outs, bad = hh.run_model(cases, workdir, tag + ".spec", cfgline)
    fails = []
    for (k, idx, line), o in zip(specs, outs):
        want = o[0] if o else None
        got = reals[k][idx] if reals[k] is not None and idx < len(reals[k]) else None
        if want != got:
            fails.append((k, f"portable result {got} differs from HighwayHash spec {want} for `{line[:90]}`"))
    return fails


def run_config(res, pid, tier, seed, config, binp, info, workdir, extra_cases=None, gen_override=None, cpu=None,
               executor=None, label=None, skip_model=False):
    """generate cases for one configuration, execute them on the real code (native runner by default,
    or `executor(cases, tag) -> (outs, crashed)`), on the Lean model, evaluate both verdict layers"""
    label = label or config
    g = gen_override or P.PROPS[pid]["gen"]
    # the model's behaviour (and the generator) depend on the configuration only through this class, so
    # configurations of one class share their cases and ONE model run; the real code runs in each
    klass = tuple(info.get(k, "") for k in ("arch", "std", "tf_sse41", "tf_avx2", "simd128", "cpu_sse41", "cpu_avx2"))
    ckey = (pid, getattr(g, "__name__", "g"), tier, seed, klass, label if (executor or skip_model) else "")
    cached = MODEL_CACHE.get(ckey)
    r = random.Random((seed * 1000003) ^ hash_str("|".join(klass) + (label if (executor or skip_model) else "")))
    if cached:
        bs, cases = cached[0], cached[1]
    else:
        corpus = hh.load_corpus(pid, info) if (executor is None and not skip_model and gen_override is None) else []
        res.cov["corpus_cases_run_first"] = res.cov.get("corpus_cases_run_first", 0) + len(corpus)
        bs = corpus + list(extra_cases or []) + g(r, tier, info)
        cases = [b.case() for b in bs]
    tag = f"{pid}.{label}" + (f".{cpu}" if cpu else "")
    cfgline = info["_line"]
    if executor:
        reals, crashed = executor(cases, tag)
    else:
        extra = [f"--cpu={cpu}"] if cpu else []
        reals, crashed = hh.run_real(binp, cases, workdir, tag, extra_args=extra)
        binp_for_shrink[tag] = (binp, extra)
    if skip_model:
        models, mbad = list(reals), []      # search mode: only the property's own oracles are evaluated
    elif cached:
        models, mbad = cached[2], []
    else:
        models, mbad = hh.run_model(cases, workdir, tag, cfgline)
        if not mbad:
            MODEL_CACHE[ckey] = (bs, cases, models)
    return evaluate(res, pid, label, cpu, cfgline, bs, cases, reals, models, crashed, mbad, info, workdir, tag, r)


MODEL_CACHE = {}
binp_for_shrink = {}


def evaluate(res, pid, config, cpu, cfgline, bs, cases, reals, models, crashed, mbad, info, workdir, tag, r):
    st = dict(config=config, cpu=cpu, cases=len(cases), ops=sum(len(c.ops) for c in cases),
              corr_fail=0, oracle_fail=0, crashed=len(crashed))
    oracle_fails = []
    corr_fails = []
    for k, c in enumerate(cases):
        ro = reals[k]
        if ro is None or len(ro) < len(c.ops):
            detail = (crashed[0][2][-600:] if crashed else "")
            unsupported = [cr[2] for cr in crashed if "unsupported operation" in cr[2] and "does not indicate a bug in the program" in cr[2]]
            if unsupported:
                # the interpreter (Miri) lacks an operation the code under test uses (e.g. a SIMD intrinsic it does not
                # emulate): this says nothing about the implementation, but the tie for this configuration cannot be run, so
                # the theorems are not shown to speak about this code - reported as a broken correspondence, without input
                if not any(d.get("stream", "").startswith("tie not executable") and d.get("config") == config for d in res.corr_pending):
                    import re as _re
                    m = _re.search(r"unsupported operation: ([^\n]{0,200})", unsupported[0])
                    res.corr_pending.append(dict(kind="correspondence-broken", stream=f"tie not executable: {pid}/{config}", config=config, cpu=cpu, cfg=cfgline,
                                                 detail="the interpreter does not support an operation used by the code under test: " + (m.group(1) if m else "")
                                                        + " - not a failure of the implementation; the model/code correspondence for this configuration could not be run",
                                                 first_unexecuted_case=c.ops[:6]))
                continue
            oracle_fails.append((k, f"runner crashed/aborted inside this case (outputs: {0 if ro is None else len(ro)} of {len(c.ops)}) {detail}"))
            continue
        if c.oracle:
            msg = c.oracle(ro)
            if msg:
                oracle_fails.append((k, msg))
        if any(o == "panic" for o in ro):
            oracle_fails.append((k, "a safe API call panicked: `" + c.ops[ro.index("panic")][:80] + "`"))
        d = hh.first_diff(ro, models[k])
        if d is not None:
            corr_fails.append((k, d))
    if P.PROPS.get(pid, {}).get("spec_oracle"):
        oracle_fails += spec_oracle(bs, reals, workdir, tag, cfgline)
    post = P.PROPS.get(pid, {}).get("post")
    if post:
        oracle_fails += post(bs, cases, reals, info)
    st["oracle_fail"] = len(oracle_fails)
    st["corr_fail"] = len(corr_fails)
    for n_rep, (k, msg) in enumerate(oracle_fails[:3]):
        rep = dict(kind="impl-violates-property", config=config, cpu=cpu, cfg=cfgline, message=msg,
                   ops=cases[k].ops, actual=reals[k], model=models[k])
        # minimise the first failing history on the native runner (greedy op deletion)
        if n_rep == 0 and binp_for_shrink.get(tag) and cases[k].cons:
            try:
                sh = hh.shrink_oracle_failure(binp_for_shrink[tag][0], cases[k], workdir, extra_args=binp_for_shrink[tag][1], cfgline=cfgline)
                if sh:
                    rep["minimised_ops"], rep["minimised_actual"], rep["minimised_message"], rep["minimised_cons"] = sh
            except Exception as e:      # shrinking is best effort
                rep["shrink_error"] = str(e)[:200]
        res.replay(rep)
    res.corr_pending += [dict(kind="correspondence-broken", stream=f"corr:{pid}/{cases[k].name}", config=config, cpu=cpu,
                              cfg=cfgline, first_diff_op=cases[k].ops[d] if d < len(cases[k].ops) else None,
                              ops=cases[k].ops[:d + 1], actual=(reals[k] or [])[:d + 1], model=(models[k] or [])[:d + 1])
                         for k, d in corr_fails[:3]]
    if mbad:
        res.corr_pending.append(dict(kind="correspondence-broken", stream="model driver failed", detail=str(mbad)[:500]))
    res.n_oracle_fail += len(oracle_fails)
    res.n_corr_fail += len(corr_fails)
    for c in cases:
        res.keys.add(c.key())
        if c.nontrivial():
            res.nontrivial.add(c.key())
        for t in c.tags:
            res.dist[t] += 1
    res.evals += len(cases)
    res.ops += st["ops"]
    res.validated += sum(1 for k in range(len(cases)) if reals[k] is not None and models[k] is not None
                         and hh.first_diff(reals[k], models[k]) is None)
    if len(res.samples) < 3 and cases:
        i = r.randrange(len(cases))
        c = cases[i]
        res.samples.append(dict(config=config, ops=[o[:200] for o in c.ops[:12]], outputs=[o[:200] for o in (reals[i] or [])[:12]]))
    return st


def hash_str(s):
    import hashlib
    return int(hashlib.sha1(s.encode()).hexdigest()[:8], 16)


def main(argv):
    pid, tier = argv[1], argv[2]
    replay = None
    if "--replay" in argv:
        replay = argv[argv.index("--replay") + 1]
    seed = int(os.environ.get("VERIF_SEED", "1"))
    if tier not in ("quick", "thorough"):
        tier = os.environ.get("VERIF_TIER", "quick")
    res = Result(pid, tier, seed)
    res.corr_pending = []
    res.n_oracle_fail = res.n_corr_fail = 0
    res.keys, res.nontrivial, res.dist = set(), set(), collections.Counter()
    res.evals = res.ops = res.validated = 0
    res.samples = []
    res.proof_broken = []
    special = T.SPECIAL.get(pid)
    if replay:
        return do_replay(pid, replay)
    workdir = os.path.join(hh.BUILD, "work", pid)
    os.makedirs(workdir, exist_ok=True)
    import glob
    for f in glob.glob(os.path.join(workdir, "*.ops")) + glob.glob(os.path.join(workdir, "*.out")):
        try:
            os.unlink(f)      # op files of earlier runs must not count towards this run's coverage
        except OSError:
            pass
    pre = T.PRE.get(pid)
    if pre:
        pre(res)
    proofs_ok = stage_lean(res, pid, tier == "thorough")
    configs_stats = []
    if pid in P.PROPS:
        configs = P.PROPS[pid][tier if tier in ("quick", "thorough") else "quick"]
        built = hh.build_runners(configs)
        for c in configs:
            binp, blog = built[c]
            if binp is None:
                # the crate no longer builds in this configuration: that is itself a finding
                res.replay(dict(kind="impl-violates-property", config=c, message="crate does not build in this configuration", log=blog[-3000:]))
                res.n_oracle_fail += 1
                continue
            info = hh.runner_info(binp)
            configs_stats.append(run_config(res, pid, tier, seed, c, binp, info, workdir))
            # masked-CPUID runs (std builds without compile-time features: run-time detection decides)
            if P.PROPS[pid].get("cpus") and "-std-" in c and info.get("tf_avx2") == "0" and info.get("tf_sse41") == "0":
                for cpu in P.PROPS[pid]["cpus"]:
                    minfo = hh.runner_info(binp, cpu)
                    if not minfo or "arch" not in minfo:
                        res.notes.append(f"CPUID faulting unavailable: masked run {c}/{cpu} not executed")
                        continue
                    configs_stats.append(run_config(res, pid, tier, seed, c, binp, minfo, workdir, cpu=cpu))
    if special:
        special(res, tier, seed, workdir, configs_stats)
    # coverage-guided search over API histories on the real crate (support tool, see lib/fuzzstage.py)
    try:
        fuzzstage.stage(res, pid, tier, seed, workdir, stats=configs_stats)
    except Exception as e:
        res.notes.append(f"coverage-guided search stage failed to run ({str(e)[:200]}): not executed")
    # which regions of the crate did the streams of this run execute; escalate on new, unexercised code
    try:
        covstage.stage(res, pid, tier, seed, workdir, configs_stats)
    except Exception as e:
        res.notes.append(f"tie-coverage stage failed to run ({str(e)[:200]}): not executed")
    # a proof obligation or the correspondence broke but no oracle failed yet: search the implementation
    # for a concrete input violating the property itself (fresh seeds, oracles only, time-boxed)
    if res.n_oracle_fail == 0 and (res.corr_pending or res.proof_broken) and pid in P.PROPS:
        t_search = time.time()
        tried = 0
        configs = P.PROPS[pid][tier if tier in ("quick", "thorough") else "quick"]
        built = hh.build_runners(configs[:2])
        for it in range(1, 40):
            if time.time() - t_search > 60 or res.n_oracle_fail:
                break
            for c in configs[:2]:
                binp, _ = built[c]
                if binp is None:
                    continue
                info = hh.runner_info(binp)
                st = run_config(res, pid, "quick", seed * 7919 + it, c, binp, info, workdir, skip_model=True, label=f"search{it}-{c}")
                tried += st["cases"]
                if res.n_oracle_fail:
                    break
        if not res.n_oracle_fail and pid in fuzzstage.FUZZ_PIDS:
            try:
                fuzzstage.stage(res, pid, tier, seed * 31 + 7, workdir, secs=60, stats=configs_stats)
            except Exception as e:
                res.notes.append(f"coverage-guided search after break failed to run: {str(e)[:200]}")
        res.cov["search_after_break"] = dict(extra_cases=tried, seconds=round(time.time() - t_search, 1), found=bool(res.n_oracle_fail))
    return finish(res, proofs_ok, configs_stats)


def finish(res, proofs_ok, configs_stats):
    pid = res.pid
    level = T.LEVEL.get(pid, "proof")
    # verdict
    if res.n_oracle_fail == 0 and (res.corr_pending or res.proof_broken):
        # correspondence or proof broken, but no concrete failing input found by the oracles
        if res.proof_broken:
            res.replay(dict(kind="proof-broken", theorem=[b[0] for b in res.proof_broken], detail=[b[1] for b in res.proof_broken][:3],
                            note="no concrete failing input was found by the property oracles on the implementation"), nofail=True)
        else:
            res.replay(dict(kind="correspondence-broken", disagreements=res.corr_pending[:5],
                            note="the implementation no longer behaves like the Lean model on these ops, so the theorems no longer speak about "
                                 "this code; no input violating the property's own oracle was found"), nofail=True)
    elif res.n_oracle_fail and res.corr_pending:
        res.notes.append(f"{len(res.corr_pending)} model disagreements recorded in addition to the oracle failures")
    cov = res.cov
    cov.update(dict(
        evaluations=res.evals, ops_executed=res.ops, distinct_nontrivial=len(res.nontrivial), distinct=len(res.keys),
        rule="cases = self-contained op histories produced by lib/gen.py from one PRNG seeded with VERIF_SEED; distinct = sha1 of the op text; "
             "non-trivial = contains a non-empty append/write/hash or a restore",
        samples=res.samples or [dict(note="no dynamic cases for this property")],
        traces_validated_against_impl=res.validated,
        model_disagreements=res.n_corr_fail, oracle_failures=res.n_oracle_fail,
        configurations=configs_stats, distribution=dict(res.dist.most_common(80)),
    ))
    if level == "translation_validation":
        cov.setdefault("programs", max(1, len(configs_stats)))
        cov.setdefault("disagreements_checked", res.n_corr_fail)
    if level == "other":
        cov.setdefault("explanation", T.EXPLAIN.get(pid, "see DESIGN.md"))
    ev = dict(property_id=pid, tier=res.tier if res.tier in ("quick", "thorough") else "quick", seed=res.seed, level=level, coverage=cov,
              assumptions=T.ASSUME.get(pid, []) + res.assumptions, wall_s=round(time.time() - res.t0, 2),
              violations=len(res.violations), notes=res.notes)
    hh.write_evidence(pid, ev)
    if res.violations:
        for p, nofail in res.violations[:5]:
            fail_line(pid, p, nofail)
        return 1
    log(f"{pid} {res.tier}: ok  ({res.evals} cases, {res.ops} ops, {cov.get('discharged')}/{cov.get('obligations')} theorems, {ev['wall_s']}s)")
    return 0


def do_replay(pid, path):
    obj = json.load(open(path))
    ops = obj.get("ops") or (obj.get("disagreements") or [{}])[0].get("ops")
    if not ops:
        print(json.dumps(obj, indent=1)[:4000])
        return 0
    config = obj.get("config") or (obj.get("disagreements") or [{}])[0].get("config") or "dev-std-base"
    binp, blog = hh.build_runner(config)
    hh.lake_build(["driver"])
    info = hh.runner_info(binp)
    c = hh.Case(ops)
    wd = os.path.join(hh.BUILD, "work", "replay")
    reals, _ = hh.run_real(binp, [c], wd, "replay")
    models, _ = hh.run_model([c], wd, "replay", info["_line"])
    for o, a, m in zip(ops, reals[0] or [], models[0] or []):
        mark = "  " if a == m else "!!"
        print(f"{mark} {o[:100]}\n     real : {a[:120]}\n     model: {m[:120]}")
    return 0


if __name__ == "__main__":
    try:
        sys.exit(main(sys.argv))
    except Exception:
        tb = traceback.format_exc()
        sys.stderr.write(tb)
        # an internal error of the machinery (typically: outputs of an unforeseen shape on a changed tree) means the
        # property is no longer shown to hold: report it as such instead of dying silently
        try:
            pid = sys.argv[1]
            seed = int(os.environ.get("VERIF_SEED", "1"))
            pth = hh.write_replay(pid, seed, 99, dict(kind="check-internal-error", property=pid, theorem=["the check itself failed to complete"],
                                                      detail=tb[-3000:], note="no verdict could be computed; nothing was shown to hold"))
            fail_line(pid, pth, nofail=True)
            sys.exit(1)
        except Exception:
            sys.exit(2)
