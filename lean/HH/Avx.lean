import HH.Packet
import HH.Portable
import HH.Intrin.X86
/-!
# HH.Avx — model of `src/x86/avx.rs` + `src/x86/v4x64u.rs`, statement by statement over the
modelled intrinsics.  `V4x64U` is an `R256` (pair of 128-bit lanes);
`V4x64U::new(highest, high, low, lowest) = _mm256_set_epi64x(..)`.
-/
namespace HH
namespace Avx
open X86

/-- the four lane registers of `AvxHash` -/
structure Regs where
  v0 : R256
  v1 : R256
  mul0 : R256
  mul1 : R256
deriving DecidableEq, Repr

structure State where
  r : Regs
  buffer : Pkt
deriving DecidableEq, Repr

def shufImm : Nat := (2 <<< 6) ||| (3 <<< 4) ||| (0 <<< 2) ||| 1
/-- `V4x64U::rotate_by_32` -/
def rotateBy32 (x : R256) : R256 := shuffle256_epi32 x shufImm
/-- `V4x64U::shr_by_32` -/
def shrBy32 (x : R256) : R256 := srli256_epi64 x 32
/-- `V4x64U::mul_low32` -/
def mulLow32 (a b : R256) : R256 := mul256_epu32 a b
/-- `V4x64U::and_not(self, neg_mask) = _mm256_andnot_si256(neg_mask, self)` -/
def andNot (self negMask : R256) : R256 := andnot256 negMask self

def mul0Init := set256_epi64x 0x243f6a8885a308d3#64 0x13198a2e03707344#64 0xa4093822299f31d0#64 0xdbe6d5d5fe4cce2f#64
def mul1Init := set256_epi64x 0x452821e638d01377#64 0xbe5466cf34e90c6c#64 0xc0acf169b5f18a8c#64 0x3bd39e10cb0ef593#64

/-- `AvxHash::force_new`: the key is read with one aligned 32-byte load -/
def new (key : V4) : State :=
  let k := set256_epi64x key.l3 key.l2 key.l1 key.l0      -- `_mm256_load_si256(key.0.as_ptr())`
  { r := { v0 := xor256 k mul0Init, v1 := xor256 (rotateBy32 k) mul1Init, mul0 := mul0Init, mul1 := mul1Init },
    buffer := Pkt.default }

/-- `impl Default for AvxHash` (after the `fix:` commit) -/
def default : State := new V4.zero

/-- `AvxHash::zipper_merge` -/
def zipperMerge (v : R256) : R256 :=
  let hi := 0x070806090D0A040B#64
  let lo := 0x000F010E05020C03#64
  shuffle256_epi8 v (set256_epi64x hi lo hi lo)

/-- `AvxHash::update` -/
def update (s : Regs) (packet : R256) : Regs :=
  let v1 := add256_epi64 s.v1 packet
  let v1 := add256_epi64 v1 s.mul0
  let mul0 := xor256 s.mul0 (mulLow32 v1 (shrBy32 s.v0))
  let v0 := add256_epi64 s.v0 s.mul1
  let mul1 := xor256 s.mul1 (mulLow32 v0 (shrBy32 v1))
  let v0 := add256_epi64 v0 (zipperMerge v1)
  let v1 := add256_epi64 v1 (zipperMerge v0)
  ⟨v0, v1, mul0, mul1⟩

/-- `AvxHash::data_to_lanes` followed by `update` -/
def updPacket (s : Regs) (pkt : List (BitVec 8)) : Regs := update s (loadu_si256 pkt 0)

/-- `AvxHash::permute` -/
def permute (v : R256) : R256 :=
  let indices := set256_epi64x 0x0000000200000003#64 0x0000000000000001#64 0x0000000600000007#64 0x0000000400000005#64
  permutevar8x32_epi32 v indices

def permuteAndUpdate (s : Regs) : Regs := update s (permute s.v0)

def rounds : Nat → Regs → Regs
  | 0, s => s
  | n+1, s => rounds n (permuteAndUpdate s)

/-- `AvxHash::remainder(bytes)`; `bytes = buf[..n]`.  The 16-byte load is an *aligned* load of the
hasher's own buffer; the masked loads touch only whole 4-byte groups below the count. -/
def remainder (buf : List (BitVec 8)) (n : Nat) : R256 :=
  let bytes := buf.take n
  let size256 := broadcastd_epi32 (cvtsi64_si128 (BitVec.ofNat 64 n))
  let sizeMod4 := n % 4
  let size := castsi256_si128 size256
  if (n / 16) % 2 = 1 then
    let packetL := loadu_si128 buf 0                                   -- `_mm_load_si128`
    let intMask := cmpgt_epi32 size (set_epi32 31 27 23 19)
    let intLanes := maskload_epi32 buf 16 intMask
    let rem := bytes.drop ((n - sizeMod4) + sizeMod4 - 4)
    let last4 := le32 rem
    let packetH := insert_epi32 intLanes last4 3
    let packetL256 := castsi128_si256 packetL
    inserti128_si256 packetL256 packetH 1
  else
    let intMask := cmpgt_epi32 size (set_epi32 15 11 7 3)
    let packetL := maskload_epi32 buf 0 intMask
    let rem := bytes.drop (n - sizeMod4)
    let last3 := unorderedLoad3 rem
    let packetH := cvtsi64_si128 last3
    let packetL256 := castsi128_si256 packetL
    inserti128_si256 packetL256 packetH 1

/-- `AvxHash::update_remainder` -/
def updateRemainder (x : State) : Regs :=
  let size := x.buffer.len
  let size256 := broadcastd_epi32 (cvtsi64_si128 (BitVec.ofNat 64 size))
  let s := x.r
  let v0 := add256_epi64 s.v0 size256
  let shiftedLeft := sllv256_epi32 s.v1 size256
  let tip := broadcastd_epi32 (cvtsi32_si128 32)
  let shiftedRight := srlv256_epi32 s.v1 (sub256_epi32 tip size256)
  let v1 := or256 shiftedLeft shiftedRight
  let packet := remainder x.buffer.buf x.buffer.idx
  update { s with v0 := v0, v1 := v1 } packet

def finalizeCommon (n : Nat) (x : State) : Regs :=
  let s := if !x.buffer.isEmpty then updateRemainder x else x.r
  rounds n s

/-- `AvxHash::finalize64` -/
def finalize64 (x : State) : BitVec 64 :=
  let s := finalizeCommon 4 x
  let sum0 := castsi256_si128 (add256_epi64 s.v0 s.mul0)
  let sum1 := castsi256_si128 (add256_epi64 s.v1 s.mul1)
  storel_epi64 (add_epi64 sum0 sum1)

/-- `AvxHash::finalize128` -/
def finalize128 (x : State) : BitVec 64 × BitVec 64 :=
  let s := finalizeCommon 6 x
  let sum0 := castsi256_si128 (add256_epi64 s.v0 s.mul0)
  let sum1 := extracti128_si256 (add256_epi64 s.v1 s.mul1) 1
  storeu_si128 (add_epi64 sum0 sum1)

/-- `AvxHash::modular_reduction(x, init)` -/
def modularReduction (x init : R256) : R256 :=
  let topBits2 := srli256_epi64 x 62
  let ones := cmpeq256_epi64 x x
  let shifted1Unmasked := add256_epi64 x x
  let topBits1 := srli256_epi64 x 63
  let upper8bytes := slli256_si256 ones 8
  let shifted2 := add256_epi64 shifted1Unmasked shifted1Unmasked
  let upperBitOf128 := slli256_epi64 upper8bytes 63
  let zero := setzero256
  let newLowBits2 := unpacklo256_epi64 zero topBits2
  let shifted1 := andNot shifted1Unmasked upperBitOf128
  let newLowBits1 := unpacklo256_epi64 zero topBits1
  xor256 (xor256 (xor256 (xor256 init shifted2) newLowBits2) shifted1) newLowBits1

/-- `AvxHash::finalize256` -/
def finalize256 (x : State) : BitVec 64 × BitVec 64 × BitVec 64 × BitVec 64 :=
  let s := finalizeCommon 10 x
  let sum0 := add256_epi64 s.v0 s.mul0
  let sum1 := add256_epi64 s.v1 s.mul1
  storeu_si256 (modularReduction sum1 sum0)

/-- `AvxHash::append` -/
def append (x : State) (data : List (BitVec 8)) : State :=
  let r := appendG updPacket (x.r, x.buffer) data
  ⟨r.1, r.2⟩

def r256ToV4 (r : R256) : V4 := ⟨lo64 r.lo, hi64 r.lo, lo64 r.hi, hi64 r.hi⟩
def v4ToR256 (v : V4) : R256 := set256_epi64x v.l3 v.l2 v.l1 v.l0

/-- `as_arr` of each register — the conversion at the top of `AvxHash::checkpoint` -/
def toPortable (s : Regs) : St := ⟨r256ToV4 s.v0, r256ToV4 s.v1, r256ToV4 s.mul0, r256ToV4 s.mul1⟩
/-- the `V4x64U::new(p[3], p[2], p[1], p[0])` conversions of `force_from_checkpoint` -/
def fromPortable (p : St) : Regs := ⟨v4ToR256 p.v0, v4ToR256 p.v1, v4ToR256 p.mul0, v4ToR256 p.mul1⟩

/-- `AvxHash::checkpoint` -/
def checkpoint (x : State) : List (BitVec 8) := P.checkpoint ⟨toPortable x.r, x.buffer⟩

/-- `AvxHash::force_from_checkpoint` -/
def fromCheckpoint (data : List (BitVec 8)) : State :=
  let p := P.fromCheckpoint data
  ⟨fromPortable p.st, p.buffer⟩

end Avx
end HH
