import HH.Proofs.Obs
import HH.Props.C02
import HH.Props.C06
import HH.Props.C14
/-!
# C03 — the NEON back end equals portable for every key, input and width, and its checkpoints
are interchangeable with every other back end's

`NeonB.*` is the model of `src/aarch64.rs`, tied to the working-tree source by running that source
under Miri's aarch64 interpreter on every check.
-/
namespace HH.C03

theorem neon_hash64 (k : V4) (d : List (BitVec 8)) : NeonB.finalize64 (NeonB.append (NeonB.new k) d) = P.hash64 k d := by
  have := C02.backend_eq_portable .neon k (Hasher.neon (NeonB.new k)) rfl [d] .w64
  simpa [Hasher.finalize, Hasher.append, Hasher.finalize64, P.hash64] using this
theorem neon_hash128 (k : V4) (d : List (BitVec 8)) : NeonB.finalize128 (NeonB.append (NeonB.new k) d) = P.hash128 k d := by
  have := C02.backend_eq_portable .neon k (Hasher.neon (NeonB.new k)) rfl [d] .w128
  simpa [Hasher.finalize, Hasher.append, Hasher.finalize128, P.hash128] using this
theorem neon_hash256 (k : V4) (d : List (BitVec 8)) : NeonB.finalize256 (NeonB.append (NeonB.new k) d) = P.hash256 k d := by
  have := C02.backend_eq_portable .neon k (Hasher.neon (NeonB.new k)) rfl [d] .w256
  simpa [Hasher.finalize, Hasher.append, Hasher.finalize256, P.hash256] using this

/-- any chunking -/
theorem neon_streamed (k : V4) (chunks : List (List (BitVec 8))) (w : Width) :
    (chunks.foldl Hasher.append (Hasher.neon (NeonB.new k))).finalize w
      = (chunks.foldl Hasher.append (Hasher.portable (P.new k))).finalize w :=
  C02.backend_eq_portable .neon k _ rfl chunks w

/-- checkpoints are interchangeable at every cut position: NEON bytes equal the bytes any other
back end produces for the same stream, NEON restores any back end's checkpoint (and vice versa)
into the same abstract state -/
theorem neon_checkpoint_bytes (b : Backend) (k : V4) (h : Hasher) (hh : Hasher.new b k = some h)
    (c1 c2 : List (List (BitVec 8))) (e : c1.flatten = c2.flatten) :
    (c1.foldl Hasher.append (Hasher.neon (NeonB.new k))).checkpoint = (c2.foldl Hasher.append h).checkpoint :=
  (C14.canonical .neon b k _ h rfl hh c1 c2 e).1

theorem neon_restores_any (h : Hasher) (hi : h.Inv) (suffix : List (List (BitVec 8))) (w : Width) :
    (suffix.foldl Hasher.append (Hasher.neon (NeonB.fromCheckpoint h.checkpoint))).finalize w
      = (suffix.foldl Hasher.append h).finalize w :=
  (C06.hop_transparent h hi .neon _ rfl suffix).1 w

theorem any_restores_neon (x : NeonB.State) (hi : x.buffer.Inv) (b : Backend) (h' : Hasher)
    (hr : Hasher.fromCheckpoint b (NeonB.checkpoint x) = some h') (suffix : List (List (BitVec 8))) (w : Width) :
    (suffix.foldl Hasher.append h').finalize w = (suffix.foldl Hasher.append (Hasher.neon x)).finalize w :=
  (C06.hop_transparent (Hasher.neon x) hi b h' hr suffix).1 w

theorem neon_eq_spec64 (k : V4) (d : List (BitVec 8)) : NeonB.finalize64 (NeonB.append (NeonB.new k) d) = Spec.hash64 k d := by
  rw [neon_hash64, C01.hash64_eq_spec]

end HH.C03
