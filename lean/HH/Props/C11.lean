import HH.Proofs.Obs
import HH.Props.C05
import HH.Props.C06
import HH.Props.C08
/-!
# C11 — restoring from arbitrary 164 bytes is total and back-end independent

`c` ranges over ALL byte lists of length 164 (arbitrary lanes, arbitrary buffer bytes, count
field over all of u32).  Totality/no-panic in both profiles is C08; here: the restored hasher
satisfies the packet invariant on every back end, all back ends are in the same abstract state
(hence every later observable result is equal), and the laws of a fresh hasher hold.
-/
namespace HH.C11

theorem restored_inv (b : Backend) (c : List (BitVec 8)) (hc : c.length = 164) (h : Hasher)
    (hh : Hasher.fromCheckpoint b c = some h) : h.Inv ∧ h.abs = P.decodeAbs c :=
  let r := Hasher.fromCheckpoint_abs b c hc h hh
  ⟨r.2, r.1⟩

/-- every later observable result is the same on every back end -/
theorem backend_independent (b1 b2 : Backend) (c : List (BitVec 8)) (hc : c.length = 164) (h1 h2 : Hasher)
    (e1 : Hasher.fromCheckpoint b1 c = some h1) (e2 : Hasher.fromCheckpoint b2 c = some h2)
    (hist : List (List (BitVec 8))) :
    (∀ w, (hist.foldl Hasher.append h1).finalize w = (hist.foldl Hasher.append h2).finalize w) ∧
    (hist.foldl Hasher.append h1).checkpoint = (hist.foldl Hasher.append h2).checkpoint ∧
    (hist.foldl Hasher.append h1).finalize64 = (hist.foldl Hasher.append h2).finalize64 := by
  have r1 := Hasher.fromCheckpoint_abs b1 c hc h1 e1
  have r2 := Hasher.fromCheckpoint_abs b2 c hc h2 e2
  exact Hasher.obs_eq h1 h2 r1.2 r2.2 (r1.1.trans r2.1.symm) hist

/-- a restored hasher obeys the laws of a fresh one -/
theorem restored_laws (b : Backend) (c : List (BitVec 8)) (hc : c.length = 164) (h : Hasher)
    (hh : Hasher.fromCheckpoint b c = some h) :
    -- an empty append changes nothing
    ((h.append []).checkpoint = h.checkpoint ∧ ∀ w, (h.append []).finalize w = h.finalize w) ∧
    -- streaming invariance
    (∀ (chunks : List (List (BitVec 8))) (w : Width), (chunks.foldl Hasher.append h).finalize w = (h.append chunks.flatten).finalize w) ∧
    -- its own checkpoints restore transparently, on any back end
    (∀ (b' : Backend) (h' : Hasher), Hasher.fromCheckpoint b' h.checkpoint = some h' →
      ∀ (suffix : List (List (BitVec 8))) (w : Width), (suffix.foldl Hasher.append h').finalize w = (suffix.foldl Hasher.append h).finalize w) := by
  have r := Hasher.fromCheckpoint_abs b c hc h hh
  refine ⟨?_, ?_, ?_⟩
  · have e := C05.empty_append h r.2; exact ⟨e.2.1, e.2.2⟩
  · intro chunks w; exact C05.streaming h r.2 chunks w
  · intro b' h' hr suffix w; exact (C06.hop_transparent h r.2 b' h' hr suffix).1 w

/-- totality, in the panicking semantics: restoring ANY 164-byte array fires no panic point, with or
without overflow checks / debug assertions, on every pointer width ≥ 16 bits (so also on 32-bit
targets, where `count as usize` is the whole range of `usize`), and then no later safe call
sequence panics either -/
theorem restore_never_panics (p : Profile) (hW : C08.WideEnough p) (c : List (BitVec 8)) (hc : c.length = 164)
    (chunks : List (List (BitVec 8))) :
    PP.fromCheckpoint p c = .ok (P.fromCheckpoint c) ∧
    C08.appendAll p (P.fromCheckpoint c) chunks = .ok (chunks.foldl P.append (P.fromCheckpoint c)) ∧
    PP.finalize64 p (chunks.foldl P.append (P.fromCheckpoint c)) = .ok (P.finalize64 (chunks.foldl P.append (P.fromCheckpoint c))) := by
  have hi := (P.fromCheckpoint_abs c hc).2
  have h := C08.history_ok p hW chunks (P.fromCheckpoint c) hi
  exact ⟨C08.fromCheckpoint_ok p hW c hc, h.1, h.2.1⟩

/-- the pending count of the decoded state is < 32 whatever the count field says -/
theorem decoded_count_lt (c : List (BitVec 8)) : (P.decodeAbs c).2.length < 32 := P.decode_pending_lt c

theorem decode_split (lanes buf cnt : List (BitVec 8)) (hl : lanes.length = 128) (hb : buf.length = 32) :
    P.decodeAbs (lanes ++ (buf ++ cnt)) =
      (⟨P.v4OfBytes lanes, P.v4OfBytes (lanes.drop 32), P.v4OfBytes (lanes.drop 64), P.v4OfBytes (lanes.drop 96)⟩,
        buf.take (min (le32 cnt).toNat 31)) := by
  have d128 : List.drop 128 (lanes ++ (buf ++ cnt)) = buf ++ cnt := by
    rw [List.drop_append_of_le_length (by omega), List.drop_of_length_le (by omega)]; rfl
  have d160 : List.drop 160 (lanes ++ (buf ++ cnt)) = cnt := by
    show List.drop (128 + 32) _ = _
    rw [← List.drop_drop, d128, List.drop_append_of_le_length (by omega), List.drop_of_length_le (by omega)]; rfl
  have t32 : List.take 32 (buf ++ cnt) = buf := by
    rw [List.take_append_of_le_length (by omega), List.take_of_length_le (by omega)]
  simp only [P.decodeAbs, d128, d160, t32, Prod.mk.injEq, and_true]
  simp only [P.v4OfBytes, P.dataToLanes, le64, List.drop_drop, List.getD_eq_getElem?_getD, List.getElem?_drop]
  simp [List.getElem?_append_left, hl]

/-- which of the 164 bytes matter: two arrays with the same 128 lane bytes, the same clamped count and the same first
`count` buffer bytes restore to the same logical state — stale buffer bytes beyond the count and count values above 31
are ignored (on every back end, by `restored_inv`) -/
theorem stale_bytes_ignored (lanes buf1 buf2 cnt1 cnt2 : List (BitVec 8)) (hl : lanes.length = 128)
    (hb1 : buf1.length = 32) (hb2 : buf2.length = 32)
    (hn : min (le32 cnt1).toNat 31 = min (le32 cnt2).toNat 31)
    (hp : buf1.take (min (le32 cnt1).toNat 31) = buf2.take (min (le32 cnt1).toNat 31)) :
    P.decodeAbs (lanes ++ (buf1 ++ cnt1)) = P.decodeAbs (lanes ++ (buf2 ++ cnt2)) := by
  rw [decode_split _ _ _ hl hb1, decode_split _ _ _ hl hb2, ← hn, hp]

/-- hasher-level form: the two arrays restored on any two back ends give hashers that agree on every later digest,
checkpoint and `finish` after any history -/
theorem restore_ignores_stale (b1 b2 : Backend) (lanes buf1 buf2 cnt1 cnt2 : List (BitVec 8)) (hl : lanes.length = 128)
    (hb1 : buf1.length = 32) (hb2 : buf2.length = 32) (hc1 : cnt1.length = 4) (hc2 : cnt2.length = 4)
    (hn : min (le32 cnt1).toNat 31 = min (le32 cnt2).toNat 31)
    (hp : buf1.take (min (le32 cnt1).toNat 31) = buf2.take (min (le32 cnt1).toNat 31))
    (h1 h2 : Hasher) (e1 : Hasher.fromCheckpoint b1 (lanes ++ (buf1 ++ cnt1)) = some h1)
    (e2 : Hasher.fromCheckpoint b2 (lanes ++ (buf2 ++ cnt2)) = some h2) (hist : List (List (BitVec 8))) :
    (∀ w, (hist.foldl Hasher.append h1).finalize w = (hist.foldl Hasher.append h2).finalize w) ∧
    (hist.foldl Hasher.append h1).checkpoint = (hist.foldl Hasher.append h2).checkpoint ∧
    (hist.foldl Hasher.append h1).finalize64 = (hist.foldl Hasher.append h2).finalize64 := by
  have r1 := Hasher.fromCheckpoint_abs b1 _ (by simp only [List.length_append]; omega) h1 e1
  have r2 := Hasher.fromCheckpoint_abs b2 _ (by simp only [List.length_append]; omega) h2 e2
  exact Hasher.obs_eq h1 h2 r1.2 r2.2
    (by rw [r1.1, r2.1]; exact stale_bytes_ignored lanes buf1 buf2 cnt1 cnt2 hl hb1 hb2 hn hp) hist

/-- the checkpoint of a hasher restored from ANY 164 bytes is the normal form `encode (decode c)` of those bytes, the
same on every back end; re-restoring it is a fixed point (`C14.idempotent`) -/
theorem recheckpoint_normal_form (b : Backend) (c : List (BitVec 8)) (hc : c.length = 164) (h : Hasher)
    (hh : Hasher.fromCheckpoint b c = some h) :
    h.checkpoint = P.encodeAbs (P.decodeAbs c) ∧ h.checkpoint.length = 164 := by
  have r := Hasher.fromCheckpoint_abs b c hc h hh
  have e : h.checkpoint = P.encodeAbs (P.decodeAbs c) := by rw [Hasher.checkpoint_abs h r.2, r.1]
  refine ⟨e, ?_⟩
  rw [e]
  exact P.encode_length _ (Nat.le_of_lt (P.decode_pending_lt c))

/-- non-vacuity: count 0xFFFFFFFF with garbage beyond byte 31 of the buffer and count 31 with zeros there meet the
premises of `stale_bytes_ignored` -/
example : min (le32 (List.replicate 4 0xff#8)).toNat 31 = min (le32 [31#8, 0, 0, 0]).toNat 31 ∧
    (List.replicate 32 0xaa#8).take 31 = (List.replicate 31 0xaa#8 ++ [0#8]).take 31 := by decide

/-- the count clamp of the pinned tree (`min(len, 32)`): a full buffer, `buf_index = 32` -/
def legacyFromCheckpoint (data : List (BitVec 8)) : P.State :=
  let p := P.fromCheckpoint data
  let buffered := (data.drop 128).take 32
  let len := (le32 (data.drop 160)).toNat
  ⟨p.st, (Pkt.default.fill (buffered.take (min len 32))).1⟩

/-- the defect, demonstrated in the kernel: with count = 32 the invariant `idx < 32` is violated
and an empty append changes the 64-bit result -/
theorem legacy_count32_breaks :
    let c := zeros 160 ++ [32#8, 0#8, 0#8, 0#8]
    (legacyFromCheckpoint c).buffer.idx = 32 ∧
    P.finalize64 (P.append (legacyFromCheckpoint c) []) ≠ P.finalize64 (legacyFromCheckpoint c) := by
  decide +kernel

/-- non-vacuity: count field 0xFFFFFFFF, all-ones lanes -/
example : ∃ h, Hasher.fromCheckpoint .avx (List.replicate 164 0xff#8) = some h := ⟨_, rfl⟩

end HH.C11
