// Shared, allocation-free executor of the line protocol on the REAL crate.
// Included (via #[path]) by every runner: native `drive`, the Miri cross-target runners, the
// no_std/no_main wasm runner.  One operation per line in, one canonical result per line out.
#![allow(dead_code, unused_variables, unused_mut, clippy::all)]

use core::fmt::Write as FmtWrite;
use core::hash::Hasher as CoreHasher;
use core::hash::BuildHasher as _;
use highway::{HighwayBuildHasher, HighwayHash, HighwayHasher, Key, PortableHash};
#[cfg(target_arch = "x86_64")]
use highway::{AvxHash, SseHash};
#[cfg(target_arch = "aarch64")]
use highway::NeonHash;
#[cfg(all(target_family = "wasm", target_feature = "simd128"))]
use highway::WasmHash;

#[path = "intrin.rs"]
pub mod intrin;

pub const NH: usize = 32;

fn parse_u128_hex(s: &[u8]) -> Option<u128> {
    if s.is_empty() || s.len() > 32 {
        return None;
    }
    let mut v: u128 = 0;
    for &c in s {
        v = (v << 4) | hexval(c)? as u128;
    }
    Some(v)
}

#[derive(Clone)]
pub enum AnyHasher {
    Portable(PortableHash),
    Auto(HighwayHasher),
    #[cfg(target_arch = "x86_64")]
    Sse(SseHash),
    #[cfg(target_arch = "x86_64")]
    Avx(AvxHash),
    #[cfg(target_arch = "aarch64")]
    Neon(NeonHash),
    #[cfg(all(target_family = "wasm", target_feature = "simd128"))]
    Wasm(WasmHash),
}

macro_rules! each {
    ($s:expr, $h:ident => $e:expr) => {
        match $s {
            AnyHasher::Portable($h) => $e,
            AnyHasher::Auto($h) => $e,
            #[cfg(target_arch = "x86_64")]
            AnyHasher::Sse($h) => $e,
            #[cfg(target_arch = "x86_64")]
            AnyHasher::Avx($h) => $e,
            #[cfg(target_arch = "aarch64")]
            AnyHasher::Neon($h) => $e,
            #[cfg(all(target_family = "wasm", target_feature = "simd128"))]
            AnyHasher::Wasm($h) => $e,
        }
    };
}

/// like `each!` but for operations through `core::hash::Hasher` / `std::io::Write`, which
/// `NeonHash` does not implement (src/aarch64.rs has no impl_write!/impl_hasher!): the Neon arm
/// reports `unsupported`.
macro_rules! each_t {
    ($s:expr, $out:expr, $h:ident => $e:expr) => {
        match $s {
            AnyHasher::Portable($h) => $e,
            AnyHasher::Auto($h) => $e,
            #[cfg(target_arch = "x86_64")]
            AnyHasher::Sse($h) => $e,
            #[cfg(target_arch = "x86_64")]
            AnyHasher::Avx($h) => $e,
            #[cfg(target_arch = "aarch64")]
            AnyHasher::Neon(_) => {
                $out.s("unsupported");
                return;
            }
            #[cfg(all(target_family = "wasm", target_feature = "simd128"))]
            AnyHasher::Wasm($h) => $e,
        }
    };
}

/// CPU features as the harness sees them (std detection natively; constants elsewhere).
#[derive(Clone, Copy)]
pub struct Cpu {
    pub sse41: bool,
    pub avx2: bool,
}

/// fixed-size formatting sink (Debug output goes here: caller-supplied, no allocation)
pub struct FixedBuf<const N: usize> {
    pub buf: [u8; N],
    pub len: usize,
}
impl<const N: usize> FixedBuf<N> {
    pub fn new() -> Self {
        FixedBuf { buf: [0; N], len: 0 }
    }
    pub fn as_bytes(&self) -> &[u8] {
        &self.buf[..self.len]
    }
}
impl<const N: usize> FmtWrite for FixedBuf<N> {
    fn write_str(&mut self, s: &str) -> core::fmt::Result {
        let b = s.as_bytes();
        let n = core::cmp::min(b.len(), N - self.len);
        self.buf[self.len..self.len + n].copy_from_slice(&b[..n]);
        self.len += n;
        Ok(())
    }
}

fn hexval(c: u8) -> Option<u8> {
    match c {
        b'0'..=b'9' => Some(c - b'0'),
        b'a'..=b'f' => Some(c - b'a' + 10),
        b'A'..=b'F' => Some(c - b'A' + 10),
        _ => None,
    }
}

/// decode hex (or "-" for empty) into `out`, returns length
pub fn unhex(s: &[u8], out: &mut [u8]) -> Option<usize> {
    if s == b"-" {
        return Some(0);
    }
    if s.len() % 2 != 0 || s.len() / 2 > out.len() {
        return None;
    }
    let mut i = 0;
    while i < s.len() / 2 {
        out[i] = hexval(s[2 * i])? * 16 + hexval(s[2 * i + 1])?;
        i += 1;
    }
    Some(s.len() / 2)
}

fn parse_u64_hex(s: &[u8]) -> Option<u64> {
    if s.is_empty() || s.len() > 16 {
        return None;
    }
    let mut v: u64 = 0;
    for &c in s {
        v = (v << 4) | hexval(c)? as u64;
    }
    Some(v)
}

fn parse_dec(s: &[u8]) -> Option<usize> {
    if s.is_empty() {
        return None;
    }
    let mut v: usize = 0;
    for &c in s {
        if !(b'0'..=b'9').contains(&c) {
            return None;
        }
        v = v.checked_mul(10)?.checked_add((c - b'0') as usize)?;
    }
    Some(v)
}

const HEXD: &[u8; 16] = b"0123456789abcdef";

pub struct Out<'a> {
    pub emit: &'a mut dyn FnMut(&[u8]),
}
impl<'a> Out<'a> {
    pub fn s(&mut self, s: &str) {
        (self.emit)(s.as_bytes())
    }
    pub fn bytes_hex(&mut self, b: &[u8]) {
        if b.is_empty() {
            self.s("-");
            return;
        }
        let mut tmp = [0u8; 64];
        for ch in b.chunks(32) {
            for (i, x) in ch.iter().enumerate() {
                tmp[2 * i] = HEXD[(x >> 4) as usize];
                tmp[2 * i + 1] = HEXD[(x & 15) as usize];
            }
            (self.emit)(&tmp[..2 * ch.len()]);
        }
    }
    pub fn u64_hex(&mut self, v: u64) {
        let mut tmp = [0u8; 16];
        for i in 0..16 {
            tmp[i] = HEXD[((v >> (4 * (15 - i))) & 15) as usize];
        }
        (self.emit)(&tmp);
    }
    pub fn dec(&mut self, mut v: usize) {
        let mut tmp = [0u8; 24];
        let mut i = tmp.len();
        if v == 0 {
            i -= 1;
            tmp[i] = b'0';
        }
        while v > 0 {
            i -= 1;
            tmp[i] = b'0' + (v % 10) as u8;
            v /= 10;
        }
        (self.emit)(&tmp[i..]);
    }
    pub fn nl(&mut self) {
        (self.emit)(b"\n")
    }
}

#[derive(Clone, Copy, PartialEq)]
pub enum Sel {
    Portable,
    Sse,
    Avx,
    Neon,
    Wasm,
    Auto,
}

fn parse_sel(s: &[u8]) -> Option<Sel> {
    Some(match s {
        b"portable" => Sel::Portable,
        b"sse" => Sel::Sse,
        b"avx" => Sel::Avx,
        b"neon" => Sel::Neon,
        b"wasm" => Sel::Wasm,
        b"auto" => Sel::Auto,
        _ => return None,
    })
}

pub fn backend_code(h: &AnyHasher) -> usize {
    match h {
        AnyHasher::Portable(_) => 0,
        AnyHasher::Auto(_) => 9,
        #[cfg(target_arch = "x86_64")]
        AnyHasher::Avx(_) => 1,
        #[cfg(target_arch = "x86_64")]
        AnyHasher::Sse(_) => 2,
        #[cfg(target_arch = "aarch64")]
        AnyHasher::Neon(_) => 3,
        #[cfg(all(target_family = "wasm", target_feature = "simd128"))]
        AnyHasher::Wasm(_) => 4,
    }
}

/// safe constructors (`force == false`) or the unsafe `force_*` ones, guarded by the harness's
/// own view of the CPU so that the process never executes an unsupported instruction.
fn construct(sel: Sel, force: bool, cpu: Cpu, key: Option<Key>, ckpt: Option<[u8; 164]>, dflt: bool) -> Option<AnyHasher> {
    match sel {
        Sel::Portable => Some(AnyHasher::Portable(if dflt {
            PortableHash::default()
        } else if let Some(k) = key {
            PortableHash::new(k)
        } else {
            PortableHash::from_checkpoint(ckpt?)
        })),
        Sel::Auto => Some(AnyHasher::Auto(if dflt {
            HighwayHasher::default()
        } else if let Some(k) = key {
            HighwayHasher::new(k)
        } else {
            HighwayHasher::from_checkpoint(ckpt?)
        })),
        #[cfg(target_arch = "x86_64")]
        Sel::Sse => {
            if dflt {
                if cpu.sse41 { Some(AnyHasher::Sse(SseHash::default())) } else { None }
            } else if force {
                if !cpu.sse41 {
                    return None;
                }
                Some(AnyHasher::Sse(unsafe {
                    if let Some(k) = key { SseHash::force_new(k) } else { SseHash::force_from_checkpoint(ckpt?) }
                }))
            } else if let Some(k) = key {
                SseHash::new(k).map(AnyHasher::Sse)
            } else {
                SseHash::from_checkpoint(ckpt?).map(AnyHasher::Sse)
            }
        }
        #[cfg(target_arch = "x86_64")]
        Sel::Avx => {
            if dflt {
                if cpu.avx2 { Some(AnyHasher::Avx(AvxHash::default())) } else { None }
            } else if force {
                if !cpu.avx2 {
                    return None;
                }
                Some(AnyHasher::Avx(unsafe {
                    if let Some(k) = key { AvxHash::force_new(k) } else { AvxHash::force_from_checkpoint(ckpt?) }
                }))
            } else if let Some(k) = key {
                AvxHash::new(k).map(AnyHasher::Avx)
            } else {
                AvxHash::from_checkpoint(ckpt?).map(AnyHasher::Avx)
            }
        }
        #[cfg(target_arch = "aarch64")]
        Sel::Neon => Some(AnyHasher::Neon(unsafe {
            if dflt {
                NeonHash::default()
            } else if let Some(k) = key {
                NeonHash::force_new(k)
            } else {
                NeonHash::force_from_checkpoint(ckpt?)
            }
        })),
        #[cfg(all(target_family = "wasm", target_feature = "simd128"))]
        Sel::Wasm => Some(AnyHasher::Wasm(if dflt {
            WasmHash::default()
        } else if let Some(k) = key {
            WasmHash::new(k)
        } else {
            WasmHash::from_checkpoint(ckpt?)
        })),
        #[allow(unreachable_patterns)]
        _ => None,
    }
}


/// recording `Hasher`: captures the exact sequence of `write` calls a value's `Hash` impl makes
/// (only `write`/`finish` are defined, so every provided method takes core's default route)
pub struct Rec {
    pub buf: [u8; 2048],
    pub len: usize,
    pub cuts: [usize; 24],
    pub ncuts: usize,
    pub overflow: bool,
}
impl Rec {
    pub fn new() -> Self {
        Rec { buf: [0; 2048], len: 0, cuts: [0; 24], ncuts: 0, overflow: false }
    }
}
impl CoreHasher for Rec {
    fn write(&mut self, b: &[u8]) {
        if self.len + b.len() > self.buf.len() || self.ncuts >= self.cuts.len() {
            self.overflow = true;
            return;
        }
        self.buf[self.len..self.len + b.len()].copy_from_slice(b);
        self.len += b.len();
        self.cuts[self.ncuts] = self.len;
        self.ncuts += 1;
    }
    fn finish(&self) -> u64 {
        0
    }
}

pub trait ValVisitor {
    fn visit<T: core::hash::Hash + ?Sized>(&mut self, v: &T);
}

fn split_colon<'a>(s: &'a [u8], parts: &mut [&'a [u8]; 4]) -> usize {
    let mut n = 0;
    for t in s.split(|&c| c == b':') {
        if n < 4 {
            parts[n] = t;
            n += 1;
        } else {
            return 99;
        }
    }
    n
}

/// parse a value token (`u32:beef`, `str:6869`, `bytes:-`, `pib:u16:7:0102`, `ou64:none`, ...) and show it to
/// the visitor as the corresponding Rust value; false = malformed
pub fn with_val<V: ValVisitor>(tok: &[u8], scratch: &mut [u8], vis: &mut V) -> bool {
    let mut parts: [&[u8]; 4] = [b""; 4];
    let n = split_colon(tok, &mut parts);
    if n == 0 || n == 99 {
        return false;
    }
    let half = scratch.len() / 2;
    let (s1, s2) = scratch.split_at_mut(half);
    macro_rules! int_kind {
        ($kind:expr, $hex:expr, $then:ident) => {{
            let Some(x) = parse_u128_hex($hex) else { return false };
            match $kind {
                b"u8" => $then!(x as u8),
                b"u16" => $then!(x as u16),
                b"u32" => $then!(x as u32),
                b"u64" => $then!(x as u64),
                b"u128" => $then!(x),
                b"usize" => $then!(x as usize),
                b"i8" => $then!(x as u8 as i8),
                b"i16" => $then!(x as u16 as i16),
                b"i32" => $then!(x as u32 as i32),
                b"i64" => $then!(x as u64 as i64),
                b"i128" => $then!(x as i128),
                b"isize" => $then!(x as usize as isize),
                _ => return false,
            }
        }};
    }
    match (parts[0], n) {
        (b"unit", 1) => vis.visit(&()),
        (b"bool", 2) => match parts[1] {
            b"0" => vis.visit(&false),
            b"1" => vis.visit(&true),
            _ => return false,
        },
        (b"char", 2) => {
            let Some(x) = parse_u128_hex(parts[1]) else { return false };
            let Some(c) = char::from_u32(x as u32) else { return false };
            vis.visit(&c)
        }
        (b"bytes", 2) => {
            let Some(l) = unhex(parts[1], s1) else { return false };
            vis.visit::<[u8]>(&s1[..l])
        }
        (b"str", 2) => {
            let Some(l) = unhex(parts[1], s1) else { return false };
            let Ok(st) = core::str::from_utf8(&s1[..l]) else { return false };
            vis.visit::<str>(st)
        }
        (b"u32s", 2) => {
            let Some(l) = unhex(parts[1], s1) else { return false };
            if l % 4 != 0 || l / 4 > 64 {
                return false;
            }
            let mut arr = [0u32; 64];
            for i in 0..l / 4 {
                arr[i] = u32::from_le_bytes([s1[4 * i], s1[4 * i + 1], s1[4 * i + 2], s1[4 * i + 3]]);
            }
            vis.visit::<[u32]>(&arr[..l / 4])
        }
        (b"pss", 3) => {
            let Some(l1) = unhex(parts[1], s1) else { return false };
            let Some(l2) = unhex(parts[2], s2) else { return false };
            let (Ok(a), Ok(b)) = (core::str::from_utf8(&s1[..l1]), core::str::from_utf8(&s2[..l2])) else { return false };
            vis.visit(&(a, b))
        }
        (b"pib", 4) => {
            let Some(l) = unhex(parts[3], s1) else { return false };
            let bytes: &[u8] = &s1[..l];
            macro_rules! pair {
                ($v:expr) => {
                    vis.visit(&($v, bytes))
                };
            }
            int_kind!(parts[1], parts[2], pair)
        }
        (b"ou64", 2) => {
            if parts[1] == b"none" {
                vis.visit(&None::<u64>)
            } else {
                let Some(x) = parse_u64_hex(parts[1]) else { return false };
                vis.visit(&Some(x))
            }
        }
        (b"obytes", 2) => {
            if parts[1] == b"none" {
                vis.visit(&None::<&[u8]>)
            } else {
                let Some(l) = unhex(parts[1], s1) else { return false };
                vis.visit(&Some(&s1[..l]))
            }
        }
        (k, 2) => {
            macro_rules! single {
                ($v:expr) => {
                    vis.visit(&$v)
                };
            }
            int_kind!(k, parts[1], single)
        }
        _ => return false,
    }
    true
}

struct HashOneVis {
    builder: HighwayBuildHasher,
    out: u64,
}
impl ValVisitor for HashOneVis {
    fn visit<T: core::hash::Hash + ?Sized>(&mut self, v: &T) {
        self.out = self.builder.hash_one(v);
    }
}
struct RecVis {
    rec: Rec,
}
impl ValVisitor for RecVis {
    fn visit<T: core::hash::Hash + ?Sized>(&mut self, v: &T) {
        v.hash(&mut self.rec);
    }
}
struct IntoVis<'a> {
    h: &'a mut AnyHasher,
    unsupported: bool,
}
impl<'a> ValVisitor for IntoVis<'a> {
    fn visit<T: core::hash::Hash + ?Sized>(&mut self, v: &T) {
        match self.h {
            AnyHasher::Portable(x) => v.hash(x),
            AnyHasher::Auto(x) => v.hash(x),
            #[cfg(target_arch = "x86_64")]
            AnyHasher::Sse(x) => v.hash(x),
            #[cfg(target_arch = "x86_64")]
            AnyHasher::Avx(x) => v.hash(x),
            #[cfg(target_arch = "aarch64")]
            AnyHasher::Neon(_) => self.unsupported = true,
            #[cfg(all(target_family = "wasm", target_feature = "simd128"))]
            AnyHasher::Wasm(x) => v.hash(x),
        }
    }
}

/// keys of the process-wide shared `HighwayBuildHasher`s (slot 1 is `HighwayBuildHasher::default()`)
pub const SHARED_KEYS: [[u64; 4]; 4] = [
    [1, 2, 3, 4],
    [0, 0, 0, 0],
    [0x0706050403020100, 0x0F0E0D0C0B0A0908, 0x1716151413121110, 0x1F1E1D1C1B1A1918],
    [0xdbe6d5d5fe4cce2f ^ 0xFFFF_FFF0, 0xFFFF_FFFF_FFFF_FFFF, 0x8000_0000_0000_0000, 0x0000_0000_FFFF_FFFF],
];

pub fn make_shared() -> [HighwayBuildHasher; 4] {
    [
        HighwayBuildHasher::new(Key(SHARED_KEYS[0])),
        HighwayBuildHasher::default(),
        HighwayBuildHasher::new(Key(SHARED_KEYS[2])),
        HighwayBuildHasher::new(Key(SHARED_KEYS[3])),
    ]
}

pub struct Machine {
    pub hs: [Option<AnyHasher>; NH],
    pub cpu: Cpu,
    /// builders shared by every `Machine` of the process (all threads of the native runner)
    pub shared: Option<&'static [HighwayBuildHasher; 4]>,
}

struct SharedOneVis {
    builder: &'static HighwayBuildHasher,
    out: u64,
}
impl ValVisitor for SharedOneVis {
    fn visit<T: core::hash::Hash + ?Sized>(&mut self, v: &T) {
        self.out = self.builder.hash_one(v);
    }
}

impl Machine {
    pub fn new(cpu: Cpu) -> Self {
        Machine { hs: core::array::from_fn(|_| None), cpu, shared: None }
    }

    fn fin(h: AnyHasher, w: &[u8], out: &mut Out) -> bool {
        match w {
            b"64" => {
                let r = each!(h, x => x.finalize64());
                out.u64_hex(r);
            }
            b"128" => {
                let r = each!(h, x => x.finalize128());
                out.u64_hex(r[0]);
                out.u64_hex(r[1]);
            }
            b"256" => {
                let r = each!(h, x => x.finalize256());
                for v in r {
                    out.u64_hex(v);
                }
            }
            _ => return false,
        }
        true
    }

    /// Execute one line; writes exactly one output line (without the newline).
    pub fn exec(&mut self, line: &[u8], scratch: &mut [u8], out: &mut Out) {
        let mut toks: [&[u8]; 10] = [b""; 10];
        let mut n = 0;
        for t in line.split(|&c| c == b' ') {
            if n < 10 {
                toks[n] = t;
                n += 1;
            } else {
                out.s("bad-op");
                return;
            }
        }
        if n == 1 && toks[0].is_empty() {
            return;
        }
        let op = toks[0];
        macro_rules! bad {
            () => {{
                out.s("bad-op");
                return;
            }};
        }
        macro_rules! handle {
            ($i:expr) => {
                match parse_dec(toks[$i]) {
                    Some(h) if h < NH => h,
                    _ => bad!(),
                }
            };
        }
        match (op, n) {
            (b"intrin", _) if n >= 4 => {
                #[cfg(target_arch = "x86_64")]
                {
                    if !self.cpu.avx2 {
                        out.s("none");
                        return;
                    }
                    let Some(imm) = parse_dec(toks[2]) else { bad!() };
                    let mut ops = [0u128; 6];
                    let mut k = 0;
                    for t in &toks[3..n] {
                        let Some(v) = parse_u128_hex(t) else { bad!() };
                        ops[k] = v;
                        k += 1;
                    }
                    match unsafe { intrin::x86::run(toks[1], imm, &ops[..k]) } {
                        Some((lo, hi)) => {
                            out.u64_hex((lo >> 64) as u64);
                            out.u64_hex(lo as u64);
                            if let Some(h) = hi {
                                out.s(" ");
                                out.u64_hex((h >> 64) as u64);
                                out.u64_hex(h as u64);
                            }
                        }
                        None => out.s("bad-op"),
                    }
                }
                #[cfg(all(target_family = "wasm", target_feature = "simd128"))]
                {
                    let Some(imm) = parse_dec(toks[2]) else { bad!() };
                    let mut ops = [0u128; 6];
                    let mut k = 0;
                    for t in &toks[3..n] {
                        let Some(v) = parse_u128_hex(t) else { bad!() };
                        ops[k] = v;
                        k += 1;
                    }
                    match intrin::wasm::run(toks[1], imm, &ops[..k]) {
                        Some(v) => {
                            out.u64_hex((v >> 64) as u64);
                            out.u64_hex(v as u64);
                        }
                        None => out.s("bad-op"),
                    }
                }
                #[cfg(target_arch = "aarch64")]
                {
                    let Some(imm) = parse_dec(toks[2]) else { bad!() };
                    let mut ops = [0u128; 6];
                    let mut k = 0;
                    for t in &toks[3..n] {
                        let Some(v) = parse_u128_hex(t) else { bad!() };
                        ops[k] = v;
                        k += 1;
                    }
                    match unsafe { intrin::neon::run(toks[1], imm, &ops[..k]) } {
                        Some(v) => {
                            out.u64_hex((v >> 64) as u64);
                            out.u64_hex(v as u64);
                        }
                        None => out.s("bad-op"),
                    }
                }
                #[cfg(not(any(target_arch = "x86_64", target_arch = "aarch64", all(target_family = "wasm", target_feature = "simd128"))))]
                out.s("none");
            }
            (b"reset", 1) => {
                for h in self.hs.iter_mut() {
                    *h = None;
                }
                out.s("ok");
            }
            (b"new", 7) | (b"fnew", 7) => {
                let h = handle!(1);
                let Some(sel) = parse_sel(toks[2]) else { bad!() };
                let (Some(a), Some(b), Some(c), Some(d)) =
                    (parse_u64_hex(toks[3]), parse_u64_hex(toks[4]), parse_u64_hex(toks[5]), parse_u64_hex(toks[6]))
                else { bad!() };
                let r = construct(sel, op == b"fnew", self.cpu, Some(Key([a, b, c, d])), None, false);
                out.s(if r.is_some() { "ok" } else { "none" });
                self.hs[h] = r;
            }
            (b"bh", 6) => {
                // a hasher handed out by the collection builder: `HighwayBuildHasher::new(key).build_hasher()`
                let h = handle!(1);
                let (Some(a), Some(b), Some(c), Some(d)) =
                    (parse_u64_hex(toks[2]), parse_u64_hex(toks[3]), parse_u64_hex(toks[4]), parse_u64_hex(toks[5]))
                else { bad!() };
                let builder = HighwayBuildHasher::new(Key([a, b, c, d]));
                self.hs[h] = Some(AnyHasher::Auto(builder.build_hasher()));
                out.s("ok");
            }
            (b"bhd", 2) => {
                // `HighwayBuildHasher::default().build_hasher()`
                let h = handle!(1);
                let builder = HighwayBuildHasher::default();
                self.hs[h] = Some(AnyHasher::Auto(builder.build_hasher()));
                out.s("ok");
            }
            (b"default", 3) => {
                let h = handle!(1);
                let Some(sel) = parse_sel(toks[2]) else { bad!() };
                let r = construct(sel, false, self.cpu, None, None, true);
                out.s(if r.is_some() { "ok" } else { "none" });
                self.hs[h] = r;
            }
            (b"restore", 4) | (b"frestore", 4) => {
                let h = handle!(1);
                let Some(sel) = parse_sel(toks[2]) else { bad!() };
                let mut c = [0u8; 164];
                if unhex(toks[3], scratch) != Some(164) {
                    bad!()
                }
                c.copy_from_slice(&scratch[..164]);
                let r = construct(sel, op == b"frestore", self.cpu, None, Some(c), false);
                out.s(if r.is_some() { "ok" } else { "none" });
                self.hs[h] = r;
            }
            (b"restoreh", 4) | (b"frestoreh", 4) => {
                let h = handle!(1);
                let Some(sel) = parse_sel(toks[2]) else { bad!() };
                let src = handle!(3);
                let Some(s) = &self.hs[src] else {
                    out.s("nohandle");
                    return;
                };
                let c = each!(s, x => x.checkpoint());
                let r = construct(sel, op == b"frestoreh", self.cpu, None, Some(c), false);
                out.s(if r.is_some() { "ok" } else { "none" });
                self.hs[h] = r;
            }
            (b"clone", 3) => {
                let h = handle!(1);
                let dst = handle!(2);
                let Some(s) = &self.hs[h] else {
                    out.s("nohandle");
                    return;
                };
                let c = s.clone();
                self.hs[dst] = Some(c);
                out.s("ok");
            }
            (b"clonefrom", 3) => {
                // `dst.clone_from(&src)` when both handles hold the same hasher type (otherwise like `clone`)
                let h = handle!(1);
                let dst = handle!(2);
                if h == dst {
                    out.s(if self.hs[h].is_some() { "ok" } else { "nohandle" });
                    return;
                }
                let Some(s) = self.hs[h].clone() else {
                    out.s("nohandle");
                    return;
                };
                match (&mut self.hs[dst], &s) {
                    (Some(AnyHasher::Portable(d)), AnyHasher::Portable(x)) => d.clone_from(x),
                    (Some(AnyHasher::Auto(d)), AnyHasher::Auto(x)) => d.clone_from(x),
                    #[cfg(target_arch = "x86_64")]
                    (Some(AnyHasher::Sse(d)), AnyHasher::Sse(x)) => d.clone_from(x),
                    #[cfg(target_arch = "x86_64")]
                    (Some(AnyHasher::Avx(d)), AnyHasher::Avx(x)) => d.clone_from(x),
                    #[cfg(target_arch = "aarch64")]
                    (Some(AnyHasher::Neon(d)), AnyHasher::Neon(x)) => d.clone_from(x),
                    #[cfg(all(target_family = "wasm", target_feature = "simd128"))]
                    (Some(AnyHasher::Wasm(d)), AnyHasher::Wasm(x)) => d.clone_from(x),
                    (slot, _) => *slot = Some(s.clone()),
                }
                out.s("ok");
            }
            (b"fin", 3) => {
                let h = handle!(1);
                let Some(s) = self.hs[h].take() else {
                    out.s("nohandle");
                    return;
                };
                if !Self::fin(s, toks[2], out) {
                    bad!()
                }
            }
            (b"append", 3) | (b"hwrite", 3) | (b"iowrite", 3) | (b"writeall", 3) => {
                let h = handle!(1);
                let Some(len) = unhex(toks[2], scratch) else { bad!() };
                let Some(s) = &mut self.hs[h] else {
                    out.s("nohandle");
                    return;
                };
                let d = &scratch[..len];
                match op {
                    b"append" => {
                        each!(s, x => x.append(d));
                        out.s("ok");
                    }
                    b"hwrite" => {
                        each_t!(s, out, x => CoreHasher::write(x, d));
                        out.s("ok");
                    }
                    _ => {
                        #[cfg(feature = "std")]
                        {
                            if op == b"iowrite" {
                                let r = each_t!(s, out, x => std::io::Write::write(x, d));
                                match r {
                                    Ok(k) => {
                                        out.s("n=");
                                        out.dec(k);
                                    }
                                    Err(_) => out.s("err"),
                                }
                            } else {
                                let r = each_t!(s, out, x => std::io::Write::write_all(x, d));
                                out.s(if r.is_ok() { "ok" } else { "err" });
                            }
                        }
                        #[cfg(not(feature = "std"))]
                        out.s("unsupported");
                    }
                }
            }
            (b"hashfin", 4) => {
                // the provided one-shot helpers `hash64/128/256(self, data)` on an ALREADY FED hasher
                let h = handle!(1);
                let Some(len) = unhex(toks[3], scratch) else { bad!() };
                let Some(s) = self.hs[h].take() else {
                    out.s("nohandle");
                    return;
                };
                let d_ = &scratch[..len];
                match toks[2] {
                    b"64" => {
                        let r = each!(s, x => x.hash64(d_));
                        out.u64_hex(r);
                    }
                    b"128" => {
                        let r = each!(s, x => x.hash128(d_));
                        out.u64_hex(r[0]);
                        out.u64_hex(r[1]);
                    }
                    b"256" => {
                        let r = each!(s, x => x.hash256(d_));
                        for v in r {
                            out.u64_hex(v);
                        }
                    }
                    _ => bad!(),
                }
            }
            (b"hashone", 6) => {
                // `HighwayBuildHasher::new(key).hash_one(value)`
                let (Some(a), Some(b), Some(c), Some(d)) =
                    (parse_u64_hex(toks[1]), parse_u64_hex(toks[2]), parse_u64_hex(toks[3]), parse_u64_hex(toks[4]))
                else { bad!() };
                let mut v = HashOneVis { builder: HighwayBuildHasher::new(Key([a, b, c, d])), out: 0 };
                if !with_val(toks[5], scratch, &mut v) {
                    bad!()
                }
                out.u64_hex(v.out);
            }
            (b"shone", 3) | (b"shbh", 3) | (b"shstress", 4) => {
                // operations on builders SHARED by all threads of the runner
                let Some(sh) = self.shared else {
                    out.s("unsupported");
                    return;
                };
                if op == b"shbh" {
                    let h = handle!(1);
                    let Some(slot) = parse_dec(toks[2]) else { bad!() };
                    if slot >= 4 {
                        bad!()
                    }
                    self.hs[h] = Some(AnyHasher::Auto(sh[slot].build_hasher()));
                    out.s("ok");
                    return;
                }
                let Some(slot) = parse_dec(toks[1]) else { bad!() };
                if slot >= 4 {
                    bad!()
                }
                if op == b"shone" {
                    let mut v = SharedOneVis { builder: &sh[slot], out: 0 };
                    if !with_val(toks[2], scratch, &mut v) {
                        bad!()
                    }
                    out.u64_hex(v.out);
                } else {
                    // n x hash_one of pseudo-random short values, folded: sequential and concurrent runs must agree
                    let (Some(n), Some(seed)) = (parse_dec(toks[2]), parse_u64_hex(toks[3])) else { bad!() };
                    let mut acc: u64 = 0;
                    let mut x = seed;
                    for i in 0..n {
                        x = x.wrapping_add(0x9E37_79B9_7F4A_7C15);
                        let mut z = x;
                        z = (z ^ (z >> 30)).wrapping_mul(0xBF58_476D_1CE4_E5B9);
                        z = (z ^ (z >> 27)).wrapping_mul(0x94D0_49BB_1331_11EB);
                        z ^= z >> 31;
                        let r = match i % 3 {
                            0 => sh[slot].hash_one(z),
                            1 => sh[slot].hash_one((z as u32, (z >> 32) as u16)),
                            _ => sh[slot].hash_one(&z.to_le_bytes()[..(z % 9) as usize]),
                        };
                        acc = acc.rotate_left(7) ^ r;
                    }
                    out.u64_hex(acc);
                }
            }
            (b"hashrec", 2) => {
                // the `write` calls core's `Hash` impl of the value makes (independent of the crate)
                let mut v = RecVis { rec: Rec::new() };
                if !with_val(toks[1], scratch, &mut v) {
                    bad!()
                }
                if v.rec.overflow {
                    out.s("overflow");
                } else if v.rec.ncuts == 0 {
                    out.s("nowrites");
                } else {
                    let mut start = 0;
                    for i in 0..v.rec.ncuts {
                        if i > 0 {
                            out.s("|");
                        }
                        out.bytes_hex(&v.rec.buf[start..v.rec.cuts[i]]);
                        start = v.rec.cuts[i];
                    }
                }
            }
            (b"hwval", 3) => {
                // `value.hash(&mut hasher)`: through the provided `Hasher::write_*` methods of the real impl
                let h = handle!(1);
                let Some(s) = &mut self.hs[h] else {
                    out.s("nohandle");
                    return;
                };
                let mut v = IntoVis { h: s, unsupported: false };
                if !with_val(toks[2], scratch, &mut v) {
                    bad!()
                }
                out.s(if v.unsupported { "unsupported" } else { "ok" });
            }
            (b"iowritev", _) if n >= 3 && n <= 6 => {
                // `io::Write::write_vectored`, repeated until every buffer is consumed (as write_all_vectored does)
                let h = handle!(1);
                let Some(s) = &mut self.hs[h] else {
                    out.s("nohandle");
                    return;
                };
                #[cfg(feature = "std")]
                {
                    let nb = n - 2;
                    let mut lens = [0usize; 4];
                    let mut offs = [0usize; 4];
                    let mut pos = 0usize;
                    for i in 0..nb {
                        let Some(l) = unhex(toks[2 + i], &mut scratch[pos..]) else { bad!() };
                        offs[i] = pos;
                        lens[i] = l;
                        pos += l;
                    }
                    let data: &[u8] = &scratch[..pos];
                    let mut done = [0usize; 4];
                    let mut guard = 0;
                    loop {
                        let remaining: usize = (0..nb).map(|i| lens[i] - done[i]).sum();
                        if remaining == 0 {
                            out.s("ok");
                            break;
                        }
                        guard += 1;
                        if guard > 64 {
                            out.s("stuck");
                            break;
                        }
                        let empty: &[u8] = &[];
                        let mut ios = [std::io::IoSlice::new(empty), std::io::IoSlice::new(empty), std::io::IoSlice::new(empty), std::io::IoSlice::new(empty)];
                        for i in 0..nb {
                            ios[i] = std::io::IoSlice::new(&data[offs[i] + done[i]..offs[i] + lens[i]]);
                        }
                        let r = each_t!(s, out, x => std::io::Write::write_vectored(x, &ios[..nb]));
                        match r {
                            Ok(mut k) => {
                                if k > remaining {
                                    out.s("overcount");
                                    break;
                                }
                                if k == 0 {
                                    out.s("zero");
                                    break;
                                }
                                for i in 0..nb {
                                    let t = core::cmp::min(k, lens[i] - done[i]);
                                    done[i] += t;
                                    k -= t;
                                }
                            }
                            Err(_) => {
                                out.s("err");
                                break;
                            }
                        }
                    }
                }
                #[cfg(not(feature = "std"))]
                out.s("unsupported");
            }
            (b"writefmtx", 5) => {
                // `write!` with argument kinds other than a plain `&str`: chars one by one, a non-ASCII fill character,
                // integers and a padded char, a char followed by a str
                let h = handle!(1);
                let Some(mode) = parse_dec(toks[2]) else { bad!() };
                let Some(len) = unhex(toks[3], scratch) else { bad!() };
                let Some(s) = &mut self.hs[h] else {
                    out.s("nohandle");
                    return;
                };
                #[cfg(feature = "std")]
                {
                    let Ok(st) = core::str::from_utf8(&scratch[..len]) else { bad!() };
                    let mut ok = true;
                    match mode {
                        0 => {
                            for c in st.chars() {
                                let r = each_t!(s, out, x => std::io::Write::write_fmt(x, format_args!("{}", c)));
                                ok &= r.is_ok();
                            }
                        }
                        1 => {
                            let r = each_t!(s, out, x => std::io::Write::write_fmt(x, format_args!("{:é>8}", st)));
                            ok &= r.is_ok();
                        }
                        2 => {
                            let n = st.chars().count();
                            let r = each_t!(s, out, x => std::io::Write::write_fmt(x, format_args!("{:·<5}|{}|{:>4}", st, n, 'ß')));
                            ok &= r.is_ok();
                        }
                        3 => {
                            let mut it = st.chars();
                            let c0 = it.next().unwrap_or('ÿ');
                            let rest = it.as_str();
                            let r = each_t!(s, out, x => std::io::Write::write_fmt(x, format_args!("{}{}", c0, rest)));
                            ok &= r.is_ok();
                        }
                        _ => bad!(),
                    }
                    out.s(if ok { "ok" } else { "err" });
                }
                #[cfg(not(feature = "std"))]
                out.s("unsupported");
            }
            (b"writefmt", 3) => {
                // `write!(hasher, "{}", s)` through `io::Write::write_fmt`
                let h = handle!(1);
                let Some(len) = unhex(toks[2], scratch) else { bad!() };
                let Some(s) = &mut self.hs[h] else {
                    out.s("nohandle");
                    return;
                };
                #[cfg(feature = "std")]
                {
                    let Ok(st) = core::str::from_utf8(&scratch[..len]) else { bad!() };
                    let r = each_t!(s, out, x => std::io::Write::write_fmt(x, format_args!("{}", st)));
                    out.s(if r.is_ok() { "ok" } else { "err" });
                }
                #[cfg(not(feature = "std"))]
                out.s("unsupported");
            }
            (b"iocopy", 3) => {
                let h = handle!(1);
                let Some(len) = unhex(toks[2], scratch) else { bad!() };
                let Some(s) = &mut self.hs[h] else {
                    out.s("nohandle");
                    return;
                };
                #[cfg(feature = "std")]
                {
                    let mut rd: &[u8] = &scratch[..len];
                    let r = each_t!(s, out, x => std::io::copy(&mut rd, x));
                    match r {
                        Ok(k) => {
                            out.s("n=");
                            out.dec(k as usize);
                        }
                        Err(_) => out.s("err"),
                    }
                }
                #[cfg(not(feature = "std"))]
                out.s("unsupported");
            }
            (b"ckpt", 2) | (b"finish", 2) | (b"flush", 2) | (b"drop", 2) | (b"debug", 2) | (b"debugx", 2) => {
                let h = handle!(1);
                let Some(s) = &mut self.hs[h] else {
                    out.s("nohandle");
                    return;
                };
                match op {
                    b"ckpt" => {
                        let c = each!(s, x => x.checkpoint());
                        out.bytes_hex(&c);
                    }
                    b"finish" => {
                        let r = each_t!(s, out, x => CoreHasher::finish(&*x));
                        out.u64_hex(r);
                    }
                    b"flush" => {
                        #[cfg(feature = "std")]
                        {
                            let r = each_t!(s, out, x => std::io::Write::flush(x));
                            out.s(if r.is_ok() { "ok" } else { "err" });
                        }
                        #[cfg(not(feature = "std"))]
                        out.s("unsupported");
                    }
                    b"drop" => {
                        self.hs[h] = None;
                        out.s("ok");
                    }
                    // the real-engine wasm runner is linked against a code-less core (no integer formatting tables): it
                    // cannot run `Debug`; the harness treats `*unobserved*` as "this executor does not observe this op"
                    #[cfg(hh_nodewasm)]
                    _ => out.s("*unobserved*"),
                    #[cfg(not(hh_nodewasm))]
                    _ => {
                        let mut fb: FixedBuf<4096> = FixedBuf::new();
                        if op == b"debugx" {
                            // alternate / hex / padded forms of Debug (into the same caller-supplied sink)
                            let _ = each!(s, x => write!(fb, "{:x?}|{:10?}|", x, x));
                            fb.len = 0;
                            let _ = each!(s, x => write!(fb, "{:#?}", x));
                        } else {
                            let _ = each!(s, x => write!(fb, "{:?}", x));
                        }
                        let code = backend_code(s);
                        if code == 9 {
                            // HighwayHasher { tag: N, hasher: ... }
                            let b = fb.as_bytes();
                            let pat = b"tag: ";
                            let mut pos = None;
                            let mut i = 0;
                            while i + pat.len() <= b.len() {
                                if &b[i..i + pat.len()] == pat {
                                    pos = Some(i + pat.len());
                                    break;
                                }
                                i += 1;
                            }
                            match pos {
                                Some(p) => {
                                    let mut e = p;
                                    while e < b.len() && b[e].is_ascii_digit() {
                                        e += 1;
                                    }
                                    out.s("tag=");
                                    (out.emit)(&b[p..e]);
                                }
                                None => out.s("tag=?"),
                            }
                        } else {
                            out.s("backend=");
                            out.dec(code);
                        }
                    }
                }
            }
            (b"hash", 8) | (b"fhash", 8) => {
                let Some(sel) = parse_sel(toks[1]) else { bad!() };
                let (Some(a), Some(b), Some(c), Some(d)) =
                    (parse_u64_hex(toks[3]), parse_u64_hex(toks[4]), parse_u64_hex(toks[5]), parse_u64_hex(toks[6]))
                else { bad!() };
                let Some(len) = unhex(toks[7], scratch) else { bad!() };
                let d_ = &scratch[..len];
                let Some(h) = construct(sel, op == b"fhash", self.cpu, Some(Key([a, b, c, d])), None, false) else {
                    out.s("none");
                    return;
                };
                match toks[2] {
                    b"64" => {
                        let r = each!(h, x => x.hash64(d_));
                        out.u64_hex(r);
                    }
                    b"128" => {
                        let r = each!(h, x => x.hash128(d_));
                        out.u64_hex(r[0]);
                        out.u64_hex(r[1]);
                    }
                    b"256" => {
                        let r = each!(h, x => x.hash256(d_));
                        for v in r {
                            out.u64_hex(v);
                        }
                    }
                    _ => bad!(),
                }
            }
            _ => bad!(),
        }
    }
}
