import HH.Props.FactsLib
/-!
# C17 (source half) — byte order / word size neutrality of the portable path, over the regenerated
fact table
-/
namespace HH.C17
open HH.Facts HH.FactsLib


/-- every byte ⇄ integer conversion on the portable path is explicitly little-endian -/
def allowedConv : List String := ["to_le_bytes", "from_le_bytes", "u64::from_le_bytes", "u32::from_le_bytes", "u64::to_le_bytes", "u32::to_le_bytes"]
theorem only_le_conversions :
    (facts.all fun f => !(inP f && f.kind == "conv") || allowedConv.contains f.detail) = true := by decide +kernel

/-- no native-endian / pointer-width-sensitive construct: no `cfg(target_endian|target_pointer_width)`,
no `usize::MAX/BITS`, `size_of::<usize>`, `isize`, no raw-pointer construct -/
theorem no_target_sensitive :
    (facts.all fun f => !(inP f && (f.kind == "target_cfg" || f.kind == "usize_sens" || (f.kind == "ptr" && !f.test)))) = true := by
  decide +kernel

theorem conv_nonvacuous : (facts.filter fun f => inP f && f.kind == "conv").length ≥ 4 := by decide +kernel

end HH.C17
