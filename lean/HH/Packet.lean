import HH.Basic
/-!
# HH.Packet — model of `src/internal.rs` (`HashPacket`, `unordered_load3`) and of the `append`
control skeleton that is textually duplicated in all five back ends.

Release semantics (no `debug_assert!`); the panicking variant lives in `HH/PortablePanic.lean`.
-/
namespace HH

/-- `HashPacket { buf: [u8; 32], buf_index: usize }` -/
structure Pkt where
  buf : List (BitVec 8)
  idx : Nat
deriving DecidableEq, Repr

namespace Pkt
/-- `HashPacket::default()` -/
def default : Pkt := ⟨zeros 32, 0⟩
instance : Inhabited Pkt := ⟨Pkt.default⟩

def len (p : Pkt) : Nat := p.idx
def isEmpty (p : Pkt) : Bool := p.idx == 0
/-- `self.buf.get(..self.buf_index).unwrap_or(&self.buf)` -/
def asSlice (p : Pkt) : List (BitVec 8) := p.buf.take p.idx
def inner (p : Pkt) : List (BitVec 8) := p.buf

/-- `HashPacket::fill`: `dest = buf[idx..]` (empty when `idx > 32`); a chunk that fits strictly is
copied (`None`), otherwise the head completes the packet, `idx := 32` and the tail is returned. -/
def fill (p : Pkt) (data : List (BitVec 8)) : Pkt × Option (List (BitVec 8)) :=
  let destLen := p.buf.length - p.idx
  if destLen > data.length then
    ({ buf := p.buf.take p.idx ++ data ++ p.buf.drop (p.idx + data.length),
       idx := p.idx + data.length }, none)
  else
    ({ buf := p.buf.take p.idx ++ data.take destLen ++ p.buf.drop (p.idx + destLen), idx := 32 },
     some (data.drop destLen))

/-- `HashPacket::set_to`: overwrite only the first `data.len()` bytes; the rest keeps stale bytes. -/
def setTo (p : Pkt) (data : List (BitVec 8)) : Pkt :=
  { buf := data ++ p.buf.drop data.length, idx := data.length }
end Pkt

/-- `unordered_load3` of `src/internal.rs` (wrapping-free: the three addends occupy disjoint bytes). -/
def unorderedLoad3 (src : List (BitVec 8)) : BitVec 64 :=
  if src.isEmpty then 0 else
  let m := src.length % 4
  (src.getD 0 0).setWidth 64
    + ((src.getD (m >>> 1) 0).setWidth 64 <<< 8)
    + ((src.getD (m - 1) 0).setWidth 64 <<< 16)

/-- The `append` skeleton shared by `PortableHash`, `SseHash`, `AvxHash`, `NeonHash`, `WasmHash`:
`upd s pkt` stands for `self.update(Self::data_to_lanes(pkt))` on a 32-byte packet. -/
def appendG {S : Type} (upd : S → List (BitVec 8) → S) (x : S × Pkt) (data : List (BitVec 8)) : S × Pkt :=
  if x.2.isEmpty then
    let r := absorb upd data.length x.1 data
    (r.1, x.2.setTo r.2)
  else
    match x.2.fill data with
    | (p', none) => (x.1, p')
    | (p', some tail) =>
      let s1 := upd x.1 p'.inner
      let r := absorb upd tail.length s1 tail
      (r.1, p'.setTo r.2)

end HH
