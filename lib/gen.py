"""Generators of op histories (cases) with their property oracles.

Every random choice derives from the one `random.Random(seed)` handed in.  A case is a
self-contained history; its oracle is a list of constraints over the REAL implementation's outputs
(layer ii); the correspondence (layer i) compares every output line with the Lean model."""
import random
from hh import Case, hexbytes

TEST_KEY = (0x0706050403020100, 0x0F0E0D0C0B0A0908, 0x1716151413121110, 0x1F1E1D1C1B1A1918)
FIXED_KEYS = [(0, 0, 0, 0), (2**64 - 1,) * 4, (1, 2, 3, 4), TEST_KEY]


INIT0 = (0xdbe6d5d5fe4cce2f, 0xa4093822299f31d0, 0x13198a2e03707344, 0x243f6a8885a308d3)
INIT1 = (0x3bd39e10cb0ef593, 0xc0acf169b5f18a8c, 0xbe5466cf34e90c6c, 0x452821e638d01377)
M64 = (1 << 64) - 1


# keys that cancel the initialisation constants: v0 = init0 ^ key = 0, resp. v1 = init1 ^ rot32(key) = 0 (an all-zero
# state vector is where "is this state blank/uninitialised?" heuristics misfire)
FIXED_KEYS += [INIT0, tuple(((x << 32) | (x >> 32)) & M64 for x in INIT1)]


def edge64(r):
    """lane values at carry / sign / width boundaries: the arithmetic of `update`, the length
    injection and the 32-bit rotations are value dependent only through carries and truncations"""
    m = r.randrange(10)
    small = r.randrange(0, 40)
    if m == 0:
        return r.choice((0, M64, 0xFFFFFFFF, 0xFFFFFFFF00000000, 0x8000000000000000, 0x80000000, 0x7FFFFFFF, 0x7FFFFFFFFFFFFFFF, 1))
    if m == 1:
        return (r.getrandbits(32) << 32) | ((1 << 32) - 1 - small)          # low half about to carry
    if m == 2:
        return (((1 << 32) - 1 - small) << 32) | r.getrandbits(32)          # high half about to carry
    if m == 3:
        return (M64 - small)                                                # whole lane about to wrap
    if m == 4:
        return (((1 << 32) - 1 - small) << 32) | ((1 << 32) - 1 - r.randrange(0, 40))
    if m == 5:
        return (r.getrandbits(32) << 32)                                    # low half zero
    if m == 6:
        return r.getrandbits(32)                                            # high half zero
    if m == 7:
        return (0x80000000 | r.getrandbits(31)) << 32 | (0x80000000 | r.getrandbits(31))   # both sign bits
    if m == 8:
        return (0xC000000000000000 | r.getrandbits(62))                     # top two bits (modular reduction)
    return r.getrandbits(64)


def rot32(x):
    return ((x << 32) | (x >> 32)) & M64


def edge_key(r):
    """a key that puts boundary values into the initial v0 (= init0 ^ key) or v1 (= init1 ^ rot32(key)) lanes"""
    k = []
    for i in range(4):
        m = r.randrange(3)
        e = edge64(r)
        if m == 0:
            k.append(INIT0[i] ^ e)
        elif m == 1:
            k.append(rot32(INIT1[i] ^ e))
        else:
            k.append(e)
    return tuple(k)


def rkey(r):
    c = r.random()
    if c < 0.3:
        return r.choice(FIXED_KEYS)
    if c < 0.6:
        return edge_key(r)
    return tuple(r.getrandbits(64) for _ in range(4))


def carry_lane(r, n):
    """a v0 lane tailored to the pending length n that will be injected at finalisation
    (`v0 += (n << 32) + n`, per 64-bit lane): low half within n of 2^32 (carry into the high half) and high
    half at 2^32 - 1 - n (the carry then ripples out of the lane) - the places where a half-wise or
    32-bit-lane re-implementation of the addition differs from the 64-bit one"""
    hi = ((0xFFFFFFFF - n + r.choice((-1, 0, 0, 0, 1))) & 0xFFFFFFFF) if r.random() < 0.7 else r.getrandbits(32)
    lo = (0x100000000 - n + r.choice((-1, 0, 0, 1, max(n - 1, 0)))) & 0xFFFFFFFF
    return (hi << 32) | lo


def carry_key(r, n):
    """key whose initial v0 = init0 ^ key holds `carry_lane` values (relevant for streams shorter than one packet)"""
    return tuple((INIT0[i] ^ carry_lane(r, n)) if r.random() < 0.7 else r.getrandbits(64) for i in range(4))


def key_for(r, n):
    """key for a stream of n bytes in total: length-tailored carry keys for sub-packet streams, else `rkey`"""
    if 0 < n < 32 and r.random() < 0.35:
        return carry_key(r, n)
    return rkey(r)


def edge_lanes(r):
    """16 state lanes for a synthetic checkpoint: a mixture of boundary values and random ones"""
    return b"".join((edge64(r) if r.random() < 0.6 else r.getrandbits(64)).to_bytes(8, "little") for _ in range(16))


def kstr(k):
    return " ".join(f"{x:x}" for x in k)


def _words(r, n, w):
    """structured sparse data: little-endian w-byte words drawn from {0, 1, all-ones, random} (arrays with zero entries,
    zero-padded records) - the inputs on which a value-dependent shortcut (zero-word/zero-packet fast path, table,
    early-out) differs from the plain arithmetic"""
    out = bytearray()
    while len(out) < n:
        c = r.randrange(6)
        v = 0 if c <= 2 else (1 if c == 3 else ((1 << (8 * w)) - 1 if c == 4 else r.getrandbits(8 * w)))
        out += v.to_bytes(w, "little")
    off = r.choice((0, 0, 0, 1, 3, 4))          # mostly aligned to the word grid, sometimes shifted
    return bytes((bytes(off) + bytes(out))[:n]) if off and r.random() < 0.3 else bytes(out[:n])


def rbytes(r, n):
    """byte mixtures: uniform, high-bit, zeros, 0xff, counting, runs, sparse words, single non-zero byte"""
    m = r.randrange(11)
    if m == 7:
        return _words(r, n, 8)
    if m == 8:
        return _words(r, n, r.choice((4, 16, 2)))
    if m == 9:
        out = bytearray(n)                       # all zero except a few bytes
        for _ in range(r.randrange(1, 4)):
            if n:
                out[r.randrange(n)] = r.choice((1, 0x80, 0xFF, r.getrandbits(8)))
        return bytes(out)
    if m == 10:
        out = bytearray(b"\xff" * n)              # all ones except a few zero bytes / one zero word
        if n >= 8 and r.random() < 0.5:
            k = 8 * r.randrange(n // 8)
            out[k:k + 8] = bytes(8)
        elif n:
            out[r.randrange(n)] = 0
        return bytes(out)
    if m == 0:
        return bytes(r.getrandbits(8) for _ in range(n))
    if m == 1:
        return bytes(0x80 | r.getrandbits(7) for _ in range(n))
    if m == 2:
        return bytes(n)
    if m == 3:
        return b"\xff" * n
    if m == 4:
        s = r.getrandbits(8)
        return bytes((s + i) & 0xFF for i in range(n))
    if m == 5:
        out = bytearray()
        while len(out) < n:
            out += bytes([r.getrandbits(8)]) * r.randrange(1, 9)
        return bytes(out[:n])
    return bytes(r.choice((0x00, 0x7F, 0x80, 0xFF, r.getrandbits(8))) for _ in range(n))


class B:
    """case builder: ops + constraints on real outputs"""

    def __init__(self, name="", tags=()):
        self.ops = []
        self.cons = []
        self.name = name
        self.tags = list(tags)

    def op(self, line):
        self.ops.append(line)
        return len(self.ops) - 1

    def eq(self, i, j, what):
        self.cons.append(("eq", i, j, what))

    def ne(self, i, j, what):
        self.cons.append(("ne", i, j, what))

    def expect(self, i, val, what):
        self.cons.append(("val", i, val, what))

    def case(self):
        cons = list(self.cons)
        ops = list(self.ops)

        def oracle(outs):
            for c in cons:
                if c[0] == "eq":
                    _, i, j, what = c
                    if i >= len(outs) or j >= len(outs):
                        return f"{what}: missing output"
                    if outs[i] != outs[j]:
                        return f"{what}: `{ops[i][:60]}` -> {outs[i][:80]}  !=  `{ops[j][:60]}` -> {outs[j][:80]}"
                elif c[0] == "ne":
                    _, i, j, what = c
                    if i < len(outs) and j < len(outs) and outs[i] == outs[j]:
                        return f"{what}: outputs unexpectedly equal ({outs[i][:40]})"
                else:
                    _, i, val, what = c
                    if i >= len(outs) or outs[i] != val:
                        got = outs[i] if i < len(outs) else None
                        return f"{what}: `{ops[i][:60]}` -> {str(got)[:80]}, expected {val[:80]}"
            return None

        c = Case(self.ops, oracle if cons else None, self.tags, self.name)
        c.cons = cons
        return c


def split_chunks(r, data, k=None):
    """random partition of data into chunks (may include empty chunks)"""
    n = len(data)
    if k is None:
        k = r.randrange(0, 6)
    cuts = sorted(r.randrange(0, n + 1) for _ in range(k))
    parts = []
    prev = 0
    for c in cuts + [n]:
        parts.append(data[prev:c])
        prev = c
    return parts


# ------------------------------------------------------------------------------------------------

def oneshot(r, sel, n, width, force=False, key=None, data=None):
    key = key or rkey(r)
    data = data if data is not None else rbytes(r, n)
    b = B(f"oneshot-{sel}-{width}-{n}", [f"len%32={n % 32}", f"pk={min(n // 32, 4)}", sel, f"w{width}"])
    b.op(f"{'fhash' if force else 'hash'} {sel} {width} {kstr(key)} {hexbytes(data)}")
    return b


ENTRY = ("append", "hwrite", "iowrite", "writeall", "iocopy")


def streamed(r, sel, chunks, width, key, entry=None, force=False, check_ckpt=True, std=True):
    """new; feed chunks through entry points; fin — must equal the one-shot hash of the concatenation"""
    data = b"".join(chunks)
    b = B(f"stream-{sel}", [sel, f"chunks={min(len(chunks), 6)}", f"w{width}"])
    b.op(f"{'fnew' if force else 'new'} 0 {sel} {kstr(key)}")
    for c in chunks:
        e = entry or "append"
        if entry == "mix":
            e = r.choice(ENTRY if std else ("append", "hwrite"))
        b.op(f"{e} 0 {hexbytes(c)}")
        b.tags.append(e)
    # the provided one-shot helper on an already fed hasher: the last chunk goes through `hashN(self, chunk)`
    last = None
    if chunks and r.random() < 0.3:
        last = b.ops.pop()
        b.tags.pop()
        b.tags.append("hashfin")
    if check_ckpt:
        b.op("ckpt 0")
    if last is not None:
        i = b.op(f"hashfin 0 {width} {last.split(' ')[2]}")
    else:
        i = b.op(f"fin 0 {width}")
    j = b.op(f"{'fhash' if force else 'hash'} {sel} {width} {kstr(key)} {hexbytes(data)}")
    b.eq(i, j, "chunked result differs from one-shot hash of the concatenation")
    return b


CHUNK_LENS = list(range(0, 71)) + [95, 96, 97, 127, 128, 129, 160, 1000]


def grid(r, sel, fills, lens, force=False, entry="append", std=True):
    """the 32 x |C| control skeleton: pending fill f, then a chunk of length c (and a small tail)"""
    out = []
    for f in fills:
        for c in lens:
            key = rkey(r)
            chunks = [rbytes(r, f), rbytes(r, c)]
            if r.random() < 0.3:
                chunks.append(rbytes(r, r.choice((0, 1, 5, 31, 33))))
            if r.random() < 0.2:
                chunks.insert(r.randrange(len(chunks) + 1), b"")
            w = r.choice((64, 128, 256))
            b = streamed(r, sel, chunks, w, key, entry=entry, force=force, std=std)
            b.tags += [f"fill={f}", f"clen={c if c < 71 else 'big'}"]
            out.append(b)
    return out


def ckpt_hops(r, sels, data, cuts, width, key, force=False):
    """checkpoint after each cut, restore on the next back end, continue; compare with uninterrupted"""
    b = B("ckpt-hops", [f"hops={len(cuts)}", f"w{width}"])
    nw = "fnew" if force else "new"
    rs = "frestoreh" if force else "restoreh"
    sel0 = r.choice(sels)
    b.op(f"{nw} 0 {sel0} {kstr(key)}")
    cur = 0
    prev = 0
    for c in cuts:
        for part in split_chunks(r, data[prev:c], r.randrange(0, 3)):
            b.op(f"append {cur} {hexbytes(part)}")
        prev = c
        nxt = cur + 1
        seln = r.choice(sels)
        b.tags.append(f"{sel0}->{seln}")
        b.tags.append(f"cutfill={c % 32}")
        b.op(f"{rs} {nxt} {seln} {cur}")
        sel0 = seln
        cur = nxt
    for part in split_chunks(r, data[prev:], r.randrange(0, 3)):
        b.op(f"append {cur} {hexbytes(part)}")
    i = b.op(f"fin {cur} {width}")
    j = b.op(f"hash portable {width} {kstr(key)} {hexbytes(data)}")
    b.eq(i, j, "result after checkpoint/restore hops differs from uninterrupted hash")
    return b


def ckpt_canon(r, sels, data, key, force=False):
    """two chunkings (and back ends) of the same stream: checkpoint bytes must be identical;
    restore+checkpoint must be idempotent; bytes beyond the pending count must be zero"""
    b = B("ckpt-canon", [f"pending={len(data) % 32}"])
    nw = "fnew" if force else "new"
    rs = "frestoreh" if force else "restoreh"
    s1, s2 = r.choice(sels), r.choice(sels)
    b.tags.append(f"{s1}|{s2}")
    b.op(f"{nw} 0 {s1} {kstr(key)}")
    b.op(f"{nw} 1 {s2} {kstr(key)}")
    b.op(f"append 0 {hexbytes(data)}")
    # second chunking: leave a long stale tail: feed 31 bytes first when possible, single bytes etc.
    mode = r.randrange(4)
    if mode == 0 and len(data) > 31:
        parts = [data[:31], data[31:]]
    elif mode == 1:
        parts = [data[i:i + 1] for i in range(len(data))] if len(data) <= 80 else split_chunks(r, data, 8)
    elif mode == 2 and len(data) > 40:
        parts = [data[:7], data[7:38], data[38:]]
    else:
        parts = split_chunks(r, data)
    for p in parts:
        b.op(f"append 1 {hexbytes(p)}")
    i = b.op("ckpt 0")
    j = b.op("ckpt 1")
    b.eq(i, j, "checkpoints of two hashers that consumed the same stream differ")
    s3 = r.choice(sels)
    b.op(f"{rs} 2 {s3} 1")
    k = b.op("ckpt 2")
    b.eq(j, k, "from_checkpoint(c).checkpoint() != c")
    return b


NO_TRAITS = {"neon"}    # NeonHash implements neither core::hash::Hasher nor std::io::Write


def finish_ops(b, h, sel):
    """64-bit digest without consuming the hasher: Hasher::finish, or clone + finalize64 for types
    without the trait"""
    if sel in NO_TRAITS:
        b.op(f"clone {h} 31")
        return b.op("fin 31 64")
    return b.op(f"finish {h}")


COUNTS = list(range(0, 35)) + [63, 64, 255, 256, 65535, 65536, 2**31 - 1, 2**31, 2**32 - 1]


def malformed(r, sels, count=None, force=False):
    """restore from an arbitrary 164-byte array on every back end, then a follow-up history; all back
    ends must agree; an empty append changes nothing; streaming invariance and own-checkpoint
    transparency hold for the restored hasher"""
    c0 = r.random()
    lanes = bytes(r.getrandbits(8) for _ in range(128)) if c0 < 0.4 else (edge_lanes(r) if c0 < 0.9 else bytes(128))
    bufb = rbytes(r, 32)
    if count is None:
        count = r.choice(COUNTS) if r.random() < 0.8 else r.getrandbits(32)
    suffix = rbytes(r, r.choice((0, 1, 7, 31, 32, 33, 64, 70)))
    if count < 32 and r.random() < 0.3:
        # v0 lanes tailored to the pending length that will be injected (restored count + suffix, if that stays below a packet)
        if count + len(suffix) >= 32:
            suffix = suffix[:r.randrange(0, 32 - count)]
        n_fin = count + len(suffix)
        lanes = b"".join(carry_lane(r, n_fin).to_bytes(8, "little") for _ in range(4)) + lanes[32:]
    c = lanes + bufb + count.to_bytes(4, "little")
    b = B("malformed", [f"count={'<32' if count < 32 else count if count < 35 else 'big'}"])
    rs = "frestore" if force else "restore"
    rsh = "frestoreh" if force else "restoreh"
    parts = split_chunks(r, suffix, r.randrange(0, 4))
    w = r.choice((64, 128, 256))
    fins = []
    for hi, sel in enumerate(sels):
        h = 4 * hi
        b.op(f"{rs} {h} {sel} {hexbytes(c)}")
        c0 = b.op(f"ckpt {h}")
        f0 = finish_ops(b, h, sel)
        b.op(f"append {h} -")
        c1 = b.op(f"ckpt {h}")
        f1 = finish_ops(b, h, sel)
        b.eq(c0, c1, "empty append changed the checkpoint of a restored hasher")
        b.eq(f0, f1, "empty append changed the result of a restored hasher")
        # streaming invariance on the restored hasher: chunked vs whole
        b.op(f"clone {h} {h + 1}")
        for p in parts:
            b.op(f"append {h} {hexbytes(p)}")
        b.op(f"append {h + 1} {hexbytes(suffix)}")
        # own checkpoint restores transparently
        b.op(f"{rsh} {h + 2} {r.choice(sels)} {h}")
        x0 = b.op(f"fin {h} {w}")
        x1 = b.op(f"fin {h + 1} {w}")
        x2 = b.op(f"fin {h + 2} {w}")
        b.eq(x0, x1, "streaming invariance fails on a restored hasher")
        b.eq(x0, x2, "checkpoint of a restored hasher does not restore transparently")
        fins.append((c0, f0, x0))
    for a, bb in zip(fins, fins[1:]):
        b.eq(a[0], bb[0], "back ends disagree on the checkpoint of a hasher restored from the same bytes")
        b.eq(a[1], bb[1], "back ends disagree on finish() of a hasher restored from the same bytes")
        b.eq(a[2], bb[2], "back ends disagree on a later result of a hasher restored from the same bytes")
    return b


def default_case(r, sels, std=True):
    """T::default() behaves as T::new(Key::default())"""
    b = B("default", [])
    data = rbytes(r, r.choice((0, 1, 31, 32, 33, 64, 100, 160, 200, 300)))
    if r.random() < 0.4 and len(data) >= 64:
        # packet-aligned prefix (possibly in two steps) followed by one large append
        a = r.choice((32, 64)) if len(data) >= 192 else 32
        parts = ([data[:16], data[16:a]] if r.random() < 0.5 else [data[:a]]) + [data[a:]]
    else:
        parts = split_chunks(r, data, r.randrange(0, 3))
    w = r.choice((64, 128, 256))
    firsts = []
    for hi, sel in enumerate(sels):
        h = 2 * hi
        b.tags.append(sel)
        b.op(f"default {h} {sel}")
        b.op(f"fnew {h + 1} {sel} 0 0 0 0")
        c0 = b.op(f"ckpt {h}")
        c1 = b.op(f"ckpt {h + 1}")
        b.eq(c0, c1, f"{sel}: checkpoint of default() differs from new(Key::default())")
        for p in parts:
            e = r.choice(("append", "hwrite", "iocopy") if std else ("append", "hwrite"))
            if sel in NO_TRAITS:
                e = "append"
            b.op(f"{e} {h} {hexbytes(p)}")
            b.op(f"{e} {h + 1} {hexbytes(p)}")
        f0 = finish_ops(b, h, sel)
        f1 = finish_ops(b, h + 1, sel)
        b.eq(f0, f1, f"{sel}: default() and new(Key::default()) disagree")
        x0 = b.op(f"fin {h} {w}")
        x1 = b.op(f"fin {h + 1} {w}")
        b.eq(x0, x1, f"{sel}: default() and new(Key::default()) disagree")
        firsts.append(x0)
    j = b.op(f"hash portable {w} 0 0 0 0 {hexbytes(data)}")
    for x in firsts:
        b.eq(x, j, "default hasher differs from zero-key HighwayHash")
    return b


OBSERVERS = ("ckpt", "finish", "debug", "cloneobs")


def observers(r, sels, force=False):
    """the same history with and without observer calls interleaved; clone independence"""
    sel = r.choice(sels)
    key = rkey(r)
    nw = "fnew" if force else "new"
    b = B("observers", [sel])
    b.op(f"{nw} 0 {sel} {kstr(key)}")
    b.op(f"{nw} 1 {sel} {kstr(key)}")
    nchunks = r.randrange(1, 6)
    for _ in range(nchunks):
        d = rbytes(r, r.choice((0, 1, 3, 16, 31, 32, 32, 33, 47, 64, 64, 90, 96, 128)))
        b.op(f"append 0 {hexbytes(d)}")
        b.op(f"append 1 {hexbytes(d)}")
        for _ in range(r.randrange(0, 4)):
            o = r.choice(OBSERVERS)
            b.tags.append(o)
            if o == "cloneobs":
                b.op(r.choice(("clone 0 9", "clonefrom 0 9")))
                b.op(f"append 9 {hexbytes(rbytes(r, r.randrange(0, 40)))}")   # diverge the clone
                if r.random() < 0.5:
                    b.op(f"fin 9 {r.choice((64, 128, 256))}")
            elif o == "finish" and sel in NO_TRAITS:
                finish_ops(b, 0, sel)
            else:
                b.op(f"{o} 0")
    c0 = b.op("ckpt 0")
    c1 = b.op("ckpt 1")
    b.eq(c0, c1, "observer calls changed the state of the hasher")
    if sel not in NO_TRAITS:
        # an observer must not change what a LATER observer returns either: finish() of the observed hasher equals
        # finish() of the never-observed twin (handle 1 was never observed: this is its first finish)
        q0 = b.op("finish 0")
        q1 = b.op("finish 1")
        b.eq(q0, q1, "finish() of a hasher that was observed earlier differs from finish() of its never-observed twin")
    # clone is identical at the moment of cloning and independent afterwards; `clone_from` into a used
    # destination (with its own pending bytes) must be the same as a fresh clone
    if r.random() < 0.6:
        b.op(f"{nw} 2 {sel} {kstr(rkey(r))}")
        b.op(f"append 2 {hexbytes(rbytes(r, r.choice((1, 5, 13, 31, 33, 40))))}")
        b.op("clonefrom 0 2")
    else:
        b.op("clone 0 2")
    c2 = b.op("ckpt 2")
    b.eq(c0, c2, "clone differs from the original at the moment of cloning")
    da = rbytes(r, r.randrange(0, 70))
    db = rbytes(r, r.randrange(1, 70))
    b.op(f"append 0 {hexbytes(da)}")
    b.op(f"append 2 {hexbytes(db)}")
    b.op(f"append 1 {hexbytes(da)}")
    w = r.choice((64, 128, 256))
    b.op(f"{nw} 3 {sel} {kstr(key)}")
    # hasher 3 replays what the clone saw
    x0 = b.op(f"fin 0 {w}")
    x1 = b.op(f"fin 1 {w}")
    b.eq(x0, x1, "original perturbed by operations on its clone (or by observers)")
    b.op(f"fin 2 {w}")
    return b


def interleave(r, sels, nh=4, force=False):
    """several independent histories interleaved step by step vs each run in isolation"""
    nw = "fnew" if force else "new"
    hists = []
    for h in range(nh):
        sel = r.choice(sels)
        key = rkey(r)
        ops = [f"{nw} {{h}} {sel} {kstr(key)}"]
        for _ in range(r.randrange(1, 5)):
            ops.append(f"{r.choice(('append', 'hwrite'))} {{h}} {hexbytes(rbytes(r, r.choice((0, 1, 9, 31, 32, 33, 64, 77))))}")
            if r.random() < 0.3:
                ops.append("finish {h}")
            if r.random() < 0.2:
                ops.append("ckpt {h}")
        ops.append("ckpt {h}")
        ops.append(f"fin {{h}} {r.choice((64, 128, 256))}")
        hists.append(ops)
    b = B("interleave", [f"handles={nh}"])
    # isolated runs first (handles 10+h), recording output indices
    iso = []
    for h, ops in enumerate(hists):
        iso.append([b.op(o.format(h=10 + h)) for o in ops])
    # interleaved
    pos = [0] * nh
    inter = [[] for _ in range(nh)]
    live = [h for h in range(nh)]
    while live:
        h = r.choice(live)
        inter[h].append(b.op(hists[h][pos[h]].format(h=h)))
        pos[h] += 1
        if pos[h] == len(hists[h]):
            live.remove(h)
    for h in range(nh):
        for i, j in zip(iso[h], inter[h]):
            b.eq(i, j, f"history {h}: output differs between isolated and interleaved execution")
    return b


SHARED_KEYS = [(1, 2, 3, 4), (0, 0, 0, 0), TEST_KEY, (0xdbe6d5d5fe4cce2f ^ 0xFFFFFFF0, M64, 0x8000000000000000, 0x00000000FFFFFFFF)]


def shared_builders(r, info):
    """the process-wide builders of the native runner (shared by all its threads): hash_one and build_hasher
    on a SHARED builder must behave like a private one with the same key"""
    b = B("shared-builders", ["buildhasher-shared"])
    for _ in range(r.randrange(2, 7)):
        slot = r.randrange(4)
        k = SHARED_KEYS[slot]
        if r.random() < 0.6:
            tok, ws = rval(r, info)
            i = b.op(f"shone {slot} {tok}")
            j = b.op(f"hash portable 64 {kstr(k)} {hexbytes(b''.join(ws))}")
            b.eq(i, j, "hash_one on a shared builder is not the portable hash of (key, bytes fed)")
        else:
            h = r.randrange(8)
            data = rbytes(r, r.choice((0, 3, 31, 32, 33, 70)))
            b.op(f"shbh {h} {slot}")
            b.op(f"hwrite {h} {hexbytes(data)}")
            f = b.op(f"finish {h}")
            j = b.op(f"hash portable 64 {kstr(k)} {hexbytes(data)}")
            b.eq(f, j, "a hasher handed out by a shared builder differs from the portable hash under the builder's key")
    return b


def shared_stress(r):
    """thread-stage only (sequential vs 16 threads): many hash_one calls on the shared builders"""
    b = B("shared-stress", ["buildhasher-shared-stress"])
    for _ in range(3):
        b.op(f"shstress {r.randrange(4)} {r.choice((20000, 50000))} {r.getrandbits(60):x}")
    return b


def builders(r, n=None):
    """hashers handed out by `HighwayBuildHasher`: several builders with different keys used in turn
    (same stack slot in the runner), several hashers per builder, interleaved use; each must behave
    exactly like `HighwayHasher::new(key)` and independently of the others"""
    b = B("builders", ["buildhasher"])
    n = n or r.randrange(2, 6)
    keys = [rkey(r) for _ in range(r.randrange(1, 4))]
    plan = []
    for h in range(n):
        k = r.choice(keys)
        data = rbytes(r, r.choice((0, 1, 8, 12, 31, 32, 33, 64, 70)))
        plan.append((h, k, data))
        if r.random() < 0.15:
            b.op(f"bhd {h}")
            plan[-1] = (h, (0, 0, 0, 0), data)
        else:
            b.op(f"bh {h} {kstr(k)}")
        if r.random() < 0.5:
            b.op(f"hwrite {h} {hexbytes(data[:len(data) // 2])}")
            plan[-1] = plan[-1] + (len(data) // 2,)
        else:
            plan[-1] = plan[-1] + (0,)
    order = list(range(n))
    r.shuffle(order)
    for h in order:
        _, k, data, done = plan[h]
        b.op(f"hwrite {h} {hexbytes(data[done:])}")
        t = b.op(f"debug {h}")
        f = b.op(f"finish {h}")
        j = b.op(f"hash auto 64 {kstr(k)} {hexbytes(data)}")
        b.eq(f, j, "a hasher handed out by HighwayBuildHasher differs from HighwayHasher::new(key) on the same bytes")
    return b


INTRINS = [  # (name, immediates, number of 128-bit operands, operand kinds)
    ("add_epi64", [0], 2, "vv"), ("sub_epi64", [0], 2, "vv"), ("sub_epi32", [0], 2, "vv"), ("mul_epu32", [0], 2, "vv"),
    ("andnot_si128", [0], 2, "vv"), ("shuffle_epi8", [0], 2, "vm"), ("shuffle_epi32", [177, 27], 1, "v"),
    ("srli_epi64", [1, 32, 62, 63, 64], 1, "v"), ("slli_epi64", [1, 63, 64], 1, "v"), ("slli_si128", [0, 8, 15, 16], 1, "v"),
    ("insert_epi32", [0, 1, 2, 3], 2, "vs"), ("sll_epi32", [0], 2, "vc"), ("srl_epi32", [0], 2, "vc"),
    ("sllv_epi32", [0], 2, "vC"), ("srlv_epi32", [0], 2, "vC"), ("cmpgt_epi32", [0], 2, "vv"), ("cmpeq_epi64", [0], 2, "ve"),
    ("unpacklo_epi64", [0], 2, "vv"), ("cvtsi64_si128", [0], 1, "s"), ("cvtsi32_si128", [0], 1, "s"), ("set1_epi32", [0], 1, "s"),
    ("maskload_epi32", [0], 2, "vM"), ("loadl_epi64", [0], 1, "v"), ("broadcastd_epi32", [0], 1, "v"),
    ("permutevar8x32_epi32", [0], 4, "vvpp"), ("slli256_si256", [8], 2, "vv"), ("shuffle256_epi8", [0], 4, "vvmm"),
    ("inserti128_si256", [0, 1], 3, "vvv"),
]


def v128(r):
    return (edge64(r) << 64) | edge64(r)


def intrin_cases(r, reps=6):
    """single-intrinsic conformance: modelled semantics vs the real instruction, incl. the regimes the
    crate does not use (shift counts >= 32, shuffle indices with the high bit, all 16 maskload masks)"""
    b = B("intrin", ["intrin"])
    for name, imms, nops, kinds in INTRINS:
        for imm in imms:
            for rep in range(reps):
                ops = []
                for k in kinds:
                    if k == "v":
                        ops.append(v128(r))
                    elif k == "e":      # equal to the previous operand half of the time
                        ops.append(ops[-1] if r.random() < 0.5 else (ops[-1] & ((1 << 64) - 1)) | (r.getrandbits(64) << 64))
                    elif k == "m":      # shuffle control bytes incl. high-bit and >15 indices
                        ops.append(int.from_bytes(bytes(r.choice((r.randrange(16), 0x80 | r.randrange(128), r.randrange(16, 128))) for _ in range(16)), "little"))
                    elif k == "s":      # scalar in the low bits
                        ops.append(r.choice((0, 1, 0x7FFFFFFF, 0x80000000, 0xFFFFFFFF, r.getrandbits(32), r.getrandbits(64))))
                    elif k == "c":      # shift count register: low 64 bits matter
                        ops.append(r.choice((0, 1, 5, 31, 32, 33, 64, 1 << 32, (1 << 64) - 1, r.randrange(40))) | (r.getrandbits(64) << 64))
                    elif k == "C":      # per-lane counts
                        ops.append(sum(r.choice((0, 1, 31, 32, 33, 255, 0x80000000, 0xFFFFFFFF, r.randrange(40))) << (32 * i) for i in range(4)))
                    elif k == "M":      # maskload masks: all sign-bit patterns
                        m = (rep * 5 + imm) % 16 if rep < 16 else r.randrange(16)
                        ops.append(sum(((0x80000000 if (m >> i) & 1 else 0) | r.getrandbits(31)) << (32 * i) for i in range(4)))
                    elif k == "p":      # permute indices (only low 3 bits count)
                        ops.append(sum(r.getrandbits(32) << (32 * i) for i in range(4)))
                b.op(f"intrin {name} {imm} " + " ".join(f"{o:032x}" for o in ops))
    return b


WASM_INTRINS = [
    ("wadd", [0], "vv"), ("wsub", [0], "vv"), ("wmul", [0], "vv"), ("wand", [0], "vv"), ("wor", [0], "vv"), ("wxor", [0], "vv"),
    ("wandnot", [0], "vv"), ("wshr64", [0, 1, 32, 62, 63, 64, 65, 127, 4294967295], "v"), ("wshl64", [0, 1, 63, 64, 65, 4294967295], "v"),
    ("wshr32", [0, 1, 5, 31, 32, 33, 4294967295], "v"), ("wshl32", [0, 1, 5, 31, 32, 33, 4294967295], "v"),
    ("wrepl", [0, 1, 2, 3], "vs"), ("wzip", [0], "vv"), ("wrot", [0], "vv"), ("wsh12", [0], "vv"), ("wext", [0, 1], "v"),
    ("wmk64", [0], "ss"), ("wmk32", [0], "ssss"),
]


NEON_INTRINS = [
    ("nadd", [0], "vv"), ("nsub", [0], "vv"), ("nand", [0], "vv"), ("norr", [0], "vv"), ("neor", [0], "vv"), ("nbic", [0], "vv"),
    ("nmovn", [0], "v"), ("nshrn", [1, 16, 31, 32], "v"), ("nmull", [0], "vv"), ("nshrq", [1, 32, 62, 63, 64], "v"), ("nrev", [0], "v"),
    ("nsetl", [0, 1, 2, 3], "sv"), ("ntbl", [0], "vm"), ("next", [0, 1, 8, 15], "vv"), ("nshl", [0], "vC"),
    ("ndup64", [0], "s"), ("ndup32", [0], "s"), ("ndup8", [0], "s"), ("nld64", [0], "ss"), ("nld8", [0], "v"),
]


def neon_intrin_cases(r, reps=3):
    """single-intrinsic conformance of HH/Intrin/Neon.lean on the aarch64 Miri runner, incl. table indices >= 16 and USHL
    counts in every regime (positive, >= 32, negative = right shift, <= -32)"""
    b = B("nintrin", ["intrin", "neon"])
    for name, imms, kinds in NEON_INTRINS:
        for imm in imms:
            for rep in range(reps):
                ops = []
                for k in kinds:
                    if k == "v":
                        ops.append(v128(r))
                    elif k == "m":
                        ops.append(int.from_bytes(bytes(r.choice((r.randrange(16), 0x80 | r.randrange(128), r.randrange(16, 128))) for _ in range(16)), "little"))
                    elif k == "C":
                        ops.append(sum((r.choice((0, 1, 5, 31, 32, 33, 127, 128, 0xE0, 0xE1, 0xFB, 0xFF, r.randrange(256))) | (r.getrandbits(24) << 8)) << (32 * i) for i in range(4)))
                    else:
                        ops.append(r.choice((0, 1, 0x7FFFFFFF, 0x80000000, 0xFFFFFFFF, r.getrandbits(32), r.getrandbits(64))))
                b.op(f"intrin {name} {imm} " + " ".join(f"{o:032x}" for o in ops))
    return b


def wasm_intrin_cases(r, reps=4, swizzle=False):
    """single-intrinsic conformance of HH/Intrin/Wasm.lean on the wasm runners, incl. shift counts >= the lane width
    (taken modulo the width by the instruction) and, on the real engine, swizzle indices >= 16"""
    b = B("wintrin", ["intrin", "wasm"])
    tab = WASM_INTRINS + ([("wswz", [0], "vm")] if swizzle else [])
    for name, imms, kinds in tab:
        for imm in imms:
            for rep in range(reps):
                ops = []
                for k in kinds:
                    if k == "v":
                        ops.append(v128(r))
                    elif k == "m":
                        ops.append(int.from_bytes(bytes(r.choice((r.randrange(16), 0x80 | r.randrange(128), r.randrange(16, 128))) for _ in range(16)), "little"))
                    else:
                        ops.append(r.choice((0, 1, 0x7FFFFFFF, 0x80000000, 0xFFFFFFFF, r.getrandbits(32), r.getrandbits(64))))
                b.op(f"intrin {name} {imm} " + " ".join(f"{o:032x}" for o in ops))
    return b


def adapters(r, sels, force=False, std=True):
    """Hasher::finish repeatable/interleavable, io::Write::write consumes everything, flush is a no-op"""
    sel = r.choice(sels)
    key = rkey(r)
    nw = "fnew" if force else "new"
    b = B("adapters", [sel])
    b.op(f"{nw} 0 {sel} {kstr(key)}")
    acc = b""
    for _ in range(r.randrange(1, 6)):
        d = rbytes(r, r.choice((0, 1, 2, 8, 31, 32, 33, 64, 65, 200)))
        e = r.choice(("hwrite", "iowrite", "writeall", "iocopy") if std else ("hwrite", "append"))
        b.tags.append(e)
        i = b.op(f"{e} 0 {hexbytes(d)}")
        if e in ("iowrite", "iocopy"):
            b.expect(i, f"n={len(d)}", "io::Write::write did not consume/report the whole buffer")
        acc += d
        if r.random() < 0.5:
            b.op("flush 0")
        f0 = b.op("finish 0")
        f1 = b.op("finish 0")
        b.eq(f0, f1, "Hasher::finish is not repeatable")
        j = b.op(f"{'fhash' if force else 'hash'} {sel} 64 {kstr(key)} {hexbytes(acc)}")
        b.eq(f0, j, "finish() is not the 64-bit hash of the bytes written so far")
    return b


# ------------------------------------------------------------------------------------------------
# provided trait methods: Hash impls of std value types through Hasher::write_*, hash_one,
# io::Write::write_vectored / write_fmt  (model: HH/StdTraits.lean)

INT_KINDS = [("u8", 1), ("u16", 2), ("u32", 4), ("u64", 8), ("u128", 16), ("usize", 0),
             ("i8", 1), ("i16", 2), ("i32", 4), ("i64", 8), ("i128", 16), ("isize", 0)]


def _ne(n, v, info):
    b = (v % (1 << (8 * n))).to_bytes(n, "little")
    return b[::-1] if info.get("endian") == "big" else b


def _ptr(info):
    return int(info.get("ptr", "64") or 64) // 8


def _rint(r, nbytes):
    bits = 8 * nbytes
    return r.choice((0, 1, (1 << bits) - 1, 1 << (bits - 1), (1 << (bits - 1)) - 1, r.getrandbits(bits), r.getrandbits(bits), 0xFF, 0x0102030405060708090A0B0C0D0E0F10 % (1 << bits)))


def _rstr(r, n=None):
    n = r.choice((0, 1, 2, 5, 13, 31, 32, 33, 64, 100, 128, 129, 200)) if n is None else n
    alphabet = "abcxyz0189 _-/é中\U0001F600"
    s = "".join(r.choice(alphabet) for _ in range(n))
    return s.encode("utf-8")


def rval(r, info):
    """a random value token of the protocol and the list of `Hasher::write` calls its Hash impl must make"""
    p = _ptr(info)
    k = r.randrange(12)
    if k <= 3:
        name, n = r.choice(INT_KINDS)
        n = n or p
        v = _rint(r, n)
        return f"{name}:{v:x}", [_ne(n, v, info)]
    if k == 4:
        v = r.random() < 0.5
        return f"bool:{int(v)}", [bytes([int(v)])]
    if k == 5:
        c = r.choice((0x41, 0x7F, 0x80, 0xE9, 0x4E2D, 0x1F600, 0x10FFFF, 0))
        return f"char:{c:x}", [_ne(4, c, info)]
    if k == 6:
        if r.random() < 0.3:
            return "unit", []
        d = rbytes(r, r.choice((0, 1, 7, 8, 31, 32, 33, 64, 127, 128, 200)))
        return f"bytes:{hexbytes(d)}", [_ne(p, len(d), info), d]
    if k == 7:
        s = _rstr(r)
        return f"str:{hexbytes(s)}", [s, b"\xff"]
    if k == 8:
        xs = [r.getrandbits(32) for _ in range(r.choice((0, 1, 2, 7, 8, 9, 33)))]
        wire = b"".join(x.to_bytes(4, "little") for x in xs)
        return f"u32s:{hexbytes(wire)}", [_ne(p, len(xs), info), b"".join(_ne(4, x, info) for x in xs)]
    if k == 9:
        a, c = _rstr(r, r.randrange(0, 40)), _rstr(r, r.randrange(0, 40))
        return f"pss:{hexbytes(a)}:{hexbytes(c)}", [a, b"\xff", c, b"\xff"]
    if k == 10:
        name, n = r.choice(INT_KINDS)
        n = n or p
        v = _rint(r, n)
        d = rbytes(r, r.choice((0, 3, 31, 32, 40, 130)))
        return f"pib:{name}:{v:x}:{hexbytes(d)}", [_ne(n, v, info), _ne(p, len(d), info), d]
    if r.random() < 0.5:
        if r.random() < 0.3:
            return "ou64:none", [_ne(p, 0, info)]
        v = _rint(r, 8)
        return f"ou64:{v:x}", [_ne(p, 1, info), _ne(8, v, info)]
    if r.random() < 0.3:
        return "obytes:none", [_ne(p, 0, info)]
    d = rbytes(r, r.choice((1, 5, 32, 65)))      # the protocol writes an empty byte string as "-", never as "none"
    return f"obytes:{hexbytes(d)}", [_ne(p, 1, info), _ne(p, len(d), info), d]


def writes_str(ws):
    return "|".join(hexbytes(w) for w in ws) if ws else "nowrites"


def provided(r, sels, info, force=False, std=True):
    """the parts of the std traits the crate does NOT define itself (so a maintainer may override them):
    Hasher::write_u8..write_usize / write_str / length prefixes reached through `value.hash(&mut h)`,
    BuildHasher::hash_one, io::Write::write_vectored, io::Write::write_fmt"""
    mode = r.randrange(4 if std else 2)
    key = rkey(r)
    hs = "fhash" if force else "hash"
    if mode == 0:
        b = B("provided-hashone", ["hash_one"])
        for _ in range(r.randrange(1, 5)):
            tok, ws = rval(r, info)
            b.tags.append("val=" + tok.split(":")[0])
            i = b.op(f"hashrec {tok}")
            b.expect(i, writes_str(ws), "HARNESS/TOOLCHAIN: core's Hash impl makes other write calls than HH/StdTraits.lean assumes")
            f = b.op(f"hashone {kstr(key)} {tok}")
            j = b.op(f"hash auto 64 {kstr(key)} {hexbytes(b''.join(ws))}")
            b.eq(f, j, "BuildHasher::hash_one(value) is not the 64-bit hash of the bytes the value's Hash impl feeds")
            p = b.op(f"hash portable 64 {kstr(key)} {hexbytes(b''.join(ws))}")
            b.eq(f, p, "hash_one differs from the portable hash of the same bytes")
        return b
    sel = r.choice([s for s in sels if s not in NO_TRAITS] or ["portable"])
    nw = "fnew" if force else "new"
    if mode == 1:
        b = B("provided-hwval", [sel, "value.hash"])
        b.op(f"{nw} 0 {sel} {kstr(key)}")
        acc = rbytes(r, r.randrange(0, 40))
        b.op(f"hwrite 0 {hexbytes(acc)}")
        for _ in range(r.randrange(1, 6)):
            tok, ws = rval(r, info)
            b.tags.append("val=" + tok.split(":")[0])
            b.op(f"hwval 0 {tok}")
            acc += b"".join(ws)
            if r.random() < 0.5:
                f = b.op("finish 0")
                j = b.op(f"{hs} {sel} 64 {kstr(key)} {hexbytes(acc)}")
                b.eq(f, j, "finish() after value.hash(&mut hasher) is not the hash of the bytes the provided write_* methods must feed")
        f = b.op("finish 0")
        j = b.op(f"{hs} portable 64 {kstr(key)} {hexbytes(acc)}")
        b.eq(f, j, "finish() after value.hash(&mut hasher) is not the portable hash of the bytes fed")
        c0 = b.op("ckpt 0")
        b.op(f"new 1 portable {kstr(key)}")
        b.op(f"append 1 {hexbytes(acc)}")
        c1 = b.op("ckpt 1")
        b.eq(c0, c1, "state after value.hash(&mut hasher) differs from appending the same bytes")
        return b
    lens = (0, 1, 2, 3, 7, 8, 16, 31, 32, 33, 64, 100, 127, 128, 129, 200, 300)
    if mode == 2:
        b = B("provided-writev", [sel, "write_vectored"])
        b.op(f"{nw} 0 {sel} {kstr(key)}")
        acc = rbytes(r, r.randrange(0, 40))
        b.op(f"iowrite 0 {hexbytes(acc)}")
        for _ in range(r.randrange(1, 4)):
            bufs = [rbytes(r, r.choice(lens)) for _ in range(r.randrange(1, 5))]
            b.tags.append(f"nbufs={len(bufs)}")
            i = b.op("iowritev 0 " + " ".join(hexbytes(x) for x in bufs))
            b.expect(i, "ok", "write_vectored did not consume the buffers")
            acc += b"".join(bufs)
    else:
        b = B("provided-writefmt", [sel, "write_fmt"])
        b.op(f"{nw} 0 {sel} {kstr(key)}")
        acc = rbytes(r, r.randrange(0, 40))
        b.op(f"iowrite 0 {hexbytes(acc)}")
        for _ in range(r.randrange(1, 4)):
            s = _rstr(r)
            i = b.op(f"writefmt 0 {hexbytes(s)}")
            b.expect(i, "ok", "write_fmt failed")
            acc += s
        # argument kinds beyond `&str`: chars (ASCII, Latin-1, BMP, astral), non-ASCII fill, integers, padded char
        for _ in range(r.randrange(1, 4)):
            alphabet = "ab09 ~\u0080\u00e9\u00df\u00b7\u00ff\u0100\u03a9\u20ac\U0001f600"
            t = "".join(r.choice(alphabet) for _ in range(r.randrange(0, 7)))
            mode = r.randrange(4)
            if mode == 0:
                exp = t
            elif mode == 1:
                exp = "\u00e9" * max(0, 8 - len(t)) + t
            elif mode == 2:
                exp = t + "\u00b7" * max(0, 5 - len(t)) + "|" + str(len(t)) + "|" + "   \u00df"
            else:
                exp = t if t else "\u00ff"
            b.tags.append(f"fmtmode={mode}")
            i = b.op(f"writefmtx 0 {mode} {hexbytes(t.encode())} {hexbytes(exp.encode())}")
            b.expect(i, "ok", "write_fmt failed")
            acc += exp.encode()
    f = b.op("finish 0")
    j = b.op(f"{hs} {sel} 64 {kstr(key)} {hexbytes(acc)}")
    b.eq(f, j, "finish() is not the hash of the bytes written through the provided io::Write method")
    c0 = b.op("ckpt 0")
    b.op(f"new 1 portable {kstr(key)}")
    b.op(f"append 1 {hexbytes(acc)}")
    c1 = b.op("ckpt 1")
    b.eq(c0, c1, "state after the provided io::Write method differs from appending the same bytes")
    return b
