import HH.Intrin.X86
import HH.Portable
import Mathlib.Tactic.IntervalCases
/-!
# Lane-level lemmas about the modelled x86 intrinsics (used by the SSE/AVX refinement proofs)

All proofs are bit-by-bit in the kernel (`ext` + `getElem` lemmas + `interval_cases`): no SAT solver,
no axioms beyond `propext`, `Classical.choice`, `Quot.sound`.
-/
namespace HH

/-- closed bit-vector identities (shuffles, extractions, shifts by literals): compare bit `i` of both sides
for each of the `w` positions -/
macro "bv_bits" : tactic => `(tactic| (
  ext i hi
  simp only [BitVec.getElem_append, BitVec.getElem_extractLsb', BitVec.getLsbD_extractLsb', BitVec.getElem_rotateLeft,
    BitVec.getElem_setWidth, BitVec.getLsbD_ushiftRight, BitVec.getLsbD_append, BitVec.getLsbD_rotateLeft, BitVec.getLsbD_setWidth,
    BitVec.getElem_or, BitVec.getElem_and, BitVec.getElem_xor, BitVec.getElem_ushiftRight, BitVec.getElem_shiftLeft,
    BitVec.getLsbD_or, BitVec.getLsbD_and, BitVec.getLsbD_xor, BitVec.getLsbD_shiftLeft, BitVec.getLsbD_ofNat,
    BitVec.getElem_not, BitVec.getLsbD_not, BitVec.getElem_zero, BitVec.getLsbD_zero]
  interval_cases i <;> simp [Nat.testBit, Nat.shiftRight_eq_div_pow]))

namespace X86

@[simp] theorem lo64_mk (h l : BitVec 64) : lo64 (mk h l) = l := by
  unfold lo64 mk; exact BitVec.setWidth_append_eq_right
@[simp] theorem hi64_mk (h l : BitVec 64) : hi64 (mk h l) = h := by
  unfold hi64 mk
  ext i hi
  simp only [BitVec.getElem_setWidth, BitVec.getLsbD_ushiftRight, BitVec.getLsbD_append]
  have : ¬ (64 + i < 64) := by omega
  simp [this, BitVec.getLsbD_eq_getElem hi]
theorem mk_lo_hi (r : BitVec 128) : mk (hi64 r) (lo64 r) = r := by
  unfold lo64 hi64 mk
  ext i hi
  simp only [BitVec.getElem_append, BitVec.getElem_setWidth, BitVec.getLsbD_ushiftRight]
  by_cases h : i < 64
  · simp [h, BitVec.getLsbD_eq_getElem hi]
  · have : 64 + (i - 64) = i := by omega
    simp [h, this, BitVec.getLsbD_eq_getElem hi]
theorem ext128 (a b : BitVec 128) (h1 : lo64 a = lo64 b) (h2 : hi64 a = hi64 b) : a = b := by
  rw [← mk_lo_hi a, ← mk_lo_hi b, h1, h2]

@[simp] theorem lo64_xor (a b : BitVec 128) : lo64 (xor_si128 a b) = lo64 a ^^^ lo64 b := by
  unfold lo64 xor_si128; ext i hi; simp
@[simp] theorem hi64_xor (a b : BitVec 128) : hi64 (xor_si128 a b) = hi64 a ^^^ hi64 b := by
  unfold hi64 xor_si128; ext i hi; simp
@[simp] theorem lo64_or (a b : BitVec 128) : lo64 (or_si128 a b) = lo64 a ||| lo64 b := by
  unfold lo64 or_si128; ext i hi; simp
@[simp] theorem hi64_or (a b : BitVec 128) : hi64 (or_si128 a b) = hi64 a ||| hi64 b := by
  unfold hi64 or_si128; ext i hi; simp
@[simp] theorem lo64_add (a b : BitVec 128) : lo64 (add_epi64 a b) = lo64 a + lo64 b := by simp [add_epi64]
@[simp] theorem hi64_add (a b : BitVec 128) : hi64 (add_epi64 a b) = hi64 a + hi64 b := by simp [add_epi64]
@[simp] theorem lo64_set (e1 e0 : BitVec 64) : lo64 (set_epi64x e1 e0) = e0 := by simp [set_epi64x]
@[simp] theorem hi64_set (e1 e0 : BitVec 64) : hi64 (set_epi64x e1 e0) = e1 := by simp [set_epi64x]

/-- the low 32 bits of a lane, zero-extended = mask -/
theorem low32_eq_mask (a : BitVec 64) : (a.setWidth 32).setWidth 64 = a &&& 0xffffffff#64 := by bv_bits

set_option maxRecDepth 20000 in
/-- `rotate_by_32`: swap the 32-bit halves of each 64-bit lane -/
theorem shuffle_epi32_rot (v : BitVec 128) :
    shuffle_epi32 v 177 = mk ((hi64 v).rotateLeft 32) ((lo64 v).rotateLeft 32) := by
  unfold shuffle_epi32 lane32 mk32 mk lo64 hi64
  bv_bits

theorem rot32_low (b : BitVec 64) : (b.rotateLeft 32) &&& 0xffffffff#64 = b >>> 32 := by bv_bits
theorem shr32_low (b : BitVec 64) : (b >>> 32) &&& 0xffffffff#64 = b >>> 32 := by bv_bits

/-- `_mm_mul_epu32(a, rotate_by_32(b))` and `_mm_mul_epu32(a, b >> 32)` are both the portable
`(a & 0xffffffff) * (b >> 32)` on each 64-bit lane -/
theorem mul_epu32_rot (a b : BitVec 128) :
    mul_epu32 a (shuffle_epi32 b 177) = mk (P.mul32 (hi64 a) (hi64 b)) (P.mul32 (lo64 a) (lo64 b)) := by
  rw [shuffle_epi32_rot]
  simp only [mul_epu32, P.mul32, lo64_mk, hi64_mk, low32_eq_mask, rot32_low]

theorem mul_epu32_srli (a b : BitVec 128) :
    mul_epu32 a (srli_epi64 b 32) = mk (P.mul32 (hi64 a) (hi64 b)) (P.mul32 (lo64 a) (lo64 b)) := by
  have : srli_epi64 b 32 = mk (hi64 b >>> 32) (lo64 b >>> 32) := by simp [srli_epi64]
  rw [this]
  simp only [mul_epu32, P.mul32, lo64_mk, hi64_mk, low32_eq_mask, shr32_low]

set_option maxRecDepth 100000 in
set_option maxHeartbeats 2000000 in
/-- `pshufb` with the zipper-merge control = the portable mask-and-shift formulas -/
theorem zipper_shuffle (v : BitVec 128) :
    shuffle_epi8 v (set_epi64x 0x070806090D0A040B#64 0x000F010E05020C03#64)
      = mk (P.zipHi (hi64 v) (lo64 v)) (P.zipLo (hi64 v) (lo64 v)) := by
  simp only [shuffle_epi8, pshufbByte, byteAt, set_epi64x, mk, BitVec.reduceAppend, BitVec.reduceExtractLsb', BitVec.reduceGetLsb,
    BitVec.reduceToNat, Nat.reduceMod, Nat.reduceMul, Bool.false_eq_true, ↓reduceIte]
  unfold P.zipHi P.zipLo lo64 hi64
  bv_bits

end X86
end HH
