import HH.Portable
import HH.Spec
import HH.Proofs.Buffer
import Mathlib.Tactic.IntervalCases
/-!
# The portable model computes the HighwayHash specification (helper lemmas for C01)
-/
namespace HH
namespace P

/-! ### update -/

set_option maxRecDepth 8000 in
theorem zipLo_eq (lo hi : BitVec 64) : (Spec.zipper lo hi).1 = zipLo hi lo := by
  simp only [Spec.zipper, Spec.zipTbl, Spec.byteOf, List.map_cons, List.map_nil, List.take, List.drop, le64,
    List.getD_cons_zero, List.getD_cons_succ, zipLo]
  ext i hi'
  simp only [BitVec.getElem_append, BitVec.getElem_or, BitVec.getElem_and, BitVec.getElem_ushiftRight, BitVec.getElem_shiftLeft,
    BitVec.getLsbD_or, BitVec.getLsbD_and, BitVec.getLsbD_extractLsb', BitVec.getElem_extractLsb', BitVec.getLsbD_ofNat]
  interval_cases i <;> simp [Nat.testBit, Nat.shiftRight_eq_div_pow]

set_option maxRecDepth 8000 in
theorem zipHi_eq (lo hi : BitVec 64) : (Spec.zipper lo hi).2 = zipHi hi lo := by
  simp only [Spec.zipper, Spec.zipTbl, Spec.byteOf, List.map_cons, List.map_nil, List.take, List.drop, le64,
    List.getD_cons_zero, List.getD_cons_succ, zipHi]
  ext i hi'
  simp only [BitVec.getElem_append, BitVec.getElem_or, BitVec.getElem_and, BitVec.getElem_ushiftRight, BitVec.getElem_shiftLeft,
    BitVec.getLsbD_or, BitVec.getLsbD_and, BitVec.getLsbD_extractLsb', BitVec.getElem_extractLsb', BitVec.getLsbD_ofNat]
  interval_cases i <;> simp [Nat.testBit, Nat.shiftRight_eq_div_pow]

/-- the mask-and-shift formulas of `zipper_merge_and_add` are the byte permutation of the spec
(kernel-checked bit by bit; no SAT solver involved) -/
theorem zipper_eq (lo hi : BitVec 64) : Spec.zipper lo hi = (zipLo hi lo, zipHi hi lo) :=
  Prod.ext (zipLo_eq lo hi) (zipHi_eq lo hi)

theorem mask32_eq (a : BitVec 64) : (a.setWidth 32).setWidth 64 = a &&& 0xffffffff#64 := by
  apply BitVec.eq_of_toNat_eq
  simp only [BitVec.toNat_setWidth, BitVec.toNat_and, BitVec.toNat_ofNat]
  have h : (4294967295 : Nat) % 2 ^ 64 = 2 ^ 32 - 1 := by decide
  rw [h, Nat.and_two_pow_sub_one_eq_mod]
  have : a.toNat % 2 ^ 32 < 2 ^ 64 := Nat.lt_of_lt_of_le (Nat.mod_lt _ (by decide)) (by decide)
  exact Nat.mod_eq_of_lt this

theorem mul32_eq (a b : BitVec 64) : Spec.mul32 a b = mul32 a b := by
  unfold Spec.mul32 mul32; rw [mask32_eq]

theorem zipperAdd_eq (d s : V4) : zipperAdd d s = V4.add d (Spec.zipperV s) := by
  simp [zipperAdd, Spec.zipperV, zipper_eq, V4.add, V4.zipWith]

theorem update_eq_spec (s : St) (l : V4) : update s l = Spec.update s l := by
  have hm : Spec.mul32 = mul32 := by funext a b; exact mul32_eq a b
  simp only [update, Spec.update, zipperAdd_eq, hm]
  have : V4.add (V4.add s.v1 l) s.mul0 = V4.add (V4.add s.v1 s.mul0) l := by
    simp only [V4.add, V4.zipWith, V4.mk.injEq]
    refine ⟨?_, ?_, ?_, ?_⟩ <;> ac_rfl
  rw [this]

end P
end HH

namespace HH
namespace P

/-! ### packets and lanes -/

theorem le64_take (l : List (BitVec 8)) (n : Nat) (h : 8 ≤ n) : le64 (l.take n) = le64 l := by
  simp only [le64, List.getD_eq_getElem?_getD, List.getElem?_take]
  have h0 : (0:Nat) < n := by omega
  have h1 : (1:Nat) < n := by omega
  have h2 : (2:Nat) < n := by omega
  have h3 : (3:Nat) < n := by omega
  have h4 : (4:Nat) < n := by omega
  have h5 : (5:Nat) < n := by omega
  have h6 : (6:Nat) < n := by omega
  have h7 : (7:Nat) < n := by omega
  simp [h0, h1, h2, h3, h4, h5, h6, h7]

theorem dataToLanes_eq_spec (d : List (BitVec 8)) : dataToLanes d = Spec.lanesOf d := by
  simp only [dataToLanes, Spec.lanesOf, le64_take _ 8 (Nat.le_refl 8)]

/-! ### remainder packing: slice code = declarative packing, every length 0..31 -/

set_option maxRecDepth 100000 in
set_option maxHeartbeats 4000000 in
theorem remainder_eq_fn (n : Nat) (h : n < 32) (f : Fin n → BitVec 8) :
    remainder (List.ofFn f) = Spec.remPacket (List.ofFn f) := by
  interval_cases n <;>
    simp [remainder, Spec.remPacket, zeros, List.ofFn_succ, List.range_succ, List.replicate, List.set, List.getD, List.zipWith]

theorem remainder_eq_spec (bytes : List (BitVec 8)) (h : bytes.length < 32) :
    remainder bytes = Spec.remPacket bytes := by
  have := remainder_eq_fn bytes.length h (fun i => bytes[i])
  simpa using this

/-! ### length injection and 32-bit rotation -/

theorem shr32_zero (y : BitVec 32) : y >>> 32 = 0 := by
  apply BitVec.eq_of_toNat_eq
  simp only [BitVec.toNat_ushiftRight, Nat.shiftRight_eq_div_pow, BitVec.toNat_zero]
  exact Nat.div_eq_of_lt y.isLt

theorem rotateLeft32_zero (y : BitVec 32) : y.rotateLeft 0 = y := by
  rw [BitVec.rotateLeft_def]; simp [shr32_zero]

theorem rot32Lane_eq_spec (n : Nat) (h : n < 32) (x : BitVec 64) : rot32Lane n x = Spec.rot32by n x := by
  unfold rot32Lane Spec.rot32by
  have hcl : n % 32 = n := Nat.mod_eq_of_lt h
  have hcr : ((2 ^ 64 + 32 - n) % 2 ^ 64) % 32 = (32 - n) % 32 := by
    have : (2 ^ 64 + 32 - n) = 2 ^ 64 + (32 - n) := by omega
    rw [this, Nat.add_mod_left, Nat.mod_eq_of_lt (a := 32 - n) (by omega)]
  simp only [hcl, hcr]
  by_cases h0 : n = 0
  · subst h0
    simp only [rotateLeft32_zero, Nat.sub_zero, Nat.mod_self, BitVec.shiftLeft_zero, BitVec.ushiftRight_zero, BitVec.or_self]
    exact BitVec.or_comm _ _
  · have : (32 - n) % 32 = 32 - n := Nat.mod_eq_of_lt (by omega)
    rw [this]
    simp only [BitVec.rotateLeft_def, hcl]
    exact BitVec.or_comm _ _

theorem updateLanes_eq (s : St) (n : Nat) (h : n < 32) :
    updateLanes s n = { s with v0 := s.v0.map (· + ((BitVec.ofNat 64 n <<< 32) + BitVec.ofNat 64 n)), v1 := s.v1.map (Spec.rot32by n) } := by
  have : rot32Lane n = Spec.rot32by n := by funext x; exact rot32Lane_eq_spec n h x
  simp only [updateLanes, this]

/-! ### finalisation -/

theorem permute_eq_spec (v : V4) : permute v = Spec.permute v := rfl

theorem rounds_eq_spec (n : Nat) (s : St) : rounds n s = Spec.rounds n s := by
  induction n generalizing s with
  | zero => rfl
  | succ n ih => simp only [rounds, Spec.rounds, permuteAndUpdate, update_eq_spec, permute_eq_spec, ih]

set_option maxRecDepth 20000 in
theorem modred_lo (a3 a2 a1 a0 : BitVec 64) : (moduleReduction a3 a2 a1 a0).1 = (Spec.modred a3 a2 a1 a0).1 := by
  simp only [moduleReduction, Spec.modred]
  ext i hi
  simp only [BitVec.getElem_xor, BitVec.getElem_shiftLeft, BitVec.getElem_setWidth, BitVec.getLsbD_xor, BitVec.getLsbD_shiftLeft,
    BitVec.getLsbD_and, BitVec.getLsbD_append, BitVec.getLsbD_ofNat]
  interval_cases i <;> simp [Nat.testBit, Nat.shiftRight_eq_div_pow]

set_option maxRecDepth 20000 in
theorem modred_hi (a3 a2 a1 a0 : BitVec 64) : (moduleReduction a3 a2 a1 a0).2 = (Spec.modred a3 a2 a1 a0).2 := by
  simp only [moduleReduction, Spec.modred]
  ext i hi
  simp only [BitVec.getElem_xor, BitVec.getElem_or, BitVec.getElem_and, BitVec.getElem_shiftLeft, BitVec.getElem_ushiftRight,
    BitVec.getElem_setWidth, BitVec.getLsbD_xor, BitVec.getLsbD_shiftLeft, BitVec.getLsbD_ushiftRight,
    BitVec.getLsbD_and, BitVec.getLsbD_append, BitVec.getLsbD_ofNat]
  interval_cases i <;> simp [Nat.testBit, Nat.shiftRight_eq_div_pow]

/-- the 64-bit shift/or formulas of `module_reduction` are the 128-bit polynomial formula of the spec -/
theorem moduleReduction_eq_spec (a3 a2 a1 a0 : BitVec 64) : moduleReduction a3 a2 a1 a0 = Spec.modred a3 a2 a1 a0 :=
  Prod.ext (modred_lo a3 a2 a1 a0) (modred_hi a3 a2 a1 a0)

end P
end HH

namespace HH
namespace P

/-! ### finalisation depends only on the abstract state (lanes, pending bytes) -/

/-- `finalizeCommon` as a function of lanes and pending bytes -/
def finAbs (n : Nat) (a : St × List (BitVec 8)) : St :=
  rounds n (if a.2.length ≠ 0 then update (updateLanes a.1 a.2.length) (dataToLanes (remainder a.2)) else a.1)

theorem finalizeCommon_abs (n : Nat) (x : State) (h : x.buffer.idx ≤ x.buffer.buf.length) :
    finalizeCommon n x = finAbs n (absP (x.st, x.buffer)) := by
  have hl : (List.take x.buffer.idx x.buffer.buf).length = x.buffer.idx := by simp; omega
  simp only [finalizeCommon, finAbs, absP, updateRemainder, Pkt.isEmpty, Pkt.len, Pkt.asSlice, hl]
  by_cases h0 : x.buffer.idx = 0 <;> simp [h0]

theorem finalize64_eq (x : State) : finalize64 x = out64 (finalizeCommon 4 x) := rfl
theorem finalize128_eq (x : State) : finalize128 x = out128 (finalizeCommon 6 x) := rfl
theorem finalize256_eq (x : State) : finalize256 x = out256 (finalizeCommon 10 x) := rfl

/-! ### one-shot packetisation -/

/-- spec-side packet step -/
def specUpd (s : St) (pkt : List (BitVec 8)) : St := Spec.update s (Spec.lanesOf pkt)

theorem updPacket_eq_spec : updPacket = specUpd := by
  funext s pkt; simp only [updPacket, specUpd, update_eq_spec, dataToLanes_eq_spec]

theorem absorbAll_succ (f : Nat) (s : St) (bs : List (BitVec 8)) :
    Spec.absorbAll (f + 1) s bs =
      if bs.length ≥ 32 then Spec.absorbAll f (Spec.update s (Spec.lanesOf (bs.take 32))) (bs.drop 32)
      else if bs.length = 0 then s else Spec.updateRemainder s bs := rfl

theorem absorbAll_eq (f : Nat) : ∀ (s : St) (d : List (BitVec 8)), d.length ≤ f →
    Spec.absorbAll (f + 1) s d =
      (if (absorb specUpd f s d).2.length = 0 then (absorb specUpd f s d).1
       else Spec.updateRemainder (absorb specUpd f s d).1 (absorb specUpd f s d).2) := by
  induction f with
  | zero =>
    intro s d h
    have : d = [] := by simpa using h
    subst this
    simp [Spec.absorbAll, absorb]
  | succ f ih =>
    intro s d h
    by_cases h32 : 32 ≤ d.length
    · have : d.length ≥ 32 := h32
      rw [absorbAll_succ]
      simp only [this, ↓reduceIte, absorb, h32]
      have := ih (Spec.update s (Spec.lanesOf (List.take 32 d))) (d.drop 32) (by simp; omega)
      simpa [specUpd] using this
    · have hn : ¬ d.length ≥ 32 := h32
      rw [absorbAll_succ]
      simp only [hn, ↓reduceIte, absorb, h32]

theorem finAbs_eq_spec (n : Nat) (s : St) (pend : List (BitVec 8)) (h : pend.length < 32) :
    finAbs n (s, pend) = Spec.rounds n (if pend.length = 0 then s else Spec.updateRemainder s pend) := by
  simp only [finAbs, rounds_eq_spec]
  by_cases h0 : pend.length = 0
  · simp [h0]
  · simp only [ne_eq, h0, not_false_eq_true, ↓reduceIte, Spec.updateRemainder, update_eq_spec, dataToLanes_eq_spec,
      remainder_eq_spec _ h, updateLanes_eq _ _ h]

theorem new_abs (k : V4) : absP ((new k).st, (new k).buffer) = (Spec.reset k, []) := by
  have hr : Spec.rot32 = fun x => x.rotateLeft 32 := rfl
  simp [absP, new, Spec.reset, Pkt.default, V4.xor, Spec.init0, Spec.init1, init0, init1, hr]

theorem new_inv (k : V4) : (new k).buffer.Inv := Pkt.default_inv

/-- the core of C01: after any append on a fresh hasher the finalisation prologue followed by
`n` rounds is the specification's `rounds n (process k data)` -/
theorem process_eq_spec (n : Nat) (k : V4) (d : List (BitVec 8)) :
    finalizeCommon n (append (new k) d) = Spec.rounds n (Spec.process k d) := by
  have hA := appendG_abs updPacket ((new k).st, (new k).buffer) d (new_inv k)
  have hinv := hA.2
  have habs := hA.1
  have hx : (append (new k) d).buffer.idx ≤ (append (new k) d).buffer.buf.length := by
    have := hinv; unfold Pkt.Inv at this; simp only [append]; omega
  rw [finalizeCommon_abs n _ hx]
  simp only [append] at habs ⊢
  rw [habs, new_abs]
  simp only [AbsAppend, List.length_nil, Nat.zero_add, List.nil_append, updPacket_eq_spec]
  have hlt := absorb_rem_lt specUpd d.length (Spec.reset k) d (Nat.le_refl _)
  have := finAbs_eq_spec n (absorb specUpd d.length (Spec.reset k) d).1 (absorb specUpd d.length (Spec.reset k) d).2 hlt
  rw [this, Spec.process, absorbAll_eq d.length _ _ (Nat.le_refl _)]

end P
end HH
