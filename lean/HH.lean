-- Root of the `HH` library: model files (core-only imports).
import HH.Basic
import HH.Packet
import HH.Portable
import HH.Spec
import HH.Hex
import HH.Intrin.X86
import HH.Sse
import HH.Avx
import HH.Dispatch
import HH.Machine
